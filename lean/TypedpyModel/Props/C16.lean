/-
  Props/C16.lean — generated `.pyi` stubs agree with the runtime constructor signatures.

  Model: Sem/Stub.lean (stub generator's field → parameter derivation; `StructMeta.__new__` /
  `make_signature` / `get_base_info` / `__setattr__` guard on the runtime side), over ALL class
  hierarchies `ClassInfo` (any number of bases, any depth — induction over the tree of bases in
  `Lemmas/Stub.lean: names_inv`), all field lists, all `_required` / `_optional` / defaults / constants /
  `_additional_properties` declarations, and both values of the additional-properties default.

  The pinned code violates the property in two regions (both reproduced on the real code by the
  `stub` suite and listed as known findings):
    * "required-optional-default": a *required* field of shape `AnyOf[X, None]` is rendered
      `Optional[X] = None`, i.e. with a default although the constructor requires it
      (`requiredOptional`);
    * "inherited-additional-properties": with `additional_properties_default = False`, a class that
      inherits `_additional_properties = True` without re-declaring it gets `**kw` in the stub while its
      `__signature__` (built from the class's *own* dict) has no `**kwargs` (`inheritedAddlOn`).
  Full statement: `C16_statement`; proved: the statement outside exactly these regions
  (`stub_params_agree_partial`), the exact characterisations (`stub_required_iff`, `stub_kw_iff`), that
  inside each region the statement fails (`*_disagree`, so the exclusions are tight) and kernel-checked
  concrete counterexamples.
-/
import TypedpyModel.Lemmas.Stub
import TypedpyModel.Lemmas.StubSort
namespace Typedpy.C16
open Typedpy.Stub

/-! ### the statement -/

/-- keyword names of a stub parameter list = names the runtime signature accepts (constants are in neither) -/
def NamesAgree (dflt : Bool) (c : ClassInfo) (ps : List Param) : Prop :=
  ∀ n, n ∈ ps.map (·.name) ↔ n ∈ (runtimeSig dflt c).params.map (·.name)

/-- a stub parameter has no default exactly for the runtime-required fields -/
def RequiredAgree (dflt : Bool) (c : ClassInfo) (ps : List Param) : Prop :=
  ∀ n, (⟨n, false⟩ : Param) ∈ ps ↔ runtimeRequired dflt c n = true

/-- `**kw` exactly when the class admits additional properties -/
def KwAgree (dflt : Bool) (c : ClassInfo) (kw : Bool) : Prop := kw = runtimeAdmitsExtra dflt c

/-- the generated `__init__` (stub generated with `additional_properties_default` = the runtime default) -/
def InitAgrees (dflt : Bool) (c : ClassInfo) : Prop :=
  NamesAgree dflt c (stubInit dflt dflt c).params ∧ RequiredAgree dflt c (stubInit dflt dflt c).params ∧
    KwAgree dflt c (stubInit dflt dflt c).kw

/-- `shallow_clone_with_overrides` / `from_other_class` / `from_trusted_data`: the fixed leading
    parameters, then the same field keywords, every one optional, `**kw` as for `__init__` -/
def HelperAgrees (dflt : Bool) (c : ClassInfo) (h : Helper) : Prop :=
  (∃ fields, (stubHelper dflt dflt h c).params = helperPrefix h ++ fields ∧
    NamesAgree dflt c fields ∧ (∀ p ∈ fields, p.hasDefault = true) ∧
    fields.map (·.name) = (stubInit dflt dflt c).params.map (·.name)) ∧
  KwAgree dflt c (stubHelper dflt dflt h c).kw

/-- C16 (model part), full strength -/
def C16_statement : Prop := ∀ (dflt : Bool) (c : ClassInfo), InitAgrees dflt c ∧ ∀ h, HelperAgrees dflt c h

/-! ### the two known-finding regions (decidable) -/

/-- some non-constant field that is in `cls._required` has the `AnyOf[X, None]` shape -/
def requiredOptional (dflt : Bool) (c : ClassInfo) : Bool :=
  (allFields c).any (fun f => !f.isConst && f.optShape && (clsRequired dflt c).contains f.name)

/-- default off, nothing declared by the class itself, `True` found further up the MRO -/
def inheritedAddlOn (dflt : Bool) (c : ClassInfo) : Bool :=
  !dflt && c.decl.addl.isNone && (addlLookup (mro c) == some true)

/-! ### names -/

/-- keyword names of the generated `__init__` are exactly the names the runtime signature accepts —
    for every hierarchy, unconditionally -/
theorem stub_names_agree (dflt apd : Bool) (c : ClassInfo) : NamesAgree dflt c (stubInit dflt apd c).params := by
  intro n
  show n ∈ (stubArgs dflt c).map (·.name) ↔ _
  rw [names_stubArgs, names_inv]

/-- no constant is a keyword of the stub `__init__`, and every non-constant field is -/
theorem stub_names_are_nonconstant_fields (dflt apd : Bool) (c : ClassInfo) (n : String) :
    n ∈ (stubInit dflt apd c).params.map (·.name) ↔ ∃ f, finalField c n = some f ∧ f.isConst = false :=
  names_stubArgs dflt c n

/-! ### default ⇔ not required -/

theorem annEndsNone_false (req : List String) (f : FieldInfo) :
    annEndsNone req f = false ↔ f.name ∈ req ∧ f.optShape = false := by
  unfold annEndsNone
  by_cases hr : f.name ∈ req <;> cases ho : f.optShape <;> simp [hr]

/-- exact characterisation: the stub parameter has no default iff the field is runtime-required AND is
    not of the `AnyOf[X, None]` shape -/
theorem stub_required_iff (dflt apd : Bool) (c : ClassInfo) (n : String) :
    (⟨n, false⟩ : Param) ∈ (stubInit dflt apd c).params ↔
      (runtimeRequired dflt c n = true ∧ ∃ f, finalField c n = some f ∧ f.optShape = false) := by
  show (⟨n, false⟩ : Param) ∈ stubArgs dflt c ↔ _
  rw [mem_stubArgs, runtimeRequired_iff]
  constructor
  · rintro ⟨f, h1, h2, h3⟩
    have hn : f.name = n := (lookupF_some h1).2
    obtain ⟨hr, ho⟩ := (annEndsNone_false _ f).mp h3.symm
    exact ⟨⟨⟨f, h1, h2⟩, hn ▸ hr⟩, f, h1, ho⟩
  · rintro ⟨⟨⟨f, h1, h2⟩, hr⟩, g, hg, ho⟩
    have hfg : f = g := by
      have : finalField c n = some f := h1
      rw [hg] at this; cases this; rfl
    subst hfg
    have hn : f.name = n := (lookupF_some h1).2
    exact ⟨f, h1, h2, ((annEndsNone_false _ f).mpr ⟨hn ▸ hr, ho⟩).symm⟩

theorem requiredOptional_iff (dflt : Bool) (c : ClassInfo) :
    requiredOptional dflt c = true ↔
      ∃ n f, finalField c n = some f ∧ f.isConst = false ∧ f.optShape = true ∧ n ∈ clsRequired dflt c := by
  unfold requiredOptional
  simp only [List.any_eq_true, Bool.and_eq_true, Bool.not_eq_true', List.contains_iff_mem]
  constructor
  · rintro ⟨f, hf, ⟨hc, ho⟩, hr⟩
    exact ⟨f.name, f, lookupF_of_mem (nodupN_allFields c) hf, hc, ho, hr⟩
  · rintro ⟨n, f, hl, hc, ho, hr⟩
    have := lookupF_some hl
    exact ⟨f, this.1, ⟨hc, ho⟩, this.2 ▸ hr⟩

/-- outside the region of finding "required-optional-default": no default ⇔ runtime-required -/
theorem stub_required_agree_partial (dflt apd : Bool) (c : ClassInfo) (hx : requiredOptional dflt c = false) :
    RequiredAgree dflt c (stubInit dflt apd c).params := by
  intro n
  rw [stub_required_iff]
  constructor
  · exact fun h => h.1
  · intro h
    refine ⟨h, ?_⟩
    obtain ⟨⟨f, h1, h2⟩, hr⟩ := (runtimeRequired_iff dflt c n).mp h
    refine ⟨f, h1, ?_⟩
    cases ho : f.optShape
    · rfl
    · have : requiredOptional dflt c = true := (requiredOptional_iff dflt c).mpr ⟨n, f, h1, h2, ho, hr⟩
      rw [hx] at this; cases this

/-- inside the region the claim is false: the exclusion is exactly the failure region -/
theorem stub_required_disagree (dflt apd : Bool) (c : ClassInfo) (hx : requiredOptional dflt c = true) :
    ¬ RequiredAgree dflt c (stubInit dflt apd c).params := by
  intro hagree
  obtain ⟨n, f, h1, h2, ho, hr⟩ := (requiredOptional_iff dflt c).mp hx
  have hreq : runtimeRequired dflt c n = true := (runtimeRequired_iff dflt c n).mpr ⟨⟨f, h1, h2⟩, hr⟩
  obtain ⟨_, g, hg, hgo⟩ := (stub_required_iff dflt apd c n).mp ((hagree n).mpr hreq)
  have : finalField c n = some f := h1
  rw [hg] at this; cases this
  rw [ho] at hgo; cases hgo

/-! ### `**kw` -/

/-- exact characterisation of the stub's `**kw` -/
theorem stub_kw_iff (dflt : Bool) (c : ClassInfo) :
    (stubInit dflt dflt c).kw = (runtimeAdmitsExtra dflt c || inheritedAddlOn dflt c) := by
  cases c with
  | mk d bases =>
    simp only [stubInit, stubKw, runtimeAdmitsExtra, setattrAllows, inheritedAddlOn, runtimeSig, sigOf,
      makeSignature, mro, addlLookup, ClassInfo.decl]
    cases hd : d.addl with
    | some b => cases b <;> simp
    | none =>
      cases dflt <;> cases hl : addlLookup (mroL bases) with
      | none => simp
      | some b => cases b <;> simp

theorem stub_kw_agree_partial (dflt : Bool) (c : ClassInfo) (hx : inheritedAddlOn dflt c = false) :
    KwAgree dflt c (stubInit dflt dflt c).kw := by
  unfold KwAgree
  rw [stub_kw_iff, hx, Bool.or_false]

theorem stub_kw_disagree (dflt : Bool) (c : ClassInfo) (hx : inheritedAddlOn dflt c = true) :
    ¬ KwAgree dflt c (stubInit dflt dflt c).kw := by
  unfold KwAgree
  rw [stub_kw_iff, hx, Bool.or_true]
  cases c with
  | mk d bases =>
    simp only [inheritedAddlOn, ClassInfo.decl, Bool.and_eq_true, Bool.not_eq_true', Option.isNone_iff_eq_none] at hx
    simp [runtimeAdmitsExtra, runtimeSig, sigOf, makeSignature, hx.1.1, hx.1.2]

/-! ### helper methods -/

theorem helper_fields_agree (dflt apd : Bool) (c : ClassInfo) (h : Helper) :
    ∃ fields, (stubHelper dflt apd h c).params = helperPrefix h ++ fields ∧
      NamesAgree dflt c fields ∧ (∀ p ∈ fields, p.hasDefault = true) ∧
      fields.map (·.name) = (stubInit dflt apd c).params.map (·.name) := by
  refine ⟨stubHelperFields dflt c, rfl, ?_, ?_, ?_⟩
  · intro n
    have hm : (stubHelperFields dflt c).map (·.name) = (stubArgs dflt c).map (·.name) := by
      simp [stubHelperFields, List.map_map, Function.comp_def]
    rw [hm]
    exact stub_names_agree dflt apd c n
  · intro p hp
    simp only [stubHelperFields, List.mem_map] at hp
    obtain ⟨q, _, rfl⟩ := hp
    cases hq : q.hasDefault <;> simp
  · simp [stubHelperFields, stubInit, List.map_map, Function.comp_def]

/-! ### the property outside the known-finding regions -/

theorem stub_params_agree_partial (dflt : Bool) (c : ClassInfo)
    (h1 : requiredOptional dflt c = false) (h2 : inheritedAddlOn dflt c = false) :
    InitAgrees dflt c ∧ ∀ h, HelperAgrees dflt c h :=
  ⟨⟨stub_names_agree dflt dflt c, stub_required_agree_partial dflt dflt c h1, stub_kw_agree_partial dflt c h2⟩,
   fun h => ⟨helper_fields_agree dflt dflt c h, stub_kw_agree_partial dflt c h2⟩⟩

/-- with the shipped default (`additional_properties_default = True`) only the first region exists -/
theorem stub_params_agree_default_on (c : ClassInfo) (h1 : requiredOptional true c = false) :
    InitAgrees true c ∧ ∀ h, HelperAgrees true c h :=
  stub_params_agree_partial true c h1 (by simp [inheritedAddlOn])

/-! ### ordering -/

theorem mandatoryFirst_append (xs ys : List Param) (hx : ∀ p ∈ xs, p.hasDefault = false)
    (hy : ∀ p ∈ ys, p.hasDefault = true) : mandatoryFirst (xs ++ ys) = true := by
  induction xs with
  | nil =>
    cases ys with
    | nil => rfl
    | cons y ys =>
      simp only [List.nil_append, mandatoryFirst, hy y List.mem_cons_self, if_true, List.all_eq_true]
      exact fun q hq => hy q (List.mem_cons_of_mem _ hq)
  | cons x xs ih =>
    simp only [List.cons_append, mandatoryFirst, hx x List.mem_cons_self, Bool.false_eq_true, if_false]
    exact ih (fun p hp => hx p (List.mem_cons_of_mem _ hp))

/-- `_get_ordered_args` yields a legal Python parameter order (no mandatory parameter after an optional one) -/
theorem stub_mandatory_first (dflt apd : Bool) (c : ClassInfo) :
    mandatoryFirst (stubInit dflt apd c).params = true := by
  show mandatoryFirst (orderedArgs _) = true
  unfold orderedArgs
  apply mandatoryFirst_append
  · intro p hp; simpa using (List.mem_filter.mp hp).2
  · intro p hp; simpa using (List.mem_filter.mp hp).2

/-! ### hash-seed independence of the import section -/

/-- the rendered import section is invariant under permutation of the iterated set -/
theorem stub_perm_invariant (xs ys : List (String × String)) (h : xs.Perm ys) :
    renderImports xs = renderImports ys :=
  sortU_perm _ _ (h.map importLine)

/-- stronger: it depends only on the set of (name, module) items (any order, any multiplicity) -/
theorem stub_set_invariant (xs ys : List (String × String)) (h : ∀ kv, kv ∈ xs ↔ kv ∈ ys) :
    renderImports xs = renderImports ys := by
  apply sortU_ext
  intro s
  simp only [List.mem_map]
  constructor
  · rintro ⟨kv, hkv, rfl⟩; exact ⟨kv, (h kv).mp hkv, rfl⟩
  · rintro ⟨kv, hkv, rfl⟩; exact ⟨kv, (h kv).mpr hkv, rfl⟩

theorem stub_imports_sorted (xs : List (String × String)) : (renderImports xs).Pairwise (· < ·) :=
  sortU_sorted _

/-! ### kernel-checked counterexamples (the inputs replayed on the real code by the `stub` suite) -/

/-- `class K(Structure): e: AnyOf[Integer, None]; s: String` — `e` is required -/
def ceRequiredOptional : ClassInfo :=
  .mk { name := "K", fields := [{ name := "e", optShape := true }, { name := "s" }] } []

theorem required_optional_counterexample :
    runtimeRequired true ceRequiredOptional "e" = true ∧
    (stubInit true true ceRequiredOptional).params = [⟨"s", false⟩, ⟨"e", true⟩] ∧
    ¬ RequiredAgree true ceRequiredOptional (stubInit true true ceRequiredOptional).params := by
  refine ⟨by decide, by decide, stub_required_disagree true true _ (by decide)⟩

/-- `class P(Structure): a: String; _additional_properties = True` / `class Q(P): b: String`,
    `additional_properties_default = False` -/
def ceInheritedAddl : ClassInfo :=
  .mk { name := "Q", fields := [{ name := "b" }] }
    [.mk { name := "P", fields := [{ name := "a" }], addl := some true } []]

theorem inherited_addl_counterexample :
    (stubInit false false ceInheritedAddl).kw = true ∧ runtimeAdmitsExtra false ceInheritedAddl = false ∧
    ¬ KwAgree false ceInheritedAddl (stubInit false false ceInheritedAddl).kw := by
  refine ⟨by decide, by decide, stub_kw_disagree false _ (by decide)⟩

/-- the full-strength statement is false of the model (as it is of the pinned code) -/
theorem C16_statement_false : ¬ C16_statement := fun h =>
  required_optional_counterexample.2.2 (h true ceRequiredOptional).1.2.1

/-! ### non-vacuity -/

/-- a three-level hierarchy with a constant, a default, an optional-shaped optional field, a base that
    switches additional properties off and a subclass that re-declares a base field as constant -/
def exHierarchy : ClassInfo :=
  .mk { name := "C", fields := [{ name := "z" }, { name := "k2", isConst := true }, { name := "b", isConst := true }],
        optionalDecl := ["z"] }
    [.mk { name := "B", fields := [{ name := "c", hasDefault := true }, { name := "b" }] }
      [.mk { name := "A", fields := [{ name := "k", isConst := true }, { name := "a" }, { name := "o", optShape := true }],
             requiredDecl := some ["a"], addl := some false } []],
     .mk { name := "M", fields := [{ name := "m" }, { name := "a", hasDefault := true }] } []]

theorem stub_params_agree_example :
    (stubInit true true exHierarchy).params = [⟨"m", false⟩, ⟨"a", false⟩, ⟨"o", true⟩, ⟨"c", true⟩, ⟨"z", true⟩] ∧
    (stubInit true true exHierarchy).kw = false ∧ (runtimeSig true exHierarchy).kw = true ∧
    runtimeAdmitsExtra true exHierarchy = false ∧
    (runtimeSig true exHierarchy).params = [⟨"a", false⟩, ⟨"m", false⟩, ⟨"o", true⟩, ⟨"c", true⟩, ⟨"z", true⟩] ∧
    requiredOptional true exHierarchy = false ∧ inheritedAddlOn true exHierarchy = false ∧
    renderImports [("B", "pkg.b"), ("A", "pkg.a"), ("B", "pkg.b")] = ["from pkg.a import A", "from pkg.b import B"] := by
  decide

end Typedpy.C16
