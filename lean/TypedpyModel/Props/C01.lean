/-
  Props/C01.lean — C01: no validating entry point ever yields an instance that violates its
  declaration.

  `conforms` / `wellFormed` (Spec/Conforms.lean) say, recursively through nested collections,
  nested structures and AllOf/AnyOf/OneOf/NotField, what it means for a stored value / an instance
  to satisfy its declaration.  `validate`, `construct` and `runChain` model the code.  For every
  declaration typedpy lets you define (`wfDecl`), every argument value and every chain of entry
  points the result is well-formed.
-/
import TypedpyModel.Lemmas.Sound
import TypedpyModel.Sem.Entry
namespace Typedpy.C01
open Typedpy

/-- whatever a field stores satisfies the field's declaration -/
theorem validate_sound (O : Oracles) (f : FieldDecl) (v v' : PyVal) (hw : wfDecl f = true)
    (h : validate O f v = .ok v') : conforms O f v' = true := by
  have hs := validate_spec O f v
  cases ha : admits O f v
  · rcases hs.2 ha with ⟨e, he, _⟩
    rw [he] at h; cases h
  · have := hs.1 ha
    rw [this] at h
    cases h
    exact norm_conforms O f v hw ha

/-- keyword construction yields a well-formed instance: every required field present, every set
    field conforming, no undeclared attribute unless additional properties are allowed -/
theorem construct_sound (O : Oracles) (cls : FieldDecl) (kw : List (String × PyVal)) (x : PyVal)
    (hw : wfDecl cls = true) (h : construct O cls kw = .ok x) : wellFormed O cls x = true := by
  cases cls with
  | struct c fields defaults => ?_
  | _ => simp [construct] at h
  have hs := C02_construct_spec O c fields defaults kw
  simp only [wfDecl, and_true_iff] at hw
  cases ha : admitsKw O (.struct c fields defaults) kw
  · rcases hs.2 ha with ⟨e, he, _⟩
    rw [he] at h; cases h
  · have hn := hs.1 ha
    rw [hn] at h
    cases h
    simp only [admitsKw, and_true_iff] at ha
    simp only [wellFormed, normKw, cInline, beq_self_eq_true, Bool.true_and]
    exact wfAttrs_norm O c fields defaults kw hw.1.1 hw.1.2 ha.1
      (fun name f w hm hav => fields_conform O c defaults kw fields hw.2 name f w hm
        (admitsFields_mem O c defaults kw fields ha.2 name f w hm hav))

/-- each entry point preserves / re-establishes well-formedness -/
theorem entry_sound (O : Oracles) (cls : FieldDecl) (x y : PyVal) (op : EntryOp)
    (hw : wfDecl cls = true) (hx : wellFormed O cls x = true)
    (h : applyEntry O cls x op = .ok y) : wellFormed O cls y = true := by
  cases op <;> simp only [applyEntry] at h
  · cases h; exact hx
  · cases h; exact hx
  · cases h; exact hx
  · exact construct_sound O cls _ y hw h
  · exact construct_sound O cls _ y hw h
  · exact construct_sound O cls _ y hw h
  · exact construct_sound O cls _ y hw h

/-- **C01**: any chain of validating entry points applied to a constructed instance yields a
    well-formed instance -/
theorem entry_chain_sound (O : Oracles) (cls : FieldDecl) (hw : wfDecl cls = true) :
    ∀ (chain : List EntryOp) (x y : PyVal), wellFormed O cls x = true →
      runChain O cls x chain = .ok y → wellFormed O cls y = true
  | [], x, y, hx, h => by simp only [runChain] at h; cases h; exact hx
  | op :: rest, x, y, hx, h => by
    simp only [runChain] at h
    rcases bindE_eq_ok h with ⟨z, hz, h2⟩
    exact entry_chain_sound O cls hw rest z y (entry_sound O cls x z op hw hx hz) h2

theorem construct_then_chain_sound (O : Oracles) (cls : FieldDecl) (kw : List (String × PyVal))
    (chain : List EntryOp) (x y : PyVal) (hw : wfDecl cls = true)
    (h1 : construct O cls kw = .ok x) (h2 : runChain O cls x chain = .ok y) :
    wellFormed O cls y = true :=
  entry_chain_sound O cls hw chain x y (construct_sound O cls kw x hw h1) h2

/-! ### the `__validate__` hook clause

The hook is a universally quantified oracle: whatever the class's hook is, every instance obtained through a
validating entry point is one the hook accepts. -/

/-- what the hooked constructor returns is well-formed and accepted by the class's hook -/
theorem constructH_sound (O : Oracles) (cls : FieldDecl) (kw : List (String × PyVal)) (x : PyVal)
    (hw : wfDecl cls = true) (h : constructH O cls kw = .ok x) :
    wellFormed O cls x = true ∧ O.hookOk (instAttrs x) = true := by
  unfold constructH at h
  rcases bindE_eq_ok h with ⟨y, hy, h2⟩
  by_cases hk : O.hookOk (instAttrs y) = true
  · simp [hk] at h2; subst h2
    exact ⟨construct_sound O cls kw y hw hy, hk⟩
  · simp [hk] at h2

/-- each entry point preserves "well-formed and accepted by the hook" -/
theorem entryH_sound (O : Oracles) (cls : FieldDecl) (x y : PyVal) (op : EntryOp)
    (hw : wfDecl cls = true) (hx : wellFormed O cls x = true ∧ O.hookOk (instAttrs x) = true)
    (h : applyEntryH O cls x op = .ok y) :
    wellFormed O cls y = true ∧ O.hookOk (instAttrs y) = true := by
  have key : ∀ z, (bindE (applyEntry O cls x op) fun y => if O.hookOk (instAttrs y) then .ok y else .error .valueErr)
      = .ok z → wellFormed O cls z = true ∧ O.hookOk (instAttrs z) = true := by
    intro z hz
    rcases bindE_eq_ok hz with ⟨w, hw1, h2⟩
    by_cases hk : O.hookOk (instAttrs w) = true
    · simp [hk] at h2; subst h2
      exact ⟨entry_sound O cls x w op hw hx.1 hw1, hk⟩
    · simp [hk] at h2
  cases op <;> simp only [applyEntryH] at h
  · cases h; exact hx
  · cases h; exact hx
  · cases h; exact hx
  · exact key y h
  · exact key y h
  · exact key y h
  · exact key y h

/-- **C01 with the hook clause**: any chain of validating entry points applied to a constructed instance
    yields an instance that is well-formed and that the class's own `__validate__` hook accepts -/
theorem entryH_chain_sound (O : Oracles) (cls : FieldDecl) (hw : wfDecl cls = true) :
    ∀ (chain : List EntryOp) (x y : PyVal),
      (wellFormed O cls x = true ∧ O.hookOk (instAttrs x) = true) →
      runChainH O cls x chain = .ok y → wellFormed O cls y = true ∧ O.hookOk (instAttrs y) = true
  | [], x, y, hx, h => by simp only [runChainH] at h; cases h; exact hx
  | op :: rest, x, y, hx, h => by
    simp only [runChainH] at h
    rcases bindE_eq_ok h with ⟨z, hz, h2⟩
    exact entryH_chain_sound O cls hw rest z y (entryH_sound O cls x z op hw hx hz) h2

theorem constructH_then_chain_sound (O : Oracles) (cls : FieldDecl) (kw : List (String × PyVal))
    (chain : List EntryOp) (x y : PyVal) (hw : wfDecl cls = true)
    (h1 : constructH O cls kw = .ok x) (h2 : runChainH O cls x chain = .ok y) :
    wellFormed O cls y = true ∧ O.hookOk (instAttrs y) = true :=
  entryH_chain_sound O cls hw chain x y (constructH_sound O cls kw x hw h1) h2

/-- without a hook the hooked constructor is the constructor -/
theorem constructH_no_hook (O : Oracles) (cls : FieldDecl) (kw : List (String × PyVal))
    (h : ∀ s, O.hookOk s = true) : constructH O cls kw = construct O cls kw := by
  unfold constructH
  cases construct O cls kw <;> simp [bindE, h]

/-- a hook that rejects `b == True`: the constructor and an overriding clone are refused, a copy chain of an
    accepted instance is accepted -/
theorem hook_example :
    let O : Oracles := { reMatch := fun _ _ => true,
                         hookOk := fun s => match lookup "b" s with | some (.bool true) => false | _ => true }
    (match constructH O (.struct { name := "A", required := ["a"], addl := false, accepts := ["A"] }
          [("a", .integer {}), ("b", .anyOf [.boolean, .noneF])] []) [("a", .int 1), ("b", .str "True")] with
      | .error .valueErr => true | _ => false) = true
    ∧ (match constructH O (.struct { name := "A", required := ["a"], addl := false, accepts := ["A"] }
          [("a", .integer {}), ("b", .anyOf [.boolean, .noneF])] []) [("a", .int 1), ("b", .bool false)] with
      | .ok (.inst "A" _) => true | _ => false) = true
    ∧ (match runChainH O (.struct { name := "A", required := ["a"], addl := false, accepts := ["A"] }
          [("a", .integer {}), ("b", .anyOf [.boolean, .noneF])] []) (.inst "A" [("a", .int 1), ("b", .bool false)])
          [.copy, .shallowClone [("b", .bool true)]] with
      | .error .valueErr => true | _ => false) = true
    ∧ (match runChainH O (.struct { name := "A", required := ["a"], addl := false, accepts := ["A"] }
          [("a", .integer {}), ("b", .anyOf [.boolean, .noneF])] []) (.inst "A" [("a", .int 1), ("b", .bool false)])
          [.deepcopy, .shallowClone [("a", .int 2)], .castTo] with
      | .ok (.inst "A" _) => true | _ => false) = true := by
  decide

/-! ### non-vacuity -/

def exO : Oracles := { reMatch := fun _ _ => true }
def exCls : FieldDecl :=
  .struct { name := "A", required := ["a"], addl := false, accepts := ["A"] }
    [("a", .seqOf .list (.float { min := some ⟨0, 1⟩ }) { max := some 2, uniq := true }),
     ("b", .anyOf [.boolean, .noneF])]
    []

theorem soundness_example :
    wfDecl exCls = true
    ∧ (match construct exO exCls [("a", .list [.int 1, .float ⟨1, 2⟩]), ("b", .str "True")] with
        | .ok x => wellFormed exO exCls x
        | .error _ => false) = true
    ∧ (match runChain exO exCls (.inst "A" [("a", .list [.float ⟨1, 1⟩])])
          [.copy, .shallowClone [("b", .none)], .castTo] with
        | .ok x => wellFormed exO exCls x
        | .error _ => false) = true
    ∧ wellFormed exO exCls (.inst "A" [("a", .list [.int 1])]) = false
    ∧ wellFormed exO exCls (.inst "A" [("b", .bool true)]) = false := by
  decide

end Typedpy.C01
