/-
  Props/C01.lean — C01: no validating entry point ever yields an instance that violates its
  declaration.

  `conforms` / `wellFormed` (Spec/Conforms.lean) say, recursively through nested collections,
  nested structures and AllOf/AnyOf/OneOf/NotField, what it means for a stored value / an instance
  to satisfy its declaration.  `validate`, `construct` and `runChain` model the code.  For every
  declaration typedpy lets you define (`wfDecl`), every argument value and every chain of entry
  points the result is well-formed.
-/
import TypedpyModel.Lemmas.Sound
import TypedpyModel.Sem.Entry
import TypedpyModel.Lemmas.Formats
import TypedpyModel.Sem.Decimal
import TypedpyModel.Sem.EntryD
import TypedpyModel.Lemmas.BridgeWf
import TypedpyModel.Lemmas.Idempotent
import TypedpyModel.Lemmas.NestedHooks
namespace Typedpy.C01
open Typedpy

/-- whatever a field stores satisfies the field's declaration -/
theorem validate_sound (O : Oracles) (f : FieldDecl) (v v' : PyVal) (hw : wfDecl f = true)
    (h : validate O f v = .ok v') : conforms O f v' = true := by
  have hs := validate_spec O f v
  cases ha : admits O f v
  · rcases hs.2 ha with ⟨e, he, _⟩
    rw [he] at h; cases h
  · have := hs.1 ha
    rw [this] at h
    cases h
    exact norm_conforms O f v hw ha

/-- keyword construction yields a well-formed instance: every required field present, every set
    field conforming, no undeclared attribute unless additional properties are allowed -/
theorem construct_sound (O : Oracles) (cls : FieldDecl) (kw : List (String × PyVal)) (x : PyVal)
    (hw : wfDecl cls = true) (h : construct O cls kw = .ok x) : wellFormed O cls x = true := by
  cases cls with
  | struct c fields defaults => ?_
  | _ => simp [construct] at h
  have hs := C02_construct_spec O c fields defaults kw
  simp only [wfDecl, and_true_iff] at hw
  cases ha : admitsKw O (.struct c fields defaults) kw
  · rcases hs.2 ha with ⟨e, he, _⟩
    rw [he] at h; cases h
  · have hn := hs.1 ha
    rw [hn] at h
    cases h
    simp only [admitsKw, and_true_iff] at ha
    simp only [wellFormed, normKw, cInline, beq_self_eq_true, Bool.true_and]
    exact wfAttrs_norm O c fields defaults kw hw.1.1 hw.1.2 ha.1
      (fun name f w hm hav => fields_conform O c defaults kw fields hw.2 name f w hm
        (admitsFields_mem O c defaults kw fields ha.2 name f w hm hav))

/-- each entry point preserves / re-establishes well-formedness -/
theorem entry_sound (O : Oracles) (cls : FieldDecl) (x y : PyVal) (op : EntryOp)
    (hw : wfDecl cls = true) (hx : wellFormed O cls x = true)
    (h : applyEntry O cls x op = .ok y) : wellFormed O cls y = true := by
  cases op <;> simp only [applyEntry] at h
  · cases h; exact hx
  · cases h; exact hx
  · cases h; exact hx
  · exact construct_sound O cls _ y hw h
  · exact construct_sound O cls _ y hw h
  · exact construct_sound O cls _ y hw h
  · exact construct_sound O cls _ y hw h

/-- **C01**: any chain of validating entry points applied to a constructed instance yields a
    well-formed instance -/
theorem entry_chain_sound (O : Oracles) (cls : FieldDecl) (hw : wfDecl cls = true) :
    ∀ (chain : List EntryOp) (x y : PyVal), wellFormed O cls x = true →
      runChain O cls x chain = .ok y → wellFormed O cls y = true
  | [], x, y, hx, h => by simp only [runChain] at h; cases h; exact hx
  | op :: rest, x, y, hx, h => by
    simp only [runChain] at h
    rcases bindE_eq_ok h with ⟨z, hz, h2⟩
    exact entry_chain_sound O cls hw rest z y (entry_sound O cls x z op hw hx hz) h2

theorem construct_then_chain_sound (O : Oracles) (cls : FieldDecl) (kw : List (String × PyVal))
    (chain : List EntryOp) (x y : PyVal) (hw : wfDecl cls = true)
    (h1 : construct O cls kw = .ok x) (h2 : runChain O cls x chain = .ok y) :
    wellFormed O cls y = true :=
  entry_chain_sound O cls hw chain x y (construct_sound O cls kw x hw h1) h2

/-! ### the `__validate__` hook clause

The hook is a universally quantified oracle: whatever the class's hook is, every instance obtained through a
validating entry point is one the hook accepts. -/

/-- what the hooked constructor returns is well-formed and accepted by the class's hook -/
theorem constructH_sound (O : Oracles) (cls : FieldDecl) (kw : List (String × PyVal)) (x : PyVal)
    (hw : wfDecl cls = true) (h : constructH O cls kw = .ok x) :
    wellFormed O cls x = true ∧ O.hookOk (instAttrs x) = true := by
  unfold constructH at h
  rcases bindE_eq_ok h with ⟨y, hy, h2⟩
  by_cases hk : O.hookOk (instAttrs y) = true
  · simp [hk] at h2; subst h2
    exact ⟨construct_sound O cls kw y hw hy, hk⟩
  · simp [hk] at h2

/-- each entry point preserves "well-formed and accepted by the hook" -/
theorem entryH_sound (O : Oracles) (cls : FieldDecl) (x y : PyVal) (op : EntryOp)
    (hw : wfDecl cls = true) (hx : wellFormed O cls x = true ∧ O.hookOk (instAttrs x) = true)
    (h : applyEntryH O cls x op = .ok y) :
    wellFormed O cls y = true ∧ O.hookOk (instAttrs y) = true := by
  have key : ∀ z, (bindE (applyEntry O cls x op) fun y => if O.hookOk (instAttrs y) then .ok y else .error .valueErr)
      = .ok z → wellFormed O cls z = true ∧ O.hookOk (instAttrs z) = true := by
    intro z hz
    rcases bindE_eq_ok hz with ⟨w, hw1, h2⟩
    by_cases hk : O.hookOk (instAttrs w) = true
    · simp [hk] at h2; subst h2
      exact ⟨entry_sound O cls x w op hw hx.1 hw1, hk⟩
    · simp [hk] at h2
  cases op <;> simp only [applyEntryH] at h
  · cases h; exact hx
  · cases h; exact hx
  · cases h; exact hx
  · exact key y h
  · exact key y h
  · exact key y h
  · exact key y h

/-- **C01 with the hook clause**: any chain of validating entry points applied to a constructed instance
    yields an instance that is well-formed and that the class's own `__validate__` hook accepts -/
theorem entryH_chain_sound (O : Oracles) (cls : FieldDecl) (hw : wfDecl cls = true) :
    ∀ (chain : List EntryOp) (x y : PyVal),
      (wellFormed O cls x = true ∧ O.hookOk (instAttrs x) = true) →
      runChainH O cls x chain = .ok y → wellFormed O cls y = true ∧ O.hookOk (instAttrs y) = true
  | [], x, y, hx, h => by simp only [runChainH] at h; cases h; exact hx
  | op :: rest, x, y, hx, h => by
    simp only [runChainH] at h
    rcases bindE_eq_ok h with ⟨z, hz, h2⟩
    exact entryH_chain_sound O cls hw rest z y (entryH_sound O cls x z op hw hx hz) h2

theorem constructH_then_chain_sound (O : Oracles) (cls : FieldDecl) (kw : List (String × PyVal))
    (chain : List EntryOp) (x y : PyVal) (hw : wfDecl cls = true)
    (h1 : constructH O cls kw = .ok x) (h2 : runChainH O cls x chain = .ok y) :
    wellFormed O cls y = true ∧ O.hookOk (instAttrs y) = true :=
  entryH_chain_sound O cls hw chain x y (constructH_sound O cls kw x hw h1) h2

/-- without a hook the hooked constructor is the constructor -/
theorem constructH_no_hook (O : Oracles) (cls : FieldDecl) (kw : List (String × PyVal))
    (h : ∀ s, O.hookOk s = true) : constructH O cls kw = construct O cls kw := by
  unfold constructH
  cases construct O cls kw <;> simp [bindE, h]

/-- a hook that rejects `b == True`: the constructor and an overriding clone are refused, a copy chain of an
    accepted instance is accepted -/
theorem hook_example :
    let O : Oracles := { reMatch := fun _ _ => true,
                         hookOk := fun s => match lookup "b" s with | some (.bool true) => false | _ => true }
    (match constructH O (.struct { name := "A", required := ["a"], addl := false, accepts := ["A"] }
          [("a", .integer {}), ("b", .anyOf [.boolean, .noneF])] []) [("a", .int 1), ("b", .str "True")] with
      | .error .valueErr => true | _ => false) = true
    ∧ (match constructH O (.struct { name := "A", required := ["a"], addl := false, accepts := ["A"] }
          [("a", .integer {}), ("b", .anyOf [.boolean, .noneF])] []) [("a", .int 1), ("b", .bool false)] with
      | .ok (.inst "A" _) => true | _ => false) = true
    ∧ (match runChainH O (.struct { name := "A", required := ["a"], addl := false, accepts := ["A"] }
          [("a", .integer {}), ("b", .anyOf [.boolean, .noneF])] []) (.inst "A" [("a", .int 1), ("b", .bool false)])
          [.copy, .shallowClone [("b", .bool true)]] with
      | .error .valueErr => true | _ => false) = true
    ∧ (match runChainH O (.struct { name := "A", required := ["a"], addl := false, accepts := ["A"] }
          [("a", .integer {}), ("b", .anyOf [.boolean, .noneF])] []) (.inst "A" [("a", .int 1), ("b", .bool false)])
          [.deepcopy, .shallowClone [("a", .int 2)], .castTo] with
      | .ok (.inst "A" _) => true | _ => false) = true := by
  decide

/-! ### the Deserializer as an entry point of the chain -/

theorem c01_dClassRef_dict_ok (kvs : List (PyVal × PyVal)) (drop : Bool) (pre : List (String × PyVal) → R Unit)
    (k : List (String × PyVal) → R PyVal) (x : PyVal)
    (h : dClassRef (.dict kvs) drop pre k = .ok x) : ∃ kw, k kw = .ok x := by
  unfold dClassRef at h
  simp only at h
  split at h
  · split at h
    · exact ⟨_, h⟩
    · rcases hb : pre (strKw kvs) with e' | u <;> rw [hb] at h <;> simp at h
  · exact ⟨_, h⟩

/-- whatever `Deserializer(cls).deserialize` returns - for every document and every flag setting - was built by the
    constructor from some keyword arguments, hence is well-formed -/
theorem deserialize_sound (O : Oracles) (opts : DeserOpts) (cls : FieldDecl) (d x : PyVal)
    (hw : wfDecl cls = true) (h : deserialize O opts cls d = .ok x) : wellFormed O cls x = true := by
  unfold deserialize at h
  cases cls with
  | struct c fields defaults => ?_
  | _ => simp at h
  simp only at h
  split at h
  · rename_i kvs
    rcases c01_dClassRef_dict_ok kvs _ _ _ x h with ⟨kw, hk⟩
    rcases bindE_eq_ok hk with ⟨args, _, h2⟩
    exact construct_sound O _ args x hw (by simpa [construct] using h2)
  · cases h

/-- each entry point of the extended chain (the Deserializer included) preserves "well-formed and accepted by the hook" -/
theorem entryD_sound (O : Oracles) (cls : FieldDecl) (x y : PyVal) (op : EntryOpD)
    (hw : wfDecl cls = true) (hx : wellFormed O cls x = true ∧ O.hookOk (instAttrs x) = true)
    (h : applyEntryD O cls x op = .ok y) :
    wellFormed O cls y = true ∧ O.hookOk (instAttrs y) = true := by
  have key : ∀ (opts : DeserOpts) (d z : PyVal), bindE (deserialize O opts cls d) (hookCheck O) = .ok z →
      wellFormed O cls z = true ∧ O.hookOk (instAttrs z) = true := by
    intro opts d z hz
    rcases bindE_eq_ok hz with ⟨w, hw1, h2⟩
    unfold hookCheck at h2
    by_cases hk : O.hookOk (instAttrs w) = true
    · simp [hk] at h2; subst h2
      exact ⟨deserialize_sound O opts cls d w hw hw1, hk⟩
    · simp [hk] at h2
  cases op with
  | plain op => exact entryH_sound O cls x y op hw hx h
  | deser opts doc => exact key opts doc y h
  | reser opts =>
    simp only [applyEntryD] at h
    rcases bindE_eq_ok h with ⟨d, _, h2⟩
    exact key opts d y h2

/-- **C01 with the Deserializer**: any chain of validating entry points - copies, clones, from_other_class, cast_to,
    `Deserializer.deserialize` of ANY document under any flags, serialize-then-deserialize - yields an instance that
    is well-formed and that the class's hook accepts -/
theorem entryD_chain_sound (O : Oracles) (cls : FieldDecl) (hw : wfDecl cls = true) :
    ∀ (chain : List EntryOpD) (x y : PyVal),
      (wellFormed O cls x = true ∧ O.hookOk (instAttrs x) = true) →
      runChainD O cls x chain = .ok y → wellFormed O cls y = true ∧ O.hookOk (instAttrs y) = true
  | [], x, y, hx, h => by simp only [runChainD] at h; cases h; exact hx
  | op :: rest, x, y, hx, h => by
    simp only [runChainD] at h
    rcases bindE_eq_ok h with ⟨z, hz, h2⟩
    exact entryD_chain_sound O cls hw rest z y (entryD_sound O cls x z op hw hx hz) h2

/-- a chain that STARTS with the Deserializer needs no constructed instance to start from -/
theorem deser_then_chain_sound (O : Oracles) (cls : FieldDecl) (hw : wfDecl cls = true) (opts : DeserOpts)
    (doc x0 y : PyVal) (chain : List EntryOpD)
    (h : runChainD O cls x0 (.deser opts doc :: chain) = .ok y) :
    wellFormed O cls y = true ∧ O.hookOk (instAttrs y) = true := by
  simp only [runChainD] at h
  rcases bindE_eq_ok h with ⟨z, hz, h2⟩
  simp only [applyEntryD] at hz
  rcases bindE_eq_ok hz with ⟨w, hw1, h3⟩
  unfold hookCheck at h3
  by_cases hk : O.hookOk (instAttrs w) = true
  · simp [hk] at h3; subst h3
    exact entryD_chain_sound O cls hw chain w y ⟨deserialize_sound O opts cls doc w hw hw1, hk⟩ h2
  · simp [hk] at h3

/-- non-vacuity: a document is deserialized, cloned and cast; an ill-formed document and a hook-rejected one are refused -/
theorem deser_chain_example :
    let O : Oracles := { reMatch := fun _ _ => true,
                         hookOk := fun s => match lookup "b" s with | some (.bool true) => false | _ => true }
    let cls : FieldDecl := .struct { name := "A", required := ["a"], addl := false, accepts := ["A"] }
        [("a", .seqOf .list (.integer { min := some ⟨0, 1⟩ }) {}), ("b", .boolean)] []
    (match runChainD O cls .none [.deser {} (.dict [(.str "a", .list [.int 1, .int 2]), (.str "b", .bool false)]),
          .plain (.shallowClone [("a", .list [.int 3])]), .plain .castTo] with
      | .ok x => wellFormed O cls x | .error _ => false) = true
    ∧ (match runChainD O cls .none [.deser {} (.dict [(.str "a", .list [.int 1, .int (-2)])])] with
      | .error _ => true | .ok _ => false) = true
    ∧ (match runChainD O cls .none [.deser {} (.dict [(.str "a", .list []), (.str "b", .bool true)])] with
      | .error .valueErr => true | _ => false) = true
    ∧ (match runChainD O cls (.inst "A" [("a", .list [.int 5])]) [.plain .copy, .reser {}] with
      | .ok x => wellFormed O cls x | .error _ => false) = true := by
  decide

/-! ### what well-formedness says about one field; the extension string fields -/

/-- in a well-formed instance every declared field that is set conforms to its declaration -/
theorem c01_fieldsConform_mem (O : Oracles) (attrs : List (String × PyVal)) :
    ∀ fs : List (String × FieldDecl), fieldsConform O attrs fs = true →
      ∀ name f, (name, f) ∈ fs → ∀ v, lookup name attrs = some v → conforms O f v = true
  | [], _, _, _, hm, _, _ => by cases hm
  | (n, g) :: rest, h, name, f, hm, v, hl => by
    simp only [fieldsConform, and_true_iff] at h
    rcases List.mem_cons.1 hm with heq | hm'
    · cases heq
      have := h.1
      rw [hl] at this
      exact this
    · exact c01_fieldsConform_mem O attrs rest h.2 name f hm' v hl

theorem wellFormed_field (O : Oracles) (c : ClassOpts) (fields : List (String × FieldDecl))
    (defaults : List (String × PyVal)) (x : PyVal) (h : wellFormed O (.struct c fields defaults) x = true)
    (name : String) (f : FieldDecl) (hm : (name, f) ∈ fields) (v : PyVal)
    (hl : lookup name (instAttrs x) = some v) : conforms O f v = true := by
  simp only [wellFormed, cInline] at h
  cases x <;> simp at h
  simp only [wfAttrs, and_true_iff] at h
  exact c01_fieldsConform_mem O _ fields h.2.1.2 name f hm v hl

/-- **formatted strings (IPV4)**: whatever a chain of validating entry points yields, a field declared IPV4 that is set
    holds a string of the documented language (four octets 0..255 of ASCII digits joined by single dots), provided
    the oracle decides the token as the model's own `ipv4Ok` does (the driver's oracle does: `fmtMatch`) -/
theorem chain_ipv4_field_sound (O : Oracles) (hO : ∀ s, O.reMatch ipv4Token s = ipv4Ok s)
    (c : ClassOpts) (fields : List (String × FieldDecl)) (defaults kw : List (String × PyVal))
    (chain : List EntryOp) (x y : PyVal) (hw : wfDecl (.struct c fields defaults) = true)
    (h1 : construct O (.struct c fields defaults) kw = .ok x)
    (h2 : runChain O (.struct c fields defaults) x chain = .ok y)
    (name : String) (lo hi : Option Nat) (hm : (name, .string lo hi (some ipv4Token)) ∈ fields)
    (v : PyVal) (hl : lookup name (instAttrs y) = some v) :
    ∃ s, v = .str s ∧ IsIPv4 s ∧ geLen lo s.length = true ∧ leLen hi s.length = true := by
  have hy := construct_then_chain_sound O _ kw chain x y hw h1 h2
  have hc := wellFormed_field O c fields defaults y hy name _ hm v hl
  simp only [conforms, aString] at hc
  cases v <;> simp at hc
  rename_i s
  simp only [patOk, hO, ipv4Ok_iff] at hc
  exact ⟨s, rfl, hc.2, hc.1.1, hc.1.2⟩

/-- the same for HostName (RFC 952/1123 names) -/
theorem chain_hostname_field_sound (O : Oracles) (hO : ∀ s, O.reMatch hostNameToken s = hostNameOk s)
    (c : ClassOpts) (fields : List (String × FieldDecl)) (defaults kw : List (String × PyVal))
    (chain : List EntryOp) (x y : PyVal) (hw : wfDecl (.struct c fields defaults) = true)
    (h1 : construct O (.struct c fields defaults) kw = .ok x)
    (h2 : runChain O (.struct c fields defaults) x chain = .ok y)
    (name : String) (lo hi : Option Nat) (hm : (name, .string lo hi (some hostNameToken)) ∈ fields)
    (v : PyVal) (hl : lookup name (instAttrs y) = some v) :
    ∃ s, v = .str s ∧ IsHostName s ∧ geLen lo s.length = true ∧ leLen hi s.length = true := by
  have hy := construct_then_chain_sound O _ kw chain x y hw h1 h2
  have hc := wellFormed_field O c fields defaults y hy name _ hm v hl
  simp only [conforms, aString] at hc
  cases v <;> simp at hc
  rename_i s
  simp only [patOk, hO, hostNameOk_iff] at hc
  exact ⟨s, rfl, hc.2, hc.1.1, hc.1.2⟩

/-- **SizedString** (`maxlen = m` next to `maxLength = hi`: the tighter bound decides): whatever a chain of validating
    entry points yields, the field holds a string of at most `m` and at most `hi` characters -/
theorem chain_sized_field_sound (O : Oracles)
    (c : ClassOpts) (fields : List (String × FieldDecl)) (defaults kw : List (String × PyVal))
    (chain : List EntryOp) (x y : PyVal) (hw : wfDecl (.struct c fields defaults) = true)
    (h1 : construct O (.struct c fields defaults) kw = .ok x)
    (h2 : runChain O (.struct c fields defaults) x chain = .ok y)
    (name : String) (lo : Option Nat) (hi m : Nat) (pat : Option String)
    (hm : (name, .string lo (some (min hi m)) pat) ∈ fields)
    (v : PyVal) (hl : lookup name (instAttrs y) = some v) :
    ∃ s, v = .str s ∧ s.length ≤ m ∧ s.length ≤ hi := by
  have hy := construct_then_chain_sound O _ kw chain x y hw h1 h2
  have hc := wellFormed_field O c fields defaults y hy name _ hm v hl
  simp only [conforms, aString] at hc
  cases v <;> simp at hc
  rename_i s
  have := hc.1.2
  simp [leLen] at this
  exact ⟨s, rfl, by omega, by omega⟩

/-- **DecimalNumber**: whatever the field stores is a Decimal that satisfies the declared multiplesOf / minimum /
    maximum / exclusiveMaximum (`conforms` of the `number` declaration the field stands for) -/
theorem decimal_field_sound (parse : String → Option Q) (O : Oracles) (o : NumOpts) (v w : PyVal)
    (h : vDecimal parse o v = .ok w) : conforms O (.number o) w = true ∧ ∃ q, w = .dec q := by
  unfold vDecimal at h
  rcases bindE_eq_ok h with ⟨d, hd, h2⟩
  unfold toDecimal at hd
  cases hq : decValue parse v <;> rw [hq] at hd <;> simp at hd
  subst hd
  have := validate_sound O (.number o) _ w rfl (by simpa [validate] using h2)
  refine ⟨this, ?_⟩
  simp only [vNumber, PyVal.asNum] at h2
  split at h2 <;> simp at h2
  exact ⟨_, h2.symm⟩

/-- a class with DecimalNumber fields (the conversion layer in front of the constructor): whatever it returns is
    well-formed for the class and accepted by the class's hook -/
theorem constructD_sound (parse : String → Option Q) (O : Oracles) (cls : FieldDecl) (decs : List (String × DecPos))
    (kw : List (String × PyVal)) (x : PyVal) (hw : wfDecl cls = true)
    (h : constructD parse O cls decs kw = .ok x) :
    wellFormed O cls x = true ∧ O.hookOk (instAttrs x) = true := by
  unfold constructD at h
  rcases bindE_eq_ok h with ⟨kw', _, h2⟩
  exact constructH_sound O cls kw' x hw h2

/-- non-vacuity: a class with an IPV4 array and a SizedString, through constructor and clone -/
theorem formatted_example :
    let O : Oracles := { reMatch := fmtMatch fun _ _ => false }
    let cls : FieldDecl := .struct { name := "A", required := ["ips"], addl := false, accepts := ["A"] }
        [("ips", .seqOf .list (.string none none (some ipv4Token)) {}), ("tag", .string none (some (min 5 3)) none)] []
    wfDecl cls = true
    ∧ (match construct O cls [("ips", .list [.str "1.2.3.4", .str "255.0.0.1"]), ("tag", .str "abc")] with
        | .ok x => wellFormed O cls x | .error _ => false) = true
    ∧ (match construct O cls [("ips", .list [.str "1.2.3.4", .str "256.0.0.1"])] with
        | .error .valueErr => true | _ => false) = true
    ∧ (match construct O cls [("ips", .list [.str "1.2.3.4\n"])] with | .error .valueErr => true | _ => false) = true
    ∧ (match runChain O cls (.inst "A" [("ips", .list [.str "1.2.3.4"])]) [.shallowClone [("tag", .str "abcd")]] with
        | .error .valueErr => true | _ => false) = true
    ∧ wellFormed O cls (.inst "A" [("ips", .list [.str "1.2.3"])]) = false
    ∧ wellFormed O cls (.inst "A" [("ips", .list []), ("tag", .str "abcd")]) = false := by
  decide

/-! ### classes as the class-definition model records them (Sem/Define.lean → Sem/DefineBridge.lean) -/

/-- the declaration a class record denotes is well-formed (`wfDecl`) as soon as the record is what
    `StructMeta.__new__` leaves behind: distinct member names, the signature demands only declared fields, and the
    members' own declarations are well-formed -/
theorem bridge_wfDecl (c : ClassDef) (ord acc : List String) (hk : KeysNodup c.allFields)
    (hreq : ∀ n ∈ c.sig.req, n ∈ Bridge.defOrder c)
    (hm : ∀ n d dflt, (n, Member.field d dflt) ∈ c.allFields → wfDecl d = true) :
    wfDecl (c.toStruct ord acc) = true := by
  have hd : (Bridge.defOrder c).Nodup := by
    unfold Bridge.defOrder Bridge.fieldDecls
    exact List.Nodup.sublist (c01_memberDecls_keys_sublist c.allFields) hk
  simp only [ClassDef.toStruct, wfDecl, Bool.and_eq_true]
  refine ⟨⟨?_, ?_⟩, ?_⟩
  · rw [c01_strNodup_iff, c01_orderBy_names]
    exact (c01_sigOrder_nodup c ord hd).filter _
  · rw [List.all_eq_true]
    intro n hn
    rw [List.contains_iff_mem]
    exact (c14_mem_toStruct_names c ord n).mpr (hreq n hn)
  · apply c01_wfFields_of_all
    intro p hp
    have := (c14_mem_toStruct_fields c ord p).mp hp
    have hmem : p ∈ Bridge.fieldDecls c := by
      obtain ⟨n, d⟩ := p
      exact lookup_mem this
    exact c01_memberDecls_wf c.allFields hm p hmem

/-- **C01 for classes as the class-definition model records them** (Sem/Define.lean → Sem/DefineBridge.lean): whatever
    `cls(**kw)` returns for a class record `c` - any definition history, any inheritance - is, up to the class's Constants,
    a well-formed instance of the declaration the record denotes -/
theorem bridge_instantiate_sound (O : Oracles) (c : ClassDef) (ord : List String) (kw : List (String × PyVal))
    (x : PyVal) (hw : wfDecl (c.toStruct ord [c.name]) = true) (h : instantiateOrd O c ord kw = .ok x) :
    ∃ x0, x = addConstants c.constants x0 ∧ wellFormed O (c.toStruct ord [c.name]) x0 = true := by
  unfold instantiateOrd at h
  split at h; · cases h
  split at h; · cases h
  split at h; · cases h
  split at h; · cases h
  rcases bindE_eq_ok h with ⟨x0, h0, h1⟩
  cases h1
  exact ⟨x0, rfl, construct_sound O _ kw x0 hw h0⟩

/-- … unconditionally for the records `StructMeta.__new__` leaves behind -/
theorem bridge_instantiate_sound_uncond (O : Oracles) (c : ClassDef) (ord : List String) (kw : List (String × PyVal))
    (x : PyVal) (hk : KeysNodup c.allFields) (hreq : ∀ n ∈ c.sig.req, n ∈ Bridge.defOrder c)
    (hm : ∀ n d dflt, (n, Member.field d dflt) ∈ c.allFields → wfDecl d = true)
    (h : instantiateOrd O c ord kw = .ok x) :
    ∃ x0, x = addConstants c.constants x0 ∧ wellFormed O (c.toStruct ord [c.name]) x0 = true :=
  bridge_instantiate_sound O c ord kw x (bridge_wfDecl c ord [c.name] hk hreq hm) h

/-! ### `__validate__` hooks of NESTED classes

`allInst H v` (Lemmas/NestedHooks.lean): every Structure instance inside `v`, at any depth, is accepted by the hook of
its class (`H`, universally quantified).  The constructor and the instance-based entry points never build a nested
instance of a hooked class - a ClassReference field stores the instance it is given - so they preserve it.  (The
Deserializer DOES build nested instances; that every nested constructor call runs the hook is executed on the real code
by the nested-hook stream of the check: the Deser model has no nested hooks.) -/


theorem c01_argFor_allInst (H : Hooks) (c : ClassOpts) (defaults kw : List (String × PyVal)) (name : String) (v : PyVal)
    (hkw : allInstAttrs H kw = true) (hd : allInstAttrs H defaults = true)
    (h : argFor c defaults kw name = some v) : allInst H v = true := by
  unfold argFor at h
  cases hl : lookup name kw with
  | some w =>
    rw [hl] at h
    simp only at h
    split at h
    · cases h
    · cases h
      exact (c01_allInstAttrs_iff H kw).1 hkw (name, v) (lookup_mem hl)
  | none =>
    rw [hl] at h
    simp only at h
    cases hdl : lookup name defaults with
    | none => rw [hdl] at h; cases h
    | some d =>
      rw [hdl] at h
      simp only at h
      split at h
      · cases h
      · cases h
        exact (c01_allInstAttrs_iff H defaults).1 hd (name, v) (lookup_mem hdl)

theorem c01_normFields_allInst (O : Oracles) (H : Hooks) (c : ClassOpts) (defaults kw : List (String × PyVal))
    (hkw : allInstAttrs H kw = true) (hd : allInstAttrs H defaults = true) :
    ∀ fields : List (String × FieldDecl), fields.all (fun p => noInline p.2) = true →
      admitsFields O c defaults kw fields = true → allInstAttrs H (normFields O c defaults kw fields) = true
  | [], _, _ => rfl
  | (name, f) :: rest, hf, ha => by
    simp only [List.all_cons, and_true_iff] at hf
    simp only [admitsFields, and_true_iff] at ha
    simp only [normFields]
    cases hA : argFor c defaults kw name with
    | none => exact c01_normFields_allInst O H c defaults kw hkw hd rest hf.2 ha.2
    | some v =>
      simp only [allInstAttrs, and_true_iff]
      have hadm : admits O f v = true := by have := ha.1; rw [hA] at this; exact this
      exact ⟨norm_allInst O H f v hf.1 hadm (c01_argFor_allInst H c defaults kw name v hkw hd hA),
        c01_normFields_allInst O H c defaults kw hkw hd rest hf.2 ha.2⟩

/-- **hooks of nested classes, constructor**: if every Structure instance inside the keyword arguments (and the
    defaults) is accepted by the hook of its class, so is every instance inside the attributes of the instance the
    constructor returns - the constructor never builds a nested instance of a hooked class (ClassReference fields
    store the instance they are given); classes without an inline StructureReference -/
theorem construct_nested_hooks (O : Oracles) (H : Hooks) (c : ClassOpts) (fields : List (String × FieldDecl))
    (defaults kw : List (String × PyVal)) (x : PyVal)
    (hf : fields.all (fun p => noInline p.2) = true)
    (hkw : allInstAttrs H kw = true) (hd : allInstAttrs H defaults = true)
    (h : construct O (.struct c fields defaults) kw = .ok x) : allInstAttrs H (instAttrs x) = true := by
  have hs := C02_construct_spec O c fields defaults kw
  cases ha : admitsKw O (.struct c fields defaults) kw
  · rcases hs.2 ha with ⟨e, he, _⟩
    rw [he] at h; cases h
  · rw [hs.1 ha] at h
    cases h
    simp only [admitsKw, and_true_iff] at ha
    simp only [normKw, instAttrs]
    rw [c01_allInstAttrs_iff]
    intro e he
    rcases List.mem_append.1 he with h1 | h1
    · exact (c01_allInstAttrs_iff H kw).1 hkw e (List.mem_filter.1 h1).1
    · exact (c01_allInstAttrs_iff H _).1 (c01_normFields_allInst O H c defaults kw hkw hd fields hf ha.2) e h1


/-- the override keywords an entry point is given -/
def opKw : EntryOp → List (String × PyVal)
  | .shallowClone kw => kw
  | .fromOtherClass _ kw => kw
  | .fromMapping _ kw => kw
  | _ => []

theorem c01_setFields_allInst (H : Hooks) (cls : FieldDecl) (x : PyVal)
    (hx : allInstAttrs H (instAttrs x) = true) : allInstAttrs H (setFields cls x) = true := by
  rw [c01_allInstAttrs_iff] at hx ⊢
  intro e he
  simp only [setFields, List.mem_filterMap] at he
  rcases he with ⟨n, _, hn⟩
  cases hl : lookup n (instAttrs x) with
  | none => simp [hl] at hn
  | some v =>
    simp only [hl] at hn
    split at hn
    · cases hn
    · cases hn
      exact hx (n, v) (lookup_mem hl)

theorem c01_entryKw_allInst (H : Hooks) (cls : FieldDecl) (x : PyVal) (op : EntryOp) (kw : List (String × PyVal))
    (hx : allInstAttrs H (instAttrs x) = true) (hd : allInstAttrs H (classDefaults cls) = true)
    (hop : allInstAttrs H (opKw op) = true) (h : entryKw cls x op = some kw) : allInstAttrs H kw = true := by
  have hsf := c01_setFields_allInst H cls x hx
  cases op <;> simp only [entryKw, Option.some.injEq, reduceCtorEq] at h <;> subst h
  · -- shallowClone
    simp only [opKw] at hop
    rw [c01_allInstAttrs_iff] at hsf hop ⊢
    intro e he
    simp only [overrideKw, List.mem_append, List.mem_filter] at he
    rcases he with h1 | h1
    · exact hsf e h1.1
    · exact hop e h1
  · -- fromOtherClass
    simp only [opKw] at hop
    rw [c01_allInstAttrs_iff] at hx hd hop ⊢
    intro e he
    simp only [List.mem_append, List.mem_map, List.mem_filter] at he
    rcases he with ⟨n, _, rfl⟩ | h1
    · simp only
      cases hl : lookup n (instAttrs x) with
      | some v => simp only [Option.getD_some]; exact hx (n, v) (lookup_mem hl)
      | none =>
        simp only [Option.getD_none]
        cases hdl : lookup n (classDefaults cls) with
        | some d => simp only [Option.getD_some]; exact hd (n, d) (lookup_mem hdl)
        | none => simp [allInst]
    · exact hop e h1
  · -- fromMapping
    simp only [opKw] at hop
    rw [c01_allInstAttrs_iff] at hx hop ⊢
    intro e he
    simp only [List.mem_append, List.mem_map, List.mem_filter] at he
    rcases he with ⟨n, _, rfl⟩ | h1
    · simp only
      cases hl : lookup n (instAttrs x) with
      | some v => simp only [Option.getD_some]; exact hx (n, v) (lookup_mem hl)
      | none => simp [allInst]
    · exact hop e h1
  · exact hsf

/-- **hooks of nested classes, entry points**: each entry point preserves "every nested instance is accepted by the
    hook of its class" -/
theorem entryH_nested_hooks (O : Oracles) (H : Hooks) (c : ClassOpts) (fields : List (String × FieldDecl))
    (defaults : List (String × PyVal)) (x y : PyVal) (op : EntryOp)
    (hf : fields.all (fun p => noInline p.2) = true) (hd : allInstAttrs H defaults = true)
    (hx : allInstAttrs H (instAttrs x) = true) (hop : allInstAttrs H (opKw op) = true)
    (h : applyEntryH O (.struct c fields defaults) x op = .ok y) : allInstAttrs H (instAttrs y) = true := by
  have key : ∀ w, applyEntry O (.struct c fields defaults) x op = .ok w →
      (∃ kw, entryKw (.struct c fields defaults) x op = some kw) → allInstAttrs H (instAttrs w) = true := by
    intro w hw ⟨kw, hk⟩
    rw [applyEntry_eq_construct O _ x op kw hk] at hw
    exact construct_nested_hooks O H c fields defaults kw w hf
      (c01_entryKw_allInst H _ x op kw hx (by simpa [classDefaults] using hd) hop hk) hd hw
  have fin : ∀ w, (bindE (applyEntry O (.struct c fields defaults) x op) fun y =>
        if O.hookOk (instAttrs y) then Except.ok y else Except.error ErrCls.valueErr) = .ok w →
      (∃ kw, entryKw (.struct c fields defaults) x op = some kw) → allInstAttrs H (instAttrs w) = true := by
    intro w hw hk
    rcases bindE_eq_ok hw with ⟨z, hz, h2⟩
    split at h2
    · cases h2; exact key _ hz hk
    · cases h2
  cases op <;> simp only [applyEntryH] at h
  · cases h; exact hx
  · cases h; exact hx
  · cases h; exact hx
  · exact fin y h ⟨_, rfl⟩
  · exact fin y h ⟨_, rfl⟩
  · exact fin y h ⟨_, rfl⟩
  · exact fin y h ⟨_, rfl⟩

/-- **C01, hooks of nested classes**: along any chain of entry points whose override keywords hold only hook-accepted
    instances, every instance nested in the result is accepted by the hook of its class -/
theorem chainH_nested_hooks (O : Oracles) (H : Hooks) (c : ClassOpts) (fields : List (String × FieldDecl))
    (defaults : List (String × PyVal)) (hf : fields.all (fun p => noInline p.2) = true)
    (hd : allInstAttrs H defaults = true) :
    ∀ (chain : List EntryOp) (x y : PyVal), allInstAttrs H (instAttrs x) = true →
      (∀ op ∈ chain, allInstAttrs H (opKw op) = true) →
      runChainH O (.struct c fields defaults) x chain = .ok y → allInstAttrs H (instAttrs y) = true
  | [], x, y, hx, _, h => by simp only [runChainH] at h; cases h; exact hx
  | op :: rest, x, y, hx, hops, h => by
    simp only [runChainH] at h
    rcases bindE_eq_ok h with ⟨z, hz, h2⟩
    exact chainH_nested_hooks O H c fields defaults hf hd rest z y
      (entryH_nested_hooks O H c fields defaults x z op hf hd hx (hops op (by simp)) hz)
      (fun o ho => hops o (by simp [ho])) h2

/-- non-vacuity: an Outer class holding hooked Range instances (bare and in an Array); a nested instance that the
    hook refuses is noticed by `allInst`, and hook-accepted arguments yield a hook-accepted result through a clone -/
theorem nested_hooks_example :
    let O : Oracles := { reMatch := fun _ _ => true }
    let H : Hooks := fun cls attrs => !(cls == "Range") ||
      (match lookup "lo" attrs, lookup "hi" attrs with | some (.int a), some (.int b) => decide (a ≤ b) | _, _ => true)
    let rng : FieldDecl := .struct { name := "Range", required := ["lo", "hi"], addl := false, accepts := ["Range"] }
        [("lo", .integer {}), ("hi", .integer {})] []
    let good : PyVal := .inst "Range" [("lo", .int 1), ("hi", .int 2)]
    let bad : PyVal := .inst "Range" [("lo", .int 2), ("hi", .int 1)]
    let outer : FieldDecl := .struct { name := "Outer", required := ["f"], addl := false, accepts := ["Outer"] }
        [("f", rng), ("items", .seqOf .list rng {})] []
    allInst H good = true ∧ allInst H bad = false
    ∧ allInst H (.list [good, .dict [(.str "k", bad)]]) = false
    ∧ (match runChainH O outer (.inst "Outer" [("f", good)]) [.shallowClone [("items", .list [good, good])], .castTo] with
        | .ok y => allInstAttrs H (instAttrs y) | .error _ => false) = true := by
  decide

/-! ### what a field stores validates again, unchanged

Every re-validating entry point (deepcopy, shallow_clone_with_overrides, from_other_class, cast_to,
serialize-then-deserialize) feeds stored values back into the field.  On the fragment `idemFrag` (Lemmas/Idempotent.lean:
every declaration kind - numbers, strings, Boolean, enums, Array / Deque / Tuple (homogeneous and positional), Set, Map,
class references, OneOf / AllOf / NotField - except AnyOf and inline StructureReference) the stored value is accepted
again and stored unchanged.  For AnyOf the statement is false as it stands (`anyOf_restores_differently`: the stored
value can match an EARLIER option that converts it - the result is `==` but not identical); for an inline
StructureReference (re-construction from the stored instance's attributes) it is not proved. -/

theorem validate_idempotent_partial (O : Oracles) (f : FieldDecl) (v w : PyVal) (hf : idemFrag f = true)
    (h : validate O f v = .ok w) : validate O f w = .ok w := by
  have hs := validate_spec O f v
  cases ha : admits O f v
  · rcases hs.2 ha with ⟨e, he, _⟩
    rw [he] at h; cases h
  · have := hs.1 ha
    rw [this] at h
    cases h
    have st := norm_stable O f v hf ha
    have := (validate_spec O f (norm O f v)).1 st.1
    rw [st.2] at this
    exact this

/-- non-vacuity: a nested positional / homogeneous declaration with conversions at the leaves (int → float,
    'True' → True, a member name → the member) is in the fragment; its stored value validates again unchanged -/
theorem idempotent_example :
    let O : Oracles := { reMatch := fun _ _ => true }
    let f : FieldDecl := .seqOf .list (.tuplePos [.float { min := some ⟨0, 1⟩ }, .boolean, .enumCls "Color" ["RED", "BLUE"],
                                          .oneOf [.boolean, .enumLit [.int 1, .int 3]]] false) { uniq := true }
    let g : FieldDecl := .mapOf .boolean (.setOf true (.float {}) { max := some 2 }) {}
    idemFrag f = true ∧ idemFrag g = true
    ∧ (match validate O g (.dict [(.str "True", .set false [.int 1, .float ⟨1, 1⟩]), (.bool true, .set false [.int 2])]) with
        | .ok w => (match w, validate O g w with
                    | .dict [(.bool true, .set true [.float a])], .ok (.dict [(.bool true, .set true [.float b])]) => a.num == 2 && b.num == 2
                    | _, _ => false)
        | .error _ => false) = true
    ∧ (match validate O f (.list [.tuple [.int 2, .str "True", .str "RED", .str "True"]]) with
        | .ok w => (match validate O f w with
                    | .ok w' => (match w, w' with
                                  | .list [.tuple [.float a, .bool true, .enumv _ _, .str _]], .list [.tuple [.float b, .bool true, .enumv _ _, .str _]] => a.num == b.num
                                  | _, _ => false)
                    | .error _ => false)
        | .error _ => false) = true := by
  decide

/-- why AnyOf is excluded: AnyOf[Array(items=[Float, Enum[True]]), Array(items=[Integer, Boolean])] given [1, 'True']
    stores [1, True] (second option); that value matches the FIRST option, which stores [1.0, True] - equal under `==`,
    not identical (kernel-checked; the real code agrees: deepcopy returns [1.0, True]) -/
theorem anyOf_restores_differently :
    let O : Oracles := { reMatch := fun _ _ => true }
    let f : FieldDecl := .anyOf [.seqPos .list [.float {}, .enumLit [.bool true]] true {},
                                 .seqPos .list [.integer {}, .boolean] true {}]
    (match validate O f (.list [.int 1, .str "True"]) with
      | .ok (.list [.int 1, .bool true]) => true | _ => false) = true
    ∧ (match validate O f (.list [.int 1, .bool true]) with
      | .ok (.list [.float q, .bool true]) => q.num == 1 && q.den == 1 | _ => false) = true
    ∧ PyVal.pyEq (.list [.int 1, .bool true]) (.list [.float ⟨1, 1⟩, .bool true]) = true := by
  decide

/-! ### OneOf / AllOf keep the value as it was given (fixed in /repo 89fd84a)

For a short while (/repo 95931f6) OneOf / AllOf stored what the matched / first option built; such a value need not be
accepted by the field again (AllOf[Float(minimum=0), Integer(maximum=5)] given 2 stored 2.0; OneOf[Boolean, Enum[1, 3]]
given 'True' stored True), so `copy.deepcopy` and every clone of a valid instance raised.  The construct suite found it
(`copy-raises:deepcopy:{allOf,oneOf}`); since 89fd84a the given value is kept (as a private copy). -/

/-- the two inputs that exposed the regression: what is stored is the input itself, and it is accepted again; a clone
    of the instance succeeds -/
theorem fixed_stored_value_revalidates :
    let O : Oracles := { reMatch := fun _ _ => true }
    let fA : FieldDecl := .allOf [.float { min := some ⟨0, 1⟩ }, .integer { max := some ⟨5, 1⟩ }]
    let fO : FieldDecl := .oneOf [.boolean, .enumLit [.int 1, .int 3]]
    (match validate O fA (.int 2) with | .ok (.int 2) => true | _ => false) = true
    ∧ (match validate O fO (.str "True") with | .ok (.str s) => s == "True" | _ => false) = true
    ∧ (match runChain O (.struct { name := "A", required := [], addl := false, accepts := ["A"] } [("b", fA), ("c", fO)] [])
          (.inst "A" [("b", .int 2), ("c", .str "True")]) [.deepcopy, .shallowClone [], .castTo] with
        | .ok (.inst "A" _) => true | _ => false) = true := by
  decide

/-! ### non-vacuity -/

def exO : Oracles := { reMatch := fun _ _ => true }
def exCls : FieldDecl :=
  .struct { name := "A", required := ["a"], addl := false, accepts := ["A"] }
    [("a", .seqOf .list (.float { min := some ⟨0, 1⟩ }) { max := some 2, uniq := true }),
     ("b", .anyOf [.boolean, .noneF])]
    []

theorem soundness_example :
    wfDecl exCls = true
    ∧ (match construct exO exCls [("a", .list [.int 1, .float ⟨1, 2⟩]), ("b", .str "True")] with
        | .ok x => wellFormed exO exCls x
        | .error _ => false) = true
    ∧ (match runChain exO exCls (.inst "A" [("a", .list [.float ⟨1, 1⟩])])
          [.copy, .shallowClone [("b", .none)], .castTo] with
        | .ok x => wellFormed exO exCls x
        | .error _ => false) = true
    ∧ wellFormed exO exCls (.inst "A" [("a", .list [.int 1])]) = false
    ∧ wellFormed exO exCls (.inst "A" [("b", .bool true)]) = false := by
  decide

end Typedpy.C01
