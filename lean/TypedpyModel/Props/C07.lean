/-
  Props/C07.lean — property theorems for C07 (stub; to be filled in).
-/
namespace Typedpy.C07
end Typedpy.C07
