/-
  Props/C07.lean — key-renaming mappers apply consistently in both directions at every level.

  All theorems are about the model `Sem/Mappers.lean` (tied to /repo by the `mapper` correspondence
  suite) and quantify over all string functions `S` (camelCase / upper / split are opaque), all class
  trees, all mapper lists of any length, all instances of any nesting depth.

  Layout:
    * aggregation = pointwise composition (`agg_field_pointwise`, `ser_aggregate_pointwise_every_level`),
      hence `serialize = Spec.specSer` at every depth (`spec_ser_eq_ser`);
    * key-set law (`ser_keys_*`, `no_collision_if_injective`);
    * round trip under per-level hypotheses, any `keep_undefined`, classes with or without
      `_additional_properties = False` (`mapper_round_trip_K`, `mapper_round_trip`, `closed_tree_round_trip`);
    * `Sync` proved inside the decidable region `regionOK` for any depth, `camel_case_convert` on or off
      (`sync_in_region`, `mapper_round_trip_region`, `…_K`, `…_ascii`, `camel_idempotent_ascii`);
    * the process-wide cache, call level and with the nested-class entries threaded
      (`cache_transparent`, `history_transparent`, `cache_transparent_nested`, `history_transparent_nested`);
    * wrappers (`bad_mapper_key_rejected`), several bases (`mro_collection_example`), Map values
      (`serC_eq_ser`, `map_values_example`).

  What the code still violates (kept in the model, see the counterexample theorem and known finding):
    * `nested-resync` — the deserializer re-aggregates a nested class's mappers from the override it
      is handed and can resolve different keys than the serializer used (outside `regionOK`).
  Fixed in /repo and in the model (former counterexamples, now round-tripping `…_fixed` theorems):
  `fallback-capture` (f476845), `dns-blocks-deserialize` (e74486a), `inherited-closed-class-rejects-mapped-key`
  (0225533), `keep-undefined-leak` (005d815), `keep-undefined-leak:deserialize_map` (73883e4, `map_values_example`).
  `C07_statement` is the full-strength round trip; `mapper_round_trip` is the `_partial` theorem whose
  decidable hypotheses (`levelOK` at every level) exclude exactly the remaining region (`Sync` fails
  at a nested level); `mapper_round_trip_region` discharges them inside `regionOK`.
-/
import TypedpyModel.Lemmas.MappersRegion
import TypedpyModel.Lemmas.MappersCache
import TypedpyModel.Sem.MapperMro
namespace Typedpy.C07
open Typedpy.Mappers

/-! ### aggregation: dict-of-dicts algorithm = pointwise composition on the current key -/

/-- The entry of field `f` in the aggregated mapper — for serialization and for deserialization alike,
    for every class, every mapper list (any inheritance depth, explicit override, `camel_case_convert`)
    — is the composition `keyOf` of the mappers on the *current* key. -/
theorem agg_field_pointwise (S : StrFns) (b : Bool) (own : List Mapper) (fs : List Fld)
    (ov : Option MDict) (camel : Bool) (f : String) :
    lookupR (.fld f) (aggregate S b own fs ov camel) =
      if fs.any (fun fl => fl.name == f) then some (keyOf S (effList own ov camel) f) else none := by
  unfold aggregate keyOf
  rw [lookupR_foldAdd_fld, lookupR_baseFields]
  split <;> rfl

/-- serializer and deserializer resolve every field of the top-level class to the same entry -/
theorem ser_deser_same_field_keys (S : StrFns) (own : List Mapper) (fs : List Fld)
    (ov : Option MDict) (camel : Bool) (f : String) :
    lookupR (.fld f) (aggregate S true own fs ov camel)
      = lookupR (.fld f) (aggregate S false own fs ov camel) := by
  rw [agg_field_pointwise, agg_field_pointwise]

/-! ### the process-wide cache is transparent, whatever was serialized before -/

/-- every cache entry is the aggregate of the class / override / flag its key names.  `env` gives the
    class of an id, `dec` the override of a `json.dumps` text (i.e. the dump is injective). -/
def CacheOK (S : StrFns) (env : String → Cls) (dec : String → Option MDict) (cache : Cache) : Prop :=
  ∀ e ∈ cache, e.2 = aggregate S true (env e.1.1).own (env e.1.1).fields (dec e.1.2.1) e.1.2.2

/-- one call: the mapper handed out equals the freshly computed aggregate for *this* call's class,
    override and `camel_case_convert`, and the cache stays coherent -/
theorem cache_transparent (S : StrFns) (env : String → Cls) (dec : String → Option MDict)
    (cache : Cache) (h : CacheOK S env dec cache) (cid ovKey : String) (camel : Bool) :
    (cachedAggregate S cache cid ovKey (env cid).own (env cid).fields (dec ovKey) camel).1
        = aggregate S true (env cid).own (env cid).fields (dec ovKey) camel
    ∧ CacheOK S env dec
        (cachedAggregate S cache cid ovKey (env cid).own (env cid).fields (dec ovKey) camel).2 := by
  unfold cachedAggregate
  cases hl : lookupR (cid, ovKey, camel) cache with
  | some m =>
    have hm := mem_of_lookupR _ _ cache hl
    exact ⟨h _ hm, h⟩
  | none =>
    refine ⟨rfl, ?_⟩
    intro e he
    rcases List.mem_append.mp he with he | he
    · exact h e he
    · simp only [List.mem_singleton] at he
      subst he
      rfl

/-- the mappers handed out along a history of calls -/
def runHistory (S : StrFns) (env : String → Cls) (dec : String → Option MDict) :
    Cache → List CacheKey → List MDict
  | _, [] => []
  | cache, (cid, ovKey, camel) :: rest =>
    (cachedAggregate S cache cid ovKey (env cid).own (env cid).fields (dec ovKey) camel).1 ::
      runHistory S env dec
        (cachedAggregate S cache cid ovKey (env cid).own (env cid).fields (dec ovKey) camel).2 rest

/-- **Any history.**  Whatever classes were serialized before, in whatever order and with whatever
    flags, every call resolves exactly the mapper of its own class, override and
    `camel_case_convert` — the cache never leaks one call's flag into another. -/
theorem history_transparent (S : StrFns) (env : String → Cls) (dec : String → Option MDict) :
    ∀ (calls : List CacheKey) (cache : Cache), CacheOK S env dec cache →
      runHistory S env dec cache calls =
        calls.map (fun k => aggregate S true (env k.1).own (env k.1).fields (dec k.2.1) k.2.2)
  | [], _, _ => rfl
  | (cid, ovKey, camel) :: rest, cache, h => by
    have ht := cache_transparent S env dec cache h cid ovKey camel
    simp only [runHistory, List.map_cons]
    rw [ht.1, history_transparent S env dec rest _ ht.2]

theorem history_transparent_from_empty (S : StrFns) (env : String → Cls) (dec : String → Option MDict)
    (calls : List CacheKey) :
    runHistory S env dec [] calls =
      calls.map (fun k => aggregate S true (env k.1).own (env k.1).fields (dec k.2.1) k.2.2) :=
  history_transparent S env dec calls [] (fun _ h => by cases h)

/-! ### the cache with the nested-class entries threaded explicitly -/

/-- **One call, nested entries included.**  `cAggregate` mirrors `aggregate_serialization_mappers` as it
    runs: the base mapper asks the cache for every nested class (at any depth), computes and files
    what is missing.  If every entry of the cache is the aggregate its key names (`CacheOK`) and the
    ids of the nested classes name those classes (`envFs`), the mapper handed out is the freshly
    computed aggregate and the cache — with all the new nested entries — is coherent again. -/
theorem cache_transparent_nested (S : StrFns) (env : String → Cls) (dec : String → Option MDict)
    (hdec : dec "" = none) (cache : Cache) (h : CacheOK S env dec cache) (me ovKey : String) (camel : Bool)
    (he : envFs env (env me).fields) :
    (cAggregate S cache me ovKey (env me).own (env me).fields (dec ovKey) camel).1
        = aggregate S true (env me).own (env me).fields (dec ovKey) camel
    ∧ CacheOK S env dec
        (cAggregate S cache me ovKey (env me).own (env me).fields (dec ovKey) camel).2 :=
  c07_cAggregate_ok S env dec hdec cache h me ovKey camel he

/-- the mappers handed out along a history of calls, nested entries threaded -/
def runHistoryN (S : StrFns) (env : String → Cls) (dec : String → Option MDict) :
    Cache → List CacheKey → List MDict
  | _, [] => []
  | cache, (me, ovKey, camel) :: rest =>
    (cAggregate S cache me ovKey (env me).own (env me).fields (dec ovKey) camel).1 ::
      runHistoryN S env dec
        (cAggregate S cache me ovKey (env me).own (env me).fields (dec ovKey) camel).2 rest

/-- **Any history, nested entries included**: whatever was serialized before (outer classes, nested
    classes on their own, any flags), every call resolves exactly the mapper of its own class,
    override and `camel_case_convert`. -/
theorem history_transparent_nested (S : StrFns) (env : String → Cls) (dec : String → Option MDict)
    (hdec : dec "" = none) :
    ∀ (calls : List CacheKey) (cache : Cache), CacheOK S env dec cache →
      (∀ k ∈ calls, envFs env (env k.1).fields) →
      runHistoryN S env dec cache calls =
        calls.map (fun k => aggregate S true (env k.1).own (env k.1).fields (dec k.2.1) k.2.2)
  | [], _, _, _ => rfl
  | (me, ovKey, camel) :: rest, cache, h, he => by
    have ht := cache_transparent_nested S env dec hdec cache h me ovKey camel
      (he (me, ovKey, camel) (List.mem_cons_self ..))
    simp only [runHistoryN, List.map_cons]
    rw [ht.1, history_transparent_nested S env dec hdec rest _ ht.2
      (fun k hk => he k (List.mem_cons_of_mem _ hk))]


/-! ### key-set law -/

/-- One level: the key list of a serialized object is exactly the image of the populated fields under
    the resolved mapper, fields mapped to `DoNotSerialize` left out (as lists, in instance order). -/
theorem ser_keys_eq_image (S : StrFns) (camel : Bool) (m : MDict) (kvs : List (String × J)) :
    (serFields S camel m kvs).map (·.1) = imageKeys S camel m kvs :=
  serFields_keys S camel m kvs

mutual
/-- Every level: the serialized document obeys the key-set law at every nesting depth, nested
    structures (directly or inside lists) under their `"<field>._mapper"` entry. -/
theorem ser_keys_every_level (S : StrFns) (camel : Bool) :
    ∀ (x : J) (m : MDict), keysLaw S camel m x (ser S camel m x) = true
  | .null, m => by simp [ser, keysLaw, J.isNull]
  | .int i, m => by simp [ser, keysLaw]
  | .str s, m => by simp [ser, keysLaw]
  | .arr xs, m => by
    simp only [ser, keysLaw]
    exact list_law S camel xs m
  | .obj kvs, m => by
    simp only [ser, keysLaw, serFields_keys, beq_self_eq_true, Bool.true_and]
    exact fields_law S camel kvs m
theorem fields_law (S : StrFns) (camel : Bool) :
    ∀ (kvs : List (String × J)) (m : MDict), fieldsLaw S camel m kvs (serFields S camel m kvs) = true
  | [], m => by simp [serFields, fieldsLaw]
  | (f, v) :: rest, m => by
    have ih := fields_law S camel rest m
    simp only [serFields, fieldsLaw]
    cases hv : v.isNull
    · cases hk : serKey S camel m f
      · simpa using ih
      · simp only [Bool.false_eq_true, ↓reduceIte, Option.isNone_some, Bool.or_self]
        simp [ih, ser_keys_every_level S camel v (subSer m f)]
    · simpa using ih
theorem list_law (S : StrFns) (camel : Bool) :
    ∀ (xs : List J) (m : MDict), listLaw S camel m xs (serList S camel m xs) = true
  | [], m => by simp [serList, listLaw]
  | x :: xs, m => by
    simp [serList, listLaw, ser_keys_every_level S camel x m, list_law S camel xs m]
end

/-- a field mapped to `DoNotSerialize` contributes no key -/
theorem dropped_absent (S : StrFns) (camel : Bool) (m : MDict) (f : String) (v : J)
    (rest : List (String × J)) (h : lookupR (.fld f) m = some .dns) :
    serFields S camel m ((f, v) :: rest) = serFields S camel m rest := by
  have : serKey S camel m f = none := by simp [serKey, h]
  simp only [serFields, this]
  split <;> rfl

/-- No collision: when the image keys are pairwise distinct, every populated, not dropped field is
    found in the document under its own key with its own serialized value. -/
theorem no_collision_if_injective (S : StrFns) (camel : Bool) (m : MDict) (kvs : List (String × J))
    (hinj : nodupB (imageKeys S camel m kvs) = true) (f k : String) (v : J)
    (hm : (f, v) ∈ kvs) (hv : v.isNull = false) (hk : serKey S camel m f = some k) :
    lookupR k (serFields S camel m kvs) = some (ser S camel (subSer m f) v) := by
  apply lookupR_of_mem
  · rw [serFields_keys]; exact hinj
  · exact mem_serFields S camel m f k v hv hk kvs hm

/-! ### round trip -/

theorem scalar_step (S : StrFns) (camel : Bool) (m : MDict) (n : String) (opt : Bool) (v : J)
    (rest : List (String × J)) (h : scalarOK opt v = true) :
    dScalar n opt (.ok (if v.isNull then .null else ser S camel m v)) (.ok rest) = .ok ((n, v) :: rest) := by
  cases v <;> simp_all [scalarOK, dScalar, J.isNull, ser]

/-- a list of structures, each of which round-trips -/
theorem many_step (S : StrFns) (camel : Bool) (m : MDict) (g : J → DR J) (P : J → Bool)
    (hg : ∀ y, P y = true → g (ser S camel m y) = .ok y) :
    ∀ xs : List J, xs.all P = true → mapD g (serList S camel m xs) = .ok xs
  | [], _ => by simp [serList, mapD]
  | x :: xs, h => by
    simp only [List.all_cons, and_true_iff'] at h
    simp [serList, mapD, hg x h.1, many_step S camel m g P hg xs h.2]

theorem nested_step (S : StrFns) (camel : Bool) (m : MDict) (n : String) (opt : Bool) (shape : Shape)
    (g : J → DR J) (P : J → Bool) (v : J) (rest : List (String × J))
    (hg : ∀ y, P y = true → g (ser S camel m y) = .ok y)
    (h : nestedOK opt shape P v = true) :
    dNested n opt shape (.ok (if v.isNull then .null else ser S camel m v)) g (.ok rest)
      = .ok ((n, v) :: rest) := by
  cases v with
  | null => simp_all [nestedOK, dNested, J.isNull]
  | int i => simp [nestedOK] at h
  | str s => simp [nestedOK] at h
  | obj kvs =>
    cases shape with
    | many => simp [nestedOK] at h
    | one =>
      simp only [nestedOK] at h
      have := hg _ h
      simp only [ser] at this
      simp [dNested, J.isNull, ser, this]
  | arr xs =>
    cases shape with
    | one => simp [nestedOK] at h
    | many =>
      simp only [nestedOK] at h
      have := many_step S camel m g P hg xs h
      simp [dNested, J.isNull, ser, this]

theorem construct_noExtras (ca : Bool) (ex r : List (String × J)) (h : ex.isEmpty = true) :
    Mappers.construct ca ex r = .ok (.obj r) := by
  simp [Mappers.construct, h]

@[simp] theorem kuNext_false (camel : Bool) (d : List Mapper) : kuNext false camel d = false := by
  simp [kuNext]

@[simp] theorem exFree_false (S : StrFns) (camel co : Bool) (names : List String) (ms : MDict)
    (kvs : List (String × J)) : exFree S camel false co names ms kvs = true := by
  simp [exFree, Mappers.extrasOf]

mutual
/-- the deserializer, walking any suffix `fs` of the class's fields over the serialization of the whole
    level `all`, rebuilds the corresponding suffix `sub` of the instance -/
theorem rt_fields (S : StrFns) (camel : Bool) :
    ∀ (fs : List Fld) (ku : Bool) (ms M : MDict) (strict : Bool) (all sub : List (String × J)),
      levelOK S ms M strict all = true → (∀ p ∈ sub, p ∈ all) →
      rtFields S camel ku (levelOK S) ms M fs sub = true →
      deserFields S camel ku M strict (serFields S camel ms all) fs = .ok sub
  | [], ku, ms, M, strict, all, sub, _, _, h => by
    cases sub with
    | nil => simp [deserFields]
    | cons p r => simp [rtFields] at h
  | f :: fs, ku, ms, M, strict, all, sub, hl, hsub, h => by
    cases sub with
    | nil => simp [rtFields] at h
    | cons p rest =>
      simp only [rtFields, and_true_iff'] at h
      have ih := rt_fields S camel fs ku ms M strict all rest hl
        (fun q hq => hsub q (List.mem_cons_of_mem _ hq)) h.2
      simp only [deserFields]
      rw [ih]
      exact rt_fld S camel f ku ms M strict all p rest hl (hsub p (List.mem_cons_self ..)) h.1
theorem rt_fld (S : StrFns) (camel : Bool) :
    ∀ (f : Fld) (ku : Bool) (ms M : MDict) (strict : Bool) (all : List (String × J)) (p : String × J)
      (rest : List (String × J)),
      levelOK S ms M strict all = true → p ∈ all →
      rtFld S camel ku (levelOK S) ms M f p = true →
      deserFld S camel ku M strict (serFields S camel ms all) f (.ok rest) = .ok (p :: rest)
  | .scalar n opt, ku, ms, M, strict, all, (k, v), rest, hl, hm, h => by
    simp only [rtFld, and_true_iff', beq_iff_eq] at h
    obtain ⟨hk, hv⟩ := h
    subst hk
    simp only [deserFld]
    rw [procInput_ser S camel ms M strict all hl k v hm]
    exact scalar_step S camel _ k opt v rest hv
  | .nested n opt shape ci fs, ku, ms, M, strict, all, (k, v), rest, hl, hm, h => by
    simp only [rtFld, and_true_iff', beq_iff_eq] at h
    obtain ⟨hk, hv⟩ := h
    subst hk
    simp only [deserFld]
    rw [procInput_ser S camel ms M strict all hl k v hm]
    refine nested_step S camel (subSer ms k) k opt shape _ _ v rest ?_ hv
    intro y hy
    cases y with
    | obj kvs =>
      simp only [rtObj, and_true_iff'] at hy
      have := rt_fields S camel fs (kuNext ku camel ci.desL) (subSer ms k)
        (aggregate S false ci.desL fs (subDeser M k) camel) false
        kvs kvs hy.1 (fun q hq => hq) hy.2.2
      have hex := hy.2.1
      simp only [exFree] at hex
      simp [ser, dObjK, this, construct_noExtras _ _ _ hex]
    | null => simp [rtObj] at hy
    | int i => simp [rtObj] at hy
    | str s => simp [rtObj] at hy
    | arr xs => simp [rtObj] at hy
end

/-- **Round trip (partial statement), any `keep_undefined`.**  For every class tree, every resolved
    serializer mapper `ms`, every override / flags (`use_strict_mapping`, `keep_undefined` on or off,
    classes with or without `_additional_properties = False`, own or inherited), every instance of any
    nesting depth: if at every level the hypotheses `levelOK` hold — `Sync` (both sides resolve each
    field to the same string key, or both to `DoNotSerialize` and the field is absent), `NoDot`,
    populated keys distinct, absent fields' keys not populated — and no serialized key of a level is
    kept as an undefined attribute (`exFree`: `keep_undefined` off at that level, or the class's own
    `__dict__` forbids additional properties, or every key is a field name), deserializing the
    serialized document gives back the instance. -/
theorem mapper_round_trip_K (S : StrFns) (camel ku : Bool) (c : Cls) (ms : MDict) (ov : Option MDict)
    (strict : Bool) (x : J) (h : rtClsK S camel ku (levelOK S) c ms ov strict x = true) :
    deserK S camel ku c ov strict (ser S camel ms x) = .ok x := by
  cases x with
  | obj kvs =>
    simp only [rtClsK, and_true_iff'] at h
    have := rt_fields S camel c.fields (kuNext ku camel c.desL) ms (aggregate S false c.desL c.fields ov camel)
      strict kvs kvs h.1.1 (fun q hq => hq) h.2
    have hex := h.1.2
    simp only [exFree] at hex
    simp [deserK, ser, dObjK, this, construct_noExtras _ _ _ hex]
  | null => simp [rtClsK] at h
  | int i => simp [rtClsK] at h
  | str s => simp [rtClsK] at h
  | arr xs => simp [rtClsK] at h

/-- **Round trip (partial statement)** with `keep_undefined = False` (what `Deserializer(cls)` passes
    for a class that allows additional properties): no `exFree` hypothesis is left. -/
theorem mapper_round_trip (S : StrFns) (camel : Bool) (c : Cls) (ms : MDict) (ov : Option MDict)
    (strict : Bool) (x : J) (h : rtCls S camel (levelOK S) c ms ov strict x = true) :
    deser S camel c ov strict (ser S camel ms x) = .ok x :=
  mapper_round_trip_K S camel false c ms ov strict x h

/-- the same for the serializer's own aggregate: `Deserializer(cls, …).deserialize(Serializer(x, …).serialize(…)) == x` -/
theorem mapper_round_trip_serialize (S : StrFns) (camel : Bool) (c : Cls) (ov : Option MDict)
    (strict : Bool) (x : J)
    (h : rtCls S camel (levelOK S) c (aggregate S true c.own c.fields ov camel) ov strict x = true) :
    deser S camel c ov strict (serialize S camel c ov x) = .ok x :=
  mapper_round_trip S camel c _ ov strict x h

/-! ### classes that forbid additional properties, and `Deserializer`'s default -/

theorem exFree_closed (S : StrFns) (camel ku : Bool) (names : List String) (ms : MDict)
    (kvs : List (String × J)) : exFree S camel ku true names ms kvs = true := by
  simp [exFree, Mappers.extrasOf]

mutual
theorem rtFields_closed (S : StrFns) (camel : Bool) (lv : LevelPred) :
    ∀ (fs : List Fld) (ku : Bool) (ms M : MDict) (kvs : List (String × J)), closedFs fs = true →
      rtFields S camel ku lv ms M fs kvs = rtFields S camel false lv ms M fs kvs
  | [], _, _, _, _, _ => by simp [rtFields]
  | f :: fs, ku, ms, M, kvs, h => by
    simp only [closedFs, and_true_iff'] at h
    cases kvs with
    | nil => simp [rtFields]
    | cons p rest =>
      simp only [rtFields, rtFld_closed S camel lv f ku ms M p h.1,
        rtFields_closed S camel lv fs ku ms M rest h.2]
theorem rtFld_closed (S : StrFns) (camel : Bool) (lv : LevelPred) :
    ∀ (f : Fld) (ku : Bool) (ms M : MDict) (p : String × J), closedF f = true →
      rtFld S camel ku lv ms M f p = rtFld S camel false lv ms M f p
  | .scalar n o, _, _, _, _, _ => by simp [rtFld]
  | .mapped n o ci fs, _, _, _, _, _ => by simp [rtFld]
  | .nested n o sh ci fs, ku, ms, M, p, h => by
    simp only [closedF, and_true_iff'] at h
    simp only [rtFld, h.1, exFree_closed, kuNext_false, Bool.true_and]
    congr 2
    funext y
    cases y with
    | obj kvs =>
      simp only [rtObj]
      rw [rtFields_closed S camel lv fs (kuNext ku camel ci.desL) _ _ kvs h.2]
    | null => rfl
    | int i => rfl
    | str s => rfl
    | arr xs => rfl
end

/-- **Closed trees.**  If the class and every class nested in it forbid additional properties (in their
    own bodies or — since /repo 0225533 — by inheritance), no serialized key is ever kept as an undefined attribute: the hypotheses of the
    round trip do not depend on `keep_undefined`, and `deserialize(serialize x) = x` for every
    `keep_undefined` under the level hypotheses alone. -/
theorem closed_tree_round_trip (S : StrFns) (camel ku : Bool) (c : Cls) (ms : MDict) (ov : Option MDict)
    (strict : Bool) (x : J) (hc : c.closedAny = true) (hcl : closedFs c.fields = true)
    (h : rtCls S camel (levelOK S) c ms ov strict x = true) :
    deserK S camel ku c ov strict (ser S camel ms x) = .ok x := by
  apply mapper_round_trip_K
  cases x with
  | obj kvs =>
    simp only [rtCls, rtClsK, and_true_iff', hc, exFree_closed, kuNext_false] at h ⊢
    refine ⟨⟨h.1.1, trivial⟩, ?_⟩
    rw [rtFields_closed S camel _ c.fields _ _ _ kvs hcl]
    exact h.2
  | null => simp [rtCls, rtClsK] at h
  | int i => simp [rtCls, rtClsK] at h
  | str s => simp [rtCls, rtClsK] at h
  | arr xs => simp [rtCls, rtClsK] at h

/-- `Deserializer(cls).deserialize` passes `keep_undefined = False` by default for every class (since
    /repo 005d815): with the default nothing is ever kept as an undefined attribute, whatever the classes
    of the tree say — `rtClsK false` is `rtCls`, so `mapper_round_trip` has no `exFree` hypothesis -/
theorem deserializer_default_keeps_nothing (S : StrFns) (camel : Bool) (c : Cls) (ms : MDict)
    (ov : Option MDict) (strict : Bool) (x : J) (lv : LevelPred) :
    rtClsK S camel false lv c ms ov strict x = rtCls S camel lv c ms ov strict x
    ∧ deserK S camel false c ov strict (ser S camel ms x) = deser S camel c ov strict (ser S camel ms x) :=
  ⟨rfl, rfl⟩

/-- **No fallback capture.**  Under the level hypotheses an absent field reads nothing from the
    serialized level — neither under its key nor under its own name — with or without
    `use_strict_mapping` (before /repo f476845 this needed the extra hypothesis `NoFallbackCapture`). -/
theorem absent_field_not_captured (S : StrFns) (camel : Bool) (ms M : MDict) (strict : Bool)
    (kvs : List (String × J)) (hl : levelOK S ms M strict kvs = true) (f : String)
    (hm : (f, J.null) ∈ kvs) :
    procInput S M strict (serFields S camel ms kvs) f = .ok .null := by
  have := procInput_ser S camel ms M strict kvs hl f .null hm
  simpa [J.isNull] using this

/-- the full-strength statement the property asks for: inside the demanded domain `levelDom` (no
    populated field dropped, no dotted key, populated keys distinct and different from absent fields'
    keys — at every level) the round trip holds.  FALSE for the code, see the counterexamples. -/
def C07_statement : Prop :=
  ∀ (S : StrFns) (camel : Bool) (c : Cls) (ov : Option MDict) (strict : Bool) (x : J),
    rtCls S camel (levelDom S) c (aggregate S true c.own c.fields ov camel) ov strict x = true →
    deser S camel c ov strict (serialize S camel c ov x) = .ok x

/-! ### flat classes: everything but injectivity, NoDot and NoFallbackCapture is discharged -/

def allScalar (fs : List Fld) : Bool := fs.all fun f => match f with | .scalar _ _ => true | _ => false

/-- the instance lists exactly the fields of a flat class, in order, with integer / absent values -/
def flatConf : List Fld → List (String × J) → Bool
  | [], kvs => kvs.isEmpty
  | f :: fs, kvs => (match kvs with
    | [] => false
    | p :: rest => (p.1 == f.name) && scalarOK f.opt p.2 && flatConf fs rest)

theorem flat_rtFields (S : StrFns) (camel ku : Bool) (lv : LevelPred) (ms M : MDict) :
    ∀ (fs : List Fld) (kvs : List (String × J)), allScalar fs = true → flatConf fs kvs = true →
      rtFields S camel ku lv ms M fs kvs = true
  | [], kvs, _, h => by simpa [rtFields, flatConf] using h
  | f :: fs, kvs, hs, h => by
    cases kvs with
    | nil => simp [flatConf] at h
    | cons p rest =>
      simp only [allScalar, List.all_cons, and_true_iff'] at hs
      simp only [flatConf, and_true_iff'] at h
      cases f with
      | nested n o sh own fs' => simp at hs
      | mapped n o ci fs' => simp at hs
      | scalar n o =>
        simp only [rtFields, rtFld, and_true_iff']
        exact ⟨⟨h.1.1, h.1.2⟩, flat_rtFields S camel ku lv ms M fs rest hs.2 h.2⟩

/-- a field's entry is a string key, or `DoNotSerialize` with the field absent -/
def entryOK (m : MDict) (p : String × J) : Bool := isKeyAt m p.1 || (isDnsAt m p.1 && p.2.isNull)

theorem syncOK_top (S : StrFns) (own : List Mapper) (fs : List Fld) (ov : Option MDict) (camel : Bool)
    (kvs : List (String × J))
    (hk : ∀ p ∈ kvs, entryOK (aggregate S true own fs ov camel) p = true) :
    syncOK (aggregate S true own fs ov camel) (aggregate S false own fs ov camel) kvs = true := by
  unfold syncOK
  rw [List.all_eq_true]
  intro p hp
  have e := ser_deser_same_field_keys S own fs ov camel p.1
  have h1 := hk p hp
  simp only [entryOK, Bool.or_eq_true, and_true_iff'] at h1
  have hK : isKeyAt (aggregate S false own fs ov camel) p.1 = isKeyAt (aggregate S true own fs ov camel) p.1 := by
    unfold isKeyAt; rw [e]
  have hD : isDnsAt (aggregate S false own fs ov camel) p.1 = isDnsAt (aggregate S true own fs ov camel) p.1 := by
    unfold isDnsAt; rw [e]
  have h3 : kOf (aggregate S false own fs ov camel) p.1 = kOf (aggregate S true own fs ov camel) p.1 := by
    unfold kOf; rw [e]
  rcases h1 with h1 | ⟨h1, h2⟩
  · simp [hK, h1, h3]
  · simp [hD, h1, h2]

/-- **Flat classes, any hierarchy.**  For a class with scalar fields only and *any* list of mappers
    (any inheritance depth, lists, enum mappers, override, `camel_case_convert`, strict or not): if
    every field is resolved to a string key or is an absent `DoNotSerialize` field, no key is dotted,
    the populated keys are distinct and differ from absent fields' keys, then
    `deserialize(serialize(x)) = x`.  `Sync` is *proved* here, not assumed. -/
theorem flat_round_trip (S : StrFns) (camel : Bool) (c : Cls) (ov : Option MDict) (strict : Bool)
    (kvs : List (String × J)) (hdes : c.des = none)
    (hflat : allScalar c.fields = true) (hconf : flatConf c.fields kvs = true)
    (hkeys : ∀ p ∈ kvs, entryOK (aggregate S true c.own c.fields ov camel) p = true)
    (hdot : noDotOK S (aggregate S true c.own c.fields ov camel) kvs = true)
    (hinj : injOK (aggregate S true c.own c.fields ov camel) kvs = true)
    (habs : absentKeyOK (aggregate S true c.own c.fields ov camel) kvs = true) :
    deser S camel c ov strict (serialize S camel c ov (.obj kvs)) = .ok (.obj kvs) := by
  apply mapper_round_trip_serialize
  have hd : c.desL = c.own := by simp [Cls.desL, hdes]
  simp only [rtCls, rtClsK, levelOK, and_true_iff', hd, kuNext_false, exFree_false]
  exact ⟨⟨⟨⟨⟨syncOK_top S c.own c.fields ov camel kvs hkeys, hdot⟩, hinj⟩, habs⟩, trivial⟩,
    flat_rtFields S camel _ _ _ _ c.fields kvs hflat hconf⟩


/-! ### nested levels: the serializer's aggregate *is* the specification, and `Sync` holds in a region -/

/-- **`Sem.ser = Spec.specSer` at every nesting depth**: for every class tree (distinct field names per
    level), every mapper list / override / `camel_case_convert` and every fitting instance, the
    serialized document is the one the pointwise specification prescribes — nested structures under
    `own ++ (what the outer list lets through)`.  The dict-of-dicts algorithm, including the "latest
    mapper already maps to this value" branch on nested `"<field>._mapper"` entries, is a refinement
    of the composition of mapper lists. -/
theorem spec_ser_eq_ser (S : StrFns) (camel : Bool) (c : Cls) (ov : Option MDict) (x : J)
    (hw : wfFields c.fields = true) (hc : conf c.fields x = true) :
    serialize S camel c ov x = specSer S (effList c.own ov camel) c.fields x :=
  c07_ser_eq_spec S camel x _ _ c.fields (c07_aggregate_agrees S c.own c.fields ov camel hw) hc

/-- the serializer's resolved mapper agrees with the mapper lists at every depth -/
theorem ser_aggregate_pointwise_every_level (S : StrFns) (c : Cls) (ov : Option MDict) (camel : Bool)
    (hw : wfFields c.fields = true) :
    AgreesFs S (aggregate S true c.own c.fields ov camel) (effList c.own ov camel) c.fields :=
  c07_aggregate_agrees S c.own c.fields ov camel hw

theorem region_desL (S : StrFns) (c : Cls) (ov : Option MDict) (camel : Bool)
    (h : regionOK S c ov camel = true) : c.desL = c.own := by
  simp only [regionOK, and_true_iff'] at h
  have := h.1.1.1.1
  unfold Cls.desL
  cases hd : c.des with
  | none => rfl
  | some l => rw [hd] at this; simp at this

/-- inside `regionOK` the deserializer's aggregate of the top class is the shape list of its mapper list -/
theorem deser_aggregate_shape (S : StrFns) (c : Cls) (ov : Option MDict) (camel : Bool)
    (h : regionOK S c ov camel = true) :
    aggregate S false c.desL c.fields ov camel = shapeFields S (effList c.own ov camel) c.fields := by
  rw [region_desL S c ov camel h]
  simp only [regionOK, and_true_iff'] at h
  exact c07_foldAdd_base S c.fields _ h.1.1.2

/-! ### plain mappers satisfy the step conditions of the region -/

/-- an enum mapper, or a dict without `"<field>._mapper"` entries -/
def plainMapper : Mapper → Bool
  | .dict d => d.all fun p => match p.1 with | .fld _ => true | .nest _ => false
  | _ => true

theorem plain_lookup_nest (d : MDict) (c : String) (h : plainMapper (.dict d) = true) :
    lookupR (.nest c) d = none := by
  apply lookupR_none_of_not_mem
  intro hm
  obtain ⟨p, hp, hpk⟩ := List.mem_map.mp hm
  unfold plainMapper at h
  have := all_mem h hp
  rw [hpk] at this
  simp at this

/-- **The per-round step conditions of the region are automatic for plain mappers**: an enum mapper or a
    dict without `"<field>._mapper"` entries never takes the 'already maps to this value' branch on a
    nested entry and lets the same sub-mapper through in both directions — so for a class tree whose
    mappers are all plain, `prefixOK` only asks that no two entries collide. -/
theorem step_ok_of_plain (S : StrFns) (m : Mapper) (P : List Mapper) (f : Fld) (h : plainMapper m = true) :
    stepFldOK S m P f = true := by
  cases f with
  | scalar n o => rfl
  | mapped n o ci fs => rfl
  | nested n o sh ci fs =>
    cases m with
    | lower => simp [stepFldOK, stepNestOK, hit, subAgree]
    | camel => simp [stepFldOK, stepNestOK, hit, subAgree]
    | dict d =>
      simp [stepFldOK, stepNestOK, hit, subAgree, plain_lookup_nest d _ h]

/-- `_convert_to_camelcase` is idempotent on the driver's ASCII strings (its result has no underscore) -/
theorem camel_idempotent_ascii (s : String) : asciiFns.camel (asciiFns.camel s) = asciiFns.camel s :=
  c07_camelAscii_idem s

/-- **`Sync` is a theorem inside the region.**  `regionOK` is a decidable predicate on the class tree,
    its mapper lists and the `camel_case_convert` flag alone.  It asks, for the top class and every
    nested class at any depth: (1) in every aggregation round no two entries collide (nested entries
    are re-keyed by the mapped name) and every nested entry is stepped by the deserializer with the
    sub-mapper the serializer uses (`prefixOK`: always so for enum mappers and dicts without
    `"<field>._mapper"` entries; for an explicit nested entry it means the entry is keyed by the name
    the field has at that round and is not dict-equal to the current nested aggregate); (2) every nested
    field is mapped to a string key under which its re-keyed nested entry is found (`trackOK`); (3) re-aggregating
    a class under the dict it is handed lands, entry by entry, on that dict again (`reaggOK`: so when a class two or
    more levels down has no own mapper, or has one that the mappers reaching it from above leave alone);
    (4) no `_deserialization_mapper`.  There the level hypotheses `levelOK` (with `Sync`) follow at
    *every* depth from the demanded domain.  With `camel_case_convert` the deserializer applies
    `TO_CAMELCASE` once more at every level; this is harmless because the conversion is idempotent
    (`hc`, proved for the ASCII functions in `camel_idempotent_ascii`). -/
theorem sync_in_region (S : StrFns) (c : Cls) (ov : Option MDict) (camel ku strict : Bool) (x : J)
    (hc : camel = true → ∀ s, S.camel (S.camel s) = S.camel s)
    (hreg : regionOK S c ov camel = true)
    (h : rtClsK S camel ku (levelDomE S) c (aggregate S true c.own c.fields ov camel) ov strict x = true) :
    rtClsK S camel ku (levelOK S) c (aggregate S true c.own c.fields ov camel) ov strict x = true := by
  have hM := deser_aggregate_shape S c ov camel hreg
  have hdl := region_desL S c ov camel hreg
  simp only [regionOK, and_true_iff'] at hreg
  obtain ⟨⟨⟨⟨_, hw⟩, _⟩, hnod⟩, hnested⟩ := hreg
  cases x with
  | obj kvs =>
    simp only [rtClsK, and_true_iff'] at h ⊢
    refine ⟨⟨c07_level_of_lookups S _ _ strict kvs h.1.1
      (fun p _ => by rw [hdl]; exact (ser_deser_same_field_keys S c.own c.fields ov camel p.1).symm), h.1.2⟩, ?_⟩
    rw [hM] at h ⊢
    exact c07_sync_fields S camel hc c.fields c.fields _ _ _ _ kvs (c07_camelRel_top camel c.own ov) hnod
      (c07_aggregate_agrees S c.own c.fields ov camel hw) (fun g hg => hg) hnested h.2
  | null => simp [rtClsK] at h
  | int i => simp [rtClsK] at h
  | str s => simp [rtClsK] at h
  | arr xs => simp [rtClsK] at h

/-- **Round trip, unconditional on the region, any depth, `camel_case_convert` on or off.**  For every
    class tree and mapper lists in `regionOK` and every instance inside the demanded domain at every
    level (every field resolved to a string key or an absent `DoNotSerialize` field, no dotted key,
    populated keys distinct and not an absent field's key): `deserialize(serialize(x)) = x`, strict or
    not.  No `Sync` hypothesis. -/
theorem mapper_round_trip_region (S : StrFns) (c : Cls) (ov : Option MDict) (camel strict : Bool) (x : J)
    (hc : camel = true → ∀ s, S.camel (S.camel s) = S.camel s)
    (hreg : regionOK S c ov camel = true)
    (h : rtCls S camel (levelDomE S) c (aggregate S true c.own c.fields ov camel) ov strict x = true) :
    deser S camel c ov strict (serialize S camel c ov x) = .ok x :=
  mapper_round_trip_serialize S camel c ov strict x (sync_in_region S c ov camel false strict x hc hreg h)

/-- the same for any `keep_undefined` and classes that forbid additional properties: inside the region
    and the demanded domain, if no serialized key of a level is kept as an undefined attribute
    (`exFree` at every level, part of `rtClsK`), the round trip holds -/
theorem mapper_round_trip_region_K (S : StrFns) (c : Cls) (ov : Option MDict) (camel ku strict : Bool) (x : J)
    (hc : camel = true → ∀ s, S.camel (S.camel s) = S.camel s)
    (hreg : regionOK S c ov camel = true)
    (h : rtClsK S camel ku (levelDomE S) c (aggregate S true c.own c.fields ov camel) ov strict x = true) :
    deserK S camel ku c ov strict (serialize S camel c ov x) = .ok x :=
  mapper_round_trip_K S camel ku c _ ov strict x (sync_in_region S c ov camel ku strict x hc hreg h)

/-- the same for the driver's string functions: no hypothesis on the strings left -/
theorem mapper_round_trip_region_ascii (c : Cls) (ov : Option MDict) (camel strict : Bool) (x : J)
    (hreg : regionOK asciiFns c ov camel = true)
    (h : rtCls asciiFns camel (levelDomE asciiFns) c (aggregate asciiFns true c.own c.fields ov camel)
      ov strict x = true) :
    deser asciiFns camel c ov strict (serialize asciiFns camel c ov x) = .ok x :=
  mapper_round_trip_region asciiFns c ov camel strict x (fun _ => camel_idempotent_ascii) hreg h

/-! ### wrapper validation -/

/-- An explicit mapper with a key whose first dotted component is not a field name is rejected when
    the `Serializer` / `Deserializer` wrapper is built. -/
theorem bad_mapper_key_rejected (S : StrFns) (names keys : List String) (k h : String) (t : List String)
    (hk : k ∈ keys) (hs : S.split k = h :: t) (hn : h ∉ names) : wrapperOk S names keys = false := by
  cases hw : wrapperOk S names keys with
  | false => rfl
  | true =>
    unfold wrapperOk at hw
    have := all_mem hw hk
    simp only [hs] at this
    exact absurd (by simpa using this) hn

/-- conversely a mapper whose keys all start with field names is accepted -/
theorem good_mapper_keys_accepted (S : StrFns) (names keys : List String)
    (h : ∀ k ∈ keys, ∃ hd t, S.split k = hd :: t ∧ hd ∈ names) : wrapperOk S names keys = true := by
  unfold wrapperOk
  rw [List.all_eq_true]
  intro k hk
  obtain ⟨hd, t, hs, hm⟩ := h k hk
  simp [hs, hm]

/-! ### kernel-checked examples: the two fixed findings, the open finding, non-vacuity -/

/-- string functions without any string computation: enough for the counterexamples -/
def idFns : StrFns := ⟨id, id, fun s => [s]⟩

def swCls : Cls := { own := [.dict [(.fld "a", .key "b"), (.fld "b", .key "a")]], fields := [.scalar "a" true, .scalar "b" false] }
def swInst : J := .obj [("a", .null), ("b", .int 2)]

def isOkEq (r : DR J) (f : J → Bool) : Bool := match r with | .ok y => f y | .error _ => false
def isErr (r : DR J) : Bool := match r with | .ok _ => false | .error _ => true
def jEq : J → J → Bool
  | .obj [("a", .null), ("b", .int i)], .obj [("a", .null), ("b", .int j)] => i == j
  | _, _ => false

/-- former finding `fallback-capture` (fixed by /repo f476845): mapper `{'a':'b','b':'a'}`, `a`
    optional and absent: `Sw(b=2)` serializes to `{'a': 2}` and, *without* `use_strict_mapping`, now
    deserializes to `Sw(b=2)` again; the instance satisfies the hypotheses of `mapper_round_trip`. -/
theorem fallback_capture_fixed :
    rtCls idFns false (levelOK idFns) swCls (aggregate idFns true swCls.own swCls.fields none false)
        none false swInst = true
    ∧ isOkEq (.ok (serialize idFns false swCls none swInst))
        (fun d => match d with | .obj [("a", .int 2)] => true | _ => false) = true
    ∧ isOkEq (deser idFns false swCls none false (serialize idFns false swCls none swInst))
        (fun y => jEq y swInst) = true := by
  decide

def dnCls : Cls := { own := [.dict [(.fld "a", .dns)]], fields := [.scalar "a" true, .scalar "b" false] }

/-- former finding `dns-blocks-deserialize` (fixed by /repo e74486a): `a` mapped to `DoNotSerialize`,
    optional and absent — the class can be deserialized and the instance round-trips; it satisfies the
    hypotheses of `mapper_round_trip` (the `DoNotSerialize` case of `Sync`). -/
theorem dns_deserialize_fixed :
    rtCls idFns false (levelOK idFns) dnCls (aggregate idFns true dnCls.own dnCls.fields none false)
        none false swInst = true
    ∧ isOkEq (deser idFns false dnCls none false (serialize idFns false dnCls none swInst))
        (fun y => jEq y swInst) = true := by
  decide

/-- a populated `DoNotSerialize` field is dropped, so the instance is outside the demanded domain
    (no round trip is claimed) -/
theorem dns_populated_outside_domain :
    rtCls idFns false (levelDom idFns) dnCls (aggregate idFns true dnCls.own dnCls.fields none false)
        none false (.obj [("a", .int 1), ("b", .int 2)]) = false := by
  decide

/-- `upper` on the three keys of the example -/
def upFns : StrFns :=
  ⟨id, fun s => if s = "m" then "M" else if s = "g" then "G" else if s = "z" then "Z"
      else if s = "b" then "B" else s, fun s => [s]⟩

def gFlds : List Fld := [.scalar "a" false, .scalar "b" false]
def midFlds : List Fld := [.nested "g" false .one { ser := [.dict [(.fld "a", .key "z")]] } gFlds]
def topCls : Cls := { own := [.lower], fields := [.nested "m" false .one { ser := [] } midFlds] }
def topInst : J := .obj [("m", .obj [("g", .obj [("a", .int 1), ("b", .int 2)])])]

/-- finding `nested-resync`: `Top(TO_LOWERCASE) → Mid → G({'a':'z'})`: the serializer writes `G.a`
    under `Z`; the deserializer, re-aggregating `G`'s own mapper under the override it was handed,
    looks for `z`, and the required field is missing. -/
theorem nested_resync_counterexample :
    rtCls upFns false (levelDom upFns) topCls (aggregate upFns true topCls.own topCls.fields none false)
        none false topInst = true
    ∧ isErr (deser upFns false topCls none false (serialize upFns false topCls none topInst)) = true := by
  decide

/-- the full-strength statement is false of the model (and, by correspondence, of the code) -/
theorem C07_statement_false : ¬ C07_statement := by
  intro h
  have h1 := nested_resync_counterexample
  have h2 := h upFns false topCls none false topInst h1.1
  have h3 := h1.2
  rw [h2] at h3
  revert h3
  decide

def rtCls2 : Cls :=
  { own := [.dict [(.fld "a", .key "k"), (.nest "n", .sub [(.fld "p", .key "q")])], .lower],
    fields := [.scalar "a" false, .scalar "o" true,
      .nested "n" false .many { ser := [.dict [(.fld "p", .key "r")]] } [.scalar "p" false, .scalar "s" true]] }
def rtInst2 : J :=
  .obj [("a", .int 1), ("o", .null),
        ("n", .arr [.obj [("p", .int 3), ("s", .null)], .obj [("p", .int 4), ("s", .int 5)]])]

/-- non-vacuity: a two-level hierarchy with a dict mapper, a nested `._mapper` entry, an enum mapper
    and a list of nested structures satisfies every hypothesis of `mapper_round_trip`, and the
    serialized keys are the renamed ones -/
theorem round_trip_example :
    rtCls upFns false (levelOK upFns) rtCls2 (aggregate upFns true rtCls2.own rtCls2.fields none false)
        none false rtInst2 = true
    ∧ imageKeys upFns false (aggregate upFns true rtCls2.own rtCls2.fields none false)
        [("a", .int 1), ("o", .null), ("n", .arr [])] = ["k", "n"] := by
  decide

def rgG : List Fld := [.scalar "a" false, .scalar "b" true]
def rgMid : List Fld := [.nested "g" false .one { ser := [] } rgG, .scalar "z" false]
def rgTop : Cls :=
  { own := [.dict [(.fld "m", .key "mm")], .lower],
    fields := [.nested "m" false .many { ser := [.dict [(.fld "g", .key "gg")]] } rgMid, .scalar "a" true] }
def rgInst : J :=
  .obj [("m", .arr [.obj [("g", .obj [("a", .int 1), ("b", .null)]), ("z", .int 3)],
                    .obj [("g", .obj [("a", .int 2), ("b", .int 5)]), ("z", .int 4)]]),
        ("a", .null)]

/-- non-vacuity of `mapper_round_trip_region`: a three-level tree (dict + TO_LOWERCASE on the top class,
    a dict on the class nested in a list, a grand-nested class) is inside the region, its instance
    inside the demanded domain, the grand-nested key is the upper-cased one; and the class tree of
    the open finding `nested-resync` (own rename two levels down) is outside the region -/
theorem region_example :
    regionOK upFns rgTop none false = true
    ∧ rtCls upFns false (levelDomE upFns) rgTop (aggregate upFns true rgTop.own rgTop.fields none false)
        none false rgInst = true
    ∧ isOkEq (.ok (serialize upFns false rgTop none rgInst))
        (fun d => match d with
          | .obj [("mm", .arr [.obj [("gg", .obj [("a", .int 1)]), ("Z", .int 3)], _])] => true
          | _ => false) = true
    ∧ regionOK upFns topCls none false = false
    ∧ regionOK upFns rgTop none true = true
    ∧ rtCls upFns true (levelDomE upFns) rgTop (aggregate upFns true rgTop.own rgTop.fields none true)
        none true rgInst = true := by
  decide

/-! ### undefined keys: classes that forbid additional properties -/

def kuN : List Fld := [.scalar "q" false]
/-- `class N: q: int; _serialization_mapper = {'q': 'k'}`, `class O: n: N; z: int; _additional_properties = False` -/
def kuO : Cls :=
  { own := [], closedOwn := true, closedAny := true,
    fields := [.nested "n" false .one { ser := [.dict [(.fld "q", .key "k")]] } kuN, .scalar "z" false] }
def kuInst : J := .obj [("n", .obj [("q", .int 1)]), ("z", .int 2)]

/-- former finding `keep-undefined-leak` (fixed by /repo 005d815): `Deserializer(O).deserialize` used to
    turn `keep_undefined` on because `O` is closed; `O` itself drops undefined keys but handed the flag to
    the open nested class `N`, which kept its renamed key `k` as an extra attribute.  The default is now
    `False` for every class: the instance satisfies the hypotheses of `mapper_round_trip` and round-trips.
    (With an explicit `keep_undefined=True` the nested open class still keeps `k` — by design — and
    `exFree` fails: last conjunct.) -/
theorem keep_undefined_leak_fixed :
    rtCls idFns false (levelOK idFns) kuO (aggregate idFns true kuO.own kuO.fields none false) none false kuInst = true
    ∧ isOkEq (deser idFns false kuO none false (serialize idFns false kuO none kuInst))
        (fun y => match y with
          | .obj [("n", .obj [("q", .int 1)]), ("z", .int 2)] => true
          | _ => false) = true
    ∧ rtClsK idFns false true (levelOK idFns) kuO (aggregate idFns true kuO.own kuO.fields none false)
        none false kuInst = false
    ∧ isOkEq (deserK idFns false true kuO none false (serialize idFns false kuO none kuInst))
        (fun y => match y with
          | .obj [("n", .obj [("q", .int 1), ("k", .int 1)]), ("z", .int 2)] => true
          | _ => false) = true := by
  decide

/-- `class P: q: int; _additional_properties = False; _serialization_mapper = {'q': 'k'}`, `class C(P): z: int`:
    closed by inheritance only -/
def kuC : Cls :=
  { own := [.dict [(.fld "q", .key "k")]], closedOwn := false, closedAny := true,
    fields := [.scalar "q" false, .scalar "z" false] }

/-- former finding `inherited-closed-class-rejects-mapped-key` (fixed by /repo 0225533): the subclass's
    own `__dict__` does not forbid additional properties, so the renamed key `k` used to be passed to the
    constructor as an undefined key and refused.  The inherited flag now decides: nothing is passed, and
    the instance round-trips even with `keep_undefined` on. -/
theorem inherited_closed_fixed :
    rtClsK idFns false true (levelOK idFns) kuC (aggregate idFns true kuC.own kuC.fields none false) none false
        (.obj [("q", .int 1), ("z", .int 2)]) = true
    ∧ isOkEq (deserK idFns false true kuC none false
        (serialize idFns false kuC none (.obj [("q", .int 1), ("z", .int 2)])))
        (fun y => match y with | .obj [("q", .int 1), ("z", .int 2)] => true | _ => false) = true := by
  decide

/-- a tree in which *every* class forbids additional properties in its own body round-trips whatever
    `keep_undefined` is: `exFree` holds at every level (non-vacuity of `mapper_round_trip_K` with
    `keep_undefined` on) -/
def kuAll : Cls :=
  { own := [.dict [(.fld "z", .key "zz")]], closedOwn := true, closedAny := true,
    fields := [.nested "n" false .one { ser := [.dict [(.fld "q", .key "k")]], closedOwn := true, closedAny := true } kuN,
               .scalar "z" false] }

theorem closed_round_trip_example :
    rtClsK idFns false true (levelOK idFns) kuAll (aggregate idFns true kuAll.own kuAll.fields none false)
        none false kuInst = true
    ∧ regionOK idFns kuAll none false = true := by
  decide

def cacheG : List Fld := [.scalar "a" false]
def cacheMid : List Fld := [.nested "g" false .one { ser := [.dict [(.fld "a", .key "z")]], cid := "G" } cacheG]
def cacheTopFs : List Fld := [.nested "m" false .one { ser := [.lower], cid := "Mid" } cacheMid]

/-- non-vacuity: serializing `Top -> Mid -> G` from an empty cache files `G`, `Mid` and `Top` (in this
    order); a later call on `Mid` alone is answered from the cache -/
theorem cache_nested_example :
    ((cAggregate upFns [] "Top" "" [] cacheTopFs none false).2.map (·.1))
        = [("G", "", false), ("Mid", "", false), ("Top", "", false)]
    ∧ ((cAggregate upFns (cAggregate upFns [] "Top" "" [] cacheTopFs none false).2
          "Mid" "" [.lower] cacheMid none false).2.length) = 3 := by
  decide

def adG : List Fld := [.scalar "a" false, .scalar "b" true]
def adMid : List Fld := [.nested "g" false .one { ser := [.dict [(.fld "a", .key "z")]] } adG, .scalar "y" false]
def adTop : Cls :=
  { own := [.dict [(.fld "m", .key "mm")]],
    fields := [.nested "m" false .one { ser := [.dict [(.fld "g", .key "gg")]] } adMid] }
def adInst : J := .obj [("m", .obj [("g", .obj [("a", .int 1), ("b", .null)]), ("y", .int 3)])]

/-- non-vacuity of the second alternative of the region: a tree of dict mappers only may rename at *every*
    depth (the grand-nested class `G` renames `a` to `z`, the very shape of finding `nested-resync` but
    without an enum mapper above it) — inside the region, inside the domain, and the keys are the renamed
    ones at every level -/
theorem region_all_dict_example :
    regionOK idFns adTop none false = true
    ∧ rtCls idFns false (levelDomE idFns) adTop (aggregate idFns true adTop.own adTop.fields none false)
        none false adInst = true
    ∧ isOkEq (.ok (serialize idFns false adTop none adInst))
        (fun d => match d with
          | .obj [("mm", .obj [("gg", .obj [("z", .int 1)]), ("y", .int 3)])] => true
          | _ => false) = true := by
  decide

/-! ### several bases: the order of collection -/

def mTag : Mapper → String
  | .lower => "L"
  | .camel => "C"
  | .dict _ => "D"

/-- `class A: _serialization_mapper = TO_LOWERCASE`, `class B(A)`, `class C(A): … = TO_CAMELCASE`,
    `class D(B, C): … = {}` -/
def diamond : List ClsNode :=
  [{ name := "A", bases := [], ser := some (.single .lower) },
   { name := "B", bases := ["A"] },
   { name := "C", bases := ["A"], ser := some (.single .camel), closed := true },
   { name := "D", bases := ["B", "C"], ser := some (.single (.dict [])) }]

/-- the diamond: linearisation `D, B, C, A`; the mappers are collected along the *reversed* linearisation
    with `getattr` per class, so `B` (which defines nothing) contributes `A`'s mapper a second time, after
    `C`'s; `D` forbids additional properties by inheritance from `C` only; and a plain chain collects
    exactly what the single-inheritance `collect` does -/
theorem mro_collection_example :
    mroIn (mroTable diamond) "D" = ["D", "B", "C", "A"]
    ∧ (cinfoOf diamond "D").ser.map mTag = ["L", "C", "L", "D"]
    ∧ (cinfoOf diamond "D").closedAny = true ∧ (cinfoOf diamond "D").closedOwn = false
    ∧ (cinfoOf diamond "D").des.isNone = true
    ∧ (cinfoOf (chainGraph 0 [some (.single .lower), none, some (.many [.camel, .dict []])]) "c2").ser.map mTag
        = (collect none [some (.single .lower), none, some (.many [.camel, .dict []])]).map mTag := by
  decide

/-- non-vacuity of the region with an explicit `"<field>._mapper"` entry: the class of `round_trip_example`
    (a dict with the nested entry `"n._mapper": {"p": "q"}`, then TO_LOWERCASE; the nested class renames
    `p` itself) is inside the region, with `camel_case_convert` off and on, and its instance inside the
    demanded domain — so `mapper_round_trip_region` applies without any `Sync` hypothesis -/
theorem region_nested_entry_example :
    regionOK upFns rtCls2 none false = true ∧ regionOK upFns rtCls2 none true = true
    ∧ rtCls upFns false (levelDomE upFns) rtCls2 (aggregate upFns true rtCls2.own rtCls2.fields none false)
        none false rtInst2 = true := by
  decide

/-- `_convert_to_camelcase` on the two snake_case names of the example (idempotent) -/
def cmFns : StrFns := ⟨fun s => if s = "a_b" then "aB" else if s = "g_h" then "gH" else s, id, fun s => [s]⟩
def ceG : List Fld := [.scalar "a_b" false]
def ceMid : List Fld := [.nested "g_h" false .one { ser := [.camel] } ceG, .scalar "y" false]
def ceTop : Cls := { own := [.camel], fields := [.nested "m" false .one { ser := [.camel] } ceMid] }

/-- non-vacuity of the third clause of the region in its general form: `TO_CAMELCASE` on *every* class of a
    three-level tree — the grand-nested class has an own mapper under mappers that reach it, but they
    leave its keys alone — is inside the region, with `camel_case_convert` off and on; the instance is
    inside the domain and the innermost key is the camelCase one -/
theorem region_enum_everywhere_example :
    regionOK cmFns ceTop none false = true ∧ regionOK cmFns ceTop none true = true
    ∧ rtCls cmFns true (levelDomE cmFns) ceTop (aggregate cmFns true ceTop.own ceTop.fields none true)
        none false (.obj [("m", .obj [("g_h", .obj [("a_b", .int 1)]), ("y", .int 2)])]) = true
    ∧ isOkEq (.ok (serialize cmFns true ceTop none (.obj [("m", .obj [("g_h", .obj [("a_b", .int 1)]), ("y", .int 2)])])))
        (fun d => match d with
          | .obj [("m", .obj [("gH", .obj [("aB", .int 1)]), ("y", .int 2)])] => true
          | _ => false) = true := by
  decide

/-! ### structures stored as Map values -/

/-- the class-directed serializer (which serializes the values of a `Map[String, Cls]` field as calls of
    their own) is `serialize` on every instance without Map-valued fields: all theorems about `serialize`
    are theorems about what the driver runs -/
theorem serC_eq_ser (S : StrFns) (camel : Bool) (c : Cls) (ov : Option MDict) (x : J)
    (hc : conf c.fields x = true) : serializeC S camel c ov x = serialize S camel c ov x :=
  c07_serC_eq_ser S camel x _ c.fields hc

/-- `class N: q: int; _serialization_mapper = {'q': 'k'}`, `class O: m: Map[String, N]; z: int;
    _serialization_mapper = {'z': 'Z', 'm': 'M'}` -/
def mvO : Cls :=
  { own := [.dict [(.fld "z", .key "Z"), (.fld "m", .key "M")]],
    fields := [.mapped "m" false { ser := [.dict [(.fld "q", .key "k")]] } [.scalar "q" false], .scalar "z" false] }
def mvInst : J := .obj [("m", .obj [("x_y", .obj [("q", .int 1)])]), ("z", .int 2)]

/-- Map values (modelled and corresponded; outside the round-trip theorems): the map keys are left alone,
    the value is written under its own class's keys only (`k`, not `K`: nothing of the containing class
    passes through), and — former finding `keep-undefined-leak:deserialize_map`, fixed by /repo 73883e4 —
    the value class is deserialized with the caller's `keep_undefined`: with the default (`False`) the
    instance comes back as it was; only an explicit `True` keeps the renamed keys (`k` in the value, `M` and
    `Z` on the open class `O` itself) as attributes -/
theorem map_values_example :
    isOkEq (.ok (serializeC upFns false mvO none mvInst))
        (fun d => match d with
          | .obj [("M", .obj [("x_y", .obj [("k", .int 1)])]), ("Z", .int 2)] => true
          | _ => false) = true
    ∧ isOkEq (deserK upFns false false mvO none false (serializeC upFns false mvO none mvInst))
        (fun y => match y with
          | .obj [("m", .obj [("x_y", .obj [("q", .int 1)])]), ("z", .int 2)] => true
          | _ => false) = true
    ∧ isOkEq (deserK upFns false true mvO none false (serializeC upFns false mvO none mvInst))
        (fun y => match y with
          | .obj [("m", .obj [("x_y", .obj [("q", .int 1), ("k", .int 1)])]), ("z", .int 2), ("M", _), ("Z", _)] => true
          | _ => false) = true := by
  decide

end Typedpy.C07
