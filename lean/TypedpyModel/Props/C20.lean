/-
  Props/C20.lean — C20: concurrent use of a class from several threads equals some sequential order.

  The model (Sem/Sched.lean) is an interleaving semantics of thread programs over the shared scratch cells that
  typedpy's collection validators write (`Field._name` of item / key / value / option fields).  The full statement
  is FALSE of the model and of the code (`C20_statement`, refuted by the kernel-checked counter-schedules below,
  which the `sched` harness suite replays on the real code).  What is proved, for ALL schedules of any length and any
  number of threads, is the conditional non-interference theorem and its sharper cell-wise form; the generated
  table obligation `tables_ok` is what a NEW shared write breaks.

  Partial: real CPython pre-emption happens between bytecodes and under the GIL; the model (and the harness) pre-empt
  at statement / line boundaries only.
-/
import TypedpyModel.Lemmas.Sched
import TypedpyModel.Generated.SharedWrites
import TypedpyModel.Generated.FieldAliases
import TypedpyModel.Pinned.SharedWrites
namespace Typedpy.C20
open Typedpy.Sched

/-- every thread that has finished after the schedule returned / raised exactly what it does when run alone -/
def Linearizable (sh : Shared) (progs : List (List Step)) : Prop :=
  ∀ (sched : List Nat) (i : Nat) (r : Outcome),
    resultAt (run (Cfg.init sh progs) sched) i = some r →
    ∃ p, progs[i]? = some p ∧ sequentialResult sh p = some r

/-- C20 at full strength for the validation programs of the collection fields: any initial content of the scratch
    cells, any number of concurrent calls, any schedule.  FALSE — see the counter-schedule theorems. -/
def C20_statement : Prop :=
  ∀ (sh : Shared) (calls : List Call), Linearizable sh (calls.map Call.prog)

/-! ### the general theorems -/

theorem init_get {sh : Shared} {progs : List (List Step)} {i : Nat} {t : TState}
    (h : (Cfg.init sh progs).threads[i]? = some t) : ∃ p, progs[i]? = some p ∧ t = TState.init p := by
  simp only [Cfg.init, List.getElem?_map] at h
  cases hp : progs[i]? with
  | none => simp [hp] at h
  | some p => exact ⟨p, rfl, by simpa [hp] using h.symm⟩

theorem result_of_alone {sh : Shared} {p : List Step} {n : Nat} {r : Outcome}
    (h : (alone sh (TState.init p) n).2.result = some r) : sequentialResult sh p = some r := by
  rw [← result_of_done sh p n]
  · exact h
  · generalize (alone sh (TState.init p) n).2 = t at h
    unfold TState.result at h
    unfold TState.done
    cases he : t.err with
    | some e => simp
    | none =>
      simp only [he] at h
      by_cases hp : t.prog.isEmpty
      · simp [hp]
      · simp [hp] at h

/-- State-level frame theorem: if no step of any program writes shared state, then for EVERY schedule (any length, any
    number of threads) the shared store is unchanged and every thread is exactly in the state it reaches alone after
    as many steps as it was scheduled. -/
theorem no_shared_writes_frame (sh : Shared) (progs : List (List Step))
    (h : ∀ p ∈ progs, ∀ s ∈ p, s.writesShared = false) (sched : List Nat) :
    (run (Cfg.init sh progs) sched).shared = sh ∧
    ∀ i p, progs[i]? = some p →
      (run (Cfg.init sh progs) sched).threads[i]? = some (alone sh (TState.init p) (sched.count i)).2 := by
  have hro : ∀ t ∈ (Cfg.init sh progs).threads, readOnlyT t := by
    intro t ht
    simp only [Cfg.init, List.mem_map] at ht
    obtain ⟨p, hp, rfl⟩ := ht
    exact h p hp
  obtain ⟨h1, h2⟩ := run_readOnly sched (Cfg.init sh progs) hro
  refine ⟨h1, fun i p hp => ?_⟩
  exact h2 i (TState.init p) (by simp [Cfg.init, hp])

/-- The general non-interference theorem: no shared writes ⇒ linearizable, for every schedule. -/
theorem no_shared_writes_linearizable (sh : Shared) (progs : List (List Step))
    (h : ∀ p ∈ progs, ∀ s ∈ p, s.writesShared = false) : Linearizable sh progs := by
  intro sched i r hr
  unfold resultAt at hr
  cases ht : (run (Cfg.init sh progs) sched).threads[i]? with
  | none => simp [ht] at hr
  | some t =>
    simp only [ht] at hr
    cases hp : progs[i]? with
    | none =>
      have := (no_shared_writes_frame sh progs h sched).2
      -- thread i does not exist: the thread list has the length of `progs` at every point
      have hlen : ∀ (sched : List Nat) (cfg : Cfg), (run cfg sched).threads.length = cfg.threads.length := by
        intro sched
        induction sched with
        | nil => intro cfg; rfl
        | cons j rest ih =>
          intro cfg
          rw [run_cons, ih]
          cases hj : cfg.threads[j]? with
          | none => rw [stepAt_none hj]
          | some tj => rw [stepAt_some hj]; simp
      have h1 : i < (run (Cfg.init sh progs) sched).threads.length := (List.getElem?_eq_some_iff.mp ht).1
      rw [hlen] at h1
      have h2 : progs.length ≤ i := List.getElem?_eq_none_iff.mp hp
      simp [Cfg.init] at h1
      omega
    | some p =>
      refine ⟨p, rfl, ?_⟩
      have := (no_shared_writes_frame sh progs h sched).2 i p hp
      rw [ht] at this
      have ht' : t = (alone sh (TState.init p) (sched.count i)).2 := Option.some.inj this
      rw [ht'] at hr
      exact result_of_alone hr

/-- Thread-private frame (cell-wise): if the OTHER threads write none of the cells that thread `i` reads, then for EVERY
    schedule thread `i` is exactly in the state it reaches alone after as many steps as it was scheduled — whatever the
    other threads do to other cells, and whatever thread `i` itself writes. -/
theorem thread_private_frame (sh : Shared) (progs : List (List Step)) (i : Nat) (p : List Step)
    (hp : progs[i]? = some p)
    (hdisj : ∀ j q, j ≠ i → progs[j]? = some q → ∀ c ∈ writeCells q, c ∉ readCells p)
    (sched : List Nat) :
    (run (Cfg.init sh progs) sched).threads[i]? = some (alone sh (TState.init p) (sched.count i)).2 := by
  have hi : (Cfg.init sh progs).threads[i]? = some (TState.init p) := by simp [Cfg.init, hp]
  have hav : othersAvoid (Cfg.init sh progs) i (readCells p) := by
    intro j tj hj htj
    obtain ⟨q, hq, rfl⟩ := init_get htj
    exact hdisj j q hj hq
  exact (run_noninterference (readCells p) i sched (Cfg.init sh progs) (TState.init p) sh hi
    (fun c hc => hc) hav (fun _ _ => rfl)).1

/-- programs are conflict free when no program writes a cell another program reads -/
def ConflictFree (progs : List (List Step)) : Prop :=
  ∀ (i j : Nat) (p q : List Step), i ≠ j → progs[i]? = some p → progs[j]? = some q → ∀ c ∈ writeCells q, c ∉ readCells p

theorem conflict_free_linearizable (sh : Shared) (progs : List (List Step)) (h : ConflictFree progs) :
    Linearizable sh progs := by
  intro sched i r hr
  unfold resultAt at hr
  cases ht : (run (Cfg.init sh progs) sched).threads[i]? with
  | none => simp [ht] at hr
  | some t =>
    simp only [ht] at hr
    cases hp : progs[i]? with
    | none =>
      have hlen : ∀ (sched : List Nat) (cfg : Cfg), (run cfg sched).threads.length = cfg.threads.length := by
        intro sched
        induction sched with
        | nil => intro cfg; rfl
        | cons j rest ih =>
          intro cfg
          rw [run_cons, ih]
          cases hj : cfg.threads[j]? with
          | none => rw [stepAt_none hj]
          | some tj => rw [stepAt_some hj]; simp
      have h1 : i < (run (Cfg.init sh progs) sched).threads.length := (List.getElem?_eq_some_iff.mp ht).1
      rw [hlen] at h1
      have h2 : progs.length ≤ i := List.getElem?_eq_none_iff.mp hp
      simp [Cfg.init] at h1
      omega
    | some p =>
      refine ⟨p, rfl, ?_⟩
      have := thread_private_frame sh progs i p hp
        (fun j q hj hq => h i j p q (Ne.symm hj) hp hq) sched
      rw [ht] at this
      have ht' : t = (alone sh (TState.init p) (sched.count i)).2 := Option.some.inj this
      rw [ht'] at hr
      exact result_of_alone hr

/-- `conflictFreeB` (Sem/Sched.lean) is the decidable form of `ConflictFree` -/
theorem conflictFreeB_sound {progs : List (List Step)} (h : conflictFreeB progs = true) : ConflictFree progs := by
  intro i j p q hij hp hq c hc hr
  have hi : i < progs.length := (List.getElem?_eq_some_iff.mp hp).1
  have hj : j < progs.length := (List.getElem?_eq_some_iff.mp hq).1
  simp only [conflictFreeB, List.all_eq_true, List.mem_range] at h
  have h1 := h i hi j hj
  have hp' : progs.getD i [] = p := by simp [List.getD, hp]
  have hq' : progs.getD j [] = q := by simp [List.getD, hq]
  rw [hp', hq'] at h1
  simp only [Bool.or_eq_true, beq_iff_eq] at h1
  rcases h1 with h1 | h1
  · exact hij h1
  · simp only [disjointB, List.all_eq_true] at h1
    have := h1 c hc
    simp [hr] at this

/-- C20 restricted by the explicit decidable exclusion of the known-finding region: concurrent calls that do not go
    through a common scratch cell (no Field object of a racy site is used by two of the threads) are linearizable, for
    every schedule and any number of threads. -/
theorem C20_partial (sh : Shared) (calls : List Call) (h : conflictFreeB (calls.map Call.prog) = true) :
    Linearizable sh (calls.map Call.prog) :=
  conflict_free_linearizable sh _ (conflictFreeB_sound h)

/-- no Field object (cell) is used by two of the calls: what the alias table `Generated.fieldAliases = []` establishes
    for calls on different declarations -/
def OwnCells (calls : List Call) : Prop :=
  ∀ (i j : Nat) (ci cj : Call), i ≠ j → calls[i]? = some ci → calls[j]? = some cj →
    ∀ c, ¬ (ci.usesCell c = true ∧ cj.usesCell c = true)

/-- Calls on declarations that own their Field objects (different fields / classes, no aliasing) are linearizable: for
    EVERY schedule and any number of threads each thread returns / raises exactly what it does alone. -/
theorem distinct_declarations_linearizable (sh : Shared) (calls : List Call) (h : OwnCells calls) :
    Linearizable sh (calls.map Call.prog) := by
  apply conflict_free_linearizable
  intro i j p q hij hp hq c hw hr
  simp only [List.getElem?_map] at hp hq
  cases hci : calls[i]? with
  | none => simp [hci] at hp
  | some ci =>
    cases hcj : calls[j]? with
    | none => simp [hcj] at hq
    | some cj =>
      simp only [hci, hcj, Option.map_some, Option.some.injEq] at hp hq
      subst hp; subst hq
      exact h i j ci cj hij hci hcj c ⟨(Call.prog_cells ci).2 c hr, (Call.prog_cells cj).1 c hw⟩

/-- If every program works on PRIVATE copies of the Field objects it renames (what `instFrom` builds when no site is
    racy), then for EVERY schedule, any number of threads and ANY programs whatsoever, every thread returns / raises
    exactly what it does alone. -/
theorem private_copies_linearizable (sh : Shared) (progs : List (List Step)) :
    Linearizable sh (instFrom (fun _ => true) progs.length 0 progs) := by
  apply conflict_free_linearizable
  intro i j p q hij hp hq c hw hr
  rw [instFrom_get] at hp hq
  cases hpi : progs[i]? with
  | none => simp [hpi] at hp
  | some p0 =>
    cases hqj : progs[j]? with
    | none => simp [hqj] at hq
    | some q0 =>
      simp only [hpi, hqj, Option.map_some, Option.some.injEq] at hp hq
      subst hp; subst hq
      have hi : i < progs.length := (List.getElem?_eq_some_iff.mp hpi).1
      have hj : j < progs.length := (List.getElem?_eq_some_iff.mp hqj).1
      obtain ⟨c1, h1⟩ := writeCells_rename _ _ c hw
      obtain ⟨c2, h2⟩ := readCells_rename _ _ c hr
      simp only [cellMap, if_true, Nat.zero_add] at h1 h2
      exact hij (privCell_thread hi hj (h2.symm.trans h1))

/-- Private copies, stated against the ORIGINAL programs: when every program works on private copies (made from the Field
    objects of the class definition: `instStore`), then for EVERY schedule every thread returns / raises exactly what the
    ORIGINAL validator program - the one that renames the shared Field objects - computes when it runs alone.  So working on
    private copies changes nothing sequentially and removes every interference. -/
theorem private_copies_equal_original_sequential (sh : Shared) (progs : List (List Step)) (sched : List Nat) (i : Nat)
    (r : Outcome)
    (hr : resultAt (run (Cfg.init (instStore progs.length sh) (instFrom (fun _ => true) progs.length 0 progs)) sched) i
      = some r) : ∃ p, progs[i]? = some p ∧ sequentialResult sh p = some r := by
  obtain ⟨p', hp', hs⟩ := private_copies_linearizable (instStore progs.length sh) progs sched i r hr
  rw [instFrom_get] at hp'
  cases hpi : progs[i]? with
  | none => simp [hpi] at hp'
  | some p =>
    simp only [hpi, Option.map_some, Option.some.injEq, Nat.zero_add] at hp'
    subst hp'
    refine ⟨p, rfl, ?_⟩
    have hi : i < progs.length := (List.getElem?_eq_some_iff.mp hpi).1
    rw [← hs]
    symm
    apply rename_sequential _ (cellMap_injective _ hi)
    intro c
    simp only [cellMap, if_true]
    exact instStore_priv hi sh c

/-- THE POSITIVE THEOREM, conditional on the generated table: on a tree whose shared-write table has no unsafe row, the
    thread programs of ANY concurrent validation calls (collections and multi-field wrappers, any number of threads,
    same field or different fields, shared item instances or not) are linearizable for EVERY schedule.  The driver runs
    `modelProgs Generated.sharedWrites`, i.e. the very programs this theorem speaks about, against the real code. -/
theorem safe_table_linearizable (tbl : List SharedWrite) (h : ∀ r ∈ tbl, r.safe = true)
    (sites : List (Nat × String)) (sh : Shared) (calls : List Call) :
    Linearizable sh (modelProgs tbl sites calls) := by
  have hp : ∀ c, tablePriv tbl sites c = (fun _ => true) c := by
    intro c
    simp only [tablePriv, List.all_eq_true, Bool.or_eq_true, Bool.not_eq_true']
    intro p _
    right
    simp only [siteRacy, List.any_eq_false]
    intro r hr
    simp [h r hr]
  unfold modelProgs
  rw [instFrom_congr _ _ hp]
  have := private_copies_linearizable sh (calls.map Call.prog)
  simpa using this

/-- the same with the weaker hypothesis the model actually uses: no row that is unsafe AND read back -/
theorem no_racy_site_linearizable (tbl : List SharedWrite) (h : ∀ r ∈ tbl, (!r.safe && r.readBack) = false)
    (sites : List (Nat × String)) (sh : Shared) (calls : List Call) :
    Linearizable sh (modelProgs tbl sites calls) := by
  have hp : ∀ c, tablePriv tbl sites c = (fun _ => true) c := by
    intro c
    simp only [tablePriv, List.all_eq_true, Bool.or_eq_true, Bool.not_eq_true']
    intro p _
    right
    simp only [siteRacy, List.any_eq_false]
    intro r hr
    have := h r hr
    rw [Bool.and_assoc, this]
    simp
  unfold modelProgs
  rw [instFrom_congr _ _ hp]
  have := private_copies_linearizable sh (calls.map Call.prog)
  simpa using this

/-- End-to-end form, exactly what the driver evaluates (`modelProgs` of the tree's table, started from `instStore`): on a
    tree without a racy site, for EVERY schedule of ANY concurrent validation calls, every call returns / raises what the
    original validator program of that call computes when it runs alone. -/
theorem no_racy_site_equals_sequential (tbl : List SharedWrite) (h : ∀ r ∈ tbl, (!r.safe && r.readBack) = false)
    (sites : List (Nat × String)) (sh : Shared) (calls : List Call) (sched : List Nat) (i : Nat) (r : Outcome)
    (hr : resultAt (run (Cfg.init (instStore calls.length sh) (modelProgs tbl sites calls)) sched) i = some r) :
    ∃ c, calls[i]? = some c ∧ sequentialResult sh c.prog = some r := by
  have hp : ∀ c, tablePriv tbl sites c = (fun _ => true) c := by
    intro c
    simp only [tablePriv, List.all_eq_true, Bool.or_eq_true, Bool.not_eq_true']
    intro p _
    right
    simp only [siteRacy, List.any_eq_false]
    intro r hr
    have := h r hr
    rw [Bool.and_assoc, this]
    simp
  unfold modelProgs at hr
  rw [instFrom_congr _ _ hp] at hr
  have hl : calls.length = (calls.map Call.prog).length := by simp
  rw [hl] at hr
  obtain ⟨p, hp1, hp2⟩ := private_copies_equal_original_sequential sh (calls.map Call.prog) sched i r hr
  simp only [List.getElem?_map] at hp1
  cases hc : calls[i]? with
  | none => simp [hc] at hp1
  | some c =>
    simp only [hc, Option.map_some, Option.some.injEq] at hp1
    subst hp1
    exact ⟨c, rfl, hp2⟩

/-- Same-value writes: if every write to a cell, in every program, stores the SAME constant `k c`, and every program reads
    a cell only after having written it itself, then the programs are linearizable for EVERY schedule - although they
    write and read common cells (`conflictFreeB` is false).  This is why concurrent `Set` / `ImmutableSet` / `Map` /
    `AllOf` / `AnyOf` validations of the SAME field are harmless on the current tree (they all write the field's own
    name), while `Array[X]` (`a_0`, `a_1`, … per element) is not. -/
theorem same_value_writes_linearizable (k : Nat → String) (sh : Shared) (progs : List (List Step))
    (hu : ∀ p ∈ progs, uniformB k p = true) (hr : ∀ p ∈ progs, readsAfterOwnWrite [] p = true) :
    Linearizable sh progs := by
  intro sched i r hres
  unfold resultAt at hres
  cases ht : (run (Cfg.init sh progs) sched).threads[i]? with
  | none => simp [ht] at hres
  | some t =>
    simp only [ht] at hres
    cases hp : progs[i]? with
    | none =>
      have hlen : ∀ (sched : List Nat) (cfg : Cfg), (run cfg sched).threads.length = cfg.threads.length := by
        intro sched
        induction sched with
        | nil => intro cfg; rfl
        | cons j rest ih =>
          intro cfg
          rw [run_cons, ih]
          cases hj : cfg.threads[j]? with
          | none => rw [stepAt_none hj]
          | some tj => rw [stepAt_some hj]; simp
      have h1 : i < (run (Cfg.init sh progs) sched).threads.length := (List.getElem?_eq_some_iff.mp ht).1
      rw [hlen] at h1
      have h2 : progs.length ≤ i := List.getElem?_eq_none_iff.mp hp
      simp [Cfg.init] at h1
      omega
    | some p =>
      refine ⟨p, rfl, ?_⟩
      have hi : (Cfg.init sh progs).threads[i]? = some (TState.init p) := by simp [Cfg.init, hp]
      have hall : ∀ (j : Nat) (tj : TState), (Cfg.init sh progs).threads[j]? = some tj → uniformB k tj.prog = true := by
        intro j tj htj
        obtain ⟨q, hq, rfl⟩ := init_get htj
        exact hu q (List.mem_of_getElem? hq)
      have := run_uniform k i sched (Cfg.init sh progs) (TState.init p) sh [] hi hall
        (hr p (List.mem_of_getElem? hp)) (fun c hc => nomatch hc)
      rw [ht] at this
      have ht' : t = (alone sh (TState.init p) (sched.count i)).2 := Option.some.inj this
      rw [ht'] at hres
      exact result_of_alone hres

/-- non-vacuity: two `Set.__set__` calls on the SAME field (one item object, cell 0) and two `Map.__set__` calls on the same
    field are NOT conflict free, yet satisfy the hypotheses of `same_value_writes_linearizable`; `Array[X]` does not -/
theorem same_value_writes_example :
    conflictFreeB [progSet 0 "a" [(1, true), (2, true)], progSet 0 "a" [(3, true)]] = false ∧
    uniformB (fun _ => "a") (progSet 0 "a" [(1, true), (2, true)]) = true ∧
    readsAfterOwnWrite [] (progSet 0 "a" [(1, true), (2, true)]) = true ∧
    uniformB (fun c => if c = 0 then "a_key" else "a_value") (progMap 0 1 "a" [((1, true), (2, true))]) = true ∧
    readsAfterOwnWrite [] (progMap 0 1 "a" [((1, true), (2, true))]) = true ∧
    uniformB (fun _ => "a") (progAnyOf (.const "a") 5 [(0, true), (1, false)]) = true ∧
    readsAfterOwnWrite [] (progAnyOf (.const "a") 5 [(0, true), (1, false)]) = true ∧
    uniformB (fun _ => "a") (progHomog 0 "a" true [(20, true), (21, true)]) = false := by decide

/-- Clause 1 of C20 holds in the model for EVERY schedule and every set of programs, racy or not: the result of a thread
    only contains values of that thread's own input (the temp structures are thread-private; what the race corrupts is
    WHICH of the thread's own elements is read back, or whether one is found at all). -/
theorem no_foreign_values (sh : Shared) (progs : List (List Step)) (sched : List Nat) (i : Nat) (p : List Step)
    (out : List Int) (hp : progs[i]? = some p)
    (hr : resultAt (run (Cfg.init sh progs) sched) i = some (.ok out)) : ∀ v ∈ out, v ∈ progVals p := by
  unfold resultAt at hr
  cases ht : (run (Cfg.init sh progs) sched).threads[i]? with
  | none => simp [ht] at hr
  | some t =>
    simp only [ht] at hr
    have hinv := run_ownOnly (fun k => progVals (progs.getD k [])) sched (Cfg.init sh progs) (by
      intro k tk hk
      simp only [Cfg.init, List.getElem?_map] at hk
      cases hq : progs[k]? with
      | none => simp [hq] at hk
      | some q =>
        simp only [hq, Option.map_some, Option.some.injEq] at hk
        subst hk
        have : progs.getD k [] = q := by simp [List.getD, hq]
        simp only [this]
        exact ⟨by simp [TState.init], by simp [TState.init], fun v hv => hv⟩) i t ht
    have hpi : progs.getD i [] = p := by simp [List.getD, hp]
    simp only [hpi] at hinv
    unfold TState.result at hr
    cases he : t.err with
    | some e => simp [he] at hr
    | none =>
      simp only [he] at hr
      split at hr
      · have : t.out = out := by
          have := Option.some.inj hr
          exact Outcome.ok.inj this
        rw [← this]
        exact hinv.2.1
      · exact absurd hr (by simp)

/-! ### kernel-checked counter-schedules (each is replayed on the real code by the `sched` suite) -/

def sh0 : Shared := Shared.ofList []

/-- two constructors of a class with `a = Array[Integer]` (or `Deque[Integer]`): `S(a=[10])` ∥ `S(a=[20,21,22])` -/
def arrA : List Step := progHomog 0 "a" true [(10, true)]
def arrB : List Step := progHomog 0 "a" true [(20, true), (21, true), (22, true)]

/-- site `array.py:extract_field_value`: thread 1 silently returns `[20, 20, 22]` -/
theorem counter_wrong_element_extract_field_value :
    resultAt (run (Cfg.init sh0 [arrA, arrB]) [1,1,1,1,1,1,1,0,0,0,1,1,1,1,0,0]) 1 = some (.ok [20, 20, 22]) ∧
    sequentialResult sh0 arrB = some (.ok [20, 21, 22]) := by decide

/-- site `array.py:extract_field_value`: thread 0 raises AttributeError `a_2` for the valid input `[10]` -/
theorem counter_missing_key_extract_field_value :
    resultAt (run (Cfg.init sh0 [arrA, arrB]) [0,0,0,0,1,1,1,1,1,1,1,1,1,0]) 0 = some (.raised (.missing "a_2")) ∧
    sequentialResult sh0 arrA = some (.ok [10]) := by decide

/-- site `array.py:extract_field_value`: the error of thread 0's invalid `[-1]` names element `a_1` of the other thread -/
theorem counter_wrong_field_named_extract_field_value :
    resultAt (run (Cfg.init sh0 [progHomog 0 "a" true [(-1, false)], arrB]) [0,0,0,1,1,1,1,1,1,0]) 0
      = some (.raised (.invalid "a_1")) ∧
    sequentialResult sh0 (progHomog 0 "a" true [(-1, false)]) = some (.raised (.invalid "a_0")) := by decide

theorem not_linearizable_extract_field_value : ¬ Linearizable sh0 [arrA, arrB] := by
  intro h
  obtain ⟨p, hp, hs⟩ := h [1,1,1,1,1,1,1,0,0,0,1,1,1,1,0,0] 1 (.ok [20, 20, 22])
    counter_wrong_element_extract_field_value.1
  have : p = arrB := by simpa using hp.symm
  rw [this, counter_wrong_element_extract_field_value.2] at hs
  exact absurd hs (by decide)

/-- site `tuple_field.py:Tuple.__set__` (homogeneous `Tuple[Integer]`): wrong element without any error -/
theorem counter_wrong_element_tuple :
    resultAt (run (Cfg.init sh0 [progHomog 0 "a" false [(10, true)],
        progHomog 0 "a" false [(20, true), (21, true), (22, true)]]) [1,1,1,1,1,1,0,0,1,1,1,1,0,0]) 1
      = some (.ok [20, 20, 22]) ∧
    sequentialResult sh0 (progHomog 0 "a" false [(20, true), (21, true), (22, true)]) = some (.ok [20, 21, 22]) := by
  decide

/-- site `set_field.py:Set.__set__`, one item Field instance used by the fields `a` and `b` of a class:
    thread 0 (assigning `a`) raises AttributeError `b` -/
theorem counter_missing_key_set :
    resultAt (run (Cfg.init sh0 [progSet 0 "a" [(1, true)], progSet 0 "b" [(2, true)]]) [0,0,0,1,0]) 0
      = some (.raised (.missing "b")) ∧
    sequentialResult sh0 (progSet 0 "a" [(1, true)]) = some (.ok [1]) := by decide

/-- site `map_field.py:Map.__set__`, key/value Field instances shared by the fields `a` and `b` -/
theorem counter_missing_key_map :
    resultAt (run (Cfg.init sh0 [progMap 0 1 "a" [((1, true), (2, true))], progMap 0 1 "b" [((3, true), (4, true))]])
        [0,0,0,0,0,1,1,0]) 0 = some (.raised (.missing "b_value")) ∧
    sequentialResult sh0 (progMap 0 1 "a" [((1, true), (2, true))]) = some (.ok [2, 1]) := by decide

/-- sites `array.py:Array.__set__`, `deque_field.py:Deque.__set__`, `tuple_field.py:Tuple.__set__` with positional
    items whose Field instances are shared by the fields `a` and `b` -/
theorem counter_missing_key_positional :
    resultAt (run (Cfg.init sh0 [progPos 0 "a" 2 [(1, true), (2, true)], progPos 0 "b" 2 [(3, true), (4, true)]])
        [0,0,0,1,1,0]) 0 = some (.raised (.missing "b_0")) ∧
    sequentialResult sh0 (progPos 0 "a" 2 [(1, true), (2, true)]) = some (.ok [1, 2]) := by decide

/-- site `set_field.py:ImmutableSet.__set__`, one item Field instance used by the fields `a` and `b` -/
theorem counter_missing_key_immutable_set :
    resultAt (run (Cfg.init sh0 [progISet 0 "a" [(1, true), (2, true)], progISet 0 "b" [(3, true)]]) [0,0,0,0,1,1,0]) 0
      = some (.raised (.missing "b")) ∧
    sequentialResult sh0 (progISet 0 "a" [(1, true), (2, true)]) = some (.ok [1, 2, 1, 2]) := by decide

/-- site `multified_wrappers.py:AnyOf.__set__`, one option Field instance used by `a = AnyOf[opt, String]` and
    `b = AnyOf[opt, String]`: thread 0 (`x.a = 5`) is pre-empted between the option's scratch validation and
    `matched.__set__(instance, value)`; the value lands under `b` and `instance.__dict__["a"]` raises KeyError -/
theorem counter_missing_key_anyof :
    resultAt (run (Cfg.init sh0 [progAnyOf (.const "a") 5 [(0, true), (1, false)],
        progAnyOf (.const "b") 7 [(0, true), (1, false)]]) [0,0,1,0,0]) 0 = some (.raised (.missing "a")) ∧
    sequentialResult sh0 (progAnyOf (.const "a") 5 [(0, true), (1, false)]) = some (.ok [5]) := by decide

/-- site `multified_wrappers.py:AllOf.__set__`, one option Field instance used by the fields `a` and `b`: the error of
    thread 0's invalid `-1` names field `b` -/
theorem counter_wrong_field_named_allof :
    resultAt (run (Cfg.init sh0 [progAllOf (.const "a") (-1) [(0, false), (1, true)],
        progAllOf (.const "b") 7 [(0, true), (1, true)]]) [0,1,0]) 0 = some (.raised (.invalid "b")) ∧
    sequentialResult sh0 (progAllOf (.const "a") (-1) [(0, false), (1, true)]) = some (.raised (.invalid "a")) := by
  decide

/-- sites `multified_wrappers.py:OneOf.__set__` + `array.py:extract_field_value`, `a = Array[OneOf[Integer(minimum=0), String]]`
    (cell 0 = the OneOf object, whose own `_name` is the scratch of the outer loop; cells 1, 2 = its options): thread 0's
    `[-4]` matches no option; its error names `a` (what thread 1's first write left) instead of element `a_0` -/
theorem counter_wrong_field_named_nested_oneOf :
    resultAt (run (Cfg.init sh0 [progNest 0 "a" .oneOf [(-4, [(1, false), (2, false)])],
        progNest 0 "a" .oneOf [(7, [(1, true), (2, false)])]]) [0,0,0,0,1,0,0,0,0,0]) 0 = some (.raised (.invalid "a")) ∧
    sequentialResult sh0 (progNest 0 "a" .oneOf [(-4, [(1, false), (2, false)])]) = some (.raised (.invalid "a_0")) := by
  decide

/-- sites `multified_wrappers.py:NotField.__set__` + `array.py:extract_field_value`, `a = Array[NotField[String]]`: thread 1
    silently stores `[20, 20, 22]` for the input `[20, 21, 22]` -/
theorem counter_wrong_element_nested_notField :
    resultAt (run (Cfg.init sh0 [progNest 0 "a" .notField [(10, [(1, false)])],
        progNest 0 "a" .notField [(20, [(1, false)]), (21, [(1, false)]), (22, [(1, false)])]])
      [1,1,1,1,1,1,1,1,1,1,1,1,1, 0,0,0, 1,1,1,1,1,1,1, 0,0,0,0,0]) 1 = some (.ok [20, 20, 22]) ∧
    sequentialResult sh0 (progNest 0 "a" .notField [(20, [(1, false)]), (21, [(1, false)]), (22, [(1, false)])])
      = some (.ok [20, 21, 22]) := by decide

/-! ### the model follows the table -/

def efvKey : String := "shared-_name:array.py:extract_field_value"

def efvCalls : List Call := [Call.homog 0 "a" true [(10, true)], Call.homog 0 "a" true [(20, true), (21, true), (22, true)]]

/-- the snapshot table without its racy rows: what the translator produces once every validator works on private copies -/
def repairedTable : List SharedWrite := Pinned.sharedWrites.filter fun r => r.safe || !r.readBack

/-- On the pinned table (extract_field_value listed as racy) the programs the driver runs for `S(a=[10]) ∥ S(a=[20,21,22])`
    go through ONE shared cell and the counter-schedule silently yields `[20, 20, 22]`; on the repaired table the SAME calls
    under the SAME schedule go through private copies and both threads get their sequential results. -/
theorem model_follows_table :
    resultAt (run (Cfg.init sh0 (modelProgs Pinned.sharedWrites [(0, efvKey)] efvCalls))
      [1,1,1,1,1,1,1,0,0,0,1,1,1,1,0,0]) 1 = some (.ok [20, 20, 22]) ∧
    resultAt (run (Cfg.init sh0 (modelProgs repairedTable [(0, efvKey)] efvCalls))
      [1,1,1,1,1,1,1,0,0,0,1,1,1,1,0,0,0,0]) 1 = some (.ok [20, 21, 22]) ∧
    resultAt (run (Cfg.init sh0 (modelProgs repairedTable [(0, efvKey)] efvCalls))
      [1,1,1,1,1,1,1,0,0,0,1,1,1,1,0,0,0,0]) 0 = some (.ok [10]) ∧
    (∀ r ∈ repairedTable, (!r.safe && r.readBack) = false) := by decide

/-- calls whose reads of the scratch cells are dead: flat `OneOf` / `NotField` (option errors are swallowed, option results
    dropped, the value is stored under the wrapper's own name) -/
def deadReads : Call → Bool
  | .wrap .oneOf _ _ _ => true
  | .wrap .notField _ _ _ => true
  | _ => false

/-- `OneOf.__set__` / `NotField.__set__` on a field of the class itself are linearizable for EVERY schedule although they
    rename option Field objects that other threads (and other fields) use: nothing ever reads the written name back
    effectively.  (Their rows stay in the table - the writes ARE there - but by themselves they cannot change a result;
    what the harness attributes to these sites is the race on the OWNER's name when the wrapper is nested under a
    homogeneous collection, i.e. the extract_field_value finding: `counter_wrong_field_named_nested_oneOf`,
    `counter_wrong_element_nested_notField`.)  NOT true of the store-through variant of tree b6495fe:
    `counter_missing_key_oneof_through`. -/
theorem flat_oneOf_notField_linearizable (sh : Shared) (calls : List Call) (h : ∀ c ∈ calls, deadReads c = true) :
    Linearizable sh (calls.map Call.prog) := by
  apply conflict_free_linearizable
  intro i j p q _ hp _ c _ hr
  simp only [List.getElem?_map] at hp
  cases hci : calls[i]? with
  | none => simp [hci] at hp
  | some ci =>
    simp only [hci, Option.map_some, Option.some.injEq] at hp
    subst hp
    have hd := h ci (List.mem_of_getElem? hci)
    cases ci with
    | wrap kind name v os =>
      cases kind with
      | oneOf => simp [Call.prog, oneOf_reads] at hr
      | notField => simp [Call.prog, notField_reads] at hr
      | allOf => simp [deadReads] at hd
      | anyOf => simp [deadReads] at hd
      | allOfThrough => simp [deadReads] at hd
      | oneOfThrough => simp [deadReads] at hd
    | _ => simp [deadReads] at hd

/-- non-vacuity: two `OneOf` fields sharing their option objects, fully interleaved -/
theorem flat_oneOf_example :
    resultAt (run (Cfg.init sh0 [progOneOf (.const "a") 5 [(0, true), (1, false)], progOneOf (.const "b") 7 [(0, true), (1, false)]])
      [0,1,0,1,0,1,0,1,0,1,0,1]) 0 = some (.ok [5]) ∧
    deadReads (.wrap .oneOf "a" 5 [(0, true), (1, false)]) = true := by decide

/-- the store-through `OneOf.__set__` of tree b6495fe (fix 95931f6: the matched option stores the value; replaced by
    89fd84a), one option Field instance used by `a = OneOf[opt, String]` and `b = OneOf[opt, String]`: thread 0 (`x.a = 5`)
    is pre-empted before `matched_field.__set__(instance, value)`; the value lands under `b` and
    `instance.__dict__["a"]` raises KeyError.  (The repair of C19 had made a dead write live.) -/
theorem counter_missing_key_oneof_through :
    resultAt (run (Cfg.init sh0 [progOneOfThrough (.const "a") 5 [(0, true), (1, false)],
        progOneOfThrough (.const "b") 7 [(0, true), (1, false)]]) [0,0,0,0,1,0,0]) 0 = some (.raised (.missing "a")) ∧
    sequentialResult sh0 (progOneOfThrough (.const "a") 5 [(0, true), (1, false)]) = some (.ok [5]) := by decide

/-- the store-through `AllOf.__set__` of tree b6495fe: same KeyError -/
theorem counter_missing_key_allof_through :
    resultAt (run (Cfg.init sh0 [progAllOfThrough (.const "a") 5 [(0, true), (1, true)],
        progAllOfThrough (.const "b") 7 [(0, true), (1, true)]]) [0,0,0,0,1,0,0]) 0 = some (.raised (.missing "a")) ∧
    sequentialResult sh0 (progAllOfThrough (.const "a") 5 [(0, true), (1, true)]) = some (.ok [5]) := by decide

/-- the full statement is false -/
theorem C20_statement_false : ¬ C20_statement := by
  intro h
  apply not_linearizable_extract_field_value
  have := h sh0 [Call.homog 0 "a" true [(10, true)], Call.homog 0 "a" true [(20, true), (21, true), (22, true)]]
  exact this

/-! ### the table obligation -/

/-- call sites whose shared write is a known finding (must equal the keys of known_findings_C20.json) -/
def knownFindingKeys : List String := [
  "shared-_name:array.py:extract_field_value",
  "shared-_name:array.py:Array.__set__",
  "shared-_name:deque_field.py:Deque.__set__",
  "shared-_name:tuple_field.py:Tuple.__set__",
  "shared-_name:set_field.py:Set.__set__",
  "shared-_name:set_field.py:ImmutableSet.__set__",
  "shared-_name:map_field.py:Map.__set__",
  "shared-_name:multified_wrappers.py:AllOf.__set__",
  "shared-_name:multified_wrappers.py:AnyOf.__set__",
  "shared-_name:multified_wrappers.py:OneOf.__set__",
  "shared-_name:multified_wrappers.py:NotField.__set__",
  "shared-_name:multified_wrappers.py:AnyOf.serialize"
]

/-- does the current working tree still have a racy validator site?  (`false` ⇒ `no_racy_site_linearizable` applies to
    every program the driver runs; the driver reports this bit) -/
def currentTreeRacy : Bool := Generated.sharedWrites.any fun r => !r.safe && r.readBack

/-- instance of the positive theorem for the CURRENT working tree: as soon as the translator finds no racy site any more,
    all concurrent validation calls are linearizable for every schedule -/
theorem current_tree_linearizable (h : currentTreeRacy = false) (sites : List (Nat × String)) (sh : Shared)
    (calls : List Call) : Linearizable sh (modelProgs Generated.sharedWrites sites calls) := by
  apply no_racy_site_linearizable
  intro r hr
  simp only [currentTreeRacy, List.any_eq_false] at h
  simpa using h r hr

/-- every shared write in the CURRENT working tree is either harmless (every thread writes an equivalent value) or a
    listed finding.  A new shared scratch write breaks this obligation. -/
theorem tables_ok : ∀ r ∈ Generated.sharedWrites, r.safe = true ∨ r.key ∈ knownFindingKeys := by decide

/-- Field objects the library is KNOWN to share between different declarations (none) -/
def knownAliasKeys : List String := []

/-- The hypothesis of `distinct_declarations_linearizable` for calls on different fields / classes, checked on the
    CURRENT working tree: over the whole declaration vocabulary probed by extract/field_aliases.py (every spelling written
    out freshly for two fields of one class and a field of a second class) no Field object is reachable from two
    declarations.  A change that makes declarations share an item / option / key / value Field object (e.g. one
    module-level NoneField for every Optional) breaks this obligation. -/
theorem aliases_ok : ∀ r ∈ Generated.fieldAliases, r.key ∈ knownAliasKeys := by decide

/-- the probe really declared the vocabulary and walked Field objects -/
theorem aliases_nonvacuous : Generated.probedSpellings ≥ 30 ∧ Generated.probedObjects ≥ 300 := by decide

/-- the same obligation on the committed snapshot of the table (keeps `Pinned/` compiled and reviewable) -/
theorem pinned_tables_ok : ∀ r ∈ Pinned.sharedWrites, r.safe = true ∨ r.key ∈ knownFindingKeys := by decide

/-- the generated table is not empty, and the snapshot of the tree the model was aligned with really contains the racy
    sites (non-vacuity of `tables_ok`; stated on the snapshot so that a repaired tree does not break it) -/
theorem tables_nonvacuous :
    Generated.sharedWrites.length ≥ 3 ∧
    (Pinned.sharedWrites.filter fun r => !r.safe).length ≥ 11 ∧
    (Pinned.sharedWrites.any fun r => r.key == "shared-_name:array.py:extract_field_value") = true := by decide

/-! ### non-vacuity of the positive theorems -/

/-- two calls on different cells (e.g. `Array[Integer]` fields of two different classes): conflict free, and a fully
    interleaved schedule gives both threads their sequential results -/
theorem linearizable_example :
    conflictFreeB [progHomog 0 "a" true [(10, true)], progHomog 1 "a" true [(20, true), (21, true)]] = true ∧
    resultAt (run (Cfg.init sh0 [progHomog 0 "a" true [(10, true)], progHomog 1 "a" true [(20, true), (21, true)]])
      [0,1,0,1,0,1,0,1,0,1,1,1,1]) 0 = some (.ok [10]) ∧
    resultAt (run (Cfg.init sh0 [progHomog 0 "a" true [(10, true)], progHomog 1 "a" true [(20, true), (21, true)]])
      [0,1,0,1,0,1,0,1,0,1,1,1,1]) 1 = some (.ok [20, 21]) := by decide

end Typedpy.C20
