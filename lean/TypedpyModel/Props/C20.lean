/-
  Props/C20.lean — property theorems for C20 (stub; to be filled in).
-/
namespace Typedpy.C20
end Typedpy.C20
