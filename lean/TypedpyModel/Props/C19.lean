/-
  Props/C19.lean — C19: operations never mutate caller data and never hand out live internal state.

  Model: Sem/Alias.lean (heap with identities, type-directed transformers driven by the regenerated
  table `Generated.aliasing`, the caller's script of native mutations).  Helper lemmas: Lemmas/Alias.lean.

  * `args_unchanged*`   — no operation writes into a pre-existing cell (arguments, instance, class), whatever
                          the table says and whether or not it succeeds; `setattr` writes the instance cell only;
                          an `argMutated` row is the only way to lose this (counterexample below).
  * `returns_fresh`     — output side: if every site of the declaration is copied, no script of native
                          mutations started from the returned value changes any pre-existing cell, hence
                          (`returns_fresh_observe`) any observation of the instance / class.
  * `retained_fresh_observe` — input side: if every site is copied, no script started from the caller's
                          arguments changes any observation of what the operation built (the new instance's payload).
  * `setattr_separation` — assignment: the stored value AND the rest of the instance are out of the caller's reach.
  * `tables_ok`         — every row of today's table is safe, out of the statement's scope, or a listed finding
                          (none is listed today: `only_listed_rows_unsafe_today`).
  * `C19_statement`     — the full statement over ALL sites (also sites today's table has no row for: not claimed);
    `C19_partial` / `C19_today` — the statement for declarations all of whose sites are admitted (known to the table,
                          in scope, not a listed finding row); for a multi-field wrapper: the sites of ALL its options.
    `unsafe_rows_have_counterexamples` — for EVERY unsafe in-scope row of the table a kernel-checked history
                          (operation, one poke, observation differs): none today, any that returns gets one.
  * `fixed_rows_*`, `fast_serialization_fresh_today`, `oneOf_keeps_a_copy_today`, `oneOf_allOf_fresh_today`,
    `anyOf_serialize_picks_the_fitting_option_today`, `oneOf_copies_tuple_elements_today` — the rows repaired in
                          typedpy (5e8a8ad, d7f6fe4, c0c3c23, 89fd84a, 2fb1f4d, ab026bd) carry positive theorems.
  * `immutable_owner_holds`, `immutable_class_holds` — immutable owners under ANY rows of the fields below.
  * `firstFit_spec`, `fixed_pick_spec`, `transfer_sites` — the option choice of multi-field wrappers; the walk consults
                          the table exactly at `sitesOf`.
  * `api_covered`, `api_rows_probed`, `api_ops_in_table` — every public entry point of typedpy is accounted for.
-/
import TypedpyModel.Lemmas.Alias
import TypedpyModel.Spec.AliasScope
import TypedpyModel.Generated.Aliasing
import TypedpyModel.Generated.AliasApi
import TypedpyModel.Pinned.Aliasing
namespace Typedpy.C19
open Typedpy.Alias

/-! ## part 1 — arguments are never written -/

/-- the walk of any operation, under ANY table, successful or not, leaves every pre-existing cell alone -/
theorem args_unchanged (M : Kind → Cat → Mode) (fuel : Nat) (s : Shape) (h : Heap) (src : Item) (h' : Heap)
    (r : Option Item) (e : transfer M fuel s h src = (h', r)) :
    h.next ≤ h'.next ∧ ∀ a, a < h.next → h'.cells a = h.cells a :=
  transfer_frame M fuel s h src h' r e

/-- an operation as the table describes it keeps every pre-existing cell unless the row of its top-level
    site is `argMutated` -/
theorem args_unchanged_op (tbl : List AliasRow) (op : OpK) (top : Kind) (fuel : Nat) (s : Shape) (h : Heap)
    (arg : Item) (hrow : ∀ row, lookupRow tbl op top .none = some row → row.argMutated = false) :
    ∀ a, a < h.next → (execOp tbl op top fuel s h arg).1.cells a = h.cells a := by
  intro a ha
  have fr := transfer_frame (modeOf tbl op) fuel s h arg _ _ rfl
  simp only [execOp]
  cases hl : lookupRow tbl op top .none with
  | none => exact fr.2 a ha
  | some row =>
    simp only [hrow row hl]
    exact fr.2 a ha

/-- `setattr` writes the instance cell and nothing else that existed before -/
theorem setattr_frame (M : Kind → Cat → Mode) (fuel : Nat) (s : Shape) (h : Heap) (inst : Nat) (name : String)
    (v : Item) : ∀ a, a < h.next → a ≠ inst → (setattrOp M fuel s h inst name v).1.cells a = h.cells a := by
  intro a ha ne
  simp only [setattrOp]
  cases ht : transfer M fuel s h v with
  | mk h1 o =>
    have fr := transfer_frame M fuel s h v h1 o ht
    cases o with
    | none => exact fr.2 a ha
    | some v' =>
      simp only [Heap.write]
      rw [if_neg ne]
      exact fr.2 a ha

/-- what an `argMutated` site does (the behaviour of `schema_to_struct_code` before commit d1407f7):
    the caller's `required` list loses an element -/
def mutatingTable : List AliasRow :=
  [{ op := .schemaToCode, kind := .root, cat := .none, argMutated := true, returns := .scalar, retainsArg := false,
     shallow := false, deep := false, astMode := "mutates", agree := true }]

theorem arg_mutation_counterexample :
    let h0 := Heap.ofList [⟨"dict", [("required", .ref 1)]⟩, ⟨"list", [("0", .atom 1), ("1", .atom 2)]⟩]
    (execOp mutatingTable .schemaToCode .root 5 (.scalar .scalar) h0 (.ref 1)).1.cells 1 ≠ h0.cells 1 := by
  decide

/-! ## part 2 — what is handed out / kept is separate from what existed -/

def roots : Item → List Nat
  | .ref a => [a]
  | .atom _ => []

theorem newClosed_init (h : Heap) : NewClosed h.next h :=
  fun _ ha hlt => absurd (Nat.lt_of_lt_of_le hlt ha) (Nat.lt_irrefl _)

/-- everything reachable from the result of a fully copying walk was allocated by that walk -/
theorem result_in_new_region {M : Kind → Cat → Mode} {fuel : Nat} {s : Shape} (hs : safeShape M s = true)
    {h : Heap} {src : Item} {h' : Heap} {res : Item} (e : transfer M fuel s h src = (h', some res)) :
    NewClosed h.next h' ∧ ∀ b, Held h' (roots res) b → h.next ≤ b ∧ b < h'.next := by
  have fs := transfer_fresh h.next M fuel s hs h src h' res (Nat.le_refl _) (newClosed_init h) e
  refine ⟨fs.1, ?_⟩
  intro b hb
  obtain ⟨r, hr, rb⟩ := hb
  cases res with
  | atom v => simp [roots] at hr
  | ref a =>
    simp only [roots, List.mem_singleton] at hr
    subst hr
    exact reach_new fs.1 (fs.2 r rfl) rb

/-- **returns_fresh** (output side): the declaration's sites are all copied ⇒ for EVERY script of native
    mutations applied to objects reachable from the returned value (and to objects the caller creates),
    every cell that existed before the call — the instance's payload, the class's lists, the arguments —
    is unchanged. -/
theorem returns_fresh (M : Kind → Cat → Mode) (fuel : Nat) (s : Shape) (hs : safeShape M s = true)
    (h : Heap) (src : Item) (h' : Heap) (res : Item) (e : transfer M fuel s h src = (h', some res))
    (acts : List Act) (adm : AdmissibleAll h' (roots res) acts) :
    ∀ a, a < h.next → (runScript h' (roots res) acts).1.cells a = h.cells a := by
  have fr := transfer_frame M fuel s h src h' _ e
  have nr := result_in_new_region hs e
  have sp := script_protects (fun a => a < h.next) acts h' (roots res)
    (fun a ha hlt => absurd hlt (Nat.not_lt.mpr (nr.2 a ha).1))
    (fun a ha => Nat.lt_of_lt_of_le ha fr.1) adm
  intro a ha
  rw [sp.1 a ha, fr.2 a ha]

/-- … hence no observation of anything that existed before (to any depth) changes -/
theorem returns_fresh_observe (M : Kind → Cat → Mode) (fuel : Nat) (s : Shape) (hs : safeShape M s = true)
    (h : Heap) (src : Item) (h' : Heap) (res : Item) (e : transfer M fuel s h src = (h', some res))
    (acts : List Act) (adm : AdmissibleAll h' (roots res) acts) (cb : ClosedBelow h.next h)
    (inst : Nat) (hi : inst < h.next) (n : Nat) :
    observeN n (runScript h' (roots res) acts).1 (.ref inst) = observeN n h (.ref inst) := by
  apply observe_agree (fun a => a < h.next)
    (returns_fresh M fuel s hs h src h' res e acts adm) (fun a ha k hk => cb a ha k hk) n
  intro a ea
  simp only [Item.ref.injEq] at ea
  subst ea
  exact hi

/-- input side, frame half (holds for ANY table): no script of native mutations applied to objects reachable
    from the caller's arguments `K` (all of which existed before the call) writes into a cell the operation
    allocated.  What makes the instance safe is `retained_fresh_observe` below: when every site copies, the
    instance's payload lies entirely inside that region. -/
theorem retained_fresh (M : Kind → Cat → Mode) (fuel : Nat) (s : Shape)
    (h : Heap) (src : Item) (h' : Heap) (inst : Item) (e : transfer M fuel s h src = (h', some inst))
    (cb : ClosedBelow h.next h) (K : List Nat) (hK : ∀ r, r ∈ K → r < h.next)
    (acts : List Act) (adm : AdmissibleAll h' K acts) :
    ∀ a, h.next ≤ a → a < h'.next → (runScript h' K acts).1.cells a = h'.cells a := by
  have fr := transfer_frame M fuel s h src h' _ e
  have cb' := closedBelow_frame cb fr
  have sp := script_protects (fun a => h.next ≤ a ∧ a < h'.next) acts h' K
    (by
      intro a ha hp
      obtain ⟨r, hr, rb⟩ := ha
      exact absurd (reach_below cb' (hK r hr) rb) (Nat.not_lt.mpr hp.1))
    (fun a ha => ha.2) adm
  intro a h1 h2
  exact sp.1 a ⟨h1, h2⟩

/-- **retained_fresh** (input side): the declaration's sites are all copied ⇒ for EVERY script of native
    mutations applied to objects reachable from the caller's arguments, every observation of what the
    operation built (the new instance with its whole payload, to any depth) is unchanged. -/
theorem retained_fresh_observe (M : Kind → Cat → Mode) (fuel : Nat) (s : Shape) (hs : safeShape M s = true)
    (h : Heap) (src : Item) (h' : Heap) (inst : Item) (e : transfer M fuel s h src = (h', some inst))
    (cb : ClosedBelow h.next h) (K : List Nat) (hK : ∀ r, r ∈ K → r < h.next)
    (acts : List Act) (adm : AdmissibleAll h' K acts) (n : Nat) :
    observeN n (runScript h' K acts).1 inst = observeN n h' inst := by
  have fs := transfer_fresh h.next M fuel s hs h src h' inst (Nat.le_refl _) (newClosed_init h) e
  apply observe_agree (fun a => h.next ≤ a ∧ a < h'.next)
    (fun a ha => retained_fresh M fuel s h src h' inst e cb K hK acts adm a ha.1 ha.2)
    (fun a ha k hk => fs.1 a ha.1 ha.2 k hk) n
  intro a ea
  exact fs.2 a ea

/-- `setattr`: the value that ends up in the instance is a fresh copy that no script from the caller's
    argument can reach (the rest of the instance is covered by `setattr_frame`) -/
theorem setattr_value_fresh (M : Kind → Cat → Mode) (fuel : Nat) (s : Shape) (hs : safeShape M s = true)
    (h : Heap) (v : Item) (h1 : Heap) (v' : Item) (e : transfer M fuel s h v = (h1, some v'))
    (cb : ClosedBelow h.next h) (K : List Nat) (hK : ∀ r, r ∈ K → r < h.next)
    (acts : List Act) (adm : AdmissibleAll h1 K acts) (n : Nat) :
    observeN n (runScript h1 K acts).1 v' = observeN n h1 v' :=
  retained_fresh_observe M fuel s hs h v h1 v' e cb K hK acts adm n

/-- **setattr, joint separation**: the declaration's sites all copy, the value graph the caller passes (roots `K`)
    is separate from the instance (`K` reaches nothing the instance reaches) ⇒ after `inst.name = value` NO script of
    native mutations from the caller's value changes ANY observation of the instance — the assigned field and all
    the other fields, to any depth. -/
theorem setattr_separation (M : Kind → Cat → Mode) (fuel : Nat) (s : Shape) (hs : safeShape M s = true)
    (h : Heap) (inst : Nat) (name : String) (v : Item) (h2 : Heap)
    (e : setattrOp M fuel s h inst name v = (h2, some ()))
    (cb : ClosedBelow h.next h) (hi : inst < h.next)
    (K : List Nat) (hK : ∀ r, r ∈ K → r < h.next) (sep : ∀ a, Held h K a → ¬ Reach h inst a)
    (acts : List Act) (adm : AdmissibleAll h2 K acts) (n : Nat) :
    observeN n (runScript h2 K acts).1 (.ref inst) = observeN n h2 (.ref inst) := by
  simp only [setattrOp] at e
  cases ht : transfer M fuel s h v with
  | mk h1 o =>
    rw [ht] at e
    cases o with
    | none => simp at e
    | some v' =>
      simp only [Prod.mk.injEq, and_true] at e
      have fr := transfer_frame M fuel s h v h1 _ ht
      have fs := transfer_fresh h.next M fuel s hs h v h1 v' (Nat.le_refl _)
        (fun _ ha hlt => absurd (Nat.lt_of_lt_of_le hlt ha) (Nat.lt_irrefl _)) ht
      have hnext : h2.next = h1.next := by rw [← e]; rfl
      -- cells of h2
      have cellInst : h2.cells inst = ⟨(h1.cells inst).tag, setItem name v' (h1.cells inst).items⟩ := by
        rw [← e]; simp [Heap.write]
      have cellOther : ∀ b, b ≠ inst → h2.cells b = h1.cells b := by
        intro b hb; rw [← e]; simp only [Heap.write]; rw [if_neg hb]
      have cellOld : ∀ b, b ≠ inst → b < h.next → h2.cells b = h.cells b := by
        intro b hb hlt; rw [cellOther b hb, fr.2 b hlt]
      -- what the caller holds afterwards is what it held before
      have heldOld : ∀ a, Held h2 K a → Held h K a := by
        intro a ha
        obtain ⟨r, hr, ra⟩ := ha
        refine ⟨r, hr, c19_reach_transport (h := h) (h2 := h2) ?_ ra⟩
        intro b rb
        have hb : b < h.next := reach_below cb (hK r hr) rb
        have ne : b ≠ inst := by
          intro eq
          exact sep b ⟨r, hr, rb⟩ (by rw [eq]; exact Reach.refl _)
        exact cellOld b ne hb
      -- what the instance reaches afterwards: what it reached before, or the freshly built value
      have instReach : ∀ a, Reach h2 inst a → Reach h inst a ∨ (h.next ≤ a ∧ a < h1.next) := by
        intro a ra
        induction ra with
        | refl => exact Or.inl (Reach.refl _)
        | @step b c _ hk ih =>
          cases ih with
          | inr hnew =>
            have nb : b ≠ inst := fun eq => absurd hi (by rw [← eq]; exact Nat.not_lt.mpr hnew.1)
            rw [cellOther b nb] at hk
            exact Or.inr (fs.1 b hnew.1 hnew.2 c hk)
          | inl hold =>
            by_cases eb : b = inst
            · subst eb
              rw [cellInst] at hk
              cases c19_kids_setItem _ name v' _ c hk with
              | inl h3 =>
                have : c ∈ (h.cells b).kids := by
                  rw [← fr.2 b hi]
                  exact h3
                exact Or.inl (Reach.step hold this)
              | inr h3 => exact Or.inr (fs.2 c h3)
            · have hb : b < h.next := reach_below cb hi hold
              rw [cellOld b eb hb] at hk
              exact Or.inl (Reach.step hold hk)
      have sp := script_protects (fun a => Reach h2 inst a) acts h2 K
        (by
          intro a ha hp
          have hold := heldOld a ha
          cases instReach a hp with
          | inl h3 => exact sep a hold h3
          | inr h3 =>
            obtain ⟨r, hr, ra⟩ := hold
            exact absurd (reach_below cb (hK r hr) ra) (Nat.not_lt.mpr h3.1))
        (by
          intro a hp
          rw [hnext]
          cases instReach a hp with
          | inl h3 => exact Nat.lt_of_lt_of_le (reach_below cb hi h3) fr.1
          | inr h3 => exact h3.2)
        adm
      apply observe_agree (fun a => Reach h2 inst a) (fun a ha => sp.1 a ha)
        (fun a ha k hk => Reach.step ha hk) n
      intro a ea
      simp only [Item.ref.injEq] at ea
      subst ea
      exact Reach.refl _


/-- non-vacuity of `setattr_separation`, kernel-evaluated on today's table: instance cell 0 (field "a" -> list cell 1),
    the caller assigns its own list (cell 2, holding list cell 3) to the Array[Array[Integer]] field "f"; emptying both
    of the caller's lists afterwards leaves every observation of the instance as it was -/
theorem setattr_separation_example :
    let h0 := Heap.ofList [⟨"inst", [("a", .ref 1)]⟩, ⟨"list", [("0", .atom 2)]⟩,
                           ⟨"list", [("0", .ref 3)]⟩, ⟨"list", [("0", .atom 2)]⟩]
    let s := Shape.coll .array (.coll .array (.scalar .number))
    (match setattrOp (modeOf Generated.aliasing .setattr) 9 s h0 0 "f" (.ref 2) with
     | (h2, some ()) =>
       safeShape (modeOf Generated.aliasing .setattr) s &&
       (observeN 5 (runScript h2 [2] [.write 2 ⟨"list", []⟩, .write 3 ⟨"list", []⟩]).1 (.ref 0)).beq (observeN 5 h2 (.ref 0)) &&
       (reachList 5 h2 (.ref 0)).length == 4
     | _ => false) = true := by
  decide +kernel

/-! ## part 3 — the table -/

def TablesOk (tbl : List AliasRow) : Prop := ∀ r, r ∈ tbl → (r.safe || !r.inScope || isKnown r) = true

/-- obligation re-checked against the regenerated table on every run: a new aliasing / mutating site, or a
    site where the source reading and the probe disagree, breaks it -/
theorem tables_ok : TablesOk Generated.aliasing := by
  unfold TablesOk
  decide +kernel

/-- the exclusion list is exact: every listed row is in today's table, in scope and unsafe -/
theorem known_rows_are_findings :
    knownRows.all (fun k => Generated.aliasing.any fun r =>
      r.op == k.1 && r.kind == k.2.1 && r.cat == k.2.2 && !r.safe && r.inScope) = true := by
  decide +kernel

/-- no site of today's table edits an argument, and wherever the source idiom was recognised it agrees with the probe -/
theorem no_arg_mutation_today : Generated.aliasing.all (fun r => !r.argMutated && r.agree) = true := by
  decide +kernel

/-- the committed snapshot the model was last aligned with has the same unsafe rows as today's table -/
theorem pinned_same_findings :
    (Generated.aliasing.filter fun r => !r.safe).map (fun r => (r.op, r.kind, r.cat)) =
    (Pinned.aliasing.filter fun r => !r.safe).map (fun r => (r.op, r.kind, r.cat)) := by
  decide +kernel

/-- the repaired rows are safe rows of today's table (and the source reading agrees with the probe there) -/
theorem fixed_rows_safe_today :
    fixedRows.all (fun k => Generated.aliasing.any fun r =>
      r.op == k.1 && r.kind == k.2.1 && r.cat == k.2.2 && r.safe) = true := by
  decide +kernel

/-! ## part 4 — from the table to the declaration -/

def siteOk (tbl : List AliasRow) (op : OpK) (kc : Kind × Cat) : Bool :=
  match lookupRow tbl op kc.1 kc.2 with
  | some r => r.mode.copies
  | none => false

theorem modeOf_copies {tbl : List AliasRow} {op : OpK} {k : Kind} {c : Cat} (h : siteOk tbl op (k, c) = true) :
    (modeOf tbl op k c).copies = true := by
  simp only [siteOk] at h
  simp only [modeOf]
  cases hl : lookupRow tbl op k c with
  | none => rw [hl] at h; exact absurd h (by decide)
  | some r => rw [hl] at h; exact h

theorem all_append {α : Type} {p : α → Bool} {l1 l2 : List α} (h : (l1 ++ l2).all p = true) :
    l1.all p = true ∧ l2.all p = true := by
  rw [List.all_append] at h
  exact and_true_split h

mutual
theorem safeShape_of_sites (tbl : List AliasRow) (op : OpK) :
    (s : Shape) → (sitesOf s).all (siteOk tbl op) = true → safeShape (modeOf tbl op) s = true
  | .scalar _, _ => by simp [safeShape]
  | .any, h => by
    simp only [sitesOf, List.all_cons, List.all_nil, Bool.and_true] at h
    simp only [safeShape]; exact modeOf_copies h
  | .untyped, h => by
    simp only [sitesOf, List.all_cons, List.all_nil, Bool.and_true] at h
    simp only [safeShape]; exact modeOf_copies h
  | .coll k s, h => by
    simp only [sitesOf, List.all_cons] at h
    have h' := and_true_split h
    simp only [safeShape, modeOf_copies h'.1, safeShape_of_sites tbl op s h'.2, Bool.and_self]
  | .keyed k fs, h => by
    simp only [sitesOf, List.all_cons] at h
    have h' := and_true_split h
    simp only [safeShape, modeOf_copies h'.1, safeFields_of_sites tbl op fs h'.2, Bool.and_self]
  | .wrap k s, h => by
    simp only [sitesOf, List.all_cons] at h
    have h' := and_true_split h
    simp only [safeShape, modeOf_copies h'.1, safeShape_of_sites tbl op s h'.2, Bool.and_self]
  | .wrapN k p opts, h => by
    simp only [sitesOf, List.all_cons] at h
    have h' := and_true_split h
    have hfb : (modeOf tbl op (fallbackSite k p opts).1 (fallbackSite k p opts).2).copies = true :=
      modeOf_copies (k := (fallbackSite k p opts).1) (c := (fallbackSite k p opts).2) h'.1
    simp only [safeShape, hfb, safeOpts_of_sites tbl op k opts h'.2, Bool.and_self]
  | .owned s, h => by
    simp only [sitesOf, List.all_cons] at h
    simp only [safeShape, safeShape_of_sites tbl op s (and_true_split h).2]
theorem safeOpts_of_sites (tbl : List AliasRow) (op : OpK) (k : Kind) :
    (opts : List Shape) → (sitesOfOpts k opts).all (siteOk tbl op) = true → safeOpts (modeOf tbl op) k opts = true
  | [], _ => by simp [safeOpts]
  | s :: rest, h => by
    simp only [sitesOfOpts, List.all_cons] at h
    have h' := and_true_split h
    have h'' := all_append h'.2
    simp only [safeOpts, modeOf_copies h'.1, safeShape_of_sites tbl op s h''.1, safeOpts_of_sites tbl op k rest h''.2,
      Bool.and_self]
theorem safeFields_of_sites (tbl : List AliasRow) (op : OpK) :
    (fs : List (String × Shape)) → (sitesOfFields fs).all (siteOk tbl op) = true → safeFields (modeOf tbl op) fs = true
  | [], _ => by simp [safeFields]
  | (_, s) :: rest, h => by
    simp only [sitesOfFields] at h
    have h' := all_append h
    simp only [safeFields, safeShape_of_sites tbl op s h'.1, safeFields_of_sites tbl op rest h'.2, Bool.and_self]
end

theorem lookupRow_mem {tbl : List AliasRow} {op : OpK} {k : Kind} {c : Cat} {r : AliasRow}
    (h : lookupRow tbl op k c = some r) : r ∈ tbl := by
  simp only [lookupRow] at h
  exact List.mem_of_find?_eq_some h

theorem admitted_ok {tbl : List AliasRow} (ok : TablesOk tbl) {op : OpK} {kc : Kind × Cat}
    (h : admitted tbl op kc = true) : siteOk tbl op kc = true := by
  simp only [admitted] at h
  simp only [siteOk]
  cases hl : lookupRow tbl op kc.1 kc.2 with
  | none => rw [hl] at h; exact absurd h (by decide)
  | some r =>
    rw [hl] at h
    simp only
    have := ok r (lookupRow_mem hl)
    have h' := and_true_split h
    cases hsafe : r.safe with
    | true =>
      simp only [AliasRow.safe] at hsafe
      exact (and_true_split hsafe).2
    | false =>
      rw [hsafe, h'.1] at this
      have hk := h'.2
      cases hkn : isKnown r with
      | true => rw [hkn] at hk; exact absurd hk (by decide)
      | false => rw [hkn] at this; exact absurd this (by decide)

theorem all_imp {α : Type} {p q : α → Bool} (hpq : ∀ a, p a = true → q a = true) :
    ∀ l : List α, l.all p = true → l.all q = true
  | [], _ => rfl
  | a :: rest, h => by
    simp only [List.all_cons] at h ⊢
    have h' := and_true_split h
    rw [hpq a h'.1, all_imp hpq rest h'.2]; rfl

/-! ## part 5 — the statement -/

/-- what C19 says about one operation on one declaration: whatever heap it starts from, whatever it is
    given, whether or not it succeeds, (1) every pre-existing cell is unchanged, and if it succeeds,
    (2) no script of native mutations from the returned value changes a pre-existing cell and
    (3) no script from pre-existing objects (the arguments) changes the region the operation built. -/
def HoldsFor (tbl : List AliasRow) (op : OpK) (s : Shape) : Prop :=
  ∀ (fuel : Nat) (h : Heap) (src : Item) (h' : Heap) (r : Option Item),
    transfer (modeOf tbl op) fuel s h src = (h', r) →
    (∀ a, a < h.next → h'.cells a = h.cells a) ∧
    ∀ res, r = some res →
      (∀ acts, AdmissibleAll h' (roots res) acts →
        ∀ a, a < h.next → (runScript h' (roots res) acts).1.cells a = h.cells a) ∧
      (ClosedBelow h.next h → ∀ K, (∀ x, x ∈ K → x < h.next) → ∀ acts, AdmissibleAll h' K acts →
        ∀ n, observeN n (runScript h' K acts).1 res = observeN n h' res)

def inScopeShape (op : OpK) (s : Shape) : Bool := (sitesOf s).all fun kc => inScopeSite op kc.1

/-- **the full statement**: for every operation and every declaration within the statement's scope -/
def C19_statement (tbl : List AliasRow) : Prop :=
  ∀ (op : OpK) (s : Shape), inScopeShape op s = true → HoldsFor tbl op s

theorem holdsFor_of_safe (tbl : List AliasRow) (op : OpK) (s : Shape)
    (hs : safeShape (modeOf tbl op) s = true) : HoldsFor tbl op s := by
  intro fuel h src h' r e
  refine ⟨(transfer_frame _ fuel s h src h' r e).2, ?_⟩
  intro res hr
  subst hr
  refine ⟨fun acts adm => returns_fresh _ fuel s hs h src h' res e acts adm, ?_⟩
  intro cb K hK acts adm n
  exact retained_fresh_observe _ fuel s hs h src h' res e cb K hK acts adm n

/-- **C19_partial**: for ANY table that meets the obligation `TablesOk`, the statement holds for every
    operation and every declaration all of whose sites are admitted (known to the table, in scope, and not
    one of the listed known-finding rows) — the exclusion is the decidable predicate `admitted`. -/
theorem C19_partial (tbl : List AliasRow) (ok : TablesOk tbl) (op : OpK) (s : Shape)
    (adm : (sitesOf s).all (admitted tbl op) = true) : HoldsFor tbl op s :=
  holdsFor_of_safe tbl op s
    (safeShape_of_sites tbl op s (all_imp (fun _ h => admitted_ok ok h) _ adm))

/-- today's code -/
theorem C19_today (op : OpK) (s : Shape) (adm : (sitesOf s).all (admitted Generated.aliasing op) = true) :
    HoldsFor Generated.aliasing op s :=
  C19_partial _ tables_ok op s adm

/-! ## part 6 — kernel-checked counterexamples for every unsafe row -/

def witnessItem : Cat → Shape
  | .number => .scalar .number
  | .string => .scalar .string
  | .any => .any
  | .untyped => .untyped
  | .coll => .coll .array (.scalar .number)
  | .struct => .keyed .struct [("x", .scalar .number)]
  | .inline => .keyed .inline [("x", .scalar .number)]
  | .wrap => .wrap .anyOf (.coll .array (.scalar .number))
  | .enum => .scalar .enum
  | .tupl => .coll .tuple (.coll .array (.scalar .number))
  | _ => .scalar .scalar

def witnessShape (k : Kind) (c : Cat) : Shape :=
  match k with
  | .array | .deque | .set | .immSet | .tuple | .map => .coll k (witnessItem c)
  | .anyOf | .oneOf | .allOf | .notF => .wrap k (witnessItem c)
  | .misfit => .wrapN .anyOf (.fixed 0) [match c with | .coll => .coll .map (.scalar .number) | _ => witnessItem c]
  | .any => .any
  | .document | .mapping | .names | .required | .enumValues | .default | .schema | .fieldState => .wrap k .any
  | _ => .keyed k [("x", .scalar .number)]

/-- cell 0: the top-level container (kwargs for input operations, the instance for output operations);
    cell 1: the collection stored under key "f" -/
def witnessHeap : Heap :=
  Heap.ofList [⟨"top", [("f", .ref 1)]⟩, ⟨"list", [("0", .atom 1), ("x", .atom 2)]⟩]

def topless (op : OpK) : Bool := op == .setattr || op == .fieldSerialize

/-- run the row's operation on the witness, let the caller clear the collection (cell 1) — which it can
    reach both from what it passed in and from what it got back — and compare observations of both sides -/
def cexWorks (tbl : List AliasRow) (r : AliasRow) : Bool :=
  let s := if topless r.op then witnessShape r.kind r.cat else .keyed .root [("f", witnessShape r.kind r.cat)]
  let src : Item := if topless r.op then .ref 1 else .ref 0
  match transfer (modeOf tbl r.op) 5 s witnessHeap src with
  | (h', some res) =>
    let poked := (runScript h' (roots res) [.write 1 ⟨"list", []⟩]).1
    (reachList 4 h' res).contains 1                                     -- the poke is admissible from the result
      && !(observeN 4 poked res).beq (observeN 4 h' res)                 -- input side: the new instance changed
      && !(observeN 4 poked (.ref 0)).beq (observeN 4 h' (.ref 0))       -- output side: the source (instance) changed
  | _ => false

/-- for every unsafe in-scope row of today's table the model exhibits a history violating the statement:
    operation, one native mutation of an object the caller legitimately holds, observation differs -/
theorem unsafe_rows_have_counterexamples :
    (Generated.aliasing.filter fun r => !r.safe && r.inScope).all (cexWorks Generated.aliasing) = true := by
  decide +kernel

theorem reachList_sound (h : Heap) : ∀ (n : Nat) (i : Item) (b : Nat), b ∈ reachList n h i → Held h (roots i) b := by
  intro n
  induction n with
  | zero =>
    intro i b hb
    cases i with
    | atom v => simp [reachList] at hb
    | ref a =>
      simp only [reachList, List.mem_singleton] at hb
      subst hb
      exact ⟨b, by simp [roots], Reach.refl _⟩
  | succ n ih =>
    intro i b hb
    cases i with
    | atom v => simp [reachList] at hb
    | ref a =>
      simp only [reachList, List.mem_cons, List.mem_flatten, List.mem_map] at hb
      cases hb with
      | inl e => subst e; exact ⟨b, by simp [roots], Reach.refl _⟩
      | inr hx =>
        obtain ⟨l, ⟨p, hp, rfl⟩, hbl⟩ := hx
        have := ih p.2 b hbl
        obtain ⟨r, hr, rb⟩ := this
        cases hp2 : p.2 with
        | atom v => rw [hp2] at hr; simp [roots] at hr
        | ref c =>
          rw [hp2] at hr
          simp only [roots, List.mem_singleton] at hr
          subst hr
          refine ⟨a, by simp [roots], ?_⟩
          have hk : r ∈ (h.cells a).kids := by
            simp only [Cell.kids, List.mem_filterMap]
            exact ⟨p, hp, by rw [hp2]; rfl⟩
          have base : Reach h a r := Reach.step (Reach.refl a) hk
          clear hbl ih hp hp2 hk
          induction rb with
          | refl => exact base
          | step _ hk' ih' => exact Reach.step ih' hk'

/-- a former explicit counterexample, now positive (typedpy commit 89fd84a): constructing with
    `OneOf[Array[Integer], …]` no longer keeps the caller's list (cell 1) — clearing that list afterwards leaves the new
    instance as it was -/
theorem oneOf_keeps_a_copy_today :
    let s := Shape.keyed .root [("f", .wrap .oneOf (.coll .array (.scalar .number)))]
    let out := transfer (modeOf Generated.aliasing .construct) 5 s witnessHeap (.ref 0)
    ∃ inst, out.2 = some inst ∧
      (reachList 4 out.1 inst).contains 1 = false ∧
      (observeN 3 (runScript out.1 [0] [.write 1 ⟨"list", []⟩]).1 inst).beq (observeN 3 out.1 inst) = true := by
  refine ⟨.ref 3, by decide +kernel, by decide +kernel, by decide +kernel⟩

/-- OneOf / AllOf over every kind of container option (and with ALL their options): the statement holds today for
    construction and assignment -/
def oneOfShape : Shape :=
  .keyed .root [("a", .wrapN .oneOf .firstFit [.coll .array (.scalar .number), .coll .map (.coll .array (.scalar .number)), .scalar .string]),
                ("b", .wrapN .allOf .firstFit [.coll .array (.scalar .number)]),
                ("c", .wrapN .oneOf .firstFit [.keyed .inline [("x", .scalar .number), ("l", .coll .array (.scalar .number))], .scalar .string]),
                ("d", .coll .array (.wrapN .oneOf .firstFit [.wrapN .anyOf .firstFit [.coll .array (.scalar .number), .scalar .string], .scalar .number]))]

theorem oneOf_allOf_fresh_today :
    HoldsFor Generated.aliasing .construct oneOfShape ∧
    HoldsFor Generated.aliasing .setattr (.wrapN .oneOf .firstFit [.coll .array (.scalar .number), .scalar .string]) ∧
    HoldsFor Generated.aliasing .setattr (.wrapN .allOf .firstFit [.coll .map (.coll .array (.scalar .number))]) :=
  ⟨C19_today _ _ (by decide +kernel), C19_today _ _ (by decide +kernel), C19_today _ _ (by decide +kernel)⟩

-- BEGIN finding:misfit
/-- a former explicit counterexample, now positive: `AnyOf[Array[Integer], Enum(values=…)]` — `AnyOf.serialize` hands the
    stored list (cell 1) to the option that takes it (the Array option), and the document is a new list -/
def misfitShape : Shape := .wrapN .anyOf .firstFit [.coll .array (.scalar .number), .scalar .enum]

theorem anyOf_serialize_picks_the_fitting_option_today :
    let out := transfer (modeOf Generated.aliasing .fieldSerialize) 5 misfitShape witnessHeap (.ref 1)
    ∃ doc, out.2 = some doc ∧ (reachList 4 out.1 doc).contains 1 = false ∧
      (observeN 3 (runScript out.1 (roots doc) [.write 2 ⟨"list", []⟩]).1 (.ref 0)).beq (observeN 3 out.1 (.ref 0)) = true := by
  refine ⟨.ref 2, by decide +kernel, by decide +kernel, by decide +kernel⟩
-- END finding:misfit

-- BEGIN finding:tupl
/-- cell 0: kwargs {f: cell 1}; cell 1: the tuple (cell 2, 2); cell 2: the caller's list inside the tuple -/
def tupleHeap : Heap :=
  Heap.ofList [⟨"dict", [("f", .ref 1)]⟩, ⟨"tuple", [("0", .ref 2), ("1", .atom 2)]⟩, ⟨"list", [("0", .atom 4)]⟩]

def tupleShape : Shape :=
  .keyed .root [("f", .wrapN .oneOf .firstFit [.keyed .tuplePos [("0", .coll .array (.scalar .string)), ("1", .scalar .number)],
                                               .scalar .string])]

/-- a former explicit counterexample, now positive: `OneOf[Tuple[Array[String], Integer], String]` given a tuple keeps a
    private deep copy — the caller's list inside the tuple (cell 2) is not the instance's, emptying it changes nothing -/
theorem oneOf_copies_tuple_elements_today :
    let out := transfer (modeOf Generated.aliasing .construct) 5 tupleShape tupleHeap (.ref 0)
    ∃ inst, out.2 = some inst ∧ (reachList 5 out.1 inst).all (fun a => decide (3 ≤ a)) = true ∧
      (observeN 4 (runScript out.1 [0] [.write 2 ⟨"list", []⟩]).1 inst).beq (observeN 4 out.1 inst) = true := by
  decide +kernel
-- END finding:tupl

/-- the unsafe in-scope rows of today's table are exactly the listed ones -/
theorem only_listed_rows_unsafe_today :
    ((Generated.aliasing.filter fun r => !r.safe && r.inScope).all (fun r => knownRows.contains (r.op, r.kind, r.cat)) &&
     knownRows.all (fun k => (Generated.aliasing.filter fun r => !r.safe && r.inScope).any
       fun r => r.op == k.1 && r.kind == k.2.1 && r.cat == k.2.2)) = true := by
  decide +kernel

-- BEGIN statement-fails
-- (no unsafe in-scope row is left: see `only_listed_rows_unsafe_today`)
-- END statement-fails

/-- what was the flagship finding now holds: fast serialization (and `<field>.serialize`) of scalar-item
    and untyped collections — Array[Integer], Array[String], untyped Array / Deque / Map, also nested — is
    covered by the statement for all heaps, values and caller scripts -/
def fastShape : Shape :=
  .keyed .root [("a", .coll .array (.scalar .number)), ("s", .coll .array (.scalar .string)),
                ("u", .coll .array .untyped), ("q", .coll .deque .untyped), ("m", .coll .map .untyped),
                ("b", .coll .array (.coll .array (.scalar .number)))]

theorem fast_serialization_fresh_today : HoldsFor Generated.aliasing .fastSerialize fastShape :=
  C19_today _ _ (by decide +kernel)

theorem field_serialize_fresh_today :
    HoldsFor Generated.aliasing .fieldSerialize (.coll .array (.scalar .number)) ∧
    HoldsFor Generated.aliasing .fieldSerialize (.coll .array .untyped) ∧
    HoldsFor Generated.aliasing .fieldSerialize (.coll .deque .untyped) ∧
    HoldsFor Generated.aliasing .fieldSerialize (.coll .map .untyped) :=
  ⟨C19_today _ _ (by decide +kernel), C19_today _ _ (by decide +kernel), C19_today _ _ (by decide +kernel),
   C19_today _ _ (by decide +kernel)⟩

/-- the former counterexample inputs, kernel-evaluated on today's table: on the witness of every repaired row
    the operation succeeds and what it returns / keeps does not contain the collection it was given (cell 1) -/
def freshOnWitness (tbl : List AliasRow) (k : OpK × Kind × Cat) : Bool :=
  let s := if topless k.1 then witnessShape k.2.1 k.2.2 else .keyed .root [("f", witnessShape k.2.1 k.2.2)]
  let src : Item := if topless k.1 then .ref 1 else .ref 0
  match transfer (modeOf tbl k.1) 5 s witnessHeap src with
  | (h', some res) =>
    let poked := (runScript h' [] [.write 1 ⟨"list", []⟩]).1
    !(reachList 4 h' res).contains 1 && (observeN 4 poked res).beq (observeN 4 h' res)
  | _ => false

theorem fixed_rows_fresh_on_witness : fixedRows.all (freshOnWitness Generated.aliasing) = true := by
  decide +kernel

/-! ## part 7 — non-vacuity -/

/-- a non-trivial declaration (Array[Array[Integer]], Map[String, Array[Integer]], a nested structure)
    is admitted under the regular Serializer and under construction, the operation succeeds on a concrete
    heap, and the returned document shares no cell with the instance -/
def exampleShape : Shape :=
  .keyed .root [("a", .coll .array (.coll .array (.scalar .number))),
                ("m", .coll .map (.coll .array (.scalar .number))),
                ("i", .keyed .inline [("x", .scalar .number), ("l", .coll .array (.scalar .string))])]

def exampleHeap : Heap := Heap.ofList [
  ⟨"inst", [("a", .ref 1), ("m", .ref 3), ("i", .ref 5)]⟩,
  ⟨"list", [("0", .ref 2)]⟩, ⟨"list", [("0", .atom 1), ("1", .atom 2)]⟩,
  ⟨"dict", [("k", .ref 4)]⟩, ⟨"list", [("0", .atom 3)]⟩,
  ⟨"inst", [("x", .atom 7), ("l", .ref 6)]⟩, ⟨"list", [("0", .atom 8)]⟩]

theorem C19_example :
    (sitesOf exampleShape).all (admitted Generated.aliasing .serialize) = true ∧
    (sitesOf exampleShape).all (admitted Generated.aliasing .construct) = true ∧
    (match transfer (modeOf Generated.aliasing .serialize) 9 exampleShape exampleHeap (.ref 0) with
     | (h', some res) => sameBelow 7 exampleHeap h' && (reachList 6 h' res).all (fun a => decide (7 ≤ a))
                          && (reachList 6 h' res).length == 7
     | _ => false) = true := by
  decide +kernel

/-! ## part 8 — every public entry point is accounted for -/

/-- obligation re-checked against the public API introspected from /repo on every run: a new public function,
    method of an entry-point class or non-field class without a row in `apiRows` breaks it -/
theorem api_covered : apiCovered Generated.publicApi = true := by
  decide +kernel

/-- every row that claims coverage is backed by an executable probe / operation stream of the suite -/
theorem api_rows_probed : apiRowsProbed Generated.apiProbed = true := by
  decide +kernel

/-- the operations the entry points map to have rows in today's table and none of them edits an argument -/
theorem api_ops_in_table : apiOpsInTable Generated.aliasing = true := by
  decide +kernel

/-- non-vacuity: the coverage predicate rejects an API with one more public function -/
theorem api_covered_example :
    apiCovered (("brand_new_public_function", "function") :: Generated.publicApi) = false ∧
    apiCovered [("serialize", "function"), ("Array", "field")] = true := by
  decide +kernel

/-! ## part 9 — immutable owners and the choice of a multi-field wrapper's option -/

/-- both separation clauses follow from "the result lies in the region the walk allocated" alone -/
theorem holds_of_fresh_result {h h' : Heap} {res : Item} (fr : Frame h h')
    (fs : NewClosed h.next h' ∧ ItemIn h.next h' res) :
    (∀ acts, AdmissibleAll h' (roots res) acts →
      ∀ a, a < h.next → (runScript h' (roots res) acts).1.cells a = h.cells a) ∧
    (ClosedBelow h.next h → ∀ K, (∀ x, x ∈ K → x < h.next) → ∀ acts, AdmissibleAll h' K acts →
      ∀ n, observeN n (runScript h' K acts).1 res = observeN n h' res) := by
  constructor
  · intro acts adm a ha
    have held : ∀ b, Held h' (roots res) b → h.next ≤ b ∧ b < h'.next := by
      intro b hb
      obtain ⟨r, hr, rb⟩ := hb
      cases res with
      | atom v => simp [roots] at hr
      | ref x =>
        simp only [roots, List.mem_singleton] at hr
        subst hr
        exact reach_new fs.1 (fs.2 r rfl) rb
    have sp := script_protects (fun a => a < h.next) acts h' (roots res)
      (fun a ha hlt => absurd hlt (Nat.not_lt.mpr (held a ha).1))
      (fun a ha => Nat.lt_of_lt_of_le ha fr.1) adm
    rw [sp.1 a ha, fr.2 a ha]
  · intro cb K hK acts adm n
    have cb' := closedBelow_frame cb fr
    have sp := script_protects (fun a => h.next ≤ a ∧ a < h'.next) acts h' K
      (by
        intro a ha hp
        obtain ⟨r, hr, rb⟩ := ha
        exact absurd (reach_below cb' (hK r hr) rb) (Nat.not_lt.mpr hp.1))
      (fun a ha => ha.2) adm
    apply observe_agree (fun a => h.next ≤ a ∧ a < h'.next)
      (fun a ha => sp.1 a ha) (fun a ha k hk => fs.1 a ha.1 ha.2 k hk) n
    intro a ea
    exact fs.2 a ea

/-- what C19 says about a field of an immutable owner given a value that is not one of the exempt immutable
    kinds (scalars, typed wrappers, ImmutableStructure instances) -/
def OwnerHoldsFor (tbl : List AliasRow) (op : OpK) (s : Shape) : Prop :=
  ∀ (fuel : Nat) (h : Heap) (src : Item) (h' : Heap) (r : Option Item), ownerExempt h src = false →
    transfer (modeOf tbl op) fuel (.owned s) h src = (h', r) →
    (∀ a, a < h.next → h'.cells a = h.cells a) ∧
    ∀ res, r = some res →
      (∀ acts, AdmissibleAll h' (roots res) acts →
        ∀ a, a < h.next → (runScript h' (roots res) acts).1.cells a = h.cells a) ∧
      (ClosedBelow h.next h → ∀ K, (∀ x, x ∈ K → x < h.next) → ∀ acts, AdmissibleAll h' K acts →
        ∀ n, observeN n (runScript h' K acts).1 res = observeN n h' res)

/-- **immutable owners**: for ANY table whose owner row copies — whatever the rows of the field below say
    (`Anything` keeping the object, `OneOf` storing the original, a `return value` short cut …) and for EVERY
    declaration — the value an immutable owner keeps / hands out is separate from the caller's: deep copy in,
    deep copy out, with the separation theorem -/
theorem immutable_owner_holds (tbl : List AliasRow) (op : OpK) (s : Shape)
    (hm : (modeOf tbl op .owner .none).ownerCopies = true) : OwnerHoldsFor tbl op s := by
  intro fuel h src h' r hx e
  have fr := transfer_frame (modeOf tbl op) fuel (.owned s) h src h' r e
  refine ⟨fr.2, ?_⟩
  intro res hr
  subst hr
  exact holds_of_fresh_result fr
    (owned_fresh h.next (modeOf tbl op) fuel s hm h src hx h' res (Nat.le_refl _) (newClosed_init h) e)

def ownerOps : List OpK := [.construct, .setattr, .deserialize, .serialize, .fieldSerialize, .fastSerialize]

/-- today's table: for every operation the owner row exists, the source reading (`deepcopy(` under the
    IS_IMMUTABLE tests of `Structure.__setattr__`, `Field.__set__`, `Field.__get__`) agrees with the witness, and
    the owner copies -/
theorem owner_rows_copy_today :
    ownerOps.all (fun op =>
      (modeOf Generated.aliasing op .owner .none).ownerCopies &&
      (match lookupRow Generated.aliasing op .owner .none with
       | some r => r.agree && r.astMode == "deep" && !r.argMutated
       | none => false)) = true := by
  decide +kernel

theorem immutable_owner_today (op : OpK) (hop : op ∈ ownerOps) (s : Shape) :
    OwnerHoldsFor Generated.aliasing op s := by
  apply immutable_owner_holds
  have h := owner_rows_copy_today
  rw [List.all_eq_true] at h
  exact (and_true_split (h op hop)).1

/-- what C19 says about constructing / deserializing a whole immutable class from plain caller data -/
def ImmutableClassHoldsFor (tbl : List AliasRow) (op : OpK) (fs : List (String × Shape)) : Prop :=
  ∀ (fuel : Nat) (h : Heap) (a : Nat) (h' : Heap) (r : Option Item), PlainItems h (h.cells a).items →
    transfer (modeOf tbl op) fuel (.keyed .root fs) h (.ref a) = (h', r) →
    (∀ x, x < h.next → h'.cells x = h.cells x) ∧
    ∀ inst, r = some inst →
      (∀ acts, AdmissibleAll h' (roots inst) acts →
        ∀ x, x < h.next → (runScript h' (roots inst) acts).1.cells x = h.cells x) ∧
      (ClosedBelow h.next h → ∀ K, (∀ x, x ∈ K → x < h.next) → ∀ acts, AdmissibleAll h' K acts →
        ∀ n, observeN n (runScript h' K acts).1 inst = observeN n h' inst)

/-- **a whole ImmutableStructure**: for ANY table whose owner row copies and whose top-level site rebuilds — whatever
    the rows of the fields say — and for EVERY list of declared fields (each behind the owner's copy), constructing the
    instance from plain data writes nothing of the caller's, and afterwards neither a script from the instance changes
    the caller's objects nor a script from the caller's objects any observation of the instance -/
theorem immutable_class_holds (tbl : List AliasRow) (op : OpK) (fs : List (String × Shape)) (ho : allOwned fs = true)
    (hm : (modeOf tbl op .owner .none).ownerCopies = true) (hroot : modeOf tbl op .root .none = .rebuild) :
    ImmutableClassHoldsFor tbl op fs := by
  intro fuel h a h' r pl e
  have fr := transfer_frame (modeOf tbl op) fuel (.keyed .root fs) h (.ref a) h' r e
  refine ⟨fr.2, ?_⟩
  intro inst hr
  subst hr
  exact holds_of_fresh_result fr (immutable_class_fresh (modeOf tbl op) fuel fs ho hm hroot h a pl h' inst e)

/-- today's code: the constructor and the Deserializer of every ImmutableStructure class -/
theorem immutable_class_today (fs : List (String × Shape)) (ho : allOwned fs = true) :
    ImmutableClassHoldsFor Generated.aliasing .construct fs ∧ ImmutableClassHoldsFor Generated.aliasing .deserialize fs :=
  ⟨immutable_class_holds _ _ fs ho (by decide +kernel) (by decide +kernel),
   immutable_class_holds _ _ fs ho (by decide +kernel) (by decide +kernel)⟩

/-- the choice function of a multi-field wrapper picks the FIRST option the value fits -/
theorem firstFit_spec (h : Heap) (i : Item) : ∀ (opts : List Shape),
    (∀ j s, j < firstFitIdx h i opts → opts[j]? = some s → fits s h i = false) ∧
    (∀ s, opts[firstFitIdx h i opts]? = some s → fits s h i = true)
  | [] => ⟨fun j s hj => by simp [firstFitIdx] at hj, fun s e => by simp [firstFitIdx] at e⟩
  | o :: rest => by
    have ih := firstFit_spec h i rest
    cases hf : fits o h i with
    | true =>
      simp only [firstFitIdx, hf, if_true]
      refine ⟨fun j s hj => by omega, ?_⟩
      intro s e
      simp only [List.getElem?_cons_zero, Option.some.injEq] at e
      rw [← e]; exact hf
    | false =>
      simp only [firstFitIdx, hf, Bool.false_eq_true, if_false]
      constructor
      · intro j s hj e
        cases j with
        | zero =>
          simp only [List.getElem?_cons_zero, Option.some.injEq] at e
          rw [← e]; exact hf
        | succ j =>
          simp only [List.getElem?_cons_succ] at e
          exact ih.1 j s (by omega) e
      · intro s e
        simp only [List.getElem?_cons_succ] at e
        exact ih.2 s e

/-- a fixed delegation hands the value to THAT option if the value fits it, and to no option otherwise (the `misfit`
    site of that option's category: `fallbackSite`) -/
theorem fixed_pick_spec (n : Nat) (opts : List Shape) (h : Heap) (i : Item) :
    (pickIdx (.fixed n) opts h i = n ∧ ∃ s, opts[n]? = some s ∧ fits s h i = true) ∨
    pickIdx (.fixed n) opts h i = opts.length := by
  simp only [pickIdx]
  cases ho : opts[n]? with
  | none => exact Or.inr rfl
  | some s =>
    by_cases hf : fits s h i = true
    · exact Or.inl ⟨by simp only [if_pos hf], s, rfl, hf⟩
    · exact Or.inr (by simp only [if_neg hf])

/-- `AnyOf[Array[Integer], Map[String, Array[Integer]], String]` with ALL its options, as the element of an
    Array, as a Map value and on its own, plus `Optional[Map | Array]`: admitted under construction, the Serializer
    and the Deserializer — whichever option each value takes, the statement holds -/
def anyOpts : Shape :=
  .wrapN .anyOf .firstFit [.coll .array (.scalar .number), .coll .map (.coll .array (.scalar .number)), .scalar .string]

def hetShape : Shape :=
  .keyed .root [("xs", .coll .array anyOpts), ("one", anyOpts), ("m", .coll .map anyOpts),
                ("opt", .wrapN .anyOf .firstFit [.scalar .scalar, .coll .map (.coll .array (.scalar .number)),
                                                .coll .array (.scalar .number)])]

theorem anyOf_all_options_today :
    HoldsFor Generated.aliasing .construct hetShape ∧ HoldsFor Generated.aliasing .serialize hetShape ∧
    HoldsFor Generated.aliasing .deserialize hetShape :=
  ⟨C19_today _ _ (by decide +kernel), C19_today _ _ (by decide +kernel), C19_today _ _ (by decide +kernel)⟩

/-- cell 0: kwargs {xs: cell 1}; cell 1: [cell 2 (a list), cell 3 (a dict), "s"]; cell 4: the list inside the dict -/
def hetHeap : Heap := Heap.ofList [
  ⟨"dict", [("xs", .ref 1)]⟩,
  ⟨"list", [("0", .ref 2), ("1", .ref 3), ("2", .atom 4)]⟩,
  ⟨"list", [("0", .atom 2)]⟩, ⟨"dict", [("k", .ref 4)]⟩, ⟨"list", [("0", .atom 2)]⟩]

def oneOpts : Shape :=
  .wrapN .oneOf .firstFit [.coll .array (.scalar .number), .coll .map (.coll .array (.scalar .number)), .scalar .string]

/-- non-vacuity, kernel-evaluated on today's table: the elements of ONE list take different options of
    `OneOf[Array, Map, String]` (the list the first, the dict the second, the string the third); under construction
    today's OneOf keeps none of the caller's containers (it stores a private deep copy), on a plain Structure as well
    as owned by an ImmutableStructure -/
theorem wrapN_owned_example :
    (match transfer (modeOf Generated.aliasing .construct) 9 (.keyed .root [("xs", .coll .array oneOpts)]) hetHeap (.ref 0) with
     | (h', some res) => sameBelow 5 hetHeap h' && (reachList 6 h' res).all (fun a => decide (5 ≤ a))
                          && (reachList 6 h' res).length == 5
     | _ => false) = true ∧
    (match transfer (modeOf Generated.aliasing .construct) 9 (.keyed .root [("xs", .owned (.coll .array oneOpts))]) hetHeap (.ref 0) with
     | (h', some res) => sameBelow 5 hetHeap h' && (reachList 6 h' res).all (fun a => decide (5 ≤ a))
     | _ => false) = true ∧
    pickIdx .firstFit [.coll .array (.scalar .number), .coll .map .untyped, .scalar .string] hetHeap (.ref 3) = 1 ∧
    pickIdx (.fixed 2) [.coll .array (.scalar .number), .coll .map .untyped, .scalar .string] hetHeap (.ref 3) = 3 := by
  decide +kernel

end Typedpy.C19
