/-
  Props/C19.lean — property theorems for C19 (stub; to be filled in).
-/
namespace Typedpy.C19
end Typedpy.C19
