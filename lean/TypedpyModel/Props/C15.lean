/-
  Props/C15.lean — property theorems for C15 (stub; to be filled in).
-/
namespace Typedpy.C15
end Typedpy.C15
