/-
  Props/C15.lean — C15: a class behaves per its own definition, whatever else was defined or used.

  Model: `Sem/World.lean` (process-wide registries threaded explicitly; keyed as the table regenerated
  from /repo says, `Generated/Registries.lean` → `configOf`).  `view cfg w c` is what class `c` does in
  world `w` (checks per field, required sets, key mapping, serializer, trusted shortcut, schema
  "required", the global defaults it reads at use time).

  "Defined and used alone" is `slice T h`: of the history `h` only the definitions of a set `T` of
  classes closed under "is read by the definition of" (`closed T h`: parent and referenced classes) and
  the toggles of global defaults, no use of any class and no other definition.  For a class without
  parent and references, `T = {c}` and the slice of a toggle-free history is `[define c src]`.

  * `C15_today`          : C15 at FULL strength for the configuration read from the table generated from the
                           CURRENT tree — every history (induction over the op list, no bound), every
                           closed `T`, every class of it: `view (run h) c = view (run (slice T h)) c`;
                           no excluded region.  It rests on `current_config_safe` (`decide`: every switch
                           the model reads off the table is off).  `tables_ok` (`decide`: every row of the
                           table is safe or a listed finding) is the obligation a new name-keyed cache /
                           incomplete memo key / foreign-class write / in-place write / early-bound capture
                           breaks; `unsafe_rows_are_outside_model` says what the listed findings are.
  * `frame`              : the general theorem for any configuration with identity-keyed caches, outside
                           the region `Excluded cfg` in which that configuration's unsafe registries fire
                           (`excluded_today`: for the current tree that region is empty).
  * the two defects the pinned tree used to have (`FieldMeta._registry` keyed by bare class name, fixed
    in /repo 2a0935f; `structure_to_schema` writing `cls._required` in place, fixed in 6efdaf1) are kept
    as kernel-checked theorems about the configuration WITH those switches on
    (`name_keyed_registry_breaks_frame`, `inplace_required_breaks_frame`): they show that the table
    switches are not decorative, and `registry_fixed_example` / `required_fixed_example` evaluate the
    same histories under today's configuration.

  * NESTED effects are in the model (Sem/World.lean): mapper / simplicity cache fills of referenced classes,
    `create_serializer` generating the serializers of referenced FastSerializable classes, serializer flags
    (`serialize_none`, `compact`) bound at generation, late lookup of the referenced class's `serialize`.
    An explicit `create_serializer(cls, flags)` is CONFIGURATION of `cls` and stays in the sub-history of a
    class set containing `cls` (`sliceK`); the view of a class includes the serializers its referenced
    classes' instances are serialized with (`refSers`).
  * OPEN FINDING kept in the statement: `_verify_is_fast_serializable` looks `serialize` up through the MRO, so a
    FastSerializable owner of a class `B` whose own serializer cannot be generated becomes instantiable once a
    base class of `B` was used (`mro_serializer_breaks_frame`, kernel-checked on the model; reproduced on the
    real code by the directed histories of the world suite).  `C15_statement` is therefore FALSE of today's
    tree (`C15_statement_fails_today`); `C15_today_partial` proves it outside `Excluded`, whose only
    non-empty part for today's table is exactly that region (`quietStep`: a FastSerializable class referring to
    a class whose serializer cannot be generated, or an explicit create_serializer on such an owner).

  The claim is PARTIAL: only state the extractor sees is in the model; the fresh-interpreter
  comparison of the `world` suite is the backstop.
-/
import TypedpyModel.Lemmas.World
import TypedpyModel.Sem.WorldDecl
import TypedpyModel.Lemmas.WorldFootprint
import TypedpyModel.Generated.Registries
import TypedpyModel.Pinned.Registries
namespace Typedpy.C15
open Typedpy.World

/-! ### the statement -/

/-- C15 at full strength for a configuration: every history, every dependency-closed class set,
    every class in it — no exclusion -/
def C15_statement (cfg : Config) : Prop :=
  ∀ (T : ClassId → Bool) (h : List WorldOp) (c : ClassId), closed T h = true → T c = true →
    view cfg (runW cfg World.initial h) c = view cfg (runW cfg World.initial (slice T h)) c

/-- C15 outside the region `Excluded cfg` in which the configuration's unsafe registries — and the open finding
    about MRO-resolved serializers — fire -/
def C15_partial (cfg : Config) : Prop :=
  ∀ (T : ClassId → Bool) (h : List WorldOp) (c : ClassId), Excluded cfg h → closed T h = true → T c = true →
    view cfg (runW cfg World.initial h) c = view cfg (runW cfg World.initial (slice T h)) c

/-- the frame theorem: outside the known-finding region the view of a class after ANY history equals
    its view after the sub-history it depends on -/
theorem frame (cfg : Config) (hc : cfg.cachesById = true) (T : ClassId → Bool) (h : List WorldOp)
    (hx : Excluded cfg h) (hcl : closed T h = true) (c : ClassId) (hT : T c = true) :
    view cfg (runW cfg World.initial h) c = view cfg (runW cfg World.initial (slice T h)) c := by
  have s := sim_run hc (W := wrapsOf h) hx.1 T h [] World.initial World.initial (fun _ hq => hq) hcl hx.2
    (sim_initial cfg T (wrapsOf h)) (by intro d e _ _ hl; simp [World.initial, alookup] at hl)
  exact view_eq_of_lookS hc s.good s.good' s.flags (s.stab c hT) (fun e hl => s.wf c e hT hl)
    (fun e hl p hp => by
      have hf : ∃ f ∈ e.core.fields, f.kind = .ref p.2 := by
        unfold refFields at hp
        obtain ⟨f, hf, hfk⟩ := List.mem_filterMap.mp hp
        cases hk : f.kind with
        | ref b => rw [hk] at hfk; simp only [Option.some.injEq] at hfk; subst hfk; exact ⟨f, hf, hk⟩
        | prim t => rw [hk] at hfk; simp at hfk
        | wrap n t => rw [hk] at hfk; simp at hfk
        | refs cs => rw [hk] at hfk; simp at hfk
      obtain ⟨f, hf, hk⟩ := hf
      exact s.stab p.2 (s.tcl c e hT hl f hf p.2 (by simp [hk, kindRefs])))

/-- the literal form for a class that reads no other class, in a history without default toggles:
    defined anywhere in any history, it behaves as when it is the only thing ever defined -/
theorem frame_alone (cfg : Config) (hc : cfg.cachesById = true) (h : List WorldOp) (hx : Excluded cfg h)
    (c : ClassId) (src : ClassSrc) (hcl : closed (fun d => d == c) h = true)
    (hs : slice (fun d => d == c) h = [.define c src]) :
    view cfg (runW cfg World.initial h) c = view cfg (runW cfg World.initial [.define c src]) c := by
  have := frame cfg hc (fun d => d == c) h hx hcl c (by simp)
  rw [hs] at this
  exact this

/-! ### per-operation preservation -/

/-- using a class (construct, serialize, deserialize, structure_to_schema, create_serializer, trusted
    deserialization) in a coherent world, outside the finding region, changes the view of NO class -/
theorem use_changes_no_view (cfg : Config) (hc : cfg.cachesById = true) (W : List (String × TypeId))
    (w : World) (g : Good cfg W w) (op : WorldOp) (huse : plainUse op = true)
    (hq : quietStep cfg w op = true) (d : ClassId)
    (hwf : ∀ e, alookup d w.classes = some e → e.core.src.fast = true → refsCreatable cfg e = true) :
    view cfg (stepW cfg w op).1 d = view cfg w d := by
  have p := pres_step_use hc g op huse hq
  refine view_eq_of_lookS hc p.1 g p.2.2 (p.2.1 d) ?_ (fun _ _ q _ => p.2.1 q.2)
  intro e2 hl2 hf
  obtain ⟨e, hl, hcore⟩ := core_of_lookS (p.2.1 d) hl2
  have := hwf e hl (by rw [← hcore]; exact hf)
  simpa [refsCreatable, hcore] using this

/-- an explicit `create_serializer(c, fl)` (the one operation that CONFIGURES a class) changes the view of no
    class other than `c` and the classes that refer to `c`; re-generating with the flags `c` already has changes
    no view at all (`created_pres`) -/
theorem create_serializer_frame (cfg : Config) (hc : cfg.cachesById = true) (W : List (String × TypeId))
    (w : World) (g : Good cfg W w) (c : ClassId) (fl : SerFlags) (d : ClassId) (hd : c ≠ d)
    (hwf : ∀ e, alookup d w.classes = some e → e.core.src.fast = true → refsCreatable cfg e = true)
    (hnoref : ∀ e, alookup d w.classes = some e → ∀ p ∈ refFields e.core.fields, c ≠ p.2) :
    view cfg (stepW cfg w (.createSerializer c fl)).1 d = view cfg w d := by
  have cl := created_step hc g c fl
  refine view_eq_of_lookS hc cl.good g cl.flags (cl.other d hd) ?_ ?_
  · intro e2 hl2 hf
    obtain ⟨e, hl, hcore⟩ := created_core cl d e2 hl2
    have := hwf e hl (by rw [← hcore]; exact hf)
    simpa [refsCreatable, hcore] using this
  · intro e2 hl2 p hp
    obtain ⟨e, hl, hcore⟩ := created_core cl d e2 hl2
    exact cl.other p.2 (hnoref e hl p (by rw [← hcore]; exact hp))

/-- coherence ("every cache entry equals the function it memoises, every installed serializer is the one
    a fresh create_serializer would build, every implicit wrapper checks the class it was made for") is
    preserved by every use operation -/
theorem use_preserves_coherence (cfg : Config) (hc : cfg.cachesById = true) (W : List (String × TypeId))
    (w : World) (g : Good cfg W w) (op : WorldOp) (huse : plainUse op = true)
    (hq : quietStep cfg w op = true) : Good cfg W (stepW cfg w op).1 :=
  (pres_step_use hc g op huse hq).1

/-- … and by an explicit `create_serializer`, whatever its flags and whether or not it gets through -/
theorem create_serializer_preserves_coherence (cfg : Config) (hc : cfg.cachesById = true)
    (W : List (String × TypeId)) (w : World) (g : Good cfg W w) (c : ClassId) (fl : SerFlags) :
    Good cfg W (stepW cfg w (.createSerializer c fl)).1 :=
  (created_step hc g c fl).good

/-- … and by every definition whose implicit wrappers are among `W` -/
theorem define_preserves_coherence (cfg : Config) (W : List (String × TypeId))
    (hW : cfg.wrapperByName = true → NoClashW W) (w : World) (g : Good cfg W w) (c : ClassId) (src : ClassSrc)
    (hsub : ∀ q ∈ wrapsOfFields src.fields, q ∈ W) : Good cfg W (stepW cfg w (.define c src)).1 :=
  good_define hW g c src hsub

/-- a definition never changes the stable part of another class ("no op other than define writes a
    definition", and define writes only its own) -/
theorem define_changes_no_other_class (cfg : Config) (w : World) (c : ClassId) (src : ClassSrc) (d : ClassId)
    (h : c ≠ d) : lookS (stepW cfg w (.define c src)).1 d = lookS w d :=
  lookS_define_other cfg w c src h

/-- the constructor's accept/reject decision of a class after any history outside the finding region
    is its decision when defined alone -/
theorem accept_decision_frame (cfg : Config) (hc : cfg.cachesById = true) (T : ClassId → Bool)
    (h : List WorldOp) (hx : Excluded cfg h) (hcl : closed T h = true) (c : ClassId) (hT : T c = true)
    (kw : List (String × Arg)) :
    (view cfg (runW cfg World.initial h) c).map (acceptsKw · kw)
      = (view cfg (runW cfg World.initial (slice T h)) c).map (acceptsKw · kw) := by
  rw [frame cfg hc T h hx hcl c hT]

/-! ### conditional on the generated table -/

def SafeTables (rows : List RegistryRec) : Prop := ∀ r ∈ rows, r.safe = true

theorem any_unsafe_false {rows : List RegistryRec} (hs : SafeTables rows) (q : RegistryRec → Bool) :
    hasRow rows (fun r => q r && !r.safe) = false := by
  unfold hasRow
  rw [List.any_eq_false]
  intro r hr
  simp [hs r hr]

theorem safe_config_of_safe_tables (rows : List RegistryRec) (hs : SafeTables rows) :
    (configOf rows).safe = true := by
  simp [Config.safe, configOf, any_unsafe_false hs]

/-- the part of the excluded region that does not depend on the registry switches: the finding about serializers
    resolved through the MRO (see `quietStep`; vacuous when `cfg.serializerViaMro` is off) -/
def fastRefsQuiet (cfg : Config) (w : World) : WorldOp → Bool
  | .define c src => quietStep cfg w (.define c src)
  | .createSerializer c fl => quietStep cfg w (.createSerializer c fl)
  | _ => true

def fastRefsRun (cfg : Config) : World → List WorldOp → Bool
  | _, [] => true
  | w, op :: h => fastRefsQuiet cfg w op && fastRefsRun cfg (stepW cfg w op).1 h

theorem quietRun_of_fastRefsRun (cfg : Config) (hs : cfg.schemaWritesRequired = false) :
    ∀ (h : List WorldOp) (w : World), fastRefsRun cfg w h = true → quietRun cfg w h = true
  | [], _, _ => rfl
  | op :: h, w, hr => by
    simp only [fastRefsRun, Bool.and_eq_true] at hr
    simp only [quietRun, Bool.and_eq_true]
    refine ⟨?_, quietRun_of_fastRefsRun cfg hs h _ hr.2⟩
    cases op <;> first | exact hr.1 | simp [quietStep, hs]

theorem fastRefsRun_of_no_mro (cfg : Config) (hm : cfg.serializerViaMro = false) :
    ∀ (h : List WorldOp) (w : World), fastRefsRun cfg w h = true
  | [], _ => rfl
  | op :: h, w => by
    simp only [fastRefsRun, Bool.and_eq_true]
    refine ⟨?_, fastRefsRun_of_no_mro cfg hm h _⟩
    cases op with
    | define c src =>
      simp only [fastRefsQuiet, quietStep, refsCreatable, hm, Bool.not_false, Bool.true_or, Bool.or_true]
      split <;> rfl
    | createSerializer c fl =>
      simp only [fastRefsQuiet, quietStep, refsCreatable, hm, Bool.not_false, Bool.true_or]
      split <;> rfl
    | _ => rfl

theorem quietRun_of_no_schema_write (cfg : Config) (hs : cfg.schemaWritesRequired = false)
    (hm : cfg.serializerViaMro = false) (h : List WorldOp) (w : World) : quietRun cfg w h = true :=
  quietRun_of_fastRefsRun cfg hs h w (fastRefsRun_of_no_mro cfg hm h w)

theorem excluded_of_safe (cfg : Config) (hs : cfg.safe = true) (h : List WorldOp) : Excluded cfg h := by
  cases cfg with
  | mk a b b2 c d e m =>
    cases a <;> cases d <;> cases m <;> simp [Config.safe] at hs
    exact ⟨by simp, quietRun_of_no_schema_write _ rfl rfl h World.initial⟩

theorem cachesById_of_safe (cfg : Config) (hs : cfg.safe = true) : cfg.cachesById = true := by
  cases cfg with
  | mk a b b2 c d e m =>
    cases a <;> cases b <;> cases b2 <;> cases c <;> cases d <;> cases e <;> cases m <;>
      simp [Config.safe, Config.cachesById] at *

/-- C15 at FULL strength holds for every configuration whose switches are all off … -/
theorem C15_of_safe_config (cfg : Config) (hs : cfg.safe = true) : C15_statement cfg :=
  fun T h c hcl hT => frame cfg (cachesById_of_safe cfg hs) T h (excluded_of_safe cfg hs h) hcl c hT

/-- … in particular for the code whose registry table has only safe rows: identity-keyed caches, no
    write onto another class, no in-place write to a class's definition attributes, no decision through the MRO -/
theorem frame_safe_tables (rows : List RegistryRec) (hs : SafeTables rows) : C15_statement (configOf rows) :=
  C15_of_safe_config _ (safe_config_of_safe_tables rows hs)

/-! ### the current tree -/

/-- the configuration of a tree whose only unsafe registry row is the MRO lookup in `_verify_is_fast_serializable`
    (the open finding): every cache identity-keyed, nothing written in place, nothing frozen -/
def mroCfg : Config := { safeConfig with serializerViaMro := true }

/-- switch-wise implication: every finding switch that is on in `a` is on in `b` -/
def Config.le (a b : Config) : Bool :=
  (!a.wrapperByName || b.wrapperByName) && (!a.mapperByName || b.mapperByName) &&
  (!a.mapperDropsCamel || b.mapperDropsCamel) &&
  (!a.simplicityByName || b.simplicityByName) && (!a.schemaWritesRequired || b.schemaWritesRequired) &&
  (!a.serializerOnBase || b.serializerOnBase) && (!a.serializerViaMro || b.serializerViaMro)

/-- the switches the World model runs with for the CURRENT tree: all off except, at most, the MRO lookup of the
    open finding (off as well once the repair is in /repo — this theorem holds before and after) -/
theorem current_config_le_mro : Config.le (configOf Generated.registries) mroCfg = true := by decide +kernel

theorem props_of_le_mro {cfg : Config} (h : Config.le cfg mroCfg = true) :
    cfg.cachesById = true ∧ cfg.schemaWritesRequired = false ∧ cfg.wrapperByName = false := by
  cases cfg with
  | mk a b b2 c d e m =>
    cases a <;> cases b <;> cases b2 <;> cases c <;> cases d <;> cases e <;> cases m <;>
      simp [Config.le, mroCfg, safeConfig, Config.cachesById] at *

/-- the rows of the current table that are NOT safe are of the kinds of the listed findings: an attribute of
    another class captured early by a generated closure, or read through the MRO to decide something -/
theorem unsafe_rows_are_outside_model :
    ∀ r ∈ Generated.registries, r.safe = false → r.kind = .earlyBoundClassAttr ∨ r.kind = .mroRead := by
  decide +kernel

/-- every piece of process-wide state the extractor finds in the CURRENT tree is safe or a listed finding
    — the obligation a new name-keyed / unkeyed cache, incomplete memo key, foreign-class write, in-place write,
    early-bound capture, use-dependent Field state, frozen configuration or MRO-read decision breaks -/
theorem tables_ok : ∀ r ∈ Generated.registries, r.safe = true ∨ r.findingKey ∈ Generated.knownFindingKeys := by
  decide +kernel

/-- C15 for the current tree: for every history outside the region of the open finding, every
    dependency-closed class set and every class in it, the class's view after the history is its view when
    defined alone (with its own serializer configurations) -/
theorem C15_today_partial : C15_partial (configOf Generated.registries) :=
  fun T h c hx hcl hT => frame _ (props_of_le_mro current_config_le_mro).1 T h hx hcl c hT

/-- … and at FULL strength, with no excluded region, as soon as the table has no unsafe row left (the state
    after the proposed repair) -/
theorem C15_today_if_safe (hs : (configOf Generated.registries).safe = true) :
    C15_statement (configOf Generated.registries) :=
  C15_of_safe_config _ hs

/-- since /repo 981c83d (the repair of the MRO finding) every switch the model reads off the table is off for the
    CURRENT tree: identity-keyed registries and caches, complete memo keys, no in-place write to `_required`, serializer
    written onto `cls`, the referenced class's OWN `__dict__` consulted -/
theorem current_config_safe : (configOf Generated.registries).safe = true := by decide +kernel

/-- C15 at FULL strength for the current tree: for every history, every dependency-closed class set and every class
    in it, the class's view after the history is its view when defined alone (with its own serializer
    configurations) — no excluded region -/
theorem C15_today : C15_statement (configOf Generated.registries) :=
  C15_today_if_safe current_config_safe

/-- the excluded region of the general `frame` theorem is empty for the current tree -/
theorem excluded_today_empty (h : List WorldOp) : Excluded (configOf Generated.registries) h :=
  excluded_of_safe _ current_config_safe h

/-- for a tree whose only finding switch is the MRO lookup the excluded region is exactly the region of that finding -/
theorem excluded_today (h : List WorldOp)
    (hr : fastRefsRun (configOf Generated.registries) World.initial h = true) :
    Excluded (configOf Generated.registries) h := by
  have hp := props_of_le_mro current_config_le_mro
  exact ⟨by simp [hp.2.2], quietRun_of_fastRefsRun _ hp.2.1 h World.initial hr⟩

/-- using any class in a coherent world of the current tree (construct, serialize, deserialize,
    structure_to_schema, trusted deserialization — every operation that does not configure a serializer)
    changes the view of no class -/
theorem use_changes_no_view_today (W : List (String × TypeId)) (w : World)
    (g : Good (configOf Generated.registries) W w) (op : WorldOp) (huse : plainUse op = true)
    (d : ClassId)
    (hwf : ∀ e, alookup d w.classes = some e → e.core.src.fast = true →
      refsCreatable (configOf Generated.registries) e = true) :
    view (configOf Generated.registries) (stepW (configOf Generated.registries) w op).1 d
      = view (configOf Generated.registries) w d := by
  have hp := props_of_le_mro current_config_le_mro
  have hq : quietStep (configOf Generated.registries) w op = true := by
    cases op <;> first | (simp [plainUse] at huse; done) | rfl | simp [quietStep, hp.2.1]
  exact use_changes_no_view _ hp.1 W w g op huse hq d hwf

/-- the tree the model is aligned with has no finding switch on beyond the MRO lookup -/
theorem pinned_config : Config.le (configOf Pinned.registries) mroCfg = true := by decide +kernel

/-- the current tree has no finding switch on beyond those of the pinned tree -/
theorem config_no_worse : Config.le (configOf Generated.registries) (configOf Pinned.registries) = true := by
  decide +kernel

/-- the configuration the tree had before /repo 2a0935f and 6efdaf1: wrapper registry name-keyed,
    `_required` written in place -/
def findingsCfg : Config := ⟨true, false, false, false, true, false, false⟩

/-! ### the repaired defects: what the model does with the old switches on, and with today's table -/

def fld (name : String) (kind : FieldKind) (dflt : Bool := false) (key : String := name) : FieldSpec :=
  { name := name, kind := kind, hasDefault := dflt, serKey := key, camelKey := key ++ "^", camelName := name ++ "^",
    fastOk := true, trustedOk := true,
    schemaOk := true, inlines := 0 }

def clsA : ClassSrc := ⟨"A", none, [fld "x" (.wrap "User" 1)], false, none⟩
def clsB : ClassSrc := ⟨"B", none, [fld "x" (.wrap "User" 2)], false, none⟩

/-- two user classes both called `User` (identities 1 and 2) -/
def hReg : List WorldOp := [.define 0 clsA, .define 1 clsB]

/-- with `FieldMeta._registry` keyed by bare class name (the tree before 2a0935f): B's field is validated
    against A's user class -/
theorem name_keyed_registry_breaks_frame :
    view findingsCfg (runW findingsCfg World.initial hReg) 1
      ≠ view findingsCfg (runW findingsCfg World.initial (slice (fun d => d == 1) hReg)) 1
    ∧ (stepW findingsCfg (runW findingsCfg World.initial hReg) (.construct 1 [("x", .inst 2)])).2.accepted = false
    ∧ (stepW findingsCfg (runW findingsCfg World.initial hReg) (.construct 1 [("x", .inst 1)])).2.accepted = true
    ∧ (stepW findingsCfg (runW findingsCfg World.initial [.define 1 clsB]) (.construct 1 [("x", .inst 2)])).2.accepted = true := by
  decide +kernel

def clsS : ClassSrc := ⟨"S", none, [fld "a" (.prim 0) false "aa", fld "b" (.prim 2) true], false, none⟩
def clsD : ClassSrc := ⟨"D", some (.omit 0 ["b"]), [], false, none⟩

def hReq : List WorldOp := [.define 0 clsS, .toSchema 0, .define 1 clsD]

/-- with `structure_to_schema` writing `cls._required` in place (the tree before 6efdaf1): S's own
    `_required` changes, and a class derived with Omit afterwards no longer requires `a` -/
theorem inplace_required_breaks_frame :
    view findingsCfg (runW findingsCfg World.initial hReq) 0
      ≠ view findingsCfg (runW findingsCfg World.initial (slice (fun d => d == 0) hReq)) 0
    ∧ (view findingsCfg (runW findingsCfg World.initial hReq) 0).map (·.required) = some ["aa", "b"]
    ∧ (view findingsCfg (runW findingsCfg World.initial [.define 0 clsS]) 0).map (·.required) = some ["a"]
    ∧ (stepW findingsCfg (runW findingsCfg World.initial hReq) (.construct 1 [])).2.accepted = true
    ∧ (stepW findingsCfg (runW findingsCfg World.initial [.define 0 clsS, .define 1 clsD]) (.construct 1 [])).2.accepted = false := by
  decide +kernel

/-- the same history under TODAY's table: B checks its own `User` (identity 2), exactly as when alone -/
theorem registry_fixed_example :
    view (configOf Generated.registries) (runW (configOf Generated.registries) World.initial hReg) 1
      = view (configOf Generated.registries) (runW (configOf Generated.registries) World.initial [.define 1 clsB]) 1
    ∧ (stepW (configOf Generated.registries) (runW (configOf Generated.registries) World.initial hReg)
         (.construct 1 [("x", .inst 2)])).2.accepted = true
    ∧ (stepW (configOf Generated.registries) (runW (configOf Generated.registries) World.initial hReg)
         (.construct 1 [("x", .inst 1)])).2.accepted = false := by
  decide +kernel

/-- the same history under TODAY's table: `_required` of S is untouched by structure_to_schema (which
    still emits ["aa", "b"]), and the Omit-derived class still requires `a` -/
theorem required_fixed_example :
    (view (configOf Generated.registries) (runW (configOf Generated.registries) World.initial hReq) 0).map (·.required)
      = some ["a"]
    ∧ (stepW (configOf Generated.registries) (runW (configOf Generated.registries) World.initial [.define 0 clsS])
         (.toSchema 0)).2.keys = ["aa", "b"]
    ∧ view (configOf Generated.registries) (runW (configOf Generated.registries) World.initial hReq) 0
      = view (configOf Generated.registries) (runW (configOf Generated.registries) World.initial [.define 0 clsS]) 0
    ∧ (stepW (configOf Generated.registries) (runW (configOf Generated.registries) World.initial hReq)
         (.construct 1 [])).2.accepted = false := by
  decide +kernel

/-- the full statement is false of a tree with the two old switches on -/
theorem C15_statement_fails_with_findings : ¬ C15_statement findingsCfg := by
  intro h
  exact name_keyed_registry_breaks_frame.1 (h (fun d => d == 1) hReg 1 (by decide +kernel) (by decide +kernel))

/-- both histories lie exactly in the region `frame` excludes for that configuration -/
theorem counterexamples_are_excluded : ¬ Excluded findingsCfg hReg ∧ ¬ Excluded findingsCfg hReq := by
  decide +kernel

/-! ### non-vacuity -/

def clsP : ClassSrc := ⟨"Order", none, [fld "id" (.prim 0), fld "who" (.wrap "User" 1), fld "n" (.prim 1) true "N"], true, none⟩
def clsQ : ClassSrc := ⟨"Order", some (.inherit 0), [fld "extra" (.prim 2)], true, none⟩
def clsR : ClassSrc := ⟨"Box", none, [fld "o" (.ref 1), fld "u" (.wrap "User" 2)], false, some false⟩

/-- a history with same-named classes, two DIFFERENT user classes both named `User`, inheritance, a
    reference, uses of every kind (incl. structure_to_schema on classes with defaults, renamed keys and
    a reference) and a toggled-and-restored global default: under today's table the class `Box`
    (identity 2) behaves as when only it and the classes it depends on are defined, although the two
    worlds differ -/
def hEx : List WorldOp :=
  [.define 0 clsP, .construct 0 [("id", .prim 0 true), ("who", .inst 1)], .setDefault .addProps false,
   .define 1 clsQ, .serialize 0 [("id", .prim 0 true), ("who", .inst 1)] false, .createSerializer 1 .plain, .toSchema 0,
   .define 5 clsB, .toSchema 5, .trustedDeserialize 1 [], .setDefault .addProps true, .define 2 clsR,
   .deserialize 2 [("o", .struct 1), ("u", .inst 2)], .toSchema 1, .toSchema 2, .define 6 clsD]

theorem frame_example :
    closed (fun d => d ≤ 2) hEx = true
    ∧ (view (configOf Generated.registries) (runW (configOf Generated.registries) World.initial hEx) 2).isSome = true
    ∧ view (configOf Generated.registries) (runW (configOf Generated.registries) World.initial hEx) 2
        = view (configOf Generated.registries)
            (runW (configOf Generated.registries) World.initial (slice (fun d => d ≤ 2) hEx)) 2
    ∧ (stepW (configOf Generated.registries) (runW (configOf Generated.registries) World.initial hEx)
         (.construct 2 [("o", .struct 1), ("u", .inst 2)])).2.accepted = true
    ∧ runW (configOf Generated.registries) World.initial hEx
        ≠ runW (configOf Generated.registries) World.initial (slice (fun d => d ≤ 2) hEx) := by
  decide +kernel

/-! ### `camel_case_convert` as a use-parameter, positional arrays of several Structure item types -/

/-- a tree whose mapper cache key omits the `camel_case_convert` argument -/
def dropsCamelCfg : Config := ⟨false, false, true, false, false, false, false⟩

def hCamel : List WorldOp :=
  [.define 0 clsS, .serialize 0 [("a", .prim 0 true), ("b", .prim 2 true)] true,
   .serialize 0 [("a", .prim 0 true), ("b", .prim 2 true)] false]

/-- with the flag dropped from the key, a plain serialize after a camel-case one emits the camel-case keys
    and the class's view differs from its view alone; with today's table the second call emits the plain
    keys and the view is the view alone -/
theorem camel_key_dropped_breaks_frame :
    view dropsCamelCfg (runW dropsCamelCfg World.initial hCamel) 0
      ≠ view dropsCamelCfg (runW dropsCamelCfg World.initial [.define 0 clsS]) 0
    ∧ (obsW dropsCamelCfg World.initial hCamel).map (·.keys) = [[], ["aa^", "b^"], ["aa^", "b^"]]
    ∧ (obsW (configOf Generated.registries) World.initial hCamel).map (·.keys) = [[], ["aa^", "b^"], ["aa", "b"]]
    ∧ view (configOf Generated.registries) (runW (configOf Generated.registries) World.initial hCamel) 0
      = view (configOf Generated.registries) (runW (configOf Generated.registries) World.initial [.define 0 clsS]) 0 := by
  decide +kernel

def clsLine : ClassSrc := ⟨"Line", none, [fld "parts" (.refs [0, 1]), fld "n" (.prim 0) true], false, none⟩

/-- a container with a positional array of two Structure item types: serializing / schema-mapping the
    container leaves both item classes as when defined alone (today's table) -/
theorem refs_example :
    closed (fun d => d == 0) [.define 0 clsS, .define 1 clsA, .define 2 clsLine] = true
    ∧ closed (fun d => d ≤ 2) [.define 0 clsS, .define 1 clsA, .define 2 clsLine] = true
    ∧ (stepW (configOf Generated.registries)
         (runW (configOf Generated.registries) World.initial [.define 0 clsS, .define 1 clsA, .define 2 clsLine])
         (.serialize 2 [("parts", .structs [0, 1])] true)).2.accepted = true
    ∧ view (configOf Generated.registries)
        (runW (configOf Generated.registries) World.initial
          [.define 0 clsS, .define 1 clsA, .define 2 clsLine, .serialize 2 [("parts", .structs [0, 1])] true, .toSchema 2]) 0
      = view (configOf Generated.registries) (runW (configOf Generated.registries) World.initial [.define 0 clsS]) 0 := by
  decide +kernel

/-! ### nested fast serialization: serializers of referenced classes, flags, and the open finding -/

def ffld (name : String) (kind : FieldKind) (fast : Bool := true) (opt : Bool := false) (arr : Bool := false) : FieldSpec :=
  { name := name, kind := kind, hasDefault := false, serKey := name, camelKey := name, camelName := name,
    fastOk := fast, trustedOk := true, schemaOk := true, inlines := 0, arr := arr, optional := opt }

def clsAcct : ClassSrc := ⟨"Account", none, [ffld "id" (.prim 0)], true, none⟩
def clsPrem : ClassSrc := ⟨"Premium", some (.inherit 0), [ffld "level" (.prim 2)], true, none⟩
def clsOrder : ClassSrc := ⟨"Order", none, [ffld "ref_no" (.prim 2), ffld "account" (.ref 1) true true,
                                            ffld "items" (.ref 0) true false true], true, none⟩

/-- Account <- Premium, Order refers to Premium (optional) and to Array[Account]; the base class is used, the
    owner's serializer is generated (which generates Premium's, Account's exists), Premium is then CONFIGURED
    with `serialize_none`, Order is instantiated without the optional reference -/
def hNested : List WorldOp :=
  [.define 0 clsAcct, .define 1 clsPrem, .construct 0 [("id", .prim 0 true)], .define 2 clsOrder,
   .createSerializer 2 .plain, .createSerializer 1 ⟨true, false⟩,
   .construct 2 [("ref_no", .prim 2 true), ("items", .noItems)], .toSchema 2]

/-- the nested effects happen (all three classes have their own serializer, the referenced classes' mappers
    are cached), the owner's view records that Premium instances are serialized with `serialize_none`, and
    every class behaves as in its own sub-history — in which the configuration of Premium is kept -/
theorem nested_frame_example :
    closed (fun d => d ≤ 2) hNested = true
    ∧ Excluded (configOf Generated.registries) hNested
    ∧ slice (fun d => d ≤ 2) hNested
        = [.define 0 clsAcct, .define 1 clsPrem, .define 2 clsOrder, .createSerializer 1 ⟨true, false⟩]
    ∧ (view (configOf Generated.registries) (runW (configOf Generated.registries) World.initial hNested) 2).map (·.refSers)
        = some [("account", some ⟨["id", "level"], ⟨true, false⟩⟩), ("items", some ⟨["id"], .plain⟩)]
    ∧ view (configOf Generated.registries) (runW (configOf Generated.registries) World.initial hNested) 2
        = view (configOf Generated.registries)
            (runW (configOf Generated.registries) World.initial (slice (fun d => d ≤ 2) hNested)) 2
    ∧ view (configOf Generated.registries) (runW (configOf Generated.registries) World.initial hNested) 0
        = view (configOf Generated.registries)
            (runW (configOf Generated.registries) World.initial (slice (fun d => d == 0) hNested)) 0
    ∧ runW (configOf Generated.registries) World.initial hNested
        ≠ runW (configOf Generated.registries) World.initial (slice (fun d => d ≤ 2) hNested) := by
  decide +kernel

/-- the serializers `create_serializer(Order)` generates: Premium resolved to the placeholder (Account had not
    been used), so it is generated first, then Order; Account is not touched because no field path needs it
    before… it is reached through `items` and generated too -/
theorem nested_create_example :
    ((runW (configOf Generated.registries) World.initial
        [.define 0 clsAcct, .define 1 clsPrem, .define 2 clsOrder, .createSerializer 2 ⟨false, true⟩]).classes.filterMap
      fun p => p.2.serializer.map fun s => (p.1, s.keys, s.flags))
      = [(2, ["ref_no", "account", "items"], ⟨false, true⟩), (0, ["id"], .plain), (1, ["id", "level"], .plain)] := by
  decide +kernel

def clsBad : ClassSrc := ⟨"Gold", some (.inherit 0), [ffld "bad" (.prim 11) false], true, none⟩
def clsOwner : ClassSrc := ⟨"Order", none, [ffld "n" (.prim 0), ffld "b" (.ref 1) true true], true, none⟩

/-- `Gold(Account)` adds a field `create_serializer` cannot handle; `Order` refers to `Gold` (optional) -/
def hMro : List WorldOp := [.define 0 clsAcct, .define 1 clsBad, .construct 0 [("id", .prim 0 true)], .define 2 clsOwner]

/-- OPEN FINDING (mro-read:cls.serialize:_verify_is_fast_serializable), on the model configured as a tree that decides
    through the MRO: once the base class `Account` was instantiated, `Gold.serialize` resolves (through the MRO) to
    Account's generated serializer, `create_serializer(Order)` no longer looks at `Gold`, and `Order` can be
    instantiated; alone, generating Order's serializer tries to generate Gold's and raises -/
theorem mro_serializer_breaks_frame :
    closed (fun d => d ≤ 2) hMro = true
    ∧ (view mroCfg (runW mroCfg World.initial hMro) 2).map (·.instantiable) = some true
    ∧ (view mroCfg (runW mroCfg World.initial (slice (fun d => d ≤ 2) hMro)) 2).map (·.instantiable) = some false
    ∧ (stepW mroCfg (runW mroCfg World.initial hMro) (.construct 2 [("n", .prim 0 true)])).2.accepted = true
    ∧ (stepW mroCfg (runW mroCfg World.initial (slice (fun d => d ≤ 2) hMro))
         (.construct 2 [("n", .prim 0 true)])).2.accepted = false
    ∧ ¬ Excluded mroCfg hMro := by
  decide +kernel

/-- hence the full statement is false of a tree with that lookup; `C15_partial` is what holds of it -/
theorem C15_statement_fails_with_mro_lookup : ¬ C15_statement mroCfg := by
  intro h
  have h1 := h (fun d => d ≤ 2) hMro 2 mro_serializer_breaks_frame.1 (by decide)
  have h2 := mro_serializer_breaks_frame.2.1
  have h3 := mro_serializer_breaks_frame.2.2.1
  rw [h1, h3] at h2
  cases h2

/-- the same history on a tree that consults the class's OWN `__dict__` (the proposed repair,
    proposed_fixes/C15-mro-serializer-verification.diff): `Order` cannot be instantiated, before and after the use
    of `Account`, and its view is the view alone; no history is excluded -/
theorem mro_fixed_example :
    (view safeConfig (runW safeConfig World.initial hMro) 2).map (·.instantiable) = some false
    ∧ view safeConfig (runW safeConfig World.initial hMro) 2
        = view safeConfig (runW safeConfig World.initial (slice (fun d => d ≤ 2) hMro)) 2
    ∧ Excluded safeConfig hMro := by
  decide +kernel

/-! ### "behaves per its own definition" as a statement about Sem/Validate results -/

/-- for every interpretation of the field tags as `FieldDecl`s, every regex / hook oracle and every CONCRETE
    keyword arguments, the `Sem/Validate` result of constructing class `c` (stored instance or exception class)
    after any history outside the excluded region is the result after the sub-history the class depends on:
    definitions, uses and cache fills of OTHER classes do not change it -/
theorem construct_result_frame (cfg : Config) (hc : cfg.cachesById = true) (T : ClassId → Bool)
    (h : List WorldOp) (hx : Excluded cfg h) (hcl : closed T h = true) (c : ClassId) (hT : T c = true)
    (O : Oracles) (env : DeclEnv) (kw : List (String × PyVal)) :
    (view cfg (runW cfg World.initial h) c).map (fun b => constructVal O env b kw)
      = (view cfg (runW cfg World.initial (slice T h)) c).map (fun b => constructVal O env b kw) := by
  rw [frame cfg hc T h hx hcl c hT]

/-- … and a use of ANY class (other than an explicit serializer configuration) changes no class's
    `Sem/Validate` construction result -/
theorem construct_result_unchanged_by_use (cfg : Config) (hc : cfg.cachesById = true) (W : List (String × TypeId))
    (w : World) (g : Good cfg W w) (op : WorldOp) (huse : plainUse op = true)
    (hq : quietStep cfg w op = true) (d : ClassId)
    (hwf : ∀ e, alookup d w.classes = some e → e.core.src.fast = true → refsCreatable cfg e = true)
    (O : Oracles) (env : DeclEnv) (kw : List (String × PyVal)) :
    (view cfg (stepW cfg w op).1 d).map (fun b => constructVal O env b kw)
      = (view cfg w d).map (fun b => constructVal O env b kw) := by
  rw [use_changes_no_view cfg hc W w g op huse hq d hwf]


def exEnv : DeclEnv where
  prim := fun t => if t == 0 then some (.integer {}) else if t == 1 then some (.string none (some 3) none) else none
  dflt := fun t => if t == 1 then some (.str "d") else none

/-- non-vacuity: under today's table, after the history `hEx` (same-named classes, two user classes named `User`,
    uses of every kind) the class `Order`#0 — fields `id: Integer`, `who: Field[User#1]`, `n: String(maxLength=3) = "d"`
    mapped to "N" — accepts a valid argument set (storing the default), rejects an instance of the OTHER `User`
    with TypeError, a too long string with ValueError and a missing required argument with TypeError, exactly as
    after its own definition alone -/
theorem construct_result_example :
    ((view (configOf Generated.registries) (runW (configOf Generated.registries) World.initial hEx) 0).map fun b =>
      [ (constructVal {reMatch := fun _ _ => false} exEnv b [("id", .int 3), ("who", .inst "U#1" [])]).map
          (fun r => match r with | .ok (.inst _ attrs) => attrs.length | _ => 0),
        (constructVal {reMatch := fun _ _ => false} exEnv b [("id", .int 3), ("who", .inst "U#2" [])]).map
          (fun r => match r with | .error .typeErr => 1 | _ => 0),
        (constructVal {reMatch := fun _ _ => false} exEnv b [("id", .int 3), ("who", .inst "U#1" []), ("n", .str "abcd")]).map
          (fun r => match r with | .error .valueErr => 1 | _ => 0),
        (constructVal {reMatch := fun _ _ => false} exEnv b [("who", .inst "U#1" [])]).map
          (fun r => match r with | .error .typeErr => 1 | _ => 0) ])
      = some [some 3, some 1, some 1, some 1] := by
  decide +kernel

/-! ### the state footprint of a use -/

/-- THE STATE FRAME: a use of class `c` (construct, serialize, deserialize, trusted deserialization,
    structure_to_schema, create_serializer) writes only state owned by `c` or by classes `c` refers to: outside any
    class set `S ∋ c` closed under "is referred to by a field of", every class entry, every mapper-cache entry and
    every simplicity-cache entry is exactly what it was, the wrapper registry, the inline-class counter and the
    global flags are untouched, and no class is added, removed or re-defined -/
theorem use_state_frame (cfg : Config) (hc : cfg.cachesById = true) (hns : cfg.schemaWritesRequired = false)
    (S : ClassId → Bool) (w : World) (op : WorldOp) (hcl : SClosed S w)
    (hop : match op with
      | .construct c _ | .serialize c _ _ | .deserialize c _ | .trustedDeserialize c _ | .toSchema c
      | .createSerializer c _ => S c = true
      | _ => False) :
    Untouched S w (stepW cfg w op).1 :=
  use_untouched hc w op hcl hop hns

theorem use_state_frame_today (S : ClassId → Bool) (w : World) (op : WorldOp) (hcl : SClosed S w)
    (hop : match op with
      | .construct c _ | .serialize c _ _ | .deserialize c _ | .trustedDeserialize c _ | .toSchema c
      | .createSerializer c _ => S c = true
      | _ => False) :
    Untouched S w (stepW (configOf Generated.registries) w op).1 := by
  have hp := props_of_le_mro current_config_le_mro
  exact use_untouched hp.1 w op hcl hop hp.2.1

/-- non-vacuity: in the world after the three definitions of `hNested` plus an unrelated class 5,
    `create_serializer(Order)` changes the entries of Order (2), Premium (1) and Account (0) — the classes Order
    refers to — and nothing of class 5 -/
theorem state_frame_example :
    let cfg := configOf Generated.registries
    let w := runW cfg World.initial [.define 0 clsAcct, .define 1 clsPrem, .define 2 clsOrder, .define 5 clsS]
    let w2 := (stepW cfg w (.createSerializer 2 .plain)).1
    alookup 5 w2.classes = alookup 5 w.classes
    ∧ alookup (CKey.id 5 false) w2.mapperCache = none
    ∧ (alookup 2 w2.classes).map (·.serializer.isSome) = some true
    ∧ (alookup 1 w2.classes).map (·.serializer.isSome) = some true
    ∧ (alookup 0 w2.classes).map (·.serializer.isSome) = some true
    ∧ (alookup (CKey.id 1 false) w2.mapperCache).isSome = true
    ∧ (alookup (CKey.id 0 false) w2.mapperCache).isSome = true := by
  decide +kernel

end Typedpy.C15