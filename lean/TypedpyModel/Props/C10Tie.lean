/-
  Props/C10Tie.lean — (T) tie of the C10 model to the current typedpy working tree: the isinstance
  answers `extract/trusted.py` reads off the code before every build (`Generated.Trusted.rows`: the
  whitelist `_valid_classes_for_trusted_deserialization`, SerializableField / Array / Set / ClassReference / AnyOf membership, and the two
  tests of fast serialization) agree, for a sample field of every kind, with the predicates
  Sem/Trusted.lean and Sem/Fast.lean are written with.  Adding a class to a whitelist or changing
  the field class hierarchy makes `whitelist_rows_ok` fail.  Own module because `Generated/` is not
  committed (`Pinned/Trusted.lean` is the committed copy the model was aligned with).
-/
import TypedpyModel.Generated.Trusted
import TypedpyModel.Pinned.Trusted
import TypedpyModel.Sem.Fast
namespace Typedpy.C10
open Typedpy

def sampleClass : FieldDecl := .struct { name := "Foo", required := [], accepts := ["Foo"] } [("a", .integer {})] []

/-- the model declaration of the sample field `extract/trusted.py` builds for a kind tag -/
def sampleDecl : String → Option FieldDecl
  | "integer" => some (.integer {})
  | "number" => some (.number {})
  | "float" => some (.float {})
  | "string" => some (.string none none none)
  | "boolean" => some .boolean
  | "noneF" => some .noneF
  | "enumLit" => some (.enumLit [.str "a", .int 1])
  | "enumCls" => some (.enumCls "Color" ["RED", "BLUE"])
  | "seqAny" => some (.seqAny .list {})
  | "seqOf" => some (.seqOf .list (.integer {}) {})
  | "seqPos" => some (.seqPos .list [.integer {}, .string none none none] true {})
  | "dequeAny" => some (.seqAny .deque {})
  | "dequeOf" => some (.seqOf .deque (.integer {}) {})
  | "setAny" => some (.setAny false {})
  | "setOf" => some (.setOf false (.integer {}) {})
  | "immSetOf" => some (.setOf true (.integer {}) {})
  | "tupleOf" => some (.tupleOf (.integer {}) false)
  | "tuplePos" => some (.tuplePos [.integer {}, .string none none none] false)
  | "mapAny" => some (.mapAny {})
  | "mapOf" => some (.mapOf (.string none none none) (.integer {}) {})
  | "classRef" => some sampleClass
  | "inline" => some (.struct { name := "Inl", required := [], inline := true } [("a", .integer {})] [])
  | "anyOf" => some (.anyOf [.integer {}, .string none none none])
  | "oneOf" => some (.oneOf [.integer {}, .string none none none])
  | "allOf" => some (.allOf [.integer {}, .number {}])
  | "notF" => some (.notF [.string none none none])
  | "anything" => some .anything
  | "immArrayOf" => some (.seqOf .list (.integer {}) {})
  | "posInt" => some (.integer { sign := .pos })
  | "posFloat" => some (.float { sign := .pos })
  | "positive" => some (.number { sign := .pos })
  | _ => none

/-- `isinstance(f, Array)` as `effOf` / `tVal` / `verifyOk` dispatch on it -/
def isArrayD : FieldDecl → Bool
  | .seqAny .list _ | .seqOf .list _ _ | .seqPos .list _ _ _ => true
  | _ => false
def isSetD : FieldDecl → Bool
  | .setAny _ _ | .setOf _ _ _ => true
  | _ => false
def isAnyOfK : FieldDecl → Bool
  | .anyOf _ => true
  | _ => false

/-- an Array field whose items are the sample -/
def arrOf (f : FieldDecl) : FieldDecl := .seqOf .list f {}

def rowAgrees (r : Generated.Trusted.Row) : Bool :=
  match sampleDecl r.kind with
  | none => false
  | some f =>
    r.valid == isValidCls f && r.serializable == isEnumDecl f
    && r.array == isArrayD f && r.set == isSetD f && r.classRef == isClassRef f && r.anyOf == isAnyOfK f
    && r.nsb == isNSB f && r.numOrStr == isNumOrStr f
    -- and the classifier's loop body acts on the membership answers as the code does:
    -- valid & serializable → nested, valid → keep, Array/Set of a valid item → keep / nested
    && (if r.valid then effOf noMappers true f == (if r.serializable then .nested else .keep) else true)
    && (if r.valid then effOf noMappers true (arrOf f) == (if r.serializable then .nested else .keep) else true)
    && (if r.valid then effOf noMappers true (.setOf false f {}) == .nested else true)
    -- an optional field is classified through its non-None option, in either order
    && (if r.valid then effOf noMappers true (.anyOf [f, .noneF]) == .nested
                        && effOf noMappers true (.anyOf [.noneF, f]) == .nested
        else effOf noMappers true (.anyOf [f, .noneF]) == optEff (effOf noMappers false f)
             && effOf noMappers true (.anyOf [.noneF, f]) == optEff (effOf noMappers false f))

/-- every row the translator produced from today's source agrees with the model's predicates -/
theorem whitelist_rows_ok : Generated.Trusted.rows.all rowAgrees = true := by decide

/-- the translator saw every kind of the model's vocabulary -/
theorem whitelist_rows_complete :
    (["integer", "number", "float", "string", "boolean", "noneF", "enumLit", "enumCls", "seqAny", "seqOf",
      "seqPos", "dequeAny", "dequeOf", "setAny", "setOf", "immSetOf", "tupleOf", "tuplePos", "mapAny", "mapOf",
      "classRef", "inline", "anyOf", "oneOf", "allOf", "notF", "anything"].all
        fun k => Generated.Trusted.rows.any fun r => r.kind == k) = true := by decide

/-- the whitelists themselves are the ones the model was written against -/
theorem whitelist_pinned :
    Generated.Trusted.whitelist = Pinned.Trusted.whitelist
    ∧ Generated.Trusted.setWhitelist = Pinned.Trusted.setWhitelist
    ∧ Generated.Trusted.setWhitelist = [] := by decide

/-! ### the classifier itself, run on the real code for a one-field class per sample -/

def vStr : Verdict → String
  | .raises => "raises" | .no => "no" | .lvl .flat => "flat" | .lvl .nested => "nested"

/-- the one-field class `extract/trusted.py` declares around a sample field -/
def oneField (f : FieldDecl) : FieldDecl := .struct { name := "S", required := [], accepts := ["S"] } [("f", f)] []

/-- "undef" = typedpy refuses the class declaration (e.g. a Set of unhashable items): no claim -/
def verdictAgrees (real : String) (f : FieldDecl) : Bool :=
  real == "undef" || vStr (verdictOf noMappers (oneField f)) == real

/-- the sample class `Foo` of a ClassReference row is not FastSerializable -/
def createdAgrees (real : String) (f : FieldDecl) : Bool :=
  real == "undef" || (if createOk noMappers ["Foo"] (oneField f) then "yes" else "no") == real

def rowBehaves (r : Generated.Trusted.Row) : Bool :=
  match sampleDecl r.kind with
  | none => false
  | some f =>
    verdictAgrees r.verdict f && verdictAgrees r.verdictArr (arrOf f)
    && verdictAgrees r.verdictSet (.setOf false f {})
    && verdictAgrees r.verdictOpt (.anyOf [f, .noneF]) && verdictAgrees r.verdictOptRev (.anyOf [.noneF, f])
    && createdAgrees r.created f

/-- the model's classifier `verdictOf` and `createOk` return, for every sample field bare, inside
    Array / Set / Optional (both orders), what `_structure_simplicity_level` / `create_serializer`
    of TODAY's source return: a branch added to, removed from or changed in the classifier changes
    a row and breaks this obligation -/
theorem classifier_rows_ok : Generated.Trusted.rows.all rowBehaves = true := by decide

/-- the rows are not all "undef": every sample has a real bare verdict and a creation verdict -/
theorem classifier_rows_defined :
    (Generated.Trusted.rows.all fun r => r.verdict != "undef" && r.created != "undef" && r.verdictOpt != "undef") = true := by
  decide

/-- the classes the `isinstance` tests of the seven functions of the shortcut paths mention are the
    ones the model was written against (a branch on a new class breaks this obligation) -/
theorem classifier_branches_pinned :
    Generated.Trusted.isinstanceClasses = Pinned.Trusted.isinstanceClasses := by decide

end Typedpy.C10
