/-
  Props/C18.lean — C18: rejections name the offending field; collect-all mode reports all
  invalid ones.

  Model: Sem/Errors.lean (message shapes, the three regexes of errors.py as matchers, the control
  flow of `standard_readable_error_for_typedpy_exception`, `Structure.__init__` for flat classes).
  "Which fields are invalid" is `invalidFields`, defined from `validate` (Sem/Validate.lean, the
  C01/C02 model) and from nothing in the message code.

  The pinned code violates the full statement (`Statement`, refuted by `statement_false`):
    * a newline in the message body defeats `(.*)$`  (value of `…; Got <v>` shapes, any problem
      text, e.g. a `pattern` with a newline)                              → `*_loses_field` theorems
    * a field / class name outside `[a-zA-Z0-9_.]` defeats the field group → `non_ascii_name_loses_field`
    * some checks raise foreign exceptions without any path (`anon`)       → `anon_message_no_field`
  What holds, and is proved for all classes, argument sets, texts and codecs, is the statement
  restricted by explicit decidable side conditions (`statement_partial`), together with the
  *exact* condition under which a message keeps its field (`render_parse_exact`).
-/
import TypedpyModel.Lemmas.Errors
namespace Typedpy.C18
open Typedpy Typedpy.Err

/-! ### render → parse -/

/-- sufficient side condition on the value / problem texts of a message, per shape -/
def goodTexts : Shape → Text → Text → Bool
  | .gotFirst, v, p => noSemi v && noNL p && !p.isEmpty
  | .gotLast, v, p => noNL v && noNL p && !p.isEmpty && p.head? != some 'G'
  | .plain, _, p => noNL p && !p.isEmpty && p.head? != some 'G' && p.head? != some ';'

/-- EXACT condition: a message `<field>: <rest>` whose field text is in `[a-zA-Z0-9_.]+` keeps its
    field iff regex 1 matches the rest or the rest is a single line (regexes 2/3). -/
theorem render_parse_exact (f rest : Text) (hf : identOk f = true) :
    (parseMsg (f ++ ':' :: ' ' :: rest)).field = some f ↔ recoverable rest = true := by
  rw [parse_field f rest hf]
  cases recoverable rest <;> simp

theorem render_eq (m : Msg) :
    m.render = m.fullPath ++ ':' :: ' ' :: body m.shape m.value m.problem := by
  simp [Msg.render, Msg.fullPath, withClass_append]

/-- every rendered message whose texts satisfy the side condition is parsed back to its full path
    and a non-empty problem -/
theorem render_parse (m : Msg) (hp : identOk m.fullPath = true)
    (ht : goodTexts m.shape m.value m.problem = true) :
    (parseMsg m.render).field = some m.fullPath ∧ (parseMsg m.render).problem ≠ [] := by
  rw [render_eq, parseMsg_header _ _ hp]
  obtain ⟨cls, path, shape, v, p⟩ := m
  cases shape with
  | gotFirst =>
    simp only [goodTexts, Bool.and_eq_true, Bool.not_eq_true'] at ht
    obtain ⟨⟨hv, hnl⟩, hne⟩ := ht
    have hne' : p ≠ [] := by intro h; simp [h] at hne
    rw [parseTail_space, m1tail_gotFirst v p hv hnl]
    exact ⟨by first | rfl | trivial, transform_nonempty p hne'⟩
  | gotLast =>
    simp only [goodTexts, Bool.and_eq_true, Bool.not_eq_true', bne_iff_ne, ne_eq] at ht
    obtain ⟨⟨⟨hv, hnl⟩, hne⟩, hG⟩ := ht
    have hne' : p ≠ [] := by intro h; simp [h] at hne
    have hhead : (body .gotLast v p).head? ≠ some 'G' := by
      cases p with
      | nil => exact absurd rfl hne'
      | cons x xs => simpa [body] using hG
    have hline : noNL (body .gotLast v p) = true := by
      have h3 : noNL sSemiGot = true := by decide
      simp only [body, noNL_append, hv, hnl, h3, Bool.and_self]
    rw [parseTail_line _ hhead hline]
    obtain ⟨a, b, hab, hlen⟩ := splitLast_append sSemiGot (by decide) p v
    simp only [body, hab]
    refine ⟨by first | rfl | trivial, transform_nonempty a ?_⟩
    intro ha
    cases p with
    | nil => exact hne' rfl
    | cons x xs => simp [ha] at hlen
  | plain =>
    simp only [goodTexts, Bool.and_eq_true, Bool.not_eq_true', bne_iff_ne, ne_eq] at ht
    obtain ⟨⟨⟨hnl, hne⟩, hG⟩, hS⟩ := ht
    have hne' : p ≠ [] := by intro h; simp [h] at hne
    rw [parseTail_line (body .plain v p) (by simpa [body] using hG) (by simpa [body] using hnl)]
    simp only [body]
    cases hs : splitLast sSemiGot p with
    | none => exact ⟨by first | rfl | trivial, transform_nonempty p hne'⟩
    | some ab =>
      refine ⟨by first | rfl | trivial, transform_nonempty ab.1 ?_⟩
      intro ha
      have := splitLast_eq sSemiGot p ab.1 ab.2 (by simp [hs])
      rw [ha] at this
      apply hS
      rw [this]; rfl

/-- shape 1 (`Got <v>; <problem>`) with a `;`-free value also returns exactly the value and the
    (transformed) problem, whatever else the value contains (newlines included) -/
theorem render_parse_gotFirst (f v p : Text) (hf : identOk f = true) (hv : noSemi v = true)
    (hp : noNL p = true) :
    parseMsg (f ++ ':' :: ' ' :: body .gotFirst v p) =
      ⟨some f, some v, (transform p).1, (transform p).2⟩ := by
  rw [parseMsg_header _ _ hf, parseTail_space, m1tail_gotFirst v p hv hp]

/-- any shape keeps its field when neither text contains a newline (a `;` in the value only
    demotes shape 1 to regex 3) -/
theorem render_parse_field_noNL (m : Msg) (hp : identOk m.fullPath = true)
    (hv : noNL m.value = true) (hq : noNL m.problem = true) :
    (parseMsg m.render).field = some m.fullPath := by
  rw [render_eq, render_parse_exact _ _ hp]
  exact recoverable_of_noNL _ _ _ hv hq

/-- a message without newline whose field text is not in `[a-zA-Z0-9_.]+` never keeps it … -/
theorem field_chars_necessary (s : Text) (f : Text) (h : (parseMsg s).field = some f) :
    identOk f = true := by
  unfold parseMsg at h
  split at h
  · rename_i a as c rest h1 h2
    split at h
    · simp only [Option.some.injEq] at h
      rw [← h, ← h1]
      have : ∀ t : Text, (spanField t).1.all isFieldChar = true := by
        intro t
        induction t with
        | nil => rfl
        | cons x xs ih =>
          simp only [spanField]
          split
          · rename_i hx; simp [hx, ih]
          · rfl
      rw [identOk_iff]
      exact ⟨by rw [h1]; simp, this s⟩
    · simp at h
  · simp at h

/-! ### kernel-checked counterexamples (each is replayed on the real code as a known finding) -/

def msgIntNewline : Msg :=
  ⟨some "Foo".toList, "i".toList, .gotLast, "'a\nb'".toList, "Expected <class 'int'>".toList⟩

/-- finding `field-lost:newline`: `Integer` given `'a\nb'` — `Foo.i: Expected <class 'int'>; Got 'a\nb'`
    matches none of the three regexes; the field is lost -/
theorem newline_value_loses_field : (parseMsg msgIntNewline.render).field = none := by decide

/-- shape 1 survives a newline in the value (`[^;]*` matches it) … -/
theorem newline_value_gotFirst_keeps_field :
    (parseMsg (Msg.render ⟨some "Foo".toList, "s".toList, .gotFirst, "'a\nb'".toList,
      "Expected a maximum length of 2".toList⟩)).field = some "Foo.s".toList := by decide

/-- … but not a newline in the problem text (`String(pattern='^a\nb')`) -/
theorem newline_problem_loses_field :
    (parseMsg (Msg.render ⟨some "Foo".toList, "s".toList, .gotFirst, "'x'".toList,
      "Does not match regular expression: '^a\nb'".toList⟩)).field = none := by decide

/-- a `;` in a shape-1 value sends the message to regex 3: field kept, value lost, the problem is
    the whole rest -/
theorem semicolon_value_demoted :
    parseMsg (Msg.render ⟨some "Foo".toList, "s".toList, .gotFirst, "'a;b'".toList,
      "Expected a maximum length of 2".toList⟩) =
      ⟨some "Foo.s".toList, none, "Got 'a;b'; Expected a maximum length of 2".toList, false⟩ := by
  decide

/-- finding `field-lost:non-ascii-name`: a field called `é` -/
theorem non_ascii_name_loses_field :
    (parseMsg (Msg.render ⟨some "Foo".toList, "é".toList, .gotLast, "'x'".toList,
      "Expected <class 'int'>".toList⟩)).field = none := by decide

/-- finding `no-path:*`: foreign exception texts (`Positive` given a str, `Boolean` given a list)
    carry no path; with the class prefix of `Structure.__init__` nothing is recognised -/
theorem anon_message_no_field :
    (parseMsg "Foo.unhashable type: 'list'".toList).field = none ∧
    (parseMsg "Foo.'<=' not supported between instances of 'str' and 'int'".toList).field = none := by
  decide

/-- finding `field-lost:deser-json-under-failfast`: the JSON list that `construct_fields_map`
    raises for a falsy input even in fail-fast mode is not decoded by the helper -/
theorem json_list_text_no_field :
    (parseMsg "[\"Foo.i: Got 0; Expected a minimum of 3\"]".toList).field = none := by decide

/-- findings `no-path:enum-invalid-value:deser`, `no-path:unnamed-inner-field:deser-collection`,
    `no-path:unhashable:deser-set` (and the former `no-path:index-error:deser-positional`): texts
    that deserialization raises without any path — bare, and with the class prefix that
    `raise_errs_if_needed` adds — give no field (or, for an unnamed Enum item, the field `None`) -/
theorem deser_foreign_texts_no_field :
    (parseMsg "Invalid value: 'PINK'".toList).field = none ∧
    (parseMsg "Foo.Invalid value: 'PINK'".toList).field = none ∧
    (parseMsg "Expected <class 'int'>; Got 'x'".toList).field = none ∧
    (parseMsg "Foo.Expected <class 'int'>; Got 'x'".toList).field = none ∧
    (parseMsg "list index out of range".toList).field = none ∧
    (parseMsg "None: Got 5; Expected one of 1, 2".toList).field = some "None".toList := by
  decide

/-- `Expected <class 'int'>` becomes readable; a class without display name is formatted from the
    match object (flag set) — a defect of `_transform_class_to_readable`, not of the property -/
theorem transform_examples :
    transform "Expected <class 'int'>".toList = ("Expected an integer number".toList, false) ∧
    (transform "Expected <class 'bool'>".toList).2 = true ∧
    transform "Expected a string".toList = ("Expected a string".toList, false) := by decide

/-! ### the helper never raises on typedpy rejections -/

/-- the only way `standard_readable_error_for_typedpy_exception` raises: collect-all mode and
    `str(e)` is valid JSON that is not an iterable of strings -/
theorem readable_raises_iff (ff : Bool) (J : Codec) (s : Text) :
    (∃ e, readable ff J s = .error e) ↔ ff = false ∧ J.loads s = .raises := by
  unfold readable
  cases ff with
  | true => simp
  | false => cases h : J.loads s <;> simp

theorem readable_total (ff : Bool) (J : Codec) (s : Text) (h : ff = true ∨ J.loads s ≠ .raises) :
    ∃ out, readable ff J s = .ok out := by
  cases hr : readable ff J s with
  | ok out => exact ⟨out, rfl⟩
  | error e =>
    have := (readable_raises_iff ff J s).1 ⟨e, hr⟩
    cases h with
    | inl h => simp [h] at this
    | inr h => exact absurd this.2 h

/-- for every exception text the construction model produces — any class, arguments, texts,
    either mode — the helper returns -/
theorem readable_total_on_rejections (O : Oracles) (T : Texts) (J : Codec) (hJ : J.RoundTrip)
    (ff : Bool) (c : ClassOpts) (fields : List (String × FieldDecl)) (kw : List (String × PyVal))
    (t : Text) (h : (constructRaises O T ff c fields kw).text J = some t) :
    ∃ out, readable ff J t = .ok out := by
  cases ff with
  | true => exact readable_total true J t (Or.inl rfl)
  | false =>
    apply readable_total
    right
    unfold constructRaises at h
    split at h
    · simp [Raised.text] at h
    · split at h
      · simp [Raised.text] at h
      · simp only [Bool.false_eq_true, if_false, Raised.text, Option.some.injEq] at h
        rw [← h, hJ]; simp

/-- observation (outside the statement's domain): in collect-all mode a message that is a bare
    JSON scalar makes the helper raise -/
theorem readable_raises_example (J : Codec) (h : J.loads ['5'] = .raises) :
    readable false J ['5'] = .error "TypeError" := by
  simp [readable, h]

/-! ### construction: which fields are reported -/

/-- the message text begins with `<Class>.<top>[suffix]: ` -/
def BeginsWithPath (cls : Text) (t : Text) (n : String) : Prop :=
  ∃ (suf : Suffix) (rest : Text), t = withClass (some cls) (n.toList ++ suf.text) ++ ':' :: ' ' :: rest

/-- `ErrorInfo.field` names the top-level field `n` -/
def InfoNames (cls : Text) (i : Info) (n : String) : Prop :=
  ∃ p, i.field = some p ∧ namesField (some cls) n p

/-- the site raises a typedpy message (with a path) whose texts satisfy the side condition -/
def siteGood (T : Texts) (s : Site) : Bool :=
  !s.loc.anon && goodTexts s.loc.shape (T s).1 (T s).2

/-- weaker: only what is needed for the field (exact condition on the body) -/
def siteRecoverable (T : Texts) (s : Site) : Bool :=
  !s.loc.anon && recoverable (body s.loc.shape (T s).1 (T s).2)

theorem goodTexts_recoverable (sh : Shape) (v p : Text) (h : goodTexts sh v p = true) :
    recoverable (body sh v p) = true := by
  cases sh with
  | gotFirst =>
    simp only [goodTexts, Bool.and_eq_true] at h
    exact recoverable_gotFirst v p h.1.1 h.1.2
  | gotLast =>
    simp only [goodTexts, Bool.and_eq_true] at h
    exact recoverable_of_noNL _ v p h.1.1.1 h.1.1.2
  | plain =>
    simp only [goodTexts, Bool.and_eq_true] at h
    simp [body, recoverable, dotEnd_noNL p h.1.1.1]

theorem siteGood_recoverable (T : Texts) (s : Site) (h : siteGood T s = true) :
    siteRecoverable T s = true := by
  simp only [siteGood, siteRecoverable, Bool.and_eq_true] at *
  exact ⟨h.1, goodTexts_recoverable _ _ _ h.2⟩

/-- text of a named site with the class prefix = full path, `: `, body -/
theorem site_text (T : Texts) (cls : Text) (s : Site) (hn : s.loc.anon = false) :
    withClass (some cls) (s.text T) =
      withClass (some cls) (s.top.toList ++ s.loc.suffix.text) ++
        ':' :: ' ' :: body s.loc.shape (T s).1 (T s).2 := by
  simp [Site.text, hn, withClass]

theorem site_begins (T : Texts) (cls : Text) (s : Site) (hn : s.loc.anon = false) :
    BeginsWithPath cls (withClass (some cls) (s.text T)) s.top :=
  ⟨s.loc.suffix, _, site_text T cls s hn⟩

theorem site_field (T : Texts) (cls : Text) (s : Site) (hc : identOk cls = true)
    (ht : identOk s.top.toList = true) (h : siteRecoverable T s = true) :
    (parseMsg (withClass (some cls) (s.text T))).field =
      some (withClass (some cls) (s.top.toList ++ s.loc.suffix.text)) := by
  simp only [siteRecoverable, Bool.and_eq_true, Bool.not_eq_true'] at h
  rw [site_text T cls s h.1, render_parse_exact _ _ (identOk_path cls _ _ hc ht)]
  exact h.2

theorem site_problem (T : Texts) (cls : Text) (s : Site) (hc : identOk cls = true)
    (ht : identOk s.top.toList = true) (h : siteGood T s = true) :
    (parseMsg (withClass (some cls) (s.text T))).problem ≠ [] := by
  simp only [siteGood, Bool.and_eq_true, Bool.not_eq_true'] at h
  have := render_parse ⟨some cls, s.top.toList ++ s.loc.suffix.text, s.loc.shape, (T s).1, (T s).2⟩
    (identOk_path cls _ _ hc ht) h.2
  rw [render_eq] at this
  rw [site_text T cls s h.1]
  exact this.2

/-- what the property says about one run of `cls(**kw)` under the global switch `ff`, observed at
    `str(exception)` and at the helper's result -/
def Reported (O : Oracles) (T : Texts) (J : Codec) (ff : Bool) (c : ClassOpts)
    (fields : List (String × FieldDecl)) (kw : List (String × PyVal)) : Prop :=
  match constructRaises O T ff c fields kw with
  | .single _ t =>
    ∃ n, n ∈ invalidFields O c kw fields ∧ BeginsWithPath c.name.toList t n ∧
      ∃ i, readable ff J t = .ok (.single i) ∧ InfoNames c.name.toList i n ∧ i.problemNonEmpty = true
  | .collected ts =>
    Aligned (BeginsWithPath c.name.toList) ts (invalidFields O c kw fields) ∧
      ∃ infos, readable ff J (J.dumps ts) = .ok (.many infos) ∧
        Aligned (InfoNames c.name.toList) infos (invalidFields O c kw fields)
  | _ => True

/-- C18 at full strength, for flat classes: every class, argument set, text, codec, both modes -/
def Statement : Prop :=
  ∀ (O : Oracles) (T : Texts) (J : Codec) (ff : Bool) (c : ClassOpts)
    (fields : List (String × FieldDecl)) (kw : List (String × PyVal)),
    (ff = false → J.RoundTrip) → fields.all (fun nf => isFlatDecl nf.2) = true →
    Reported O T J ff c fields kw

/-- collect-all mode: the messages and the reported `ErrorInfo.field`s are, position by position,
    exactly the supplied fields that `validate` rejects (in signature order) -/
theorem collect_all_exact (O : Oracles) (T : Texts) (J : Codec) (hJ : J.RoundTrip) (c : ClassOpts)
    (fields : List (String × FieldDecl)) (kw : List (String × PyVal)) (ts : List Text)
    (hc : identOk c.name.toList = true) (hn : ∀ nf ∈ fields, identOk nf.1.toList = true)
    (hs : ∀ s ∈ sites O c kw fields, siteRecoverable T s = true)
    (h : constructRaises O T false c fields kw = .collected ts) :
    Aligned (BeginsWithPath c.name.toList) ts (invalidFields O c kw fields) ∧
      ∃ infos, readable false J (J.dumps ts) = .ok (.many infos) ∧
        Aligned (InfoNames c.name.toList) infos (invalidFields O c kw fields) := by
  have hts : ts = (sites O c kw fields).map fun x => withClass (some c.name.toList) (x.text T) := by
    unfold constructRaises at h
    split at h
    · simp at h
    · split at h
      · simp at h
      · rename_i s ss hss
        simp only [Bool.false_eq_true, if_false, Raised.collected.injEq] at h
        rw [hss, ← h]
  have hanon : ∀ s ∈ sites O c kw fields, s.loc.anon = false := by
    intro s hs'
    have := hs s hs'
    simp only [siteRecoverable, Bool.and_eq_true, Bool.not_eq_true'] at this
    exact this.1
  refine ⟨?_, ?_⟩
  · rw [hts, ← sites_tops]
    exact aligned_map _ _ _ _ fun s hs' => site_begins T _ s (hanon s hs')
  · refine ⟨_, readable_collected J hJ ts, ?_⟩
    rw [hts, ← sites_tops, List.map_map]
    apply aligned_map
    intro s hs'
    obtain ⟨nf, hnf, htop⟩ := sites_mem_field O c kw fields s hs'
    refine ⟨_, ?_, s.loc.suffix, rfl⟩
    rw [Function.comp_apply, internal_field]
    exact site_field T _ s hc (htop ▸ hn nf hnf) (hs s hs')

/-- fail-fast mode: the single exception names (in its text and through the helper) one of the
    supplied fields that `validate` rejects, with a non-empty problem -/
theorem fail_fast_member (O : Oracles) (T : Texts) (J : Codec) (c : ClassOpts)
    (fields : List (String × FieldDecl)) (kw : List (String × PyVal)) (e : ErrCls) (t : Text)
    (hc : identOk c.name.toList = true) (hn : ∀ nf ∈ fields, identOk nf.1.toList = true)
    (hs : ∀ s ∈ sites O c kw fields, siteGood T s = true)
    (h : constructRaises O T true c fields kw = .single e t) :
    ∃ n, n ∈ invalidFields O c kw fields ∧ BeginsWithPath c.name.toList t n ∧
      ∃ i, readable true J t = .ok (.single i) ∧ InfoNames c.name.toList i n ∧
        i.problemNonEmpty = true := by
  unfold constructRaises at h
  split at h
  · simp at h
  · split at h
    · simp at h
    · rename_i s ss hss
      simp only [if_true, Raised.single.injEq] at h
      have hmem : s ∈ sites O c kw fields := by rw [hss]; exact List.mem_cons_self
      have hg := hs s hmem
      have hanon : s.loc.anon = false := by
        simp only [siteGood, Bool.and_eq_true, Bool.not_eq_true'] at hg; exact hg.1
      obtain ⟨nf, hnf, htop⟩ := sites_mem_field O c kw fields s hmem
      have htopOk : identOk s.top.toList = true := htop ▸ hn nf hnf
      refine ⟨s.top, ?_, ?_, ?_⟩
      · rw [← sites_tops, hss]; simp
      · rw [← h.2]; exact site_begins T _ s hanon
      · refine ⟨_, rfl, ⟨_, ?_, s.loc.suffix, rfl⟩, ?_⟩
        · rw [internal_field, ← h.2]
          exact site_field T _ s hc htopOk (siteGood_recoverable T s hg)
        · rw [internal_failFast, ← h.2]
          have := site_problem T _ s hc htopOk hg
          simp only [Info.problemNonEmpty, Bool.not_eq_true', List.isEmpty_eq_false_iff]
          exact this

/-- C18 restricted to the region outside the known findings: ASCII class / field names, every
    rejection raised by a typedpy check with a path (`anon = false`), texts satisfying the
    per-shape side condition `goodTexts` -/
theorem statement_partial (O : Oracles) (T : Texts) (J : Codec) (ff : Bool) (c : ClassOpts)
    (fields : List (String × FieldDecl)) (kw : List (String × PyVal))
    (hJ : ff = false → J.RoundTrip)
    (hc : identOk c.name.toList = true) (hn : ∀ nf ∈ fields, identOk nf.1.toList = true)
    (hs : ∀ s ∈ sites O c kw fields, siteGood T s = true) :
    Reported O T J ff c fields kw := by
  unfold Reported
  split
  · rename_i e t h
    cases ff with
    | true => exact fail_fast_member O T J c fields kw e t hc hn hs h
    | false =>
      exfalso
      unfold constructRaises at h
      split at h
      · simp at h
      · split at h <;> simp at h
  · rename_i ts h
    cases ff with
    | false =>
      exact collect_all_exact O T J (hJ rfl) c fields kw ts hc hn
        (fun s hs' => siteGood_recoverable T s (hs s hs')) h
    | true =>
      exfalso
      unfold constructRaises at h
      split at h
      · simp at h
      · split at h <;> simp at h
  · trivial

/-! ### the full statement is false of the pinned code (and of the model that mirrors it) -/

def exClass : ClassOpts := { name := "Foo", required := [] }
def exFields : List (String × FieldDecl) := [("i", .integer {}), ("s", .string none (some 2) none)]
def exKw : List (String × PyVal) := [("i", .str "a\nb"), ("s", .str "abc")]
def exOracles : Oracles := ⟨fun _ _ => false⟩
def exTexts : Texts := fun s =>
  if s.top == "i" then ("'a\nb'".toList, "Expected <class 'int'>".toList)
  else ("'abc'".toList, "Expected a maximum length of 2".toList)
def exCodec : Codec := ⟨fun _ => [], fun _ => .invalid⟩

theorem ex_raises :
    constructRaises exOracles exTexts true exClass exFields exKw =
      .single .typeErr "Foo.i: Expected <class 'int'>; Got 'a\nb'".toList := by decide

theorem statement_false : ¬ Statement := by
  intro h
  have := h exOracles exTexts exCodec true exClass exFields exKw (by simp) (by decide)
  unfold Reported at this
  rw [ex_raises] at this
  obtain ⟨n, _, _, i, hi, ⟨p, hp, _⟩, _⟩ := this
  simp only [readable, if_true, Except.ok.injEq, Out.single.injEq] at hi
  rw [← hi, internal_field] at hp
  have : (parseMsg "Foo.i: Expected <class 'int'>; Got 'a\nb'".toList).field = none := by decide
  rw [this] at hp
  simp at hp

/-- non-vacuity: a two-field class with both arguments invalid; fail-fast reports the first in
    signature order, collect-all both, and the helper's fields are the two full paths -/
def ex2Kw : List (String × PyVal) := [("s", .str "abc"), ("i", .str "x")]
def ex2Texts : Texts := fun s =>
  if s.top == "i" then ("'x'".toList, "Expected <class 'int'>".toList)
  else ("'abc'".toList, "Expected a maximum length of 2".toList)

theorem construct_example :
    invalidFields exOracles exClass ex2Kw exFields = ["i", "s"] ∧
    constructRaises exOracles ex2Texts true exClass exFields ex2Kw =
      .single .typeErr "Foo.i: Expected <class 'int'>; Got 'x'".toList ∧
    constructRaises exOracles ex2Texts false exClass exFields ex2Kw =
      .collected ["Foo.i: Expected <class 'int'>; Got 'x'".toList,
                  "Foo.s: Got 'abc'; Expected a maximum length of 2".toList] ∧
    (sites exOracles exClass ex2Kw exFields).all (siteGood ex2Texts) = true ∧
    parseMsg "Foo.i: Expected <class 'int'>; Got 'x'".toList =
      ⟨some "Foo.i".toList, some "'x'".toList, "Expected an integer number".toList, false⟩ ∧
    parseMsg "Foo.s: Got 'abc'; Expected a maximum length of 2".toList =
      ⟨some "Foo.s".toList, some "'abc'".toList, "Expected a maximum length of 2".toList, false⟩ := by
  decide

end Typedpy.C18
