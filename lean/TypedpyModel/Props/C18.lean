/-
  Props/C18.lean — property theorems for C18 (stub; to be filled in).
-/
namespace Typedpy.C18
end Typedpy.C18
