/-
  Props/C18.lean — C18: rejections name the offending field; collect-all mode reports all
  invalid ones.

  Model: Sem/Errors.lean (message shapes, the three regexes of errors.py as matchers, the control
  flow of `standard_readable_error_for_typedpy_exception`, `Structure.__init__` and
  deserialization for classes of any declarations: the path through nested collections and nested /
  inline structures, `locate` / `dHead` over `validate` / `deser`).
  "Which fields are invalid" is `invalidFields`, defined from `validate` (Sem/Validate.lean, the
  C01/C02 model) and from nothing in the message code.

  State of the code this file mirrors (/repo 18c6055; 4d96101, 041aebb, 9c7ef9a, 23519e1, 8de2ad2,
  3e97bbb): the message regexes are DOTALL with field group `(?:[\w.]|[^\x00-\x7f\s])+`, no check
  raises a foreign exception, nested and inline structures name the field that holds them.
  Further down: the parse INVERTS the formatter (`render_parse_inverts`), the suffix chain leads to a
  rejected position (`locate_sound`), every deserialization rejection begins with its own field's
  name at any depth (`p1SiteD_names_own_field`), derived class names (`derived_name_identOk`).
  Consequences, all proved below for every class, argument set, text and codec:
    * a message `<field>: <rest>` keeps its field for EVERY rest (newlines, `;`, anything) — the
      exact condition is only that the field text is in `[\w.]+` (`render_parse_exact`, an iff);
    * the problem is non-empty as soon as the rendered problem text is (plus, for the two shapes
      that do not start with `Got `, a condition on the first character that every typedpy problem
      text satisfies) — `render_parse`;
    * in collect-all mode the messages and `ErrorInfo.field`s are exactly the supplied fields that
      `validate` rejects, with NO condition on the texts (`collect_all_exact`).
  What remains false (since /repo 18c6055 identifiers of every script keep their field): a class
  name that is not an identifier — `type('My Class', …)` — still loses it
  (`non_word_name_loses_field`, `non_identifier_class_name_loses_field`, `statement_false`).
-/
import TypedpyModel.Lemmas.Errors
namespace Typedpy.C18
open Typedpy Typedpy.Err

/-! ### render → parse -/

/-- side condition on the texts of a message, per shape, for a NON-EMPTY parsed problem (the field
    needs none).  All typedpy problem texts (`Expected …`, `Does not match …`) satisfy it. -/
def goodTexts : Shape → Text → Text → Bool
  | .gotFirst, _, p => !p.isEmpty
  | .gotLast, _, p => !p.isEmpty && p.head? != some 'G'
  | .plain, _, p => !p.isEmpty && p.head? != some 'G' && p.head? != some ';'

/-- any parsed field is a non-empty run of `[\w.]` -/
theorem field_chars_necessary (W : Word) (s : Text) (f : Text) (h : (parseMsg W s).field = some f) :
    identOk W f = true := by
  unfold parseMsg at h
  split at h
  · rename_i a as c rest h1 h2
    split at h
    · simp only [Option.some.injEq] at h
      rw [← h, ← h1]
      have : ∀ t : Text, (spanField W t).1.all (isFieldChar W) = true := by
        intro t
        induction t with
        | nil => rfl
        | cons x xs ih =>
          simp only [spanField]
          split
          · rename_i hx; simp [hx, ih]
          · rfl
      rw [identOk_iff]
      exact ⟨by rw [h1]; simp, this s⟩
    · simp at h
  · simp at h

/-- EXACT condition: `<field>: <rest>` keeps its field iff the field text is in `[\w.]+` —
    whatever the rest contains (newlines, `;`, `; Got `, JSON, …) -/
theorem render_parse_exact (W : Word) (hW : W.Sound) (f rest : Text) :
    (parseMsg W (f ++ ':' :: ' ' :: rest)).field = some f ↔ identOk W f = true :=
  ⟨field_chars_necessary W _ f, parse_field W hW f rest⟩

theorem render_eq (m : Msg) :
    m.render = m.fullPath ++ ':' :: ' ' :: body m.shape m.value m.problem := by
  simp [Msg.render, Msg.fullPath, withClass_append]

/-- every rendered message is parsed back to its full path; its problem is non-empty under the
    side condition (which no longer mentions the value, `;` or newlines) -/
theorem render_parse (W : Word) (hW : W.Sound) (m : Msg) (hp : identOk W m.fullPath = true)
    (ht : goodTexts m.shape m.value m.problem = true) :
    (parseMsg W m.render).field = some m.fullPath ∧ (parseMsg W m.render).problem ≠ [] := by
  refine ⟨by rw [render_eq]; exact parse_field W hW _ _ hp, ?_⟩
  rw [render_eq, parseMsg_header W hW _ _ hp]
  obtain ⟨cls, path, shape, v, p⟩ := m
  have hsplit : ∀ rest : Text, rest ≠ [] → rest.head? ≠ some ';' →
      transform (m23tail rest).2 ≠ [] := by
    intro rest hne hh
    unfold m23tail
    cases hs : splitLast sSemiGot rest with
    | none => exact transform_nonempty _ hne
    | some ab =>
      refine transform_nonempty ab.1 ?_
      intro ha
      have := splitLast_eq sSemiGot rest ab.1 ab.2 (by simp [hs])
      rw [ha] at this
      apply hh
      rw [this]; rfl
  cases shape with
  | gotFirst =>
    simp only [goodTexts, Bool.not_eq_true', List.isEmpty_eq_false_iff] at ht
    rw [parseTail_space]
    cases h1 : m1tail (body .gotFirst v p) with
    | some vp =>
      refine transform_nonempty vp.2 ?_
      have := m1tail_problem_length v p vp h1
      intro h0
      rw [h0] at this
      cases p with
      | nil => exact ht rfl
      | cons x xs => simp at this
    | none => exact hsplit _ (by simp [body, sGot]) (by simp [body, sGot])
  | gotLast =>
    simp only [goodTexts, Bool.and_eq_true, Bool.not_eq_true', bne_iff_ne, ne_eq,
      List.isEmpty_eq_false_iff] at ht
    obtain ⟨hne, hG⟩ := ht
    have hhead : (body .gotLast v p).head? ≠ some 'G' := by
      cases p with
      | nil => exact absurd rfl hne
      | cons x xs => simpa [body] using hG
    rw [parseTail_line _ hhead]
    obtain ⟨a, b, hab, hlen⟩ := splitLast_append sSemiGot (by decide) p v
    simp only [body, m23tail, hab]
    refine transform_nonempty a ?_
    intro ha
    cases p with
    | nil => exact hne rfl
    | cons x xs => simp [ha] at hlen
  | plain =>
    simp only [goodTexts, Bool.and_eq_true, Bool.not_eq_true', bne_iff_ne, ne_eq,
      List.isEmpty_eq_false_iff] at ht
    obtain ⟨⟨hne, hG⟩, hS⟩ := ht
    rw [parseTail_line (body .plain v p) (by simpa [body] using hG)]
    exact hsplit _ (by simpa [body] using hne) (by simpa [body] using hS)

/-- shape 1 (`Got <v>; <problem>`) with a `;`-free value returns exactly the value and the
    (transformed) problem, whatever else both contain (newlines included) -/
theorem render_parse_gotFirst (W : Word) (hW : W.Sound) (f v p : Text) (hf : identOk W f = true)
    (hv : noSemi v = true) :
    parseMsg W (f ++ ':' :: ' ' :: body .gotFirst v p) = ⟨some f, some v, transform p⟩ := by
  rw [parseMsg_header W hW _ _ hf, parseTail_space, m1tail_gotFirst v p hv]

/-- the side condition of `render_parse` is needed: an empty problem text is parsed as empty -/
theorem empty_problem_example :
    (parseMsg asciiWord (Msg.render ⟨some "Foo".toList, "i".toList, .gotFirst, "1".toList, []⟩)).problem = [] := by
  decide

/-! ### the former newline / non-ASCII findings are now positive facts (kernel-checked instances
    of `render_parse_exact`; both were counterexamples before /repo 4d96101) -/

def msgIntNewline : Msg :=
  ⟨some "Foo".toList, "i".toList, .gotLast, "'a\nb'".toList, "Expected <class 'int'>".toList⟩

/-- `Integer` given `'a\nb'`: field, value (with its newline) and readable problem all recovered -/
theorem newline_value_keeps_field :
    parseMsg asciiWord msgIntNewline.render =
      ⟨some "Foo.i".toList, some "'a\nb'".toList, "Expected an integer number".toList⟩ := by decide

/-- `String(pattern='^a\nb')`: a newline in the problem text is harmless too -/
theorem newline_problem_keeps_field :
    parseMsg asciiWord (Msg.render ⟨some "Foo".toList, "s".toList, .gotFirst, "'x'".toList,
      "Does not match regular expression: '^a\nb'".toList⟩) =
      ⟨some "Foo.s".toList, some "'x'".toList, "Does not match regular expression: '^a\nb'".toList⟩ := by
  decide

/-- a `;` in a shape-1 value still sends the message to regex 3: field kept, value lost, the
    problem is the whole rest -/
theorem semicolon_value_demoted :
    parseMsg asciiWord (Msg.render ⟨some "Foo".toList, "s".toList, .gotFirst, "'a;b'".toList,
      "Expected a maximum length of 2".toList⟩) =
      ⟨some "Foo.s".toList, none, "Got 'a;b'; Expected a maximum length of 2".toList⟩ := by
  decide

/-- the field group of today's errors.py is a sound `Word` -/
theorem pyFieldWord_sound : Word.Sound pyFieldWord :=
  ⟨fun c h => by simp [pyFieldWord, h], by decide⟩

/-- a field called `é` keeps its field -/
theorem non_ascii_name_keeps_field :
    (parseMsg pyFieldWord
      (Msg.render ⟨some "Foo".toList, "é".toList, .gotLast, "'x'".toList,
        "Expected <class 'int'>".toList⟩)).field = some "Foo.é".toList := by decide

/-- finding `field-lost:non-word-name`: a path containing any character outside the field group
    never comes back as the field, whatever the rest -/
theorem non_word_name_loses_field (W : Word) (f rest : Text) (h : identOk W f = false) :
    (parseMsg W (f ++ ':' :: ' ' :: rest)).field ≠ some f := by
  intro hf
  rw [field_chars_necessary W _ f hf] at h
  exact absurd h (by simp)

/-- the identifier part of that finding is fixed by /repo 18c6055: valid identifiers with combining
    marks / vowel signs — `x` + U+0301, Hindi `नाम` (U+093E is a vowel sign), Thai `ชื่อ` — keep their
    field under today's field group, and were lost under `[\w.]+` (where such characters are not
    alphanumeric: `asciiWord` answers as `str.isalnum` does for them) -/
theorem combining_mark_name_keeps_field :
    (parseMsg pyFieldWord (Msg.render ⟨some "Foo".toList, ['x', '́'], .gotLast, "'a'".toList,
      "Expected <class 'int'>".toList⟩)).field = some ("Foo.".toList ++ ['x', '́']) ∧
    (parseMsg pyFieldWord "Foo.नाम: Expected <class 'int'>; Got 'a'".toList).field = some "Foo.नाम".toList ∧
    (parseMsg pyFieldWord "Foo.ชื่อ: Got 'ab'; Expected a maximum length of 1".toList).field = some "Foo.ชื่อ".toList ∧
    (parseMsg asciiWord (Msg.render ⟨some "Foo".toList, ['x', '́'], .gotLast, "'a'".toList,
      "Expected <class 'int'>".toList⟩)).field = none := by decide

/-- what is left of the finding: a class name that is not an identifier (`type('My Class', …)`,
    `a-b`, `Gen[int]`) still loses the field -/
theorem non_identifier_class_name_loses_field :
    (parseMsg pyFieldWord "My Class.i: Expected <class 'int'>; Got 'x'".toList).field = none ∧
    (parseMsg pyFieldWord "a-b.i: Expected <class 'int'>; Got 'x'".toList).field = none ∧
    (parseMsg pyFieldWord "Gen[int].i: Expected <class 'int'>; Got 'x'".toList).field = none := by decide

/-- former findings `no-path:unnamed-inner-field:deser-collection`, `no-path:unhashable:deser-set`
    (fixed by /repo 23519e1; a regression that re-opens them produces these texts again): texts
    that deserialization raised without any path — bare, and with the class prefix that
    `raise_errs_if_needed` adds — give no field (or, for an unnamed Enum item, the field `None`) -/
theorem deser_foreign_texts_no_field :
    (parseMsg asciiWord "Expected <class 'int'>; Got 'x'".toList).field = none ∧
    (parseMsg asciiWord "Foo.Expected <class 'int'>; Got 'x'".toList).field = none ∧
    (parseMsg asciiWord "unhashable type: 'list'".toList).field = none ∧
    (parseMsg asciiWord "Foo.unhashable type: 'list'".toList).field = none ∧
    (parseMsg asciiWord "None: Got 5; Expected one of 1, 2".toList).field = some "None".toList := by
  decide

/-- `Expected <class 'int'>` becomes readable; a class without display name is left unchanged -/
theorem transform_examples :
    transform "Expected <class 'int'>".toList = "Expected an integer number".toList ∧
    transform "Expected <class 'bool'>".toList = "Expected <class 'bool'>".toList ∧
    transform "Expected a string".toList = "Expected a string".toList := by decide

/-! ### the helper never raises on typedpy rejections -/

/-- the only way `standard_readable_error_for_typedpy_exception` raises: collect-all mode and
    `str(e)` is valid JSON that is not an iterable of strings -/
theorem readable_raises_iff (ff : Bool) (J : Codec) (s : Text) :
    (∃ e, readable ff J s = .error e) ↔ ff = false ∧ J.loads s = .raises := by
  unfold readable
  cases ff with
  | true => simp
  | false => cases h : J.loads s <;> simp

theorem readable_total (ff : Bool) (J : Codec) (s : Text) (h : ff = true ∨ J.loads s ≠ .raises) :
    ∃ out, readable ff J s = .ok out := by
  cases hr : readable ff J s with
  | ok out => exact ⟨out, rfl⟩
  | error e =>
    have := (readable_raises_iff ff J s).1 ⟨e, hr⟩
    cases h with
    | inl h => simp [h] at this
    | inr h => exact absurd this.2 h

/-- for every exception text the construction model produces — any class, arguments, texts,
    either mode — the helper returns -/
theorem readable_total_on_rejections (O : Oracles) (T : Texts) (J : Codec) (hJ : J.RoundTrip)
    (ff : Bool) (c : ClassOpts) (fields : List (String × FieldDecl)) (kw : List (String × PyVal))
    (t : Text) (h : (constructRaises O T ff c fields kw).text J = some t) :
    ∃ out, readable ff J t = .ok out := by
  cases ff with
  | true => exact readable_total true J t (Or.inl rfl)
  | false =>
    apply readable_total
    right
    unfold constructRaises at h
    split at h
    · simp [Raised.text] at h
    · split at h
      · simp [Raised.text] at h
      · simp only [Bool.false_eq_true, if_false, Raised.text, Option.some.injEq] at h
        rw [← h, hJ]; simp

/-- observation (outside the statement's domain): in collect-all mode a message that is a bare
    JSON scalar makes the helper raise -/
theorem readable_raises_example (J : Codec) (h : J.loads ['5'] = .raises) :
    readable false J ['5'] = .error "TypeError" := by
  simp [readable, h]

/-! ### construction: which fields are reported -/

/-- the message text begins with `<Class>.<top>[suffix]: ` -/
def BeginsWithPath (cls : Text) (t : Text) (n : String) : Prop :=
  ∃ (suf : SufPath) (rest : Text), t = withClass (some cls) (n.toList ++ suf.text) ++ ':' :: ' ' :: rest

/-- `ErrorInfo.field` names the top-level field `n` -/
def InfoNames (cls : Text) (i : Info) (n : String) : Prop :=
  ∃ p, i.field = some p ∧ namesField (some cls) n p

/-- the site's texts satisfy the side condition for a non-empty problem -/
def siteGood (T : Texts) (s : Site) : Bool := goodTexts s.loc.shape (T s).1 (T s).2

/-- text of a site with the class prefix = full path, `: `, body -/
theorem site_text (T : Texts) (cls : Text) (s : Site) :
    withClass (some cls) (s.text T) =
      withClass (some cls) (s.top.toList ++ s.loc.suffix.text) ++
        ':' :: ' ' :: body s.loc.shape (T s).1 (T s).2 := by
  simp [Site.text, withClass]

theorem site_begins (T : Texts) (cls : Text) (s : Site) :
    BeginsWithPath cls (withClass (some cls) (s.text T)) s.top :=
  ⟨s.loc.suffix, _, site_text T cls s⟩

/-- every site's message keeps its full path — no condition on the texts -/
theorem site_field (W : Word) (hW : W.Sound) (T : Texts) (cls : Text) (s : Site)
    (hc : identOk W cls = true) (ht : identOk W s.top.toList = true) :
    (parseMsg W (withClass (some cls) (s.text T))).field =
      some (withClass (some cls) (s.top.toList ++ s.loc.suffix.text)) := by
  rw [site_text T cls s]
  exact parse_field W hW _ _ (identOk_path W hW cls _ _ hc ht)

theorem site_problem (W : Word) (hW : W.Sound) (T : Texts) (cls : Text) (s : Site)
    (hc : identOk W cls = true) (ht : identOk W s.top.toList = true) (h : siteGood T s = true) :
    (parseMsg W (withClass (some cls) (s.text T))).problem ≠ [] := by
  have := render_parse W hW
    ⟨some cls, s.top.toList ++ s.loc.suffix.text, s.loc.shape, (T s).1, (T s).2⟩
    (identOk_path W hW cls _ _ hc ht) h
  rw [render_eq] at this
  rw [site_text T cls s]
  exact this.2

/-- what the property says about one run of `cls(**kw)` under the global switch `ff`, observed at
    `str(exception)` and at the helper's result -/
def Reported (O : Oracles) (T : Texts) (J : Codec) (ff : Bool) (c : ClassOpts)
    (fields : List (String × FieldDecl)) (kw : List (String × PyVal)) : Prop :=
  match constructRaises O T ff c fields kw with
  | .single _ t =>
    ∃ n, n ∈ invalidFields O c kw fields ∧ BeginsWithPath c.name.toList t n ∧
      ∃ i, readable ff J t = .ok (.single i) ∧ InfoNames c.name.toList i n ∧ i.problemNonEmpty = true
  | .collected ts =>
    Aligned (BeginsWithPath c.name.toList) ts (invalidFields O c kw fields) ∧
      ∃ infos, readable ff J (J.dumps ts) = .ok (.many infos) ∧
        Aligned (InfoNames c.name.toList) infos (invalidFields O c kw fields)
  | _ => True

/-- the texts are typedpy's: every problem text satisfies the (first-character / non-empty) side
    condition -/
def TextsWellFormed (T : Texts) : Prop := ∀ s, siteGood T s = true

/-- C18 at full strength, for flat classes: every class (ANY names), argument set, well-formed
    texts, codec whose `isalnum` oracle is sound, both modes -/
def Statement : Prop :=
  ∀ (O : Oracles) (T : Texts) (J : Codec) (ff : Bool) (c : ClassOpts)
    (fields : List (String × FieldDecl)) (kw : List (String × PyVal)),
    J.word.Sound → (ff = false → J.RoundTrip) → TextsWellFormed T →
    fields.all (fun nf => isFlatDecl nf.2) = true →
    Reported O T J ff c fields kw

/-- collect-all mode: the messages and the reported `ErrorInfo.field`s are, position by position,
    exactly the supplied fields that `validate` rejects (in signature order) — for ALL texts -/
theorem collect_all_exact (O : Oracles) (T : Texts) (J : Codec) (hJ : J.RoundTrip)
    (hW : J.word.Sound) (c : ClassOpts)
    (fields : List (String × FieldDecl)) (kw : List (String × PyVal)) (ts : List Text)
    (hc : identOk J.word c.name.toList = true)
    (hn : ∀ nf ∈ fields, identOk J.word nf.1.toList = true)
    (h : constructRaises O T false c fields kw = .collected ts) :
    Aligned (BeginsWithPath c.name.toList) ts (invalidFields O c kw fields) ∧
      ∃ infos, readable false J (J.dumps ts) = .ok (.many infos) ∧
        Aligned (InfoNames c.name.toList) infos (invalidFields O c kw fields) := by
  have hts : ts = (sites O c kw fields).map fun x => withClass (some c.name.toList) (x.text T) := by
    unfold constructRaises at h
    split at h
    · simp at h
    · split at h
      · simp at h
      · rename_i s ss hss
        simp only [Bool.false_eq_true, if_false, Raised.collected.injEq] at h
        rw [hss, ← h]
  refine ⟨?_, ?_⟩
  · rw [hts, ← sites_tops]
    exact aligned_map _ _ _ _ fun s _ => site_begins T _ s
  · refine ⟨_, readable_collected J hJ ts, ?_⟩
    rw [hts, ← sites_tops, List.map_map]
    apply aligned_map
    intro s hs'
    obtain ⟨nf, hnf, htop⟩ := sites_mem_field O c kw fields s hs'
    refine ⟨_, ?_, s.loc.suffix, rfl⟩
    rw [Function.comp_apply, internal_field]
    exact site_field J.word hW T _ s hc (htop ▸ hn nf hnf)

/-- fail-fast mode: the single exception names (in its text and through the helper) one of the
    supplied fields that `validate` rejects, with a non-empty problem -/
theorem fail_fast_member (O : Oracles) (T : Texts) (J : Codec) (hW : J.word.Sound) (c : ClassOpts)
    (fields : List (String × FieldDecl)) (kw : List (String × PyVal)) (e : ErrCls) (t : Text)
    (hc : identOk J.word c.name.toList = true)
    (hn : ∀ nf ∈ fields, identOk J.word nf.1.toList = true)
    (hs : ∀ s ∈ sites O c kw fields, siteGood T s = true)
    (h : constructRaises O T true c fields kw = .single e t) :
    ∃ n, n ∈ invalidFields O c kw fields ∧ BeginsWithPath c.name.toList t n ∧
      ∃ i, readable true J t = .ok (.single i) ∧ InfoNames c.name.toList i n ∧
        i.problemNonEmpty = true := by
  unfold constructRaises at h
  split at h
  · simp at h
  · split at h
    · simp at h
    · rename_i s ss hss
      simp only [if_true, Raised.single.injEq] at h
      have hmem : s ∈ sites O c kw fields := by rw [hss]; exact List.mem_cons_self
      have hg := hs s hmem
      obtain ⟨nf, hnf, htop⟩ := sites_mem_field O c kw fields s hmem
      have htopOk : identOk J.word s.top.toList = true := htop ▸ hn nf hnf
      refine ⟨s.top, ?_, ?_, ?_⟩
      · rw [← sites_tops, hss]; simp
      · rw [← h.2]; exact site_begins T _ s
      · refine ⟨_, rfl, ⟨_, ?_, s.loc.suffix, rfl⟩, ?_⟩
        · rw [internal_field, ← h.2]
          exact site_field J.word hW T _ s hc htopOk
        · rw [internal_failFast, ← h.2]
          have := site_problem J.word hW T _ s hc htopOk hg
          simp only [Info.problemNonEmpty, Bool.not_eq_true', List.isEmpty_eq_false_iff]
          exact this

/-- C18 holds whenever the class and field names are in `[\w.]+` (the only exclusion left; the
    foreign-exception and newline regions of earlier versions are gone) -/
theorem statement_partial (O : Oracles) (T : Texts) (J : Codec) (ff : Bool) (c : ClassOpts)
    (fields : List (String × FieldDecl)) (kw : List (String × PyVal))
    (hW : J.word.Sound) (hJ : ff = false → J.RoundTrip) (hT : TextsWellFormed T)
    (hc : identOk J.word c.name.toList = true)
    (hn : ∀ nf ∈ fields, identOk J.word nf.1.toList = true) :
    Reported O T J ff c fields kw := by
  unfold Reported
  split
  · rename_i e t h
    cases ff with
    | true => exact fail_fast_member O T J hW c fields kw e t hc hn (fun s _ => hT s) h
    | false =>
      exfalso
      unfold constructRaises at h
      split at h
      · simp at h
      · split at h <;> simp at h
  · rename_i ts h
    cases ff with
    | false => exact collect_all_exact O T J (hJ rfl) hW c fields kw ts hc hn h
    | true =>
      exfalso
      unfold constructRaises at h
      split at h
      · simp at h
      · split at h <;> simp at h
  · trivial

/-! ### the full statement is still false: names outside `[\w.]` -/

def exClass : ClassOpts := { name := "Foo", required := [] }
def exFields : List (String × FieldDecl) := [("i", .integer {}), ("s", .string none (some 2) none)]
def exOracles : Oracles := { reMatch := fun _ _ => false }
def exCodec : Codec := ⟨fun _ => [], fun _ => .invalid, asciiWord⟩
def exTexts : Texts := fun s =>
  if s.loc.shape == .gotLast then ("'x'".toList, "Expected <class 'int'>".toList)
  else ("'abc'".toList, "Expected a maximum length of 2".toList)

/-- a class created as `type('My Class', (Structure,), {'i': Integer()})`: the space is outside
    the field group of today's errors.py -/
def exSpaceClass : ClassOpts := { name := "My Class", required := [] }
def exMarkFields : List (String × FieldDecl) := [("i", .integer {})]
def exMarkKw : List (String × PyVal) := [("i", .str "x")]
def exPyCodec : Codec := ⟨fun _ => [], fun _ => .invalid, pyFieldWord⟩

theorem asciiWord_sound : Word.Sound asciiWord := ⟨fun _ h => h, by decide⟩

theorem exTexts_wellFormed : TextsWellFormed exTexts := by
  intro s
  unfold siteGood exTexts
  cases s.loc.shape <;> decide

theorem ex_raises :
    constructRaises exOracles exTexts true exSpaceClass exMarkFields exMarkKw =
      .single .typeErr "My Class.i: Expected <class 'int'>; Got 'x'".toList := by
  decide

theorem statement_false : ¬ Statement := by
  intro h
  have := h exOracles exTexts exPyCodec true exSpaceClass exMarkFields exMarkKw pyFieldWord_sound (by simp)
    exTexts_wellFormed (by decide)
  unfold Reported at this
  rw [ex_raises] at this
  obtain ⟨n, _, _, i, hi, ⟨p, hp, _⟩, _⟩ := this
  simp only [readable, if_true, Except.ok.injEq, Out.single.injEq] at hi
  rw [← hi, internal_field] at hp
  have : (parseMsg exPyCodec.word "My Class.i: Expected <class 'int'>; Got 'x'".toList).field = none := by
    decide
  rw [this] at hp
  simp at hp

/-- non-vacuity: a two-field class with both arguments invalid (one value with a newline);
    fail-fast reports the first in signature order, collect-all both, and the helper's fields are
    the two full paths -/
def ex2Kw : List (String × PyVal) := [("s", .str "abc"), ("i", .str "a\nb")]
def ex2Texts : Texts := fun s =>
  if s.top == "i" then ("'a\nb'".toList, "Expected <class 'int'>".toList)
  else ("'abc'".toList, "Expected a maximum length of 2".toList)

theorem construct_example :
    invalidFields exOracles exClass ex2Kw exFields = ["i", "s"] ∧
    constructRaises exOracles ex2Texts true exClass exFields ex2Kw =
      .single .typeErr "Foo.i: Expected <class 'int'>; Got 'a\nb'".toList ∧
    constructRaises exOracles ex2Texts false exClass exFields ex2Kw =
      .collected ["Foo.i: Expected <class 'int'>; Got 'a\nb'".toList,
                  "Foo.s: Got 'abc'; Expected a maximum length of 2".toList] ∧
    (sites exOracles exClass ex2Kw exFields).all (siteGood ex2Texts) = true ∧
    parseMsg asciiWord "Foo.i: Expected <class 'int'>; Got 'a\nb'".toList =
      ⟨some "Foo.i".toList, some "'a\nb'".toList, "Expected an integer number".toList⟩ ∧
    parseMsg asciiWord "Foo.s: Got 'abc'; Expected a maximum length of 2".toList =
      ⟨some "Foo.s".toList, some "'abc'".toList, "Expected a maximum length of 2".toList⟩ := by
  decide

/-! ### deserialization, phase one (collect-all mode reports what `construct_fields_map` collected
    before the constructor ever runs) -/

theorem numOk_strip (o : NumOpts) (q : Q) (h : numOk o q = true) :
    numOk { o with sign := .any } q = true := by
  simp only [numOk, Bool.and_eq_true] at h ⊢
  exact ⟨h.1, rfl⟩

/-- phase one never rejects a scalar the constructor would accept: dropping the sign mixin only
    weakens the check -/
theorem phase_one_scalar_sound (O : Oracles) (f : FieldDecl) (v : PyVal)
    (hs : isScalarDecl f = true) (h : p1Scalar O f v = true) : isOk (validate O f v) = false := by
  cases hv : isOk (validate O f v) with
  | false => rfl
  | true =>
    exfalso
    have hstrip : isOk (validate O (stripSign f) v) = true := by
      cases f <;> simp only [isScalarDecl] at hs <;> try exact hv
      all_goals (simp only [stripSign, validate] at hv ⊢)
      · rename_i o
        unfold vNumber at hv ⊢
        cases hq : v.asNum with
        | none => simp [hq, isOk] at hv
        | some q =>
          simp only [hq] at hv ⊢
          by_cases hn : numOk o q = true
          · simp [numOk_strip o q hn, isOk]
          · simp [hn, isOk] at hv
      · rename_i o
        unfold vInteger at hv ⊢
        cases v <;> simp only [isOk] at hv ⊢ <;> try exact hv
        · rename_i b
          by_cases hn : numOk o (Q.ofInt (if b = true then 1 else 0)) = true
          · simp [numOk_strip o _ hn]
          · simp [hn] at hv
        · rename_i i
          by_cases hn : numOk o (Q.ofInt i) = true
          · simp [numOk_strip o _ hn]
          · simp [hn] at hv
      · rename_i o
        unfold vFloat at hv ⊢
        cases v <;> simp only [isOk] at hv ⊢ <;> try exact hv
        · rename_i i
          by_cases hn : numOk o (Q.ofInt i) = true
          · simp [numOk_strip o _ hn]
          · simp [hn] at hv
        · rename_i q
          by_cases hn : numOk o q = true
          · simp [numOk_strip o _ hn]
          · simp [hn] at hv
    simp [p1Scalar, hstrip] at h

/-- `Float._validate` converts a non-bool int first: in phase one an int-spelled number is
    rejected exactly when the float it denotes is (all bounds, all ints) -/
theorem phase_one_float_spelling (O : Oracles) (o : NumOpts) (i : Int) :
    p1Scalar O (.float o) (.int i) = p1Scalar O (.float o) (.float (Q.ofInt i)) := by
  simp only [p1Scalar, stripSign, validate, vFloat]

/-- … at top level and as an element of every collection kind (`Float(maximum=10)` given `11`) -/
theorem phase_one_float_int_examples :
    let f : FieldDecl := .float { max := some (Q.ofInt 10) }
    let O : Oracles := exOracles
    p1Rejects O f (.int 11) = true ∧ p1Rejects O f (.int 10) = false ∧
    p1Rejects O (.seqOf .list f {}) (.list [.int 1, .int 11]) = true ∧
    p1Rejects O (.seqOf .deque f {}) (.list [.int 1, .int 11]) = true ∧
    p1Rejects O (.setOf false f {}) (.list [.int 11]) = true ∧
    p1Rejects O (.tupleOf f false) (.list [.int 11]) = true ∧
    p1Rejects O (.tuplePos [.string none none none, f] false) (.list [.str "a", .int 11]) = true ∧
    p1Rejects O (.mapOf (.string none none none) f {}) (.dict [(.str "k", .int 11)]) = true := by
  decide

/-- collect-all deserialization reports exactly the invalid supplied fields iff phase one rejects
    none of them or all of them -/
theorem deser_collect_exact_iff (O : Oracles) (c : ClassOpts) (doc kw : List (String × PyVal))
    (fields : List (String × FieldDecl)) :
    deserCollected O c doc kw fields = invalidFields O c kw fields ↔
      phaseOneInvalid O doc fields = [] ∨
      phaseOneInvalid O doc fields = invalidFields O c kw fields := by
  unfold deserCollected
  cases h : phaseOneInvalid O doc fields with
  | nil => simp
  | cons a as => simp

/-- finding `collect-all:missing-field:deser-two-phase`: `i: PositiveInt`, `s: String` given
    `{'i': -1, 's': 5}` — both invalid, phase one sees only `s`, and that is all that is reported -/
theorem two_phase_example :
    let O : Oracles := exOracles
    let c : ClassOpts := { name := "Foo", required := [] }
    let fields : List (String × FieldDecl) :=
      [("i", .integer { sign := .pos }), ("s", .string none none none)]
    let doc : List (String × PyVal) := [("i", .int (-1)), ("s", .int 5)]
    invalidFields O c doc fields = ["i", "s"] ∧ phaseOneInvalid O doc fields = ["s"] ∧
    deserCollected O c doc doc fields = ["s"] := by
  decide

/-! ### deserialization, phase one: where the rejection is raised (sites) -/

theorem p1First_isSome (O : Oracles) (f : FieldDecl) (xs : List PyVal) (i : Nat) :
    (p1First O f i xs).isSome = xs.any (p1Scalar O f) := by
  induction xs generalizing i with
  | nil => rfl
  | cons x xs ih =>
    simp only [p1First, List.any_cons]
    cases p1Scalar O f x <;> simp [ih]

theorem p1FirstZip_isSome (O : Oracles) (fs : List FieldDecl) (xs : List PyVal) (i : Nat) :
    (p1FirstZip O i fs xs).isSome = p1Zip O fs xs := by
  induction fs generalizing xs i with
  | nil => cases xs <;> rfl
  | cons f fs ih =>
    cases xs with
    | nil => rfl
    | cons x xs =>
      simp only [p1FirstZip, p1Zip]
      cases p1Scalar O f x <;> simp [ih]

theorem p1FirstEntry_isSome (O : Oracles) (scr : List (Option String)) (name : String)
    (kf vf : FieldDecl) (kvs : List (PyVal × PyVal)) :
    (p1FirstEntry O scr name kf vf kvs).isSome =
      kvs.any (fun kv => p1Scalar O kf kv.1 || p1Scalar O vf kv.2) := by
  induction kvs with
  | nil => rfl
  | cons kv kvs ih =>
    obtain ⟨k, x⟩ := kv
    simp only [p1FirstEntry, List.any_cons]
    cases p1Scalar O vf x <;> cases p1Scalar O kf k <;> simp [ih]

/-- the site model and the accept/reject model of phase one agree: a site exists exactly for the
    values `deserialize_single_field` rejects (every flat field kind, every scratch state) -/
theorem p1Site_isSome (O : Oracles) (scr : List (Option String)) (name : String) (f : FieldDecl)
    (v : PyVal) : (p1Site O scr name f v).isSome = p1Rejects O f v := by
  have hpos : ∀ (fs : List FieldDecl) (xs : List PyVal),
      (p1Positional O name fs xs).isSome = (decide (xs.length < fs.length) || p1Zip O fs xs) := by
    intro fs xs
    unfold p1Positional
    by_cases h : xs.length < fs.length
    · simp [h]
    · simp [h, p1FirstZip_isSome]
  have hset : ∀ xs : List PyVal, (p1SetBuild name xs).isSome = xs.any unhashableElem := by
    intro xs
    unfold p1SetBuild
    cases xs.any unhashableElem <;> rfl
  have hhom : ∀ (item : FieldDecl) (xs : List PyVal),
      (p1Homog O scr name item xs).isSome = xs.any (p1Scalar O item) := by
    intro item xs
    simp [p1Homog, p1First_isSome]
  cases f <;> simp only [p1Site, p1Rejects, p1ListLike]
  case seqAny => cases listLike v <;> rfl
  case seqOf => cases listLike v <;> simp [hhom]
  case tupleOf => cases listLike v <;> simp [hhom]
  case seqPos => cases listLike v <;> simp [hpos]
  case tuplePos => cases listLike v <;> simp [hpos]
  case setAny => cases listLike v <;> simp [hset]
  case setOf =>
    cases listLike v with
    | none => rfl
    | some xs =>
      simp only []
      have := hhom ‹FieldDecl› xs
      cases h : p1Homog O scr name ‹FieldDecl› xs with
      | some st => rw [h] at this; simp [← this]
      | none => rw [h] at this; simp [← this, hset]
  case mapAny => cases v <;> rfl
  case mapOf => cases v <;> simp [p1FirstEntry_isSome]
  all_goals (cases p1Scalar O _ v <;> rfl)

theorem dropPre_isSome_append (a b : Text) : (dropPre a (a ++ b)).isSome = true := by
  rw [dropPre_append]; rfl

theorem nameIdx_prefix (name : String) (i : Nat) (t : Text)
    (h : (dropPre (nameIdx name i) t).isSome = true) : (dropPre name.toList t).isSome = true := by
  cases hd : dropPre (nameIdx name i) t with
  | none => simp [hd] at h
  | some r =>
    have := dropPre_eq _ _ _ hd
    rw [this, nameIdx, List.append_assoc]
    exact dropPre_isSome_append _ _

/-- the wrapper guarantee of `deserialize_list_like`, `deserialize_map` and of the fields' own
    `_name` (since /repo 23519e1 without exception): EVERY phase-one site is `named` and its text
    begins with ITS OWN field's name — for every flat field kind, every document value and EVERY
    scratch state (stale names of shared item Field instances included) -/
theorem p1_names_own_field (O : Oracles) (scr : List (Option String)) (name : String)
    (f : FieldDecl) (v : PyVal) (s : P1Site) (h : p1Site O scr name f v = some s) :
    s.kind = .named ∧ s.top = name ∧ s.namesOwnField = true := by
  have hlit : ∀ (c : ErrCls) (tail : Text) (s : P1Site),
      s = ⟨name, .named, some (name.toList ++ tail), c⟩ →
        s.kind = .named ∧ s.top = name ∧ s.namesOwnField = true := by
    intro c tail s hs
    subst hs
    exact ⟨rfl, rfl, by simp [P1Site.namesOwnField, dropPre_isSome_append]⟩
  have hidx : ∀ i : Nat, (dropPre name.toList (nameIdx name i)).isSome = true := by
    intro i; rw [nameIdx]; exact dropPre_isSome_append _ _
  have helem : ∀ (sc : Option String) (i : Nat) (item : FieldDecl) (x : PyVal),
      (dropPre name.toList (p1ElemHead sc name i item x)).isSome = true := by
    intro sc i item x
    unfold p1ElemHead
    split
    · exact hidx i
    · exact hidx i
    · split
      · rename_i hp; exact nameIdx_prefix name i _ hp
      · exact hidx i
    · exact hidx i
  have hhom : ∀ (item : FieldDecl) (xs : List PyVal) (s : P1Site),
      p1Homog O scr name item xs = some s →
        s.kind = .named ∧ s.top = name ∧ s.namesOwnField = true := by
    intro item xs s hs
    simp only [p1Homog, Option.map_eq_some_iff] at hs
    obtain ⟨ix, _, hs⟩ := hs
    subst hs
    exact ⟨rfl, rfl, by simp [P1Site.namesOwnField, helem]⟩
  have hpos : ∀ (fs : List FieldDecl) (xs : List PyVal) (s : P1Site),
      p1Positional O name fs xs = some s →
        s.kind = .named ∧ s.top = name ∧ s.namesOwnField = true := by
    intro fs xs s hs
    unfold p1Positional at hs
    split at hs
    · exact hlit _ ([':', ' '] ++ sGot) s (by simpa [List.append_assoc] using hs.symm)
    · simp only [Option.map_eq_some_iff] at hs
      obtain ⟨ifx, _, hs⟩ := hs
      subst hs
      refine ⟨rfl, rfl, ?_⟩
      simp only [P1Site.namesOwnField, nameIdx, List.append_assoc]
      exact dropPre_isSome_append _ _
  have hbuild : ∀ (xs : List PyVal) (s : P1Site), p1SetBuild name xs = some s →
      s.kind = .named ∧ s.top = name ∧ s.namesOwnField = true := by
    intro xs s hs
    unfold p1SetBuild at hs
    split at hs
    · exact hlit _ ([':', ' '] ++ sGot) s (by simpa [List.append_assoc] using (Option.some.inj hs).symm)
    · simp at hs
  have hll : ∀ (k : List PyVal → Option P1Site),
      (∀ xs s, k xs = some s → s.kind = .named ∧ s.top = name ∧ s.namesOwnField = true) →
      ∀ s, p1ListLike name v k = some s → s.kind = .named ∧ s.top = name ∧ s.namesOwnField = true := by
    intro k hk' s hs
    unfold p1ListLike at hs
    cases hl : listLike v with
    | none =>
      rw [hl] at hs
      exact hlit _ ([':', ' '] ++ sGot) s (by simpa [List.append_assoc] using hs.symm)
    | some xs => rw [hl] at hs; exact hk' xs s hs
  cases f <;> simp only [p1Site] at h
  case seqAny => exact hll _ (fun _ _ hn => by simp at hn) s h
  case seqOf => exact hll _ (fun xs s hs => hhom _ xs s hs) s h
  case tupleOf => exact hll _ (fun xs s hs => hhom _ xs s hs) s h
  case seqPos => exact hll _ (fun xs s hs => hpos _ xs s hs) s h
  case tuplePos => exact hll _ (fun xs s hs => hpos _ xs s hs) s h
  case setAny => exact hll _ (fun xs s hs => hbuild xs s hs) s h
  case setOf =>
    refine hll _ (fun xs s hs => ?_) s h
    cases hh : p1Homog O scr name ‹FieldDecl› xs with
    | some st => rw [hh] at hs; simp only [Option.some.injEq] at hs; subst hs; exact hhom _ xs _ hh
    | none => rw [hh] at hs; exact hbuild xs s hs
  case mapAny =>
    cases v <;> simp only [Option.some.injEq] at h <;>
      first
      | exact hlit _ ([':', ' '] ++ sGot) s (by simpa [List.append_assoc] using h.symm)
      | simp at h
  case mapOf =>
    cases v
    case dict kvs =>
      simp only [] at h
      clear hll
      induction kvs with
      | nil => simp [p1FirstEntry] at h
      | cons kv kvs ih =>
        obtain ⟨k, x⟩ := kv
        simp only [p1FirstEntry] at h
        have hinner : ∀ (g : FieldDecl) (y : PyVal),
            p1InnerSite O name g y = s → s.kind = .named ∧ s.top = name ∧ s.namesOwnField = true := by
          intro g y hs
          exact hlit _ [] s (by simpa [p1InnerSite] using hs.symm)
        split at h
        · exact hinner _ _ (Option.some.inj h)
        · split at h
          · exact hinner _ _ (Option.some.inj h)
          · exact ih h
    all_goals (simp only [Option.some.injEq] at h;
               exact hlit _ ([':', ' '] ++ sGot) s (by simpa [List.append_assoc] using h.symm))
  all_goals
    (split at h
     · simp only [Option.some.injEq] at h
       subst h
       refine ⟨rfl, rfl, ?_⟩
       simp only [P1Site.namesOwnField, p1ScalarHead]
       exact dropPre_isSome_append _ _
     · simp at h)

/-- every phase-one site of ANY document — in particular of a document read through a key-renaming
    mapper (`docOfMapped m raw fields`, whatever the document keys are) — is raised under the name
    of a declared FIELD, never under a document key -/
theorem p1Sites_name_fields (O : Oracles) (scr : List (String × List (Option String)))
    (doc : List (String × PyVal)) (fields : List (String × FieldDecl)) (s : P1Site)
    (h : s ∈ p1Sites O scr doc fields) :
    ∃ nf ∈ fields, s.top = nf.1 ∧ s.kind = .named ∧ s.namesOwnField = true := by
  simp only [p1Sites, List.mem_filterMap] at h
  obtain ⟨nf, hnf, hs⟩ := h
  refine ⟨nf, hnf, ?_⟩
  cases hl : lookup nf.1 doc with
  | none => simp [hl] at hs
  | some v =>
    simp only [hl] at hs
    split at hs
    · simp at hs
    · have := p1_names_own_field O _ nf.1 nf.2 v s hs
      exact ⟨this.2.1, this.1, this.2.2⟩

theorem mapped_sites_name_fields (O : Oracles) (scr : List (String × List (Option String)))
    (m : List (String × String)) (raw : List (String × PyVal))
    (fields : List (String × FieldDecl)) (s : P1Site)
    (h : s ∈ p1Sites O scr (docOfMapped m raw fields) fields) :
    ∃ nf ∈ fields, s.top = nf.1 ∧ s.namesOwnField = true := by
  obtain ⟨nf, hnf, h1, _, h3⟩ := p1Sites_name_fields O scr _ fields s h
  exact ⟨nf, hnf, h1, h3⟩

/-- `tags` read under the document key `labels`: the bad element is reported as `tags_1` -/
theorem mapped_example :
    let fields : List (String × FieldDecl) := [("first_tags", .seqOf .list (.integer {}) {})]
    let raw : List (String × PyVal) := [("labels", .list [.int 1, .str "x"])]
    p1Sites exOracles [] (docOfMapped [("first_tags", "labels")] raw fields) fields =
      [⟨"first_tags", .named, some "first_tags_1".toList, .valueErr⟩] := by
  decide

/-- the former findings `no-path:unnamed-inner-field:deser-collection` and
    `wrong-field:stale-inner-name:deser-map` (fixed by /repo 23519e1): whatever scratch name the
    shared inner Field instance carries (`Pct = Integer(maximum=100)` in `m1: Map[String, Pct]` and
    `a2: Array[Pct]`, after `Bar(a2=[2], …)`), the rejection of `{'m1': {'a': 500}}` is raised
    under `m1` -/
theorem stale_shared_inner_name_example :
    let pct : FieldDecl := .integer { max := some (Q.ofInt 100) }
    let m1 : FieldDecl := .mapOf (.string none none none) pct {}
    let doc : PyVal := .dict [(.str "a", .int 500)]
    p1Site exOracles [none, none] "m1" m1 doc = some ⟨"m1", .named, some "m1".toList, .valueErr⟩ ∧
    p1Site exOracles [none, some "a2_0"] "m1" m1 doc =
      some ⟨"m1", .named, some "m1".toList, .valueErr⟩ := by
  decide

/-- the former finding `no-path:unhashable:deser-set` (fixed by /repo 23519e1): a Set without item
    field reaches `set(values)` with an unhashable element and now reports it under its own name;
    with an item field the element is rejected first, under its indexed path -/
theorem set_build_site_examples :
    p1Site exOracles [] "s" (.setAny false {}) (.list [.list [.int 1]]) =
      some ⟨"s", .named, some "s: Got ".toList, .typeErr⟩ ∧
    p1Site exOracles [none] "t" (.setOf false (.integer {}) {}) (.list [.int 1, .list [.int 1]]) =
      some ⟨"t", .named, some "t_1".toList, .valueErr⟩ := by
  decide

/-! ### deserialization at any nesting depth (Sem/Errors.lean `dHead`, `p1SiteD` over `deser` of
    Sem/Deser.lean): the wrapper guarantee of every container kind, for every declaration -/

theorem c18_startsWith_append (a b : Text) : startsWith a (a ++ b) = true := by
  unfold startsWith; exact dropPre_isSome_append a b

theorem c18_startsWith_self (a : Text) : startsWith a a = true := by
  have := c18_startsWith_append a []
  simpa using this

theorem c18_startsWith_trans (a b t : Text) (h : startsWith (a ++ b) t = true) : startsWith a t = true := by
  unfold startsWith at h ⊢
  cases hd : dropPre (a ++ b) t with
  | none => simp [hd] at h
  | some r =>
    have := dropPre_eq _ _ _ hd
    rw [this, List.append_assoc]
    exact dropPre_isSome_append _ _

theorem dWrapIdx_starts (name : Text) (i : Nat) (inner : Text) :
    startsWith name (dWrapIdx name i inner) = true := by
  unfold dWrapIdx
  simp only []
  split
  · rename_i h; exact c18_startsWith_trans _ _ _ h
  · exact c18_startsWith_append _ _

theorem dWrapMap_starts (name inner : Text) : startsWith name (dWrapMap name inner) = true := by
  unfold dWrapMap
  split
  · rename_i h
    simp only [Bool.or_eq_true] at h
    cases h with
    | inl h => exact c18_startsWith_trans _ _ _ h
    | inr h => exact c18_startsWith_trans _ _ _ h
  · exact c18_startsWith_self _

theorem dHeadEntries_starts (okK okV : PyVal → Bool) (hK hV : Text → PyVal → Text) (name : Text)
    (kvs : List (PyVal × PyVal)) (h : Text) (hh : dHeadEntries okK okV hK hV name kvs = some h) :
    startsWith name h = true := by
  induction kvs with
  | nil => simp [dHeadEntries] at hh
  | cons kv rest ih =>
    obtain ⟨k, x⟩ := kv
    simp only [dHeadEntries] at hh
    split at hh
    · simp only [Option.some.injEq] at hh; subst hh; exact dWrapMap_starts _ _
    · split at hh
      · simp only [Option.some.injEq] at hh; subst hh; exact dWrapMap_starts _ _
      · exact ih hh

theorem dHeadZip_starts (O : Oracles) (opts : DeserOpts) (name : Text) (fs : List FieldDecl) :
    ∀ (i : Nat) (xs : List PyVal) (h : Text), dHeadZip O opts name i fs xs = some h → startsWith name h = true := by
  induction fs with
  | nil => intro i xs h hh; simp [dHeadZip] at hh
  | cons f fs ih =>
    intro i xs h hh
    cases xs with
    | nil => simp [dHeadZip] at hh
    | cons x xs =>
      simp only [dHeadZip] at hh
      split at hh
      · exact ih _ _ _ hh
      · simp only [Option.some.injEq] at hh; subst hh
        simp only [List.append_assoc]
        exact c18_startsWith_append _ _

theorem dHeadListLike_starts (name : Text) (v : PyVal) (k : List PyVal → Option Text)
    (hk : ∀ xs h, k xs = some h → startsWith name h = true) :
    startsWith name (dHeadListLike name v k) = true := by
  unfold dHeadListLike
  cases listLike v with
  | none => exact c18_startsWith_append _ _
  | some xs =>
    simp only []
    cases hh : k xs with
    | none => exact c18_startsWith_append _ _
    | some h => exact hk xs h hh


/-- the fields whose own scratch `_name` is the only source of the path (no wrapper of their own) -/
def isBareScalar : FieldDecl → Bool
  | .number _ | .integer _ | .float _ | .string _ _ _ | .boolean | .anything => true
  | _ => false

/-- the wrapper guarantee at ANY nesting depth: whatever `deserialize_single_field(f, v, name)`
    raises begins with `name` — for every declaration (collections of collections, positional
    items, maps of arrays, nested and inline structures, AnyOf / OneOf / AllOf / NotField, Enum, …),
    every document value and every scratch state — EXCEPT the bare scalars (their own `_name`).
    Since /repo 8de2ad2 a class reference given a dict is no exception any more. -/
theorem dHead_starts (O : Oracles) (opts : DeserOpts) (f : FieldDecl) (name : Text) (v : PyVal)
    (hs : isBareScalar f = false) :
    startsWith name (dHead O opts f name v) = true := by
  have hhom : ∀ (ok : PyVal → Bool) (g : Text → PyVal → Text) (xs : List PyVal) (h : Text),
      dHeadHomog ok g name xs = some h → startsWith name h = true := by
    intro ok g xs h hh
    simp only [dHeadHomog, Option.map_eq_some_iff] at hh
    obtain ⟨ix, _, hh⟩ := hh
    subst hh
    exact dWrapIdx_starts _ _ _
  have hpos : ∀ (fs : List FieldDecl) (xs : List PyVal) (h : Text),
      (if xs.length < fs.length then none else dHeadZip O opts name 0 fs xs) = some h →
        startsWith name h = true := by
    intro fs xs h hh
    split at hh
    · simp at hh
    · exact dHeadZip_starts O opts name fs 0 xs h hh
  cases f <;> simp only [isBareScalar, Bool.true_eq_false] at hs <;> simp only [dHead]
  case seqAny => exact dHeadListLike_starts _ _ _ (fun _ _ hn => by simp at hn)
  case setAny => exact dHeadListLike_starts _ _ _ (fun _ _ hn => by simp at hn)
  case seqOf => exact dHeadListLike_starts _ _ _ (hhom _ _)
  case setOf => exact dHeadListLike_starts _ _ _ (hhom _ _)
  case tupleOf => exact dHeadListLike_starts _ _ _ (hhom _ _)
  case seqPos => exact dHeadListLike_starts _ _ _ (hpos _)
  case tuplePos => exact dHeadListLike_starts _ _ _ (hpos _)
  case mapAny => exact c18_startsWith_append _ _
  case mapOf =>
    cases v <;> try exact c18_startsWith_append _ _
    simp only []
    cases hh : dHeadEntries _ _ _ _ name _ with
    | none => exact c18_startsWith_self _
    | some h => exact dHeadEntries_starts _ _ _ _ _ _ _ hh
  case struct c fields defaults =>
    by_cases hi : c.inline = true
    · simp only [hi, if_true]; exact c18_startsWith_append _ _
    · simp only [hi]
      cases v <;> first
        | exact c18_startsWith_append _ _
        | exact c18_startsWith_self _
  case enumLit => exact c18_startsWith_self _
  case enumCls => exact c18_startsWith_self _
  all_goals exact c18_startsWith_append _ _

/-- a flat declaration is never a class reference -/
theorem isFlat_not_classRef (f : FieldDecl) (h : isFlatDecl f = true) : isClassRef f = false := by
  cases f <;> simp_all [isFlatDecl, isClassRef, isScalarDecl]

/-- DESERIALIZATION, every declaration, any depth: every phase-one rejection site is `named` and
    its text begins with ITS OWN top-level field's name — with NO exception since /repo 8de2ad2
    (before, a top-level class reference given a dict was the site of the finding
    `no-path:nested-structure:deser-classref`) -/
theorem p1SiteD_names_own_field (O : Oracles) (opts : DeserOpts) (ign : Bool)
    (scr : List (Option String)) (name : String) (f : FieldDecl) (v : PyVal) (s : P1Site)
    (h : p1SiteD O opts ign scr name f v = some s) :
    s.kind = .named ∧ s.top = name ∧ s.namesOwnField = true := by
  unfold p1SiteD at h
  by_cases hf : isFlatDecl f = true
  · simp only [hf, if_true] at h
    exact p1_names_own_field O scr name f v s h
  · simp only [hf] at h
    cases hd : deser O opts ign f v with
    | ok y => simp [hd] at h
    | error e =>
      simp only [hd, Bool.false_eq_true, if_false, Option.some.injEq] at h
      subst h
      refine ⟨rfl, rfl, ?_⟩
      simp only [P1Site.namesOwnField]
      have hbare : isBareScalar f = false := by
        cases f <;> simp_all [isBareScalar, isFlatDecl, isScalarDecl, deser]
      exact dHead_starts O opts f name.toList v hbare

/-- no site is of the former `nested` kind -/
theorem p1SiteD_never_nested (O : Oracles) (opts : DeserOpts) (ign : Bool)
    (scr : List (Option String)) (name : String) (f : FieldDecl) (v : PyVal) (s : P1Site)
    (h : p1SiteD O opts ign scr name f v = some s) : s.kind ≠ .nested := by
  rw [(p1SiteD_names_own_field O opts ign scr name f v s h).1]; decide

/-- a site exists exactly for the document values `deserialize_single_field` rejects (`deser`,
    Sem/Deser.lean, for the non-flat declarations; `p1Rejects` for the flat ones) -/
theorem p1SiteD_isSome (O : Oracles) (opts : DeserOpts) (ign : Bool)
    (scr : List (Option String)) (name : String) (f : FieldDecl) (v : PyVal) :
    (p1SiteD O opts ign scr name f v).isSome =
      (if isFlatDecl f then p1Rejects O f v else !isOk (deser O opts ign f v)) := by
  unfold p1SiteD
  cases hf : isFlatDecl f with
  | true => simp only [if_true]; exact p1Site_isSome O scr name f v
  | false =>
    simp only [Bool.false_eq_true, if_false]
    cases hd : deser O opts ign f v with
    | ok y => simp [isOk]
    | error e =>
      simp only [isOk]
      rfl

/-- every phase-one site of a document, for a class of ANY declarations (collections at any depth,
    nested and inline structures, multi-field wrappers, …): it belongs to a declared field and its
    text begins with that field's own name -/
theorem p1SitesD_name_fields (O : Oracles) (opts : DeserOpts) (ign : Bool)
    (scr : List (String × List (Option String))) (doc : List (String × PyVal))
    (fields : List (String × FieldDecl)) (s : P1Site) (h : s ∈ p1SitesD O opts ign scr doc fields) :
    ∃ nf ∈ fields, s.top = nf.1 ∧ s.kind = .named ∧ s.namesOwnField = true := by
  simp only [p1SitesD, List.mem_filterMap] at h
  obtain ⟨nf, hnf, hs⟩ := h
  refine ⟨nf, hnf, ?_⟩
  cases hl : lookup nf.1 doc with
  | none => simp [hl] at hs
  | some v =>
    simp only [hl] at hs
    split at hs
    · simp at hs
    · have := p1SiteD_names_own_field O opts ign _ nf.1 nf.2 v s hs
      exact ⟨this.2.1, this.1, this.2.2⟩

/-! ### the path through nested collections (constructor) -/

theorem scalar_is_path (f : FieldDecl) (h : isScalarDecl f = true) : isPathDecl f = true := by
  cases f <;> simp_all [isScalarDecl, isPathDecl]

theorem all_scalar_is_path (fs : List FieldDecl) (h : fs.all isScalarDecl = true) : allPathDecl fs = true := by
  induction fs with
  | nil => rfl
  | cons f fs ih =>
    simp only [List.all_cons, Bool.and_eq_true] at h
    simp [allPathDecl, scalar_is_path f h.1, ih h.2]

/-- the path model's domain extends the statement's flat domain -/
theorem flat_is_path (f : FieldDecl) (h : isFlatDecl f = true) : isPathDecl f = true := by
  cases f <;> simp only [isFlatDecl] at h <;> simp only [isPathDecl]
  case seqOf => exact scalar_is_path _ h
  case setOf => exact scalar_is_path _ h
  case tupleOf => exact scalar_is_path _ h
  case seqPos => exact all_scalar_is_path _ h
  case tuplePos => exact all_scalar_is_path _ h
  case mapOf =>
    simp only [Bool.and_eq_true] at h ⊢
    exact ⟨scalar_is_path _ h.1, scalar_is_path _ h.2⟩
  all_goals (first | rfl | simp [isScalarDecl] at h)

/-- C18 over the extended domain: collections nested to any depth over scalars and class
    references (the statement for the constructor, as `Statement` but with `isPathDecl`) -/
def StatementDeep : Prop :=
  ∀ (O : Oracles) (T : Texts) (J : Codec) (ff : Bool) (c : ClassOpts)
    (fields : List (String × FieldDecl)) (kw : List (String × PyVal)),
    J.word.Sound → (ff = false → J.RoundTrip) → TextsWellFormed T →
    fields.all (fun nf => isPathDecl nf.2) = true →
    Reported O T J ff c fields kw

/-- it implies the flat statement (so it is refuted by the same non-word name) … -/
theorem statementDeep_implies_statement (h : StatementDeep) : Statement := by
  intro O T J ff c fields kw hW hJ hT hflat
  refine h O T J ff c fields kw hW hJ hT ?_
  rw [List.all_eq_true] at hflat ⊢
  intro nf hnf
  exact flat_is_path nf.2 (hflat nf hnf)

theorem statementDeep_false : ¬ StatementDeep := fun h => statement_false (statementDeep_implies_statement h)

/-- … and holds under the same single exclusion (names in `[\w.]+`), at ANY nesting depth: every
    rejection names its top-level field followed by one suffix per level, collect-all reports
    exactly the invalid supplied fields -/
theorem statement_deep_partial (O : Oracles) (T : Texts) (J : Codec) (ff : Bool) (c : ClassOpts)
    (fields : List (String × FieldDecl)) (kw : List (String × PyVal))
    (hW : J.word.Sound) (hJ : ff = false → J.RoundTrip) (hT : TextsWellFormed T)
    (_hp : fields.all (fun nf => isPathDecl nf.2) = true)
    (hc : identOk J.word c.name.toList = true)
    (hn : ∀ nf ∈ fields, identOk J.word nf.1.toList = true) :
    Reported O T J ff c fields kw :=
  statement_partial O T J ff c fields kw hW hJ hT hc hn

/-- one suffix per nesting level (kernel-checked): `aaa_1_1_1` (Array[Array[Array[Integer(max 5)]]]),
    `mm_value_key` (Map[String, Map[String, Integer]] with an int key inside), `tt_0_1`
    (Tuple[Array[Integer], Map] positional), `stt_1` (Set[Tuple[Integer]]: the Set adds nothing),
    `ai_1` (Array[Inner] given a dict: the class reference itself, `Expected …; Got …`) -/
theorem deep_path_examples :
    let O : Oracles := exOracles
    let int5 : FieldDecl := .integer { max := some (Q.ofInt 5) }
    let arr (f : FieldDecl) : FieldDecl := .seqOf .list f {}
    let str : FieldDecl := .string none none none
    let inner : FieldDecl := .struct { name := "Inner", required := [], accepts := ["Inner"] } [("x", .integer {})] []
    ((locate O (arr (arr (arr int5))) (.list [.list [.list [.int 1]], .list [.list [.int 2], .list [.int 3, .int 9]]])).suffix.text
        = "_1_1_1".toList) ∧
    ((locate O (.mapOf str (.mapOf str (.integer {}) {}) {})
        (.dict [(.str "a", .dict [(.int 1, .int 2)])])).suffix.text = "_value_key".toList) ∧
    ((locate O (.tuplePos [arr (.integer {}), .mapOf str (.integer {}) {}] false)
        (.tuple [.list [.int 1, .str "x"], .dict []])).suffix.text = "_0_1".toList) ∧
    ((locate O (.setOf false (.tupleOf (.integer {}) false) {})
        (.set false [.tuple [.int 1], .tuple [.int 2, .str "x"]])).suffix.text = "_1".toList) ∧
    (locate O (arr inner) (.list [.inst "Inner" [], .dict []]) = ⟨[.idx 1], .gotLast, none⟩) := by
  decide

/-- the same positions through deserialization (heads every message must begin with), the
    positional and Map wrappers, and the former site of the finding (fixed by /repo 8de2ad2): a
    top-level class reference given a dict is named `inner…` like every other site -/
theorem deep_deser_head_examples :
    let O : Oracles := exOracles
    let opts : DeserOpts := {}
    let arr (f : FieldDecl) : FieldDecl := .seqOf .list f {}
    let str : FieldDecl := .string none none none
    let inner : FieldDecl := .struct { name := "Inner", required := [], accepts := ["Inner"] } [("x", .integer {})] []
    let badInner : PyVal := .dict [(.str "x", .str "a")]
    dHead O opts (arr (arr (.integer {}))) "aa".toList (.list [.list [.int 1], .list [.int 2, .str "x"]])
      = "aa_1_1".toList ∧
    dHead O opts (.tuplePos [arr (.integer {}), str] false) "t".toList (.list [.list [.str "x"], .str "s"])
      = "t_0: t_0".toList ∧
    dHead O opts (.mapOf str (arr (.integer {})) {}) "ma".toList (.dict [(.str "a", .list [.int 1, .str "x"])])
      = "ma_1".toList ∧
    dHead O opts (arr inner) "arr".toList (.list [.dict [(.str "x", .int 1)], badInner]) = "arr_1".toList ∧
    p1SiteD O opts false [] "inner" inner badInner = some ⟨"inner", .named, some "inner".toList, .typeErr⟩ ∧
    p1SiteD O opts false [] "inner" inner (.int 5) =
      some ⟨"inner", .named, some "inner: Expected a dictionary; Got ".toList, .typeErr⟩ ∧
    p1SiteD O opts false [] "arr" (arr inner) (.list [badInner]) =
      some ⟨"arr", .named, some "arr_0".toList, .valueErr⟩ ∧
    deserInvalid O opts false [("inner", badInner), ("arr", .list [badInner])]
      [("inner", inner), ("arr", arr inner)] = ["inner", "arr"] := by
  decide

/-! ### soundness of the path: the suffix chain of every rejection leads to a rejected position,
    at any nesting depth (mutual structural induction over the declaration tree) -/

/-- `Reaches f v p g w`: following the suffix chain `p` from the value `v` of declaration `f`
    (element `i` for `_<i>`, some entry's key / value for `_key` / `_value`, some element of a Set
    for nothing) leads to the value `w` at declaration `g` -/
inductive Reaches : FieldDecl → PyVal → SufPath → FieldDecl → PyVal → Prop
  | here (f : FieldDecl) (v : PyVal) : Reaches f v [] f v
  | seqOf {k : SeqKind} {item : FieldDecl} {sz : SizeOpts} {v : PyVal} {xs : List PyVal} {i : Nat}
      {x : PyVal} {p : SufPath} {g : FieldDecl} {w : PyVal} :
      seqElems k v = some xs → xs[i]? = some x → Reaches item x p g w →
      Reaches (.seqOf k item sz) v (.idx i :: p) g w
  | seqPos {k : SeqKind} {fs : List FieldDecl} {addl : Bool} {sz : SizeOpts} {v : PyVal}
      {xs : List PyVal} {i : Nat} {f : FieldDecl} {x : PyVal} {p : SufPath} {g : FieldDecl} {w : PyVal} :
      seqElems k v = some xs → fs[i]? = some f → xs[i]? = some x → Reaches f x p g w →
      Reaches (.seqPos k fs addl sz) v (.idx i :: p) g w
  | tupleOf {item : FieldDecl} {uniq : Bool} {xs : List PyVal} {i : Nat}
      {x : PyVal} {p : SufPath} {g : FieldDecl} {w : PyVal} :
      xs[i]? = some x → Reaches item x p g w →
      Reaches (.tupleOf item uniq) (.tuple xs) (.idx i :: p) g w
  | tuplePos {fs : List FieldDecl} {uniq : Bool} {xs : List PyVal} {i : Nat} {f : FieldDecl}
      {x : PyVal} {p : SufPath} {g : FieldDecl} {w : PyVal} :
      fs[i]? = some f → xs[i]? = some x → Reaches f x p g w →
      Reaches (.tuplePos fs uniq) (.tuple xs) (.idx i :: p) g w
  | setOf {imm : Bool} {item : FieldDecl} {sz : SizeOpts} {fr : Bool} {xs : List PyVal}
      {x : PyVal} {p : SufPath} {g : FieldDecl} {w : PyVal} :
      x ∈ xs → Reaches item x p g w → Reaches (.setOf imm item sz) (.set fr xs) p g w
  | mapKey {kf vf : FieldDecl} {sz : SizeOpts} {kvs : List (PyVal × PyVal)} {k x : PyVal}
      {p : SufPath} {g : FieldDecl} {w : PyVal} :
      (k, x) ∈ kvs → Reaches kf k p g w → Reaches (.mapOf kf vf sz) (.dict kvs) (.key :: p) g w
  | mapVal {kf vf : FieldDecl} {sz : SizeOpts} {kvs : List (PyVal × PyVal)} {k x : PyVal}
      {p : SufPath} {g : FieldDecl} {w : PyVal} :
      (k, x) ∈ kvs → Reaches vf x p g w → Reaches (.mapOf kf vf sz) (.dict kvs) (.val :: p) g w
  | allOf {fs : List FieldDecl} {f : FieldDecl} {v : PyVal} {p : SufPath} {g : FieldDecl} {w : PyVal} :
      f ∈ fs → Reaches f v p g w → Reaches (.allOf fs) v p g w

theorem firstBad_spec (O : Oracles) (f : FieldDecl) : ∀ (xs : List PyVal) (n i : Nat) (x : PyVal),
    firstBad O f n xs = some (i, x) →
      ∃ j, i = n + j ∧ xs[j]? = some x ∧ isOk (validate O f x) = false := by
  intro xs
  induction xs with
  | nil => intro n i x h; simp [firstBad] at h
  | cons y ys ih =>
    intro n i x h
    simp only [firstBad] at h
    split at h
    · obtain ⟨j, hj, hx, hb⟩ := ih (n + 1) i x h
      exact ⟨j + 1, by omega, by simpa using hx, hb⟩
    · rename_i hy
      simp only [Option.some.injEq, Prod.mk.injEq] at h
      obtain ⟨h1, h2⟩ := h
      subst h1; subst h2
      exact ⟨0, rfl, rfl, by simpa using hy⟩

theorem badOf_spec (O : Oracles) (f : FieldDecl) (loc : PyVal → Loc) (xs : List PyVal) (l : Loc)
    (h : badOf O f loc xs = some l) :
    ∃ i x, xs[i]? = some x ∧ isOk (validate O f x) = false ∧ l = withSuffix (.idx i) (loc x) := by
  simp only [badOf, Option.map_eq_some_iff] at h
  obtain ⟨⟨i, x⟩, hfb, hl⟩ := h
  obtain ⟨j, hj, hx, hb⟩ := firstBad_spec O f xs 0 i x hfb
  refine ⟨i, x, ?_, hb, hl.symm⟩
  have : i = j := by omega
  rw [this]; exact hx

theorem locSeqLike_cases (xs? : Option (List PyVal)) (uniq : Bool) (sz : SizeOpts)
    (pre : List PyVal → Bool) (bad : List PyVal → Option Loc) :
    (locSeqLike xs? uniq sz pre bad).suffix = [] ∨
      ∃ xs l, xs? = some xs ∧ bad xs = some l ∧ locSeqLike xs? uniq sz pre bad = l := by
  unfold locSeqLike
  cases xs? with
  | none => left; rfl
  | some xs =>
    simp only []
    split
    · left; rfl
    · split
      · left; rfl
      · split
        · left; rfl
        · cases hb : bad xs with
          | none => left; rfl
          | some l => right; exact ⟨xs, l, rfl, hb, rfl⟩

theorem firstBadEntry_spec (O : Oracles) (kf vf : FieldDecl) (lk lv : PyVal → Loc) :
    ∀ (kvs : List (PyVal × PyVal)) (l : Loc), firstBadEntry O kf vf lk lv kvs = some l →
      ∃ k x, (k, x) ∈ kvs ∧
        ((isOk (validate O kf k) = false ∧ l = withSuffix .key (lk k)) ∨
         (isOk (validate O vf x) = false ∧ l = withSuffix .val (lv x))) := by
  intro kvs
  induction kvs with
  | nil => intro l h; simp [firstBadEntry] at h
  | cons kv rest ih =>
    intro l h
    obtain ⟨k, x⟩ := kv
    simp only [firstBadEntry] at h
    split at h
    · rename_i hk
      simp only [Option.some.injEq] at h
      exact ⟨k, x, List.mem_cons_self, Or.inl ⟨by simpa using hk, h.symm⟩⟩
    · split at h
      · rename_i hx
        simp only [Option.some.injEq] at h
        exact ⟨k, x, List.mem_cons_self, Or.inr ⟨by simpa using hx, h.symm⟩⟩
      · obtain ⟨k', x', hm, hh⟩ := ih l h
        exact ⟨k', x', List.mem_cons_of_mem _ hm, hh⟩

theorem locSet_cases (O : Oracles) (item : FieldDecl) (loc : PyVal → Loc) (sz : SizeOpts) (v : PyVal) :
    (locSet O (some (item, loc)) sz v).suffix = [] ∨
      ∃ fr xs x, v = .set fr xs ∧ x ∈ xs ∧ isOk (validate O item x) = false ∧
        locSet O (some (item, loc)) sz v = loc x := by
  unfold locSet
  cases v <;> try (left; rfl)
  rename_i fr xs
  simp only []
  split
  · left; rfl
  · simp only [Option.bind_some]
    cases hfb : firstBad O item 0 xs with
    | none => left; rfl
    | some ix =>
      obtain ⟨i, x⟩ := ix
      obtain ⟨j, _, hx, hb⟩ := firstBad_spec O item xs 0 i x hfb
      right
      refine ⟨fr, xs, x, rfl, List.mem_of_getElem? hx, hb, ?_⟩
      simp

theorem locMap_cases (O : Oracles) (g : List (PyVal × PyVal) → Option Loc) (sz : SizeOpts) (v : PyVal) :
    (locMap O (some g) sz v).suffix = [] ∨
      ∃ kvs l, v = .dict kvs ∧ g kvs = some l ∧ locMap O (some g) sz v = l := by
  unfold locMap
  cases v <;> try (left; rfl)
  rename_i kvs
  simp only []
  split
  · left; rfl
  · simp only [Option.bind_some]
    cases hg : g kvs with
    | none => left; rfl
    | some l => right; exact ⟨kvs, l, rfl, hg, rfl⟩


/-- the conclusion of `locate_sound` -/
def PointsAtRejection (O : Oracles) (f : FieldDecl) (v : PyVal) (p : SufPath) : Prop :=
  ∃ g w, Reaches f v p g w ∧ isOk (validate O g w) = false

theorem points_here (O : Oracles) (f : FieldDecl) (v : PyVal) (p : SufPath)
    (h : isOk (validate O f v) = false) (hp : p = []) : PointsAtRejection O f v p :=
  ⟨f, v, hp ▸ Reaches.here f v, h⟩

mutual
/-- SOUNDNESS OF THE PATH, every declaration, any depth: when `validate` rejects `v`, the suffix
    chain computed by `locate` leads — element by element, key / value by key / value — to a
    position that exists in `v` and whose value is rejected by the declaration at that position -/
theorem locate_sound (O : Oracles) : ∀ (f : FieldDecl) (v : PyVal),
    isOk (validate O f v) = false → PointsAtRejection O f v (locate O f v).suffix
  | .number o, v, h => points_here O _ v _ h (by simp only [locate, locScalar])
  | .integer o, v, h => points_here O _ v _ h (by simp only [locate, locScalar]; cases v <;> rfl)
  | .float o, v, h => points_here O _ v _ h (by simp only [locate, locScalar]; cases v <;> rfl)
  | .string a b c, v, h => points_here O _ v _ h (by simp only [locate, locScalar])
  | .boolean, v, h => points_here O _ v _ h (by simp only [locate, locScalar])
  | .enumLit vs, v, h => points_here O _ v _ h (by simp only [locate, locScalar])
  | .enumCls c ns, v, h => points_here O _ v _ h (by simp only [locate, locScalar])
  | .seqAny k sz, v, h => by
    refine points_here O _ v _ h ?_
    simp only [locate]
    cases locSeqLike_cases (seqElems k v) sz.uniq sz (fun _ => true) (fun _ => none) with
    | inl h0 => exact h0
    | inr h1 => obtain ⟨_, _, _, hb, _⟩ := h1; simp at hb
  | .seqOf k item sz, v, h => by
    simp only [locate]
    cases locSeqLike_cases (seqElems k v) sz.uniq sz (fun _ => true) (badOf O item (locate O item)) with
    | inl h0 => exact points_here O _ v _ h h0
    | inr h1 =>
      obtain ⟨xs, l, hxs, hb, hl⟩ := h1
      obtain ⟨i, x, hx, hbad, hl'⟩ := badOf_spec O item _ xs l hb
      obtain ⟨g, w, hr, hw⟩ := locate_sound O item x hbad
      rw [hl, hl']
      exact ⟨g, w, Reaches.seqOf hxs hx hr, hw⟩
  | .seqPos k fs addl sz, v, h => by
    simp only [locate]
    cases locSeqLike_cases (seqElems k v) sz.uniq sz
        (fun xs => decide (fs.length ≤ xs.length) && (addl || decide (xs.length ≤ fs.length)))
        (locateZip O 0 fs) with
    | inl h0 => exact points_here O _ v _ h h0
    | inr h1 =>
      obtain ⟨xs, l, hxs, hb, hl⟩ := h1
      obtain ⟨j, f, x, p, g, w, hf, hx, hp, hr, hw⟩ := locateZip_sound O fs xs 0 l hb
      rw [hl, hp]
      simp only [Nat.zero_add]
      exact ⟨g, w, Reaches.seqPos hxs hf hx hr, hw⟩
  | .setAny imm sz, v, h => by
    refine points_here O _ v _ h ?_
    simp only [locate, locSet]
    cases v <;> try rfl
    simp only []
    split <;> rfl
  | .setOf imm item sz, v, h => by
    simp only [locate]
    cases locSet_cases O item (locate O item) sz v with
    | inl h0 => exact points_here O _ v _ h h0
    | inr h1 =>
      obtain ⟨fr, xs, x, hv, hx, hbad, hl⟩ := h1
      obtain ⟨g, w, hr, hw⟩ := locate_sound O item x hbad
      rw [hl, hv]
      exact ⟨g, w, Reaches.setOf hx hr, hw⟩
  | .tupleOf item uniq, v, h => by
    simp only [locate]
    cases locSeqLike_cases (tupleElems v) uniq {} (fun _ => true) (badOf O item (locate O item)) with
    | inl h0 => exact points_here O _ v _ h h0
    | inr h1 =>
      obtain ⟨xs, l, hxs, hb, hl⟩ := h1
      obtain ⟨i, x, hx, hbad, hl'⟩ := badOf_spec O item _ xs l hb
      obtain ⟨g, w, hr, hw⟩ := locate_sound O item x hbad
      rw [hl, hl']
      have hv : v = .tuple xs := by
        cases v <;> simp [tupleElems] at hxs
        rw [hxs]
      rw [hv]
      exact ⟨g, w, Reaches.tupleOf hx hr, hw⟩
  | .tuplePos fs uniq, v, h => by
    simp only [locate]
    cases locSeqLike_cases (tupleElems v) uniq {} (fun xs => fs.length == xs.length) (locateZip O 0 fs) with
    | inl h0 => exact points_here O _ v _ h h0
    | inr h1 =>
      obtain ⟨xs, l, hxs, hb, hl⟩ := h1
      obtain ⟨j, f, x, p, g, w, hf, hx, hp, hr, hw⟩ := locateZip_sound O fs xs 0 l hb
      rw [hl, hp]
      simp only [Nat.zero_add]
      have hv : v = .tuple xs := by
        cases v <;> simp [tupleElems] at hxs
        rw [hxs]
      rw [hv]
      exact ⟨g, w, Reaches.tuplePos hf hx hr, hw⟩
  | .mapAny sz, v, h => by
    refine points_here O _ v _ h ?_
    simp only [locate, locMap]
    cases v <;> try rfl
    simp only []
    split <;> rfl
  | .mapOf kf vf sz, v, h => by
    simp only [locate]
    cases locMap_cases O (firstBadEntry O kf vf (locate O kf) (locate O vf)) sz v with
    | inl h0 => exact points_here O _ v _ h h0
    | inr h1 =>
      obtain ⟨kvs, l, hv, hg, hl⟩ := h1
      obtain ⟨k, x, hm, hh⟩ := firstBadEntry_spec O kf vf _ _ kvs l hg
      rw [hl, hv]
      cases hh with
      | inl hk =>
        obtain ⟨g, w, hr, hw⟩ := locate_sound O kf k hk.1
        rw [hk.2]
        exact ⟨g, w, Reaches.mapKey hm hr, hw⟩
      | inr hx =>
        obtain ⟨g, w, hr, hw⟩ := locate_sound O vf x hx.1
        rw [hx.2]
        exact ⟨g, w, Reaches.mapVal hm hr, hw⟩
  | .struct c fields defaults, v, h => points_here O _ v _ h (by simp only [locate]; split <;> rfl)
  | .anyOf fs, v, h => points_here O _ v _ h (by simp only [locate])
  | .oneOf fs, v, h => points_here O _ v _ h (by simp only [locate])
  | .allOf fs, v, h => by
    simp only [locate]
    have hall : isOk (validateEach O fs v) = false := by
      simp only [validate] at h
      cases he : validateEach O fs v with
      | ok u => rw [he] at h; simp [isOk] at h
      | error e => rfl
    obtain ⟨f, hf, g, w, hr, hw⟩ := locateAll_sound O fs v hall
    exact ⟨g, w, Reaches.allOf hf hr, hw⟩
  | .notF fs, v, h => points_here O _ v _ h (by simp only [locate])
  | .noneF, v, h => points_here O _ v _ h (by simp only [locate])
  | .anything, v, h => points_here O _ v _ h (by simp only [locate])

theorem locateAll_sound (O : Oracles) : ∀ (fs : List FieldDecl) (v : PyVal),
    isOk (validateEach O fs v) = false →
      ∃ f ∈ fs, ∃ g w, Reaches f v (locateAll O fs v).suffix g w ∧ isOk (validate O g w) = false
  | [], v, h => by simp [validateEach, isOk] at h
  | f :: fs, v, h => by
    simp only [locateAll]
    cases hv : validate O f v with
    | ok y =>
      simp only [isOk, ↓reduceIte]
      have hrest : isOk (validateEach O fs v) = false := by
        simp only [validateEach, hv, bindE_ok] at h; exact h
      obtain ⟨f', hf', g, w, hr, hw⟩ := locateAll_sound O fs v hrest
      exact ⟨f', List.mem_cons_of_mem _ hf', g, w, hr, hw⟩
    | error e =>
      have hbad : isOk (validate O f v) = false := by rw [hv]; rfl
      simp only [isOk, Bool.false_eq_true, ↓reduceIte]
      obtain ⟨g, w, hr, hw⟩ := locate_sound O f v hbad
      exact ⟨f, List.mem_cons_self, g, w, hr, hw⟩

theorem locateZip_sound (O : Oracles) : ∀ (fs : List FieldDecl) (xs : List PyVal) (n : Nat) (l : Loc),
    locateZip O n fs xs = some l →
      ∃ (j : Nat) (f : FieldDecl) (x : PyVal) (p : SufPath) (g : FieldDecl) (w : PyVal),
        fs[j]? = some f ∧ xs[j]? = some x ∧ l.suffix = .idx (n + j) :: p ∧ Reaches f x p g w ∧
          isOk (validate O g w) = false
  | [], xs, n, l, h => by simp [locateZip] at h
  | _ :: _, [], n, l, h => by simp [locateZip] at h
  | f :: fs, x :: xs, n, l, h => by
    simp only [locateZip] at h
    split at h
    · obtain ⟨j, f', x', p, g, w, hf, hx, hp, hr, hw⟩ := locateZip_sound O fs xs (n + 1) l h
      exact ⟨j + 1, f', x', p, g, w, by simpa using hf, by simpa using hx,
        by rw [hp]; congr 2; omega, hr, hw⟩
    · rename_i hbad
      simp only [Option.some.injEq] at h
      obtain ⟨g, w, hr, hw⟩ := locate_sound O f x (by simpa using hbad)
      exact ⟨0, f, x, _, g, w, rfl, rfl, by rw [← h]; rfl, hr, hw⟩
end


/-- … for every message of `cls(**kw)`: the path `<top><suffix chain>` of every rejection site
    names a declared field that was supplied, and its suffix chain leads to a rejected position
    inside the supplied value (every class, every declaration at any depth, both modes) -/
theorem sites_point_at_rejections (O : Oracles) (c : ClassOpts) (kw : List (String × PyVal))
    (fields : List (String × FieldDecl)) (s : Site) (hs : s ∈ sites O c kw fields) :
    ∃ nf ∈ fields, ∃ v, s.top = nf.1 ∧ argFor c [] kw nf.1 = some v ∧
      PointsAtRejection O nf.2 v s.loc.suffix := by
  induction fields with
  | nil => simp [sites] at hs
  | cons nf rest ih =>
    obtain ⟨name, f⟩ := nf
    simp only [sites] at hs
    cases ha : argFor c [] kw name with
    | none =>
      rw [ha] at hs
      obtain ⟨x, hx, h⟩ := ih hs
      exact ⟨x, List.mem_cons_of_mem _ hx, h⟩
    | some v =>
      rw [ha] at hs
      dsimp only at hs
      cases hv : validate O f v with
      | ok y =>
        rw [hv] at hs
        obtain ⟨x, hx, h⟩ := ih hs
        exact ⟨x, List.mem_cons_of_mem _ hx, h⟩
      | error e =>
        rw [hv] at hs
        cases hs with
        | head =>
          exact ⟨(name, f), List.mem_cons_self, v, rfl, ha,
            locate_sound O f v (by rw [hv]; rfl)⟩
        | tail _ h' =>
          obtain ⟨x, hx, h⟩ := ih h'
          exact ⟨x, List.mem_cons_of_mem _ hx, h⟩

/-- non-vacuity: `Array[Array[Array[Integer(maximum=5)]]]` given `[[[1]], [[2], [3, 9]]]`: the
    chain `_1_1_1` reaches the element `9` at the innermost `Integer`, which rejects it -/
theorem locate_sound_example :
    let int5 : FieldDecl := .integer { max := some (Q.ofInt 5) }
    let arr (f : FieldDecl) : FieldDecl := .seqOf .list f {}
    let v : PyVal := .list [.list [.list [.int 1]], .list [.list [.int 2], .list [.int 3, .int 9]]]
    (locate exOracles (arr (arr (arr int5))) v).suffix = [.idx 1, .idx 1, .idx 1] ∧
    Reaches (arr (arr (arr int5))) v [.idx 1, .idx 1, .idx 1] int5 (.int 9) ∧
    isOk (validate exOracles int5 (.int 9)) = false := by
  refine ⟨by decide, ?_, by decide⟩
  exact Reaches.seqOf (xs := [.list [.list [.int 1]], .list [.list [.int 2], .list [.int 3, .int 9]]]) rfl rfl
    (Reaches.seqOf (xs := [.list [.int 2], .list [.int 3, .int 9]]) rfl rfl
      (Reaches.seqOf (xs := [.int 3, .int 9]) rfl rfl (Reaches.here _ _)))



/-! ### the reported position is the FIRST rejected one -/

theorem firstBad_min (O : Oracles) (f : FieldDecl) : ∀ (xs : List PyVal) (n i : Nat) (x : PyVal),
    firstBad O f n xs = some (i, x) →
      ∀ j, n + j < i → ∃ y, xs[j]? = some y ∧ isOk (validate O f y) = true := by
  intro xs
  induction xs with
  | nil => intro n i x h; simp [firstBad] at h
  | cons y ys ih =>
    intro n i x h j hj
    simp only [firstBad] at h
    split at h
    · rename_i hy
      cases j with
      | zero => exact ⟨y, rfl, hy⟩
      | succ j' =>
        obtain ⟨z, hz, hok⟩ := ih (n + 1) i x h j' (by omega)
        exact ⟨z, by simpa using hz, hok⟩
    · simp only [Option.some.injEq, Prod.mk.injEq] at h
      omega

/-- Array / Deque of `item`: when the path starts with `_<i>`, every element before `i` is accepted
    by the item field — the message names the FIRST invalid element (at every level, by recursion
    through `locate_sound`) -/
theorem locate_seqOf_first (O : Oracles) (k : SeqKind) (item : FieldDecl) (sz : SizeOpts) (v : PyVal)
    (i : Nat) (p : SufPath) (h : (locate O (.seqOf k item sz) v).suffix = .idx i :: p) :
    ∃ xs, seqElems k v = some xs ∧ (∃ x, xs[i]? = some x ∧ isOk (validate O item x) = false ∧
        p = (locate O item x).suffix) ∧
      ∀ j, j < i → ∃ y, xs[j]? = some y ∧ isOk (validate O item y) = true := by
  simp only [locate] at h
  cases locSeqLike_cases (seqElems k v) sz.uniq sz (fun _ => true) (badOf O item (locate O item)) with
  | inl h0 => rw [h0] at h; simp at h
  | inr h1 =>
    obtain ⟨xs, l, hxs, hb, hl⟩ := h1
    rw [hl] at h
    simp only [badOf, Option.map_eq_some_iff] at hb
    obtain ⟨⟨i', x⟩, hfb, hl'⟩ := hb
    rw [← hl'] at h
    simp only [withSuffix, List.cons.injEq, Suffix.idx.injEq] at h
    obtain ⟨hi, hp⟩ := h
    subst hi
    obtain ⟨j, hj, hx, hbad⟩ := firstBad_spec O item xs 0 i' x hfb
    refine ⟨xs, hxs, ⟨x, ?_, hbad, hp.symm⟩, ?_⟩
    · have : i' = j := by omega
      rw [this]; exact hx
    · intro j' hj'
      exact firstBad_min O item xs 0 i' x hfb j' (by omega)

/-! ### class names typedpy itself produces are in `[\w.]+` -/

theorem all_alnum_fieldChars (W : Word) (hW : W.Sound) (t : Text) (h : t.all Char.isAlphanum = true) :
    t.all (isFieldChar W) = true := by
  induction t with
  | nil => rfl
  | cons c cs ih =>
    simp only [List.all_cons, Bool.and_eq_true] at h ⊢
    exact ⟨isFieldChar_ascii W hW c h.1, ih h.2⟩

theorem derive_pre_alnum (d : Derive) : d.pre.all Char.isAlphanum = true ∧ d.pre ≠ [] := by
  cases d <;> exact ⟨by decide, by decide⟩

/-- the names typedpy gives the classes it derives (`Partial[Foo]` → `PartialFoo`, `AllFieldsRequired`,
    `Extend`, `Omit`, `Pick`) from a class whose name is in `[\w.]+` are in `[\w.]+`; with an explicit
    name, exactly when that name is -/
theorem derived_name_identOk (W : Word) (hW : W.Sound) (d : Derive) (explicit : Option Text) (base : Text)
    (hb : identOk W base = true) (he : ∀ n, explicit = some n → identOk W n = true) :
    identOk W (derivedName d explicit base) = true := by
  cases explicit with
  | some n => exact he n rfl
  | none =>
    simp only [derivedName]
    obtain ⟨_, hba⟩ := (identOk_iff W base).1 hb
    obtain ⟨hpa, hpn⟩ := derive_pre_alnum d
    rw [identOk_iff]
    refine ⟨?_, ?_⟩
    · cases hp : d.pre with
      | nil => exact absurd hp hpn
      | cons c cs => simp
    · simp only [List.all_append, all_alnum_fieldChars W hW d.pre hpa, hba, Bool.and_true]

/-- … so every rejection by a class derived (without explicit name) from a word-named class with
    word-named fields keeps its field, in both modes (C18 for `Partial[Foo]`, `AllFieldsRequired[Foo]`,
    `Extend[Foo]`, `Omit[Foo, …]`, `Pick[Foo, …]`) -/
theorem derived_class_statement (O : Oracles) (T : Texts) (J : Codec) (ff : Bool) (c : ClassOpts)
    (d : Derive) (base : Text)
    (fields : List (String × FieldDecl)) (kw : List (String × PyVal))
    (hW : J.word.Sound) (hJ : ff = false → J.RoundTrip) (hT : TextsWellFormed T)
    (hname : c.name.toList = derivedName d none base) (hb : identOk J.word base = true)
    (hn : ∀ nf ∈ fields, identOk J.word nf.1.toList = true) :
    Reported O T J ff c fields kw :=
  statement_partial O T J ff c fields kw hW hJ hT
    (hname ▸ derived_name_identOk J.word hW d none base hb (fun _ h => nomatch h)) hn

/-- a derived class named after the EXPRESSION that creates it (`Partial[Person]`, as a seeded change
    did) loses every field: `[` is outside `[\w.]` -/
theorem bracket_class_name_loses_field :
    (parseMsg asciiWord "Partial[Person].age: Got -1; Expected a positive number".toList).field = none ∧
    (parseMsg asciiWord "PartialPerson.age: Got -1; Expected a positive number".toList).field
      = some "PartialPerson.age".toList ∧
    derivedName .partialOf none "Person".toList = "PartialPerson".toList ∧
    derivedName .allRequired none "Person".toList = "AllFieldsRequiredPerson".toList ∧
    derivedName .omit (some "Slim".toList) "Person".toList = "Slim".toList := by
  decide



/-! ### the parse inverts the formatter: exact value / problem recovery per shape -/

/-- no occurrence of `pat` starts anywhere in `t` -/
def noOcc (pat : Text) : Text → Bool
  | [] => (dropPre pat []).isNone
  | c :: cs => (dropPre pat (c :: cs)).isNone && noOcc pat cs

theorem splitLast_none_of_noOcc (pat : Text) : ∀ (s : Text), noOcc pat s = true → splitLast pat s = none := by
  intro s
  induction s with
  | nil => intro _; rfl
  | cons c cs ih =>
    intro h
    simp only [noOcc, Bool.and_eq_true] at h
    simp only [splitLast, ih h.2]
    cases hd : dropPre pat (c :: cs) with
    | none => rfl
    | some r => simp [hd] at h

theorem splitLast_prepend (pat : Text) (s a b : Text) (h : splitLast pat s = some (a, b)) :
    ∀ p : Text, splitLast pat (p ++ s) = some (p ++ a, b) := by
  intro p
  induction p with
  | nil => simpa using h
  | cons c p ih => simp [splitLast, ih]

theorem splitLast_cons_none (pat : Text) (c : Char) (cs : Text) (h : splitLast pat cs = none) :
    splitLast pat (c :: cs) = (dropPre pat (c :: cs)).map fun r => ([], r) := by
  rw [splitLast, h]

theorem splitLast_semiGot_base (v : Text) (h : noOcc sSemiGot v = true) :
    splitLast sSemiGot (sSemiGot ++ v) = some ([], v) := by
  have h' : noOcc [';', ' ', 'G', 'o', 't', ' '] v = true := h
  have h1 : noOcc sSemiGot (' ' :: 'G' :: 'o' :: 't' :: ' ' :: v) = true := by
    simp [noOcc, dropPre, sSemiGot, h']
  have h2 := splitLast_none_of_noOcc sSemiGot _ h1
  have h3 : dropPre sSemiGot (sSemiGot ++ v) = some v := dropPre_append sSemiGot v
  show splitLast sSemiGot (';' :: (' ' :: 'G' :: 'o' :: 't' :: ' ' :: v)) = some ([], v)
  rw [splitLast_cons_none _ _ _ h2]
  have h4 : dropPre sSemiGot (';' :: ' ' :: 'G' :: 'o' :: 't' :: ' ' :: v) = some v := h3
  rw [h4]; rfl

/-- regex 2 on `<problem>; Got <value>` splits exactly at the separator when the value contains no
    `; Got ` (anything else — `;`, newlines, quotes — is allowed in both) -/
theorem m23tail_gotLast_exact (v p : Text) (h : noOcc sSemiGot v = true) :
    m23tail (p ++ (sSemiGot ++ v)) = (some v, p) := by
  have := splitLast_prepend sSemiGot _ _ _ (splitLast_semiGot_base v h) p
  simp only [m23tail, this, List.append_nil]

/-- shape 2 (`<problem>; Got <v>`): value and (transformed) problem recovered exactly -/
theorem render_parse_gotLast (W : Word) (hW : W.Sound) (f v p : Text) (hf : identOk W f = true)
    (hG : p.head? ≠ some 'G') (hv : noOcc sSemiGot v = true) :
    parseMsg W (f ++ ':' :: ' ' :: body .gotLast v p) = ⟨some f, some v, transform p⟩ := by
  have hhead : (body .gotLast v p).head? ≠ some 'G' := by
    cases p with
    | nil => simp [body, sSemiGot]
    | cons x xs => simpa [body] using hG
  rw [parseMsg_header W hW _ _ hf, parseTail_line _ hhead]
  simp only [body, m23tail_gotLast_exact v p hv]

/-- shape 3 (`<problem>` alone): the whole rest is the problem, no value -/
theorem render_parse_plain (W : Word) (hW : W.Sound) (f p : Text) (hf : identOk W f = true)
    (hG : p.head? ≠ some 'G') (hp : noOcc sSemiGot p = true) :
    parseMsg W (f ++ ':' :: ' ' :: body .plain [] p) = ⟨some f, none, transform p⟩ := by
  rw [parseMsg_header W hW _ _ hf, parseTail_line _ (by simpa [body] using hG)]
  simp only [body, m23tail, splitLast_none_of_noOcc sSemiGot p hp]

/-- the (decidable) side condition under which the parse INVERTS the formatter, per shape; no
    condition on newlines anywhere (the regexes are DOTALL) -/
def cleanTexts : Shape → Text → Text → Bool
  | .gotFirst, v, _ => noSemi v
  | .gotLast, v, p => noOcc sSemiGot v && (p.head? != some 'G')
  | .plain, _, p => noOcc sSemiGot p && (p.head? != some 'G')

/-- what `ErrorInfo` should carry for a message: the full path, the value (none for the plain shape)
    and the readable problem -/
def msgInfo (m : Msg) : Parsed :=
  ⟨some m.fullPath, (match m.shape with | .plain => none | _ => some m.value), transform m.problem⟩

/-- THE PARSE INVERTS THE FORMATTER: for every class name / field path in `[\w.]+`, every shape and
    all clean texts (newlines, quotes, non-ASCII, JSON … allowed), the regex cascade returns exactly
    the path, the value and the readable problem that were rendered -/
theorem render_parse_inverts (W : Word) (hW : W.Sound) (m : Msg) (hp : identOk W m.fullPath = true)
    (hc : cleanTexts m.shape m.value m.problem = true) : parseMsg W m.render = msgInfo m := by
  rw [render_eq]
  obtain ⟨cls, path, shape, v, p⟩ := m
  cases shape with
  | gotFirst =>
    simp only [cleanTexts] at hc
    exact render_parse_gotFirst W hW _ v p hp hc
  | gotLast =>
    simp only [cleanTexts, Bool.and_eq_true, bne_iff_ne, ne_eq] at hc
    exact render_parse_gotLast W hW _ v p hp hc.2 hc.1
  | plain =>
    simp only [cleanTexts, Bool.and_eq_true, bne_iff_ne, ne_eq] at hc
    have := render_parse_plain W hW (Msg.fullPath ⟨cls, path, .plain, v, p⟩) p hp hc.2 hc.1
    simpa [body, msgInfo] using this

/-- the conditions are needed: a value containing `; Got ` moves the split of shape 2, a problem
    starting with `Got ` is taken by regex 1 -/
theorem unclean_texts_examples :
    parseMsg asciiWord (Msg.render ⟨some "Foo".toList, "b".toList, .gotLast, "'x; Got y'".toList,
      "Expected <class 'bool'>".toList⟩) =
      ⟨some "Foo.b".toList, some "y'".toList, "Expected <class 'bool'>; Got 'x".toList⟩ ∧
    parseMsg asciiWord (Msg.render ⟨some "Foo".toList, "b".toList, .gotLast, "1".toList,
      "Got ; it".toList⟩) = ⟨some "Foo.b".toList, some [], "it; Got 1".toList⟩ := by
  decide

/-! ### `wrap_val`: a `str` value is rendered between single quotes -/

/-- `wrap_val(v)` for a `str` -/
def quoteStr (s : Text) : Text := '\'' :: (s ++ ['\''])

theorem noSemi_quoteStr (s : Text) : noSemi (quoteStr s) = noSemi s := by
  simp [noSemi, quoteStr, List.all_append]

theorem dropPre_none_snoc (pat : Text) (q : Char) (hq : ∀ c ∈ pat, c ≠ q) :
    ∀ t : Text, dropPre pat t = none → dropPre pat (t ++ [q]) = none := by
  induction pat with
  | nil => intro t h; cases t <;> simp [dropPre] at h
  | cons a p ih =>
    intro t h
    cases t with
    | nil =>
      have : a ≠ q := hq a List.mem_cons_self
      simp [dropPre, this]
    | cons b t' =>
      simp only [List.cons_append, dropPre] at h ⊢
      split
      · rename_i hab
        simp only [hab, if_true] at h
        exact ih (fun c hc => hq c (List.mem_cons_of_mem _ hc)) t' h
      · rfl

theorem noOcc_snoc (pat : Text) (hne : pat ≠ []) (q : Char) (hq : ∀ c ∈ pat, c ≠ q) :
    ∀ t : Text, noOcc pat t = true → noOcc pat (t ++ [q]) = true := by
  have hone : (dropPre pat [q]).isNone = true := by
    cases pat with
    | nil => exact absurd rfl hne
    | cons a p =>
      have : a ≠ q := hq a List.mem_cons_self
      simp [dropPre, this]
  have hnil : (dropPre pat []).isNone = true := by
    cases pat with
    | nil => exact absurd rfl hne
    | cons a p => rfl
  intro t
  induction t with
  | nil => intro _; simp [noOcc, hone, hnil]
  | cons c cs ih =>
    intro h
    simp only [noOcc, Bool.and_eq_true, Option.isNone_iff_eq_none] at h
    simp only [List.cons_append, noOcc, Bool.and_eq_true, Option.isNone_iff_eq_none]
    exact ⟨dropPre_none_snoc pat q hq (c :: cs) h.1, ih h.2⟩

/-- quoting adds no `; Got ` -/
theorem noOcc_quoteStr (s : Text) (h : noOcc sSemiGot s = true) : noOcc sSemiGot (quoteStr s) = true := by
  have hs := noOcc_snoc sSemiGot (by decide) '\'' (by decide) s h
  simp only [quoteStr, noOcc, Bool.and_eq_true]
  exact ⟨by simp [dropPre, sSemiGot], hs⟩

/-- a rejected `str` value comes back exactly as `wrap_val` rendered it — for every path in
    `[\w.]+`, every problem text, every string without `;` (value-first shape) resp. without
    `; Got ` (value-last shape); newlines, quotes, `: `, non-ASCII are all allowed -/
theorem str_value_roundtrip (W : Word) (hW : W.Sound) (f s p : Text) (hf : identOk W f = true) :
    (noSemi s = true →
      parseMsg W (f ++ ':' :: ' ' :: body .gotFirst (quoteStr s) p) = ⟨some f, some (quoteStr s), transform p⟩) ∧
    (noOcc sSemiGot s = true → p.head? ≠ some 'G' →
      parseMsg W (f ++ ':' :: ' ' :: body .gotLast (quoteStr s) p) = ⟨some f, some (quoteStr s), transform p⟩) :=
  ⟨fun h => render_parse_gotFirst W hW f _ p hf (by rw [noSemi_quoteStr]; exact h),
   fun h hG => render_parse_gotLast W hW f _ p hf hG (noOcc_quoteStr s h)⟩


/-! ### typedpy's problem texts -/

/-- every problem text the constructor of a flat / nested-collection field produces matches one
    of these templates (all of them begin `Expected ` or `Does not match regular expression: `) -/
theorem typedpy_problem_good (p : Text) (h : isTypedpyProblem p = true) (sh : Shape) (v : Text) :
    goodTexts sh v p = true := by
  have hhead : p.head? = some 'E' ∨ p.head? = some 'D' := by
    simp only [isTypedpyProblem, Bool.or_eq_true] at h
    cases h with
    | inl h =>
      cases hd : dropPre sExpected p with
      | none => simp [startsWithT, hd] at h
      | some r => rw [dropPre_eq _ _ _ hd]; left; rfl
    | inr h =>
      cases hd : dropPre sDoesNotMatch p with
      | none => simp [startsWithT, hd] at h
      | some r => rw [dropPre_eq _ _ _ hd]; right; rfl
  cases p with
  | nil => cases hhead <;> simp_all
  | cons c cs =>
    cases hhead with
    | inl h1 => simp only [List.head?_cons, Option.some.injEq] at h1; subst h1; cases sh <;> simp [goodTexts]
    | inr h1 => simp only [List.head?_cons, Option.some.injEq] at h1; subst h1; cases sh <;> simp [goodTexts]

/-- texts taken from typedpy's templates are well-formed: `TextsWellFormed` is not an assumption
    about the code but a consequence of the (corresponded) templates -/
theorem templates_wellFormed (T : Texts) (h : ∀ s, isTypedpyProblem (T s).2 = true) : TextsWellFormed T :=
  fun s => typedpy_problem_good _ (h s) _ _

/-- the parameter-free templates, kernel-checked: each is a typedpy problem, starts neither with
    `G` nor contains `; Got `, and `Expected <class 'int'>` & co. become readable -/
theorem fixed_templates_examples :
    (fixedProblems.all fun p => isTypedpyProblem p && noOcc sSemiGot p && (p.head? != some 'G')) = true ∧
    transform "Expected <class 'float'>".toList = "Expected a decimal number".toList ∧
    transform "Expected <class 'list'>".toList = "Expected an array".toList ∧
    transform "Expected <class 'str'>".toList = "Expected a text value".toList := by
  decide



/-! ### the flat phase-one model agrees with `deser` (Sem/Deser.lean) -/

theorem isOk_dValidated (r : R PyVal) (v : PyVal) : isOk (dValidated r v) = isOk r := by
  cases r <;> rfl

theorem isOk_toValueErr {α} (r : R α) : isOk (toValueErr r) = isOk r := by
  cases r with
  | ok y => rfl
  | error e => cases e <;> rfl

theorem isOk_mapE {α β} (g : α → R β) (xs : List α) : isOk (mapE g xs) = xs.all fun x => isOk (g x) := by
  induction xs with
  | nil => rfl
  | cons x xs ih =>
    simp only [mapE, List.all_cons]
    cases hg : g x with
    | error e => simp [isOk]
    | ok y =>
      simp only [bindE_ok]
      cases hm : mapE g xs with
      | error e => rw [hm] at ih; simp [isOk] at ih ⊢; exact ih
      | ok ys => rw [hm] at ih; simp [isOk] at ih ⊢; exact ih

/-- scalars: `p1Scalar` (validate without the sign mixin) is exactly `deser` rejecting, for every
    scalar declaration and every non-None document value -/
theorem p1Scalar_eq_deser (O : Oracles) (opts : DeserOpts) (f : FieldDecl) (v : PyVal)
    (hs : isScalarDecl f = true) :
    p1Scalar O f v = !isOk (deser O opts false f v) := by
  cases f <;> simp only [isScalarDecl, Bool.false_eq_true] at hs <;>
    simp only [p1Scalar, stripSign, validate, deser, Bool.and_false, Bool.false_eq_true, if_false,
      isOk_dValidated, noSign]
  case enumCls cls names =>
    cases v <;> simp only [dEnumCls, vEnumCls, isOk_dValidated]

/-- some element is rejected by the item field, in both models -/
theorem p1_elems_eq_deser (O : Oracles) (opts : DeserOpts) (item : FieldDecl) (xs : List PyVal)
    (hs : isScalarDecl item = true) :
    xs.any (p1Scalar O item) = !isOk (toValueErr (mapE (deser O opts false item) xs)) := by
  have h2 : isOk (toValueErr (mapE (deser O opts false item) xs)) =
      xs.all fun x => isOk (deser O opts false item x) := by
    rw [isOk_toValueErr]; exact isOk_mapE _ xs
  rw [h2]
  cases h3 : (xs.all fun x => isOk (deser O opts false item x)) with
  | true =>
    show xs.any (p1Scalar O item) = false
    rw [List.any_eq_false]
    intro x hx
    have hx' := (List.all_eq_true.1 h3) x hx
    rw [p1Scalar_eq_deser O opts item x hs, hx']; simp
  | false =>
    show xs.any (p1Scalar O item) = true
    obtain ⟨x, hx, hb⟩ := List.all_eq_false.1 h3
    rw [List.any_eq_true]
    exact ⟨x, hx, by rw [p1Scalar_eq_deser O opts item x hs]; simpa using hb⟩

/-- Array / Deque / Tuple[X] of scalars: the flat phase-one model `p1Rejects` and `deser` agree on
    every document value -/
theorem p1Rejects_homog_eq_deser (O : Oracles) (opts : DeserOpts) (item : FieldDecl) (v : PyVal)
    (hs : isScalarDecl item = true) :
    (∀ k sz, p1Rejects O (.seqOf k item sz) v = !isOk (deser O opts false (.seqOf k item sz) v)) ∧
    (∀ u, p1Rejects O (.tupleOf item u) v = !isOk (deser O opts false (.tupleOf item u) v)) := by
  have hl : listLike v = docSeq v := by cases v <;> rfl
  constructor
  · intro k sz
    simp only [p1Rejects, deser, Bool.and_false, Bool.false_eq_true, if_false, dSeq, hl]
    cases docSeq v with
    | none => rfl
    | some xs =>
      simp only [p1_elems_eq_deser O opts item xs hs]
      cases toValueErr (mapE (deser O opts false item) xs) <;> rfl
  · intro u
    simp only [p1Rejects, deser, Bool.and_false, Bool.false_eq_true, if_false, dSeq, hl]
    cases docSeq v with
    | none => rfl
    | some xs =>
      simp only [p1_elems_eq_deser O opts item xs hs]
      cases toValueErr (mapE (deser O opts false item) xs) <;> rfl



/-! ### collect-all deserialization at any depth: what phase one reports is sound, and complete
    exactly when no supplied field is rejected by the constructor alone -/

/-- the supplied fields only the constructor rejects (phase one accepts the document value, the
    constructor rejects what phase one made of it) -/
def ctorOnlyInvalid (O : Oracles) (opts : DeserOpts) (ign : Bool) (doc : List (String × PyVal))
    (fields : List (String × FieldDecl)) : List String :=
  fields.filterMap fun nf =>
    match lookup nf.1 doc with
    | none => none
    | some v => if v.isNone then none else
      match deser O opts ign nf.2 v with
      | .ok y => if isOk (validate O nf.2 y) then none else some nf.1
      | .error _ => none

theorem p1SiteD_top (O : Oracles) (opts : DeserOpts) (ign : Bool) (scr : List (Option String))
    (name : String) (f : FieldDecl) (v : PyVal) (s : P1Site) (h : p1SiteD O opts ign scr name f v = some s) :
    s.top = name :=
  (p1SiteD_names_own_field O opts ign scr name f v s h).2.1

/-- SOUND at any depth: every field collect-all deserialization reports from its first phase is an
    invalid supplied field (for classes without flat fields the two phase-one models coincide by
    definition; flat fields use `p1Rejects`, tied to `deser` by `p1Rejects_homog_eq_deser` and the
    driver's cross-check) — stated for the `deser`-based part -/
theorem deep_phase_one_sound (O : Oracles) (opts : DeserOpts) (ign : Bool)
    (doc : List (String × PyVal)) (fields : List (String × FieldDecl)) (n : String)
    (hn : n ∈ fields.filterMap fun nf =>
      match lookup nf.1 doc with
      | none => none
      | some v => if v.isNone then none else
        match deser O opts ign nf.2 v with
        | .ok _ => none
        | .error _ => some nf.1) :
    n ∈ deserInvalid O opts ign doc fields := by
  simp only [List.mem_filterMap] at hn
  obtain ⟨nf, hnf, h⟩ := hn
  simp only [deserInvalid, List.mem_filterMap]
  refine ⟨nf, hnf, ?_⟩
  cases hl : lookup nf.1 doc with
  | none => simp [hl] at h
  | some v =>
    simp only [hl] at h ⊢
    split
    · rename_i hv; simp [hv] at h
    · rename_i hv
      simp only [hv] at h
      cases hd : deser O opts ign nf.2 v with
      | ok y => simp [hd] at h
      | error e => simpa [hd] using h

/-- EXACT at any depth: the invalid supplied fields are those phase one rejects together with those
    only the constructor rejects; so the first phase alone reports all of them iff the latter set
    is empty (the two-phase finding, for every declaration) -/
theorem deserInvalid_nil_ctorOnly (O : Oracles) (opts : DeserOpts) (ign : Bool)
    (doc : List (String × PyVal)) (fields : List (String × FieldDecl)) (n : String) :
    n ∈ deserInvalid O opts ign doc fields ↔
      (n ∈ fields.filterMap fun nf =>
        match lookup nf.1 doc with
        | none => none
        | some v => if v.isNone then none else
          match deser O opts ign nf.2 v with
          | .ok _ => none
          | .error _ => some nf.1) ∨ n ∈ ctorOnlyInvalid O opts ign doc fields := by
  simp only [deserInvalid, ctorOnlyInvalid, List.mem_filterMap]
  constructor
  · rintro ⟨nf, hnf, h⟩
    cases hl : lookup nf.1 doc with
    | none => simp [hl] at h
    | some v =>
      simp only [hl] at h
      by_cases hv : v.isNone = true
      · simp [hv] at h
      · simp only [hv] at h
        cases hd : deser O opts ign nf.2 v with
        | ok y => right; exact ⟨nf, hnf, by simpa [hl, hv, hd] using h⟩
        | error e => left; exact ⟨nf, hnf, by simpa [hl, hv, hd] using h⟩
  · rintro (⟨nf, hnf, h⟩ | ⟨nf, hnf, h⟩)
    · refine ⟨nf, hnf, ?_⟩
      cases hl : lookup nf.1 doc with
      | none => simp [hl] at h
      | some v =>
        simp only [hl] at h ⊢
        by_cases hv : v.isNone = true
        · simp [hv] at h
        · simp only [hv] at h ⊢
          cases hd : deser O opts ign nf.2 v with
          | ok y => simp [hd] at h
          | error e => simpa [hd] using h
    · refine ⟨nf, hnf, ?_⟩
      cases hl : lookup nf.1 doc with
      | none => simp [hl] at h
      | some v =>
        simp only [hl] at h ⊢
        by_cases hv : v.isNone = true
        · simp [hv] at h
        · simp only [hv] at h ⊢
          cases hd : deser O opts ign nf.2 v with
          | ok y => simpa [hd] using h
          | error e => simp [hd] at h

/-- the two-phase finding at depth: `arr: Array[Array[PositiveInt]]` given `[[1, -1]]` (only the
    constructor's sign check rejects it) next to `s: String` given `5` -/
theorem two_phase_deep_example :
    let O : Oracles := exOracles
    let fields : List (String × FieldDecl) :=
      [("arr", .seqOf .list (.seqOf .list (.integer { sign := .pos }) {}) {}), ("s", .string none none none)]
    let doc : List (String × PyVal) := [("arr", .list [.list [.int 1, .int (-1)]]), ("s", .int 5)]
    deserInvalid O {} false doc fields = ["arr", "s"] ∧
    (p1SitesD O {} false [] doc fields).map (·.top) = ["s"] ∧
    ctorOnlyInvalid O {} false doc fields = ["arr"] ∧
    (locate O (.seqOf .list (.seqOf .list (.integer { sign := .pos }) {}) {})
      (.list [.list [.int 1, .int (-1)]])).suffix.text = "_0_1".toList := by
  decide



/-! ### nested and inline structures name the field that holds them (after /repo 8de2ad2, 3e97bbb) -/

/-- the former counterexamples, kernel-checked on the model of today's code: `Outer(sr={'a': 'x'})`
    for an inline `sr: StructureReference(a=Integer)` is reported under `Outer.sr` (plain shape: the
    embedded class's own message is the problem text), also as an element of an Array (`arr_1`); the
    helper recovers `Outer.sr` from the real text; deserializing `{'inner': {'x': 'a'}}` for a class
    reference is reported under `inner` -/
theorem fixed_nested_structure_examples :
    let O : Oracles := exOracles
    let sr : FieldDecl := .struct { name := "StructureReference_0", required := [], inline := true } [("a", .integer {})] []
    let inner : FieldDecl := .struct { name := "Inner", required := [], accepts := ["Inner"] } [("x", .integer {})] []
    let c : ClassOpts := { name := "Outer", required := [] }
    let bad : PyVal := .dict [(.str "a", .str "x")]
    ((sites O c [("sr", bad)] [("sr", sr)]).map fun s => (s.path, s.loc.shape)) = [("sr".toList, Shape.plain)] ∧
    ((sites O c [("arr", .list [.dict [(.str "a", .int 1)], bad])] [("arr", .seqOf .list sr {})]).map
        fun s => (s.path, s.loc.shape)) = [("arr_1".toList, Shape.plain)] ∧
    (parseMsg asciiWord "Outer.sr: StructureReference_0.a: Expected <class 'int'>; Got 'x'".toList).field
      = some "Outer.sr".toList ∧
    (parseMsg asciiWord "Outer.sr: [\"StructureReference_0.a: Expected <class 'int'>; Got 'x'\"]".toList).field
      = some "Outer.sr".toList ∧
    p1SiteD O {} false [] "inner" inner (.dict [(.str "x", .str "a")]) =
      some ⟨"inner", .named, some "inner".toList, .typeErr⟩ ∧
    p1SiteD O {} false [] "sr" sr bad = some ⟨"sr", .named, some "sr: Got ".toList, .valueErr⟩ := by
  decide



/-! ### the reported fields of phase one, as a list -/

/-- `deserialize_single_field` rejects the document value (flat fields: the scratch-aware flat
    model; every other declaration: `deser`) -/
def p1RejectsD (O : Oracles) (opts : DeserOpts) (ign : Bool) (f : FieldDecl) (v : PyVal) : Bool :=
  if isFlatDecl f then p1Rejects O f v else !isOk (deser O opts ign f v)

/-- in collect-all mode the first phase reports, in field order, EXACTLY the supplied non-null
    fields whose document value `deserialize_single_field` rejects — every class, every declaration,
    any depth, every scratch state -/
theorem p1SitesD_tops (O : Oracles) (opts : DeserOpts) (ign : Bool)
    (scr : List (String × List (Option String))) (doc : List (String × PyVal))
    (fields : List (String × FieldDecl)) :
    (p1SitesD O opts ign scr doc fields).map (·.top) =
      fields.filterMap fun nf =>
        match lookup nf.1 doc with
        | none => none
        | some v => if !v.isNone && p1RejectsD O opts ign nf.2 v then some nf.1 else none := by
  induction fields with
  | nil => rfl
  | cons nf rest ih =>
    simp only [p1SitesD, List.filterMap_cons] at ih ⊢
    cases hl : lookup nf.1 doc with
    | none => simpa [hl] using ih
    | some v =>
      by_cases hv : v.isNone = true
      · simpa [hv] using ih
      · simp only [hv, Bool.false_eq_true, if_false, Bool.not_false, Bool.true_and]
        have hsome := p1SiteD_isSome O opts ign ((lookup nf.1 scr).getD []) nf.1 nf.2 v
        cases hs : p1SiteD O opts ign ((lookup nf.1 scr).getD []) nf.1 nf.2 v with
        | none =>
          rw [hs] at hsome
          have : p1RejectsD O opts ign nf.2 v = false := by
            unfold p1RejectsD; exact hsome.symm
          simpa [this] using ih
        | some s =>
          rw [hs] at hsome
          have hr : p1RejectsD O opts ign nf.2 v = true := by
            unfold p1RejectsD; exact hsome.symm
          have ht := p1SiteD_top O opts ign _ nf.1 nf.2 v s hs
          simp only [hr, if_true, List.map_cons, ht]
          exact congrArg _ ih



/-! ### multi-field wrappers -/

/-- `AllOf[Array[Integer], Array[Number(maximum=3)]]` given `[1, 7]`: the second option rejects
    element 1 and the message is ITS message under the AllOf's own name (`allf_1`); AnyOf / OneOf
    reject at the field itself with the plain shape, NotField value-first; inside an Array the
    wrapper's path is the element's (`aany_1`) -/
theorem wrapper_path_examples :
    let O : Oracles := exOracles
    let arr (f : FieldDecl) : FieldDecl := .seqOf .list f {}
    let num3 : FieldDecl := .number { max := some (Q.ofInt 3) }
    let str : FieldDecl := .string none none none
    locate O (.allOf [arr (.integer {}), arr num3]) (.list [.int 1, .int 7]) = ⟨[.idx 1], .gotFirst, none⟩ ∧
    locate O (.allOf [arr (.integer {}), arr num3]) (.int 5) = ⟨[], .gotFirst, none⟩ ∧
    locate O (.anyOf [.integer {}, str]) (.list []) = ⟨[], .plain, none⟩ ∧
    locate O (.oneOf [.integer {}, .number {}]) (.int 5) = ⟨[], .plain, none⟩ ∧
    locate O (.notF [.integer {}]) (.int 1) = ⟨[], .gotFirst, none⟩ ∧
    locate O (arr (.anyOf [.integer {}, str])) (.list [.int 1, .list [.int 2]]) = ⟨[.idx 1], .plain, none⟩ ∧
    isOk (validate O (.oneOf [.integer {}, .number {}]) (.int 5)) = false ∧
    (parseMsg asciiWord "Outer.one: : Got 5; Matched more than one field option".toList).field
      = some "Outer.one".toList ∧
    (parseMsg asciiWord "Outer.any: 's' of type str did not match any field option. Valid types are: int, list.".toList)
      = ⟨some "Outer.any".toList, none,
         "'s' of type str did not match any field option. Valid types are: int, list.".toList⟩ := by
  decide


end Typedpy.C18
