/-
  Core/Formats.lean — the documented languages of typedpy's formatted-string fields that are small regular
  languages, as executable functions on `String` (no imports outside core Lean: linked into the driver).

  * `ipv4Ok`      IPV4 — "a valid IP version 4": a dotted quad, four components of 1..3 ASCII decimal digits, each
                  denoting a number 0..255
  * `hostNameOk`  HostName — "a valid host name" (RFC 1123): labels of 1..63 ASCII letters / digits / '-', not
                  beginning or ending with '-', separated by single dots, 2..253 characters in all (RFC 952: single
                  character names are not allowed)

  `Lemmas/Formats.lean` proves that these functions accept exactly the declaratively stated languages
  (`IsIPv4`, `IsHostName`: "s is the dot-join of components such that …").
  The other formats (DateString / TimeString: `datetime.strptime`, JSONString: `json.loads`) stay oracles of the
  model (`Oracles.reMatch` on a synthetic token, answered per case by an independent implementation in the harness).
-/
namespace Typedpy

/-- split at every '.' (always at least one component) -/
def consHead (c : Char) : List (List Char) → List (List Char)
  | [] => [[c]]
  | p :: ps => (c :: p) :: ps

def splitDots : List Char → List (List Char)
  | [] => [[]]
  | c :: cs => if c = '.' then [] :: splitDots cs else consHead c (splitDots cs)

/-- components joined by single dots -/
def joinDots : List (List Char) → List Char
  | [] => []
  | [p] => p
  | p :: q :: ps => p ++ '.' :: joinDots (q :: ps)

def isAsciiDigit (c : Char) : Bool := decide ('0'.toNat ≤ c.toNat) && decide (c.toNat ≤ '9'.toNat)

def isAsciiAlnum (c : Char) : Bool :=
  isAsciiDigit c || (decide ('a'.toNat ≤ c.toNat) && decide (c.toNat ≤ 'z'.toNat))
    || (decide ('A'.toNat ≤ c.toNat) && decide (c.toNat ≤ 'Z'.toNat))

/-- value of a string of ASCII digits -/
def decVal (p : List Char) : Nat := p.foldl (fun acc c => acc * 10 + (c.toNat - '0'.toNat)) 0

/-- one component of a dotted quad: 1..3 ASCII digits denoting 0..255 -/
def octetOk (p : List Char) : Bool :=
  decide (1 ≤ p.length) && decide (p.length ≤ 3) && p.all isAsciiDigit && decide (decVal p ≤ 255)

def ipv4OkL (s : List Char) : Bool :=
  match splitDots s with
  | [a, b, c, d] => octetOk a && octetOk b && octetOk c && octetOk d
  | _ => false

/-- RFC 1123 label -/
def labelOk (p : List Char) : Bool :=
  decide (1 ≤ p.length) && decide (p.length ≤ 63) && p.all (fun c => isAsciiAlnum c || c = '-')
    && p.head? != some '-' && p.getLast? != some '-'

def hostNameOkL (s : List Char) : Bool :=
  decide (2 ≤ s.length) && decide (s.length ≤ 253) && (splitDots s).all labelOk

def ipv4Ok (s : String) : Bool := ipv4OkL s.toList
def hostNameOk (s : String) : Bool := hostNameOkL s.toList

/-- the synthetic pattern tokens under which the formats travel in a `string` declaration -/
def ipv4Token : String := "§fmt:ipv4"
def hostNameToken : String := "§fmt:hostname"

/-- answers of the format tokens that the model decides itself; any other pattern is left to `other` -/
def fmtMatch (other : String → String → Bool) (p s : String) : Bool :=
  if p == ipv4Token then ipv4Ok s
  else if p == hostNameToken then hostNameOk s
  else other p s

end Typedpy
