/-
  Core/Tables.lean — record types of the tables that extract/*.py regenerates from /repo's
  working tree into TypedpyModel/Generated/*.lean on every run.
-/
namespace Typedpy

/-- how a typed collection wrapper (`_ListStruct` / `_DictStruct` / `_DequeStruct`) treats one
    mutating member of its native base type -/
structure MethodRec where
  /-- "list" | "dict" | "deque" -/
  wrapper : String
  method : String
  overridden : Bool
  /-- calls `_raise_if_immutable()` -/
  guard : Bool
  /-- routes a mutated copy through `setattr(self._instance, <field>, copied)` (re-validation) -/
  reassign : Bool
  /-- applies the native mutator to `self` through `super()` -/
  superCall : Bool
  /-- the re-assignment is made only `if getattr(self, "_instance", None)`: skipped when the owning
      instance is falsy (`Structure.__bool__`: no attribute holds a value) — only a kept reference
      can meet such an instance -/
  condInstance : Bool := false
deriving Repr, DecidableEq, Inhabited

structure AccessorRec where
  wrapper : String
  method : String
  overridden : Bool
deriving Repr, DecidableEq, Inhabited

/-- the mutation is validated: it reaches the instance only through a validated assignment -/
def MethodRec.validated (r : MethodRec) : Bool := r.overridden && r.reassign
/-- the mutation is refused on immutable structures / fields -/
def MethodRec.guarded (r : MethodRec) : Bool := r.overridden && r.guard

def findRec (tbl : List MethodRec) (wrapper method : String) : Option MethodRec :=
  tbl.find? (fun r => r.wrapper == wrapper && r.method == method)

end Typedpy
