/-
  Core/Field.lean — field declarations (the public field vocabulary) as an inductive type.

  Nested Structure classes are *inlined* (`struct`): typedpy class references form a DAG (a class
  must exist before it can be referenced), so every declaration is a finite tree and all model
  functions are structurally recursive over it, at any nesting depth.
-/
import TypedpyModel.Core.Value
namespace Typedpy

inductive Sign where | any | pos | neg | nonpos | nonneg
deriving Repr, DecidableEq, Inhabited

/-- constraint keywords of `Number` and its subclasses; `mult` is an `int` multiplesOf (≠ 0). -/
structure NumOpts where
  mult : Option Int := none
  min : Option Q := none
  max : Option Q := none
  exclMax : Bool := false
  sign : Sign := .any
deriving Repr, Inhabited

/-- `minItems` / `maxItems` / `uniqueItems` -/
structure SizeOpts where
  min : Option Nat := none
  max : Option Nat := none
  uniq : Bool := false
deriving Repr, Inhabited

inductive SeqKind where | list | deque
deriving Repr, DecidableEq, Inhabited

/-- class-level settings of a Structure class -/
structure ClassOpts where
  name : String
  required : List String
  /-- additional properties allowed -/
  addl : Bool := true
  ignoreNone : Bool := false
  immutable : Bool := false
  /-- names of this class and its known subclasses (`isinstance` passes) -/
  accepts : List String := []
  /-- `StructureReference`: built from a dict or Structure on assignment -/
  inline : Bool := false
  /-- names of fields whose Field object is immutable (`ImmutableArray`, `ImmutableMap`, …) -/
  immFields : List String := []
  /-- field names in definition order (`get_all_fields_by_name()`): the order deserialization
      processes them in; the `fields` list itself is in constructor-signature order -/
  defOrder : List String := []
deriving Repr, Inhabited

inductive FieldDecl where
  | number (o : NumOpts)
  | integer (o : NumOpts)
  | float (o : NumOpts)
  | string (minLen maxLen : Option Nat) (pattern : Option String)
  | boolean
  | enumLit (vals : List PyVal)
  /-- `Enum[SomeEnumClass]` restricted to member `names` -/
  | enumCls (cls : String) (names : List String)
  | seqAny (k : SeqKind) (sz : SizeOpts)
  | seqOf (k : SeqKind) (item : FieldDecl) (sz : SizeOpts)
  /-- positional `items=[…]`; `addl = false` is `additionalItems=False` -/
  | seqPos (k : SeqKind) (items : List FieldDecl) (addl : Bool) (sz : SizeOpts)
  | setAny (imm : Bool) (sz : SizeOpts)
  | setOf (imm : Bool) (item : FieldDecl) (sz : SizeOpts)
  /-- `Tuple[X]` / `Tuple(items=[X])`: any number of elements, all through `X` -/
  | tupleOf (item : FieldDecl) (uniq : Bool)
  /-- `Tuple(items=[X, Y, …])` (two or more): fixed length, element `i` through field `i` -/
  | tuplePos (items : List FieldDecl) (uniq : Bool)
  | mapAny (sz : SizeOpts)
  | mapOf (k v : FieldDecl) (sz : SizeOpts)
  | struct (c : ClassOpts) (fields : List (String × FieldDecl)) (defaults : List (String × PyVal))
  | anyOf (fs : List FieldDecl)
  | oneOf (fs : List FieldDecl)
  | allOf (fs : List FieldDecl)
  | notF (fs : List FieldDecl)
  | noneF
  | anything
deriving Repr, Inhabited

/-- exception classes that validation can raise -/
inductive ErrCls where
  | typeErr | valueErr
  /-- `InvalidStructureErr` (subclass of both) -/
  | both
  | other (name : String)
deriving Repr, DecidableEq, Inhabited

/-- External oracles the model is parametric in (answers supplied per case by the harness;
    universally quantified in theorems). -/
structure Oracles where
  /-- `re.compile(pattern).match(s) is not None` -/
  reMatch : String → String → Bool
  /-- the class's `__validate__` hook, as a verdict on the attribute state it would see (`true` =
      returns normally); run after every validated assignment to an instantiated instance -/
  hookOk : List (String × PyVal) → Bool := fun _ => true

end Typedpy
