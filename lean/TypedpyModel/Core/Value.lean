/-
  Core/Value.lean — the value universe of the typedpy model.

  No imports outside core Lean: this file is linked into the compiled driver.

  * numbers: Python `int` is `Int`; `float` (finite) and `Decimal` (finite) are carried as exact
    rationals `Q` (numerator, positive denominator) as produced by `as_integer_ratio()`; order and
    equality between int / float / Decimal / bool are therefore exact, as in Python.
  * containers are lists of values; `set`/`dict` are association lists keyed through `pyEq`, which
    is the observable behaviour of Python's hash+eq containers on hashable keys.
-/
namespace Typedpy

/-- Exact rational used for finite floats and Decimals. `den > 0` is maintained by the harness. -/
structure Q where
  num : Int
  den : Nat
deriving Repr, DecidableEq, Inhabited

namespace Q
def ofInt (i : Int) : Q := ⟨i, 1⟩
def le (a b : Q) : Bool := decide (a.num * b.den ≤ b.num * a.den)
def lt (a b : Q) : Bool := decide (a.num * b.den < b.num * a.den)
def eq (a b : Q) : Bool := decide (a.num * b.den = b.num * a.den)
/-- `a` is an exact integer multiple of the integer `m` (`m ≠ 0`): Python `a % m == 0`
    (`int % int`, `float % int` via exact `fmod`, `Decimal % int`). -/
def isMultipleOf (a : Q) (m : Int) : Bool := decide (a.num % (m * a.den) = 0)
end Q

/-- Python values that can occur as field values, arguments and documents. -/
inductive PyVal where
  | none
  | bool (b : Bool)
  | int (i : Int)
  | float (q : Q)
  | dec (q : Q)
  | str (s : String)
  | list (xs : List PyVal)
  | tuple (xs : List PyVal)
  | set (frozen : Bool) (xs : List PyVal)
  | dict (kvs : List (PyVal × PyVal))
  | deque (xs : List PyVal)
  /-- member `name` of the `enum.Enum` class `cls` -/
  | enumv (cls : String) (name : String)
  /-- instance of Structure class `cls`; attrs in `__dict__` insertion order -/
  | inst (cls : String) (attrs : List (String × PyVal))
  /-- any other Python object; equal only to itself (identity) -/
  | opaque (tag : String)
deriving Repr, Inhabited

namespace PyVal

/-- numeric view used by Python's numeric tower (`bool` is an `int`). -/
def asNum : PyVal → Option Q
  | .bool b => some (Q.ofInt (if b then 1 else 0))
  | .int i => some (Q.ofInt i)
  | .float q => some q
  | .dec q => some q
  | _ => Option.none

def isNumber (v : PyVal) : Bool := v.asNum.isSome

def isNone : PyVal → Bool
  | .none => true
  | _ => false

mutual
/-- Python `==` on the modelled fragment (structural recursion on the first argument). -/
def pyEq : PyVal → PyVal → Bool
  | .none, w => match w with | .none => true | _ => false
  | .str a, w => match w with | .str b => a == b | _ => false
  | .list a, w => match w with | .list b => pyEqList a b | _ => false
  | .tuple a, w => match w with | .tuple b => pyEqList a b | _ => false
  | .deque a, w => match w with | .deque b => pyEqList a b | _ => false
  | .set _ a, w => match w with
      | .set _ b => subsetBy a b && b.all (fun y => anyEqL a y)
      | _ => false
  | .dict a, w => match w with
      | .dict b => a.length == b.length && dictSub a b
      | _ => false
  | .enumv c n, w => match w with | .enumv c' n' => c == c' && n == n' | _ => false
  | .inst c a, w => match w with
      -- `Structure.__eq__` reads every key of the MERGED `__dict__`s back through `getattr` /
      -- `__dict__.get`: an attribute that is absent on one side equals one that is `None`
      | .inst c' a' => c == c' && attrsSubN a a' && a'.all (fun kv' => kv'.2.isNone || anyAttr a kv')
      | _ => false
  | .opaque t, w => match w with | .opaque t' => t == t' | _ => false
  | .bool a, w => match w.asNum with
      | some q => Q.eq (Q.ofInt (if a then 1 else 0)) q | Option.none => false
  | .int a, w => match w.asNum with | some q => Q.eq (Q.ofInt a) q | Option.none => false
  | .float a, w => match w.asNum with | some q => Q.eq a q | Option.none => false
  | .dec a, w => match w.asNum with | some q => Q.eq a q | Option.none => false
termination_by structural x _ => x
def pyEqList : List PyVal → List PyVal → Bool
  | [], w => w.isEmpty
  | x :: xs, w => match w with | y :: ys => pyEq x y && pyEqList xs ys | [] => false
termination_by structural x _ => x
/-- every element of the first list is `==` to some element of `b` -/
def subsetBy : List PyVal → List PyVal → Bool
  | [], _ => true
  | x :: xs, b => b.any (fun y => pyEq x y) && subsetBy xs b
termination_by structural x _ => x
/-- some element of the list is `==` to `y` -/
def anyEqL : List PyVal → PyVal → Bool
  | [], _ => false
  | x :: xs, y => pyEq x y || anyEqL xs y
termination_by structural x _ => x
def dictSub : List (PyVal × PyVal) → List (PyVal × PyVal) → Bool
  | [], _ => true
  | (k, v) :: rest, b => b.any (fun kv => pyEq k kv.1 && pyEq v kv.2) && dictSub rest b
termination_by structural x _ => x
/-- every attribute of the first list is `None` or has an `==` partner of the same name in `b` -/
def attrsSubN : List (String × PyVal) → List (String × PyVal) → Bool
  | [], _ => true
  | (k, v) :: rest, b =>
    (v.isNone || b.any (fun kv => k == kv.1 && pyEq v kv.2)) && attrsSubN rest b
termination_by structural x _ => x
/-- some attribute of the list has the name of `kv'` and is `==` to its value -/
def anyAttr : List (String × PyVal) → String × PyVal → Bool
  | [], _ => false
  | (k, v) :: rest, kv' => (k == kv'.1 && pyEq v kv'.2) || anyAttr rest kv'
termination_by structural x _ => x
end

/-- Python `x in xs` for a list (identity-or-`==`; identity implies `==` on this fragment). -/
def pyMem (x : PyVal) (xs : List PyVal) : Bool := xs.any (fun y => pyEq x y)

/-- all elements pairwise distinct under `==` (the `uniqueItems` scan). -/
def pyNodup : List PyVal → Bool
  | [] => true
  | x :: xs => !pyMem x xs && pyNodup xs

/-- the elements of a sized Python container, if it is one -/
def elems? : PyVal → Option (List PyVal)
  | .list xs | .tuple xs | .deque xs | .set _ xs => some xs
  | .dict kvs => some (kvs.map (·.1))
  | .str s => some (s.toList.map (fun c => .str (String.singleton c)))
  | _ => Option.none

/-- Python type name, used for canonical type tags -/
def tyName : PyVal → String
  | .none => "NoneType" | .bool _ => "bool" | .int _ => "int" | .float _ => "float"
  | .dec _ => "Decimal" | .str _ => "str" | .list _ => "list" | .tuple _ => "tuple"
  | .set false _ => "set" | .set true _ => "frozenset" | .dict _ => "dict" | .deque _ => "deque"
  | .enumv c _ => c | .inst c _ => c | .opaque _ => "object"

end PyVal

/-- association-list lookup by string key (first match) -/
def lookup {α} (k : String) : List (String × α) → Option α
  | [] => none
  | (k', v) :: rest => if k == k' then some v else lookup k rest

/-- replace-or-append, keeping the position of an existing key (Python dict assignment) -/
def assocSet {α} (k : String) (v : α) : List (String × α) → List (String × α)
  | [] => [(k, v)]
  | (k', v') :: rest => if k == k' then (k', v) :: rest else (k', v') :: assocSet k v rest

/-- `del d[k]` (keys are unique in a Python dict; all occurrences are dropped) -/
def assocDel {α} (k : String) : List (String × α) → List (String × α)
  | [] => []
  | (k', v') :: rest => if k == k' then assocDel k rest else (k', v') :: assocDel k rest

end Typedpy
