/- PINNED copy of Generated/SharedWrites.lean at the tree Sem/Sched.lean was last aligned with (for reviewers; refresh with extract/shared_writes.py --pin). -/
import TypedpyModel.Sem.SharedWrite
namespace Typedpy.Pinned
open Typedpy.Sched

def sharedWrites : List SharedWrite := [
  { path := "typedpy/fields/array.py", file := "array.py", func := "extract_field_value", attr := "_name", target := "self.items", valueKind := .ownerName, readBack := true },
  { path := "typedpy/fields/array.py", file := "array.py", func := "extract_field_value", attr := "_name", target := "self.items", valueKind := .perCall, readBack := true },
  { path := "typedpy/fields/array.py", file := "array.py", func := "Array.__set__", attr := "_name", target := "item", valueKind := .ownerName, readBack := true },
  { path := "typedpy/fields/array.py", file := "array.py", func := "Array.serialize", attr := "_serialize", target := "self", valueKind := .definitionOnly, readBack := true },
  { path := "typedpy/fields/deque_field.py", file := "deque_field.py", func := "Deque.__set__", attr := "_name", target := "item", valueKind := .ownerName, readBack := true },
  { path := "typedpy/fields/map_field.py", file := "map_field.py", func := "Map.__set__", attr := "_name", target := "key_field", valueKind := .ownerName, readBack := true },
  { path := "typedpy/fields/map_field.py", file := "map_field.py", func := "Map.__set__", attr := "_name", target := "value_field", valueKind := .ownerName, readBack := true },
  { path := "typedpy/fields/multified_wrappers.py", file := "multified_wrappers.py", func := "AllOf.__set__", attr := "_name", target := "field", valueKind := .ownerName, readBack := true },
  { path := "typedpy/fields/multified_wrappers.py", file := "multified_wrappers.py", func := "AnyOf.__set__", attr := "_name", target := "field", valueKind := .ownerName, readBack := true },
  { path := "typedpy/fields/multified_wrappers.py", file := "multified_wrappers.py", func := "AnyOf.serialize", attr := "_name", target := "field", valueKind := .ownerName, readBack := true },
  { path := "typedpy/fields/multified_wrappers.py", file := "multified_wrappers.py", func := "OneOf.__set__", attr := "_name", target := "field", valueKind := .ownerName, readBack := true },
  { path := "typedpy/fields/multified_wrappers.py", file := "multified_wrappers.py", func := "NotField.__set__", attr := "_name", target := "field", valueKind := .ownerName, readBack := true },
  { path := "typedpy/fields/set_field.py", file := "set_field.py", func := "Set.__set__", attr := "_name", target := "self.items", valueKind := .ownerName, readBack := true },
  { path := "typedpy/fields/set_field.py", file := "set_field.py", func := "Set.serialize", attr := "_serialize", target := "self", valueKind := .definitionOnly, readBack := true },
  { path := "typedpy/fields/set_field.py", file := "set_field.py", func := "ImmutableSet.__set__", attr := "_name", target := "self.items", valueKind := .ownerName, readBack := true },
  { path := "typedpy/fields/tuple_field.py", file := "tuple_field.py", func := "Tuple.__set__", attr := "_name", target := "item", valueKind := .perCall, readBack := true },
  { path := "typedpy/fields/tuple_field.py", file := "tuple_field.py", func := "Tuple.serialize", attr := "_serialize", target := "self", valueKind := .definitionOnly, readBack := true },
  { path := "typedpy/serialization/mappers.py", file := "mappers.py", func := "aggregate_serialization_mappers", attr := "aggregated_mapper_by_class", target := "<module>", valueKind := .keyedCache, readBack := true },
  { path := "typedpy/serialization/serialization.py", file := "serialization.py", func := "_structure_simplicity_level", attr := "<lru_cache>", target := "<module>", valueKind := .keyedCache, readBack := true },
  { path := "typedpy/serialization/serialization.py", file := "serialization.py", func := "_get_enum_mapping", attr := "<lru_cache>", target := "<module>", valueKind := .keyedCache, readBack := true },
  { path := "typedpy/serialization/serialization.py", file := "serialization.py", func := "_get_class_deserialization_mapping_for_simple_class", attr := "<lru_cache>", target := "<module>", valueKind := .keyedCache, readBack := true },
  { path := "typedpy/serialization/serialization.py", file := "serialization.py", func := "serialize_internal", attr := "<dynamic>", target := "cls", valueKind := .definitionOnly, readBack := false },
  { path := "typedpy/structures/structures.py", file := "structures.py", func := "UniqueMixin.__manage_uniqueness_for_field__", attr := "<container>", target := "instance_by_value_for_current_struct", valueKind := .keyedCache, readBack := false }
]

end Typedpy.Pinned
