/-
  Spec/Conforms.lean — declarative specification, written from the documentation (not from the
  code): when does a *stored* value satisfy a field declaration, recursively; and when is an
  instance well-formed for its class.  Used by C01 (soundness) and as the executable oracle that
  the driver evaluates on instances the real code produced.
-/
import TypedpyModel.Spec.Accepts
namespace Typedpy
open PyVal (pyEq pyMem pyNodup)

def cFloat (o : NumOpts) (v : PyVal) : Bool :=
  match v with | .float q => numOk o q | _ => false

def cBoolean (v : PyVal) : Bool := match v with | .bool _ => true | _ => false

def cEnumCls (cls : String) (names : List String) (v : PyVal) : Bool :=
  match v with | .enumv c n => c == cls && names.contains n | _ => false

def cSeq (k : SeqKind) (sz : SizeOpts) (pre : List PyVal → Bool) (c : List PyVal → Bool)
    (v : PyVal) : Bool :=
  match seqElems k v with
  | some xs => uniqOk sz.uniq xs && sizeOk sz xs.length && pre xs && c xs
  | none => false

def cSet (imm : Bool) (sz : SizeOpts) (c : List PyVal → Bool) (v : PyVal) : Bool :=
  match v with
  | .set fr xs => (!imm || fr) && sizeOk sz xs.length && c xs
  | _ => false

def cTuple (uniq : Bool) (pre : List PyVal → Bool) (c : List PyVal → Bool) (v : PyVal) : Bool :=
  match v with
  | .tuple xs => uniqOk uniq xs && pre xs && c xs
  | _ => false

def cMap (sz : SizeOpts) (c : List (PyVal × PyVal) → Bool) (v : PyVal) : Bool :=
  match v with
  | .dict kvs => sizeOk sz kvs.length && c kvs
  | _ => false

/-- required present, set fields conform (`fieldsOk`), no undeclared attribute unless allowed -/
def wfAttrs (c : ClassOpts) (names : List String) (attrs : List (String × PyVal))
    (fieldsOk : Bool) : Bool :=
  c.required.all (fun r => (lookup r attrs).isSome)
  && fieldsOk
  && (c.addl || attrs.all (fun a => names.contains a.1))

def cInline (c : ClassOpts) (v : PyVal) (k : List (String × PyVal) → Bool) : Bool :=
  match v with
  | .inst c' attrs => c' == c.name && k attrs
  | _ => false

mutual
/-- the stored value `v` satisfies declaration `f` (type, constraints, normal form), recursively -/
def conforms (O : Oracles) : FieldDecl → PyVal → Bool
  | .number o, v => aNumber o v
  | .integer o, v => aInteger o v
  | .float o, v => cFloat o v
  | .string lo hi pat, v => aString O lo hi pat v
  | .boolean, v => cBoolean v
  | .enumLit vals, v => pyMem v vals
  | .enumCls cls names, v => cEnumCls cls names v
  | .seqAny k sz, v => cSeq k sz (fun _ => true) (fun _ => true) v
  | .seqOf k f sz, v => cSeq k sz (fun _ => true) (fun xs => xs.all (conforms O f)) v
  | .seqPos k fs addl sz, v =>
    cSeq k sz (fun xs => decide (fs.length ≤ xs.length) && (addl || decide (xs.length ≤ fs.length)))
      (conformsZip O fs) v
  | .setAny imm sz, v => cSet imm sz (fun _ => true) v
  | .setOf imm f sz, v => cSet imm sz (fun xs => xs.all (conforms O f)) v
  | .tupleOf f uniq, v => cTuple uniq (fun _ => true) (fun xs => xs.all (conforms O f)) v
  | .tuplePos fs uniq, v => cTuple uniq (fun xs => fs.length == xs.length) (conformsZip O fs) v
  | .mapAny sz, v => cMap sz (fun _ => true) v
  | .mapOf kf vf sz, v =>
    cMap sz (fun kvs => kvs.all (fun kv => conforms O kf kv.1 && conforms O vf kv.2)) v
  | .struct c fields _, v =>
    if c.inline then
      cInline c v (fun attrs => wfAttrs c (fields.map (·.1)) attrs (fieldsConform O attrs fields))
    else aClassRef c v
  | .anyOf fs, v => conformsAny O fs v
  | .oneOf fs, v => countAdmits O fs v == 1
  | .allOf fs, v => admitsAll O fs v
  | .notF fs, v => countAdmits O fs v == 0
  | .noneF, v => v.isNone
  | .anything, _ => true
termination_by structural f _ => f

def conformsZip (O : Oracles) : List FieldDecl → List PyVal → Bool
  | [], _ => true
  | _ :: _, [] => true
  | f :: fs, x :: xs => conforms O f x && conformsZip O fs xs
termination_by structural fs _ => fs

def conformsAny (O : Oracles) : List FieldDecl → PyVal → Bool
  | [], _ => false
  | f :: fs, v => conforms O f v || conformsAny O fs v
termination_by structural fs _ => fs

/-- every declared field that is set holds a conforming value -/
def fieldsConform (O : Oracles) (attrs : List (String × PyVal)) : List (String × FieldDecl) → Bool
  | [] => true
  | (name, f) :: rest =>
    (match lookup name attrs with
      | some v => conforms O f v
      | none => true) && fieldsConform O attrs rest
termination_by structural fs => fs
end

/-- an instance value is well-formed for the class declaration `cls`: required fields present,
    every set field conforms, no undeclared attribute when additional properties are off -/
def wellFormed (O : Oracles) (cls : FieldDecl) (x : PyVal) : Bool :=
  match cls with
  | .struct c fields _ =>
    cInline c x (fun attrs => wfAttrs c (fields.map (·.1)) attrs (fieldsConform O attrs fields))
  | _ => false

end Typedpy
