/-
  Spec/TrustedSafe.lean — the region on which property C10's trusted-deserialization claim is
  PROVED (Props/C10.lean), as two decidable predicates, and the names of the known defects that
  make up its complement (the driver evaluates all of this on every case, so that a violation
  observed on the real code INSIDE the region, or outside it without a named defect, is a new
  violation, never a known finding).

  * `tsafeCls cls`      — declaration level: `cls` (and every class nested in it) only uses field
                          shapes the trusted branch handles like the regular path;
  * `plainDoc opts cls d` — document level: `d` is JSON, every nested object supplies a non-null
                          value for each field that has a default, holds no key the regular path
                          would keep as an undeclared attribute, gives a Boolean field no
                          'True'/'False' string and a Float field no integer.
-/
import TypedpyModel.Sem.Trusted
import TypedpyModel.Spec.WfDecl
import TypedpyModel.Spec.SerFrag
namespace Typedpy

/-- Array items stored as they are by both paths -/
def isArrScalar : FieldDecl → Bool
  | .integer _ | .number _ | .float _ | .string _ _ _ | .boolean | .noneF => true
  | _ => false

/-- Set items the trusted branch turns into a set as they are (`set(v)`) -/
def isSetScalarOk : FieldDecl → Bool
  | .integer _ | .number _ | .float _ | .string _ _ _ | .boolean => true
  | _ => false

/-- scalars the regular path stores unchanged: the options of a non-optional `AnyOf`, which the
    trusted branch never looks at -/
def isRawScalar : FieldDecl → Bool
  | .integer _ | .number _ | .float _ | .string _ _ _ | .boolean | .enumLit _ => true
  | _ => false

/-- an ImmutableSet field: the trusted instance holds a plain set, which the field's `_validate`
    refuses (finding `unnormalised:optional-immutable-set` when it is the option of an Optional) -/
def isSetDecl : FieldDecl → Bool
  | .setOf imm _ _ | .setAny imm _ => imm
  | _ => false

mutual
/-- a field shape (no `AnyOf`) the trusted branch treats like the regular path -/
def tsafeD : FieldDecl → Bool
  | .integer _ => true
  | .number _ => true
  | .float _ => true
  | .string _ _ _ => true
  | .boolean => true
  | .noneF => true
  | .enumLit _ => true
  | .enumCls _ names => !names.contains ""
  | .seqOf .list item _ =>
    isArrScalar item || (isEnumDecl item && tsafeD item) || (isClassRef item && tsafeD item)
  | .seqOf .deque _ _ => false
  | .setOf _ item _ => isSetScalarOk item || (isEnumDecl item && tsafeD item)
  | .struct c fields _ =>
    !c.inline && strNodup (fields.map (·.1)) && tsafeFields fields
  | .anyOf _ => false
  | .seqAny _ _ => false
  | .seqPos _ _ _ _ => false
  | .setAny _ _ => false
  | .tupleOf _ _ => false
  | .tuplePos _ _ => false
  | .mapAny _ => false
  | .mapOf _ _ _ => false
  | .oneOf _ => false
  | .allOf _ => false
  | .notF _ => false
  | .anything => false
termination_by structural f => f

/-- the options of an optional `AnyOf`: `[X, NoneField]` or `[NoneField, X]` with `X` safe (and
    not an ImmutableSet: that option refuses the plain set the trusted instance holds) -/
def tsafeOpt : List FieldDecl → Bool
  | [] => false
  | x :: rest =>
    (match rest with
      | [y] => (isNoneF y && tsafeD x && !isSetDecl x)
               || (isNoneF x && !isNoneF y && tsafeOptTail rest)
      | _ => false)
termination_by structural fs => fs

def tsafeOptTail : List FieldDecl → Bool
  | [] => false
  | y :: _ => tsafeD y && !isSetDecl y
termination_by structural fs => fs

def tsafeFields : List (String × FieldDecl) → Bool
  | [] => true
  | (_, f) :: rest =>
    (match f with
      | .anyOf fs =>
        -- optional: through the non-None option; any other `AnyOf` is kept raw, which is what the
        -- regular path stores when every option is a scalar stored unchanged
        if isOptAnyOf fs then tsafeOpt fs else fs.all (fun g => isRawScalar g || isNoneF g)
      | g => tsafeD g) && tsafeFields rest
termination_by structural fs => fs
end

/-- the declaration-level half of the proved region -/
def tsafeCls (cls : FieldDecl) : Bool :=
  match cls with
  | .struct _ _ _ => tsafeD cls
  | _ => false

def isStrV : PyVal → Bool
  | .str _ => true
  | _ => false
def isIntV : PyVal → Bool
  | .int _ => true
  | _ => false

def noDefault (defaults : List (String × PyVal)) (n : String) : Bool :=
  match lookup n defaults with
  | none => true
  | some d => d.isNone

mutual
/-- the document-level half of the proved region, for the non-null value `v` of a field `f` -/
def plainV (opts : DeserOpts) : FieldDecl → PyVal → Bool
  | .boolean, v => !isStrV v
  | .float _, v => !isIntV v
  | .enumCls _ _, v => isStrV v
  | .seqOf _ item _, v => (match v with | .list xs => xs.all (plainV opts item) | _ => false)
  | .setOf _ item _, v => (match v with | .list xs => xs.all (plainV opts item) | _ => false)
  | .struct c fields defaults, v =>
    (match v with
      | .dict kvs => (match kwOfDict kvs with
        | some doc => (deserExtras opts c (fields.map (·.1)) doc).isEmpty
                      && plainFields opts defaults doc fields
        | none => false)
      | _ => false)
  | .anyOf fs, v => plainAll opts fs v
  | .integer _, _ => true
  | .number _, _ => true
  | .string _ _ _, _ => true
  | .enumLit _, _ => true
  | .noneF, _ => true
  | .seqAny _ _, _ => true
  | .seqPos _ _ _ _, _ => true
  | .setAny _ _, _ => true
  | .tupleOf _ _, _ => true
  | .tuplePos _ _, _ => true
  | .mapAny _, _ => true
  | .mapOf _ _ _, _ => true
  | .oneOf _, _ => true
  | .allOf _, _ => true
  | .notF _, _ => true
  | .anything, _ => true
termination_by structural f _ => f

/-- every option's condition (only one option of an optional `AnyOf` is not `NoneField`) -/
def plainAll (opts : DeserOpts) : List FieldDecl → PyVal → Bool
  | [], _ => true
  | f :: fs, v => plainV opts f v && plainAll opts fs v
termination_by structural fs _ => fs

def plainFields (opts : DeserOpts) (defaults : List (String × PyVal)) (doc : List (String × PyVal)) :
    List (String × FieldDecl) → Bool
  | [] => true
  | (n, f) :: rest =>
    (match lookup n doc with
      | none => noDefault defaults n
      | some v => if v.isNone then noDefault defaults n else plainV opts f v)
    && plainFields opts defaults doc rest
termination_by structural fs => fs
end

def plainDoc (opts : DeserOpts) (cls : FieldDecl) (d : PyVal) : Bool := plainV opts cls d

/-! ### names of the known defects (driver only; no theorem depends on these) -/

/-- what the non-None option of an optional `AnyOf` adds -/
def optDefect (fs : List FieldDecl) : List String :=
  if isOptAnyOf fs then
    (match optPick fs with
      | .setOf imm _ _ =>
        -- the trusted instance holds a plain set: an ImmutableSet option no longer validates it
        if imm then ["unnormalised:optional-immutable-set"] else []
      | _ => [])
  else if fs.all (fun g => isRawScalar g || isNoneF g) then []
  else if fs.all isValidCls then ["unnormalised:anyof-enum"]      -- an Enum class option: names stay strings
  else ["ineligible-shape"]

mutual
/-- the known defects a field declaration runs into -/
def defectsD : FieldDecl → List String
  | .enumCls _ names => if names.contains "" then ["enum:empty-name"] else []
  | .seqOf .list item _ =>
    if isArrScalar item then []
    else if isEnumDecl item then defectsD item
    else if isClassRef item then defectsD item
    else ["ineligible-shape"]
  | .setOf _ item _ =>
    if isSetScalarOk item then []
    else if isEnumDecl item then defectsD item
    else if isClassRef item then "set-of-structures:unproved" :: defectsD item
    else if isNoneF item then ["set-of-none:unproved"]
    else ["ineligible-shape"]
  | .setAny _ _ => ["ineligible-shape"]
  | .struct c fields _ =>
    if c.inline then ["ineligible-shape"]
    else (if strNodup (fields.map (·.1)) then [] else ["duplicate-field-names"]) ++ defectsFields fields
  | .integer _ => []
  | .number _ => []
  | .float _ => []
  | .string _ _ _ => []
  | .boolean => []
  | .noneF => []
  | .enumLit _ => []
  | .anyOf _ => ["ineligible-shape"]
  | .seqOf .deque _ _ => ["ineligible-shape"]
  | .seqAny _ _ => ["ineligible-shape"]
  | .seqPos _ _ _ _ => ["ineligible-shape"]
  | .tupleOf _ _ => ["ineligible-shape"]
  | .tuplePos _ _ => ["ineligible-shape"]
  | .mapAny _ => ["ineligible-shape"]
  | .mapOf _ _ _ => ["ineligible-shape"]
  | .oneOf _ => ["ineligible-shape"]
  | .allOf _ => ["ineligible-shape"]
  | .notF _ => ["ineligible-shape"]
  | .anything => ["ineligible-shape"]
termination_by structural f => f

/-- the defects of the non-None option of an optional `AnyOf` -/
def defectsHead : List FieldDecl → List String
  | [] => []
  | x :: rest =>
    (match rest with
      | [y] => if isNoneF y then defectsD x else defectsD y
      | _ => [])
termination_by structural fs => fs

def defectsFields : List (String × FieldDecl) → List String
  | [] => []
  | (_, f) :: rest =>
    (match f with
      | .anyOf fs => optDefect fs ++ (if isOptAnyOf fs then defectsHead fs else [])
      | g => defectsD g) ++ defectsFields rest
termination_by structural fs => fs
end

def declDefects (cls : FieldDecl) : List String := (defectsD cls).eraseDups

mutual
/-- the document-level conditions `v` misses -/
def issuesV (opts : DeserOpts) : FieldDecl → PyVal → List String
  | .boolean, v => if isStrV v then ["unnormalised:boolean-string"] else []
  | .float _, v => if isIntV v then ["unnormalised:float-int"] else []
  | .enumCls _ _, v => if isStrV v then [] else ["non-json-document"]
  | .seqOf _ item _, v =>
    (match v with | .list xs => (xs.map (issuesV opts item)).flatten | _ => ["non-json-document"])
  | .setOf _ item _, v =>
    (match v with | .list xs => (xs.map (issuesV opts item)).flatten | _ => ["non-json-document"])
  | .struct c fields defaults, v =>
    (match v with
      | .dict kvs => (match kwOfDict kvs with
        | some doc =>
          (if (deserExtras opts c (fields.map (·.1)) doc).isEmpty then [] else ["dropped:undeclared-keys"])
          ++ issuesFields opts defaults doc fields
        | none => ["non-json-document"])
      | _ => ["non-json-document"])
  | .anyOf fs, v => issuesAll opts fs v
  | .integer _, _ => []
  | .number _, _ => []
  | .string _ _ _, _ => []
  | .enumLit _, _ => []
  | .noneF, _ => []
  | .seqAny _ _, _ => []
  | .seqPos _ _ _ _, _ => []
  | .setAny _ _, _ => []
  | .tupleOf _ _, _ => []
  | .tuplePos _ _, _ => []
  | .mapAny _, _ => []
  | .mapOf _ _ _, _ => []
  | .oneOf _, _ => []
  | .allOf _, _ => []
  | .notF _, _ => []
  | .anything, _ => []
termination_by structural f _ => f

def issuesAll (opts : DeserOpts) : List FieldDecl → PyVal → List String
  | [], _ => []
  | f :: fs, v => issuesV opts f v ++ issuesAll opts fs v
termination_by structural fs _ => fs

def issuesFields (opts : DeserOpts) (defaults : List (String × PyVal)) (doc : List (String × PyVal)) :
    List (String × FieldDecl) → List String
  | [] => []
  | (n, f) :: rest =>
    (match lookup n doc with
      | none => if noDefault defaults n then [] else ["defaults-not-applied"]
      | some v => if v.isNone then (if noDefault defaults n then [] else ["defaults-not-applied"])
                  else issuesV opts f v)
    ++ issuesFields opts defaults doc rest
termination_by structural fs => fs
end

def docIssues (opts : DeserOpts) (cls : FieldDecl) (d : PyVal) : List String :=
  (issuesV opts cls d).eraseDups


/-! ### trusted construction: the explicit normalisation side condition -/

mutual
/-- the constructor stores the argument `v` of field `f` as it is: no Float ← int, Boolean ←
    'True'/'False', Enum ← member name, StructureReference ← dict; a collection the constructor
    rebuilds (Set, Map, positional items) is already in its stored form -/
def rawOkV : FieldDecl → PyVal → Bool
  | .float _, v => !isIntV v
  | .boolean, v => !isStrV v
  | .enumCls _ _, v => !isStrV v
  | .seqOf k item _, v => (match seqElems k v with | some xs => xs.all (rawOkV item) | none => true)
  | .tupleOf item _, v => (match v with | .tuple xs => xs.all (rawOkV item) | _ => true)
  | .struct c _ _, _ => !c.inline
  | .anyOf fs, v => rawOkAll fs v
  | .integer _, _ => true
  | .number _, _ => true
  | .string _ _ _, _ => true
  | .enumLit _, _ => true
  | .noneF, _ => true
  | .seqAny _ _, _ => true
  | .oneOf _, _ => true
  | .allOf _, _ => true
  | .notF _, _ => true
  | .anything, _ => true
  -- collections the constructor rebuilds: rebuilt identically from a value that is already in the
  -- stored form (a set / frozenset of the right mutability without repeated elements, a tuple / list
  -- of raw-ok elements, a dict with pairwise different string keys)
  | .seqPos k items _ _, v => (match seqElems k v with | some xs => rawOkZip items xs | none => true)
  | .setAny imm _, v => (match v with | .set fr xs => (fr || !imm) && PyVal.pyNodup xs | _ => true)
  | .setOf imm item _, v =>
    (match v with | .set fr xs => (fr || !imm) && PyVal.pyNodup xs && xs.all (rawOkV item) | _ => true)
  | .tuplePos items _, v => (match v with | .tuple xs => rawOkZip items xs | _ => true)
  | .mapAny _, v => (match v with | .dict kvs => strKeysDistinct kvs | _ => true)
  | .mapOf kf vf _, v =>
    (match v with
      | .dict kvs => strKeysDistinct kvs && kvs.all (fun kv => rawOkV kf kv.1 && rawOkV vf kv.2)
      | _ => true)
termination_by structural f _ => f
def rawOkAll : List FieldDecl → PyVal → Bool
  | [], _ => true
  | f :: fs, v => rawOkV f v && rawOkAll fs v
termination_by structural fs _ => fs
def rawOkZip : List FieldDecl → List PyVal → Bool
  | [], _ => true
  | _ :: _, [] => true
  | f :: fs, x :: xs => rawOkV f x && rawOkZip fs xs
termination_by structural fs _ => fs
end

def storedFields (defaults kw : List (String × PyVal)) : List (String × FieldDecl) → Bool
  | [] => true
  | (n, f) :: rest =>
    (match lookup n kw with
      | none => noDefault defaults n
      | some v => rawOkV f v && (!v.isNone || noDefault defaults n)) && storedFields defaults kw rest

/-- the keyword arguments are already in the form the constructor stores: every argument is a
    declared field's, passes `rawOkV`, and no field that is omitted (or given None) has a default
    (an unset attribute reads as the default, an attribute holding None as None) -/
def storedKw (cls : FieldDecl) (kw : List (String × PyVal)) : Bool :=
  match cls with
  | .struct _ fields defaults =>
    kw.all (fun a => (fields.map (·.1)).contains a.1) && storedFields defaults kw fields
  | _ => false

mutual
def rawIssuesV : FieldDecl → PyVal → List String
  | .float _, v => if isIntV v then ["unnormalised:float-int"] else []
  | .boolean, v => if isStrV v then ["unnormalised:boolean-string"] else []
  | .enumCls _ _, v => if isStrV v then ["unnormalised:enum-name"] else []
  | .seqOf k item _, v =>
    (match seqElems k v with | some xs => (xs.map (rawIssuesV item)).flatten | none => [])
  | .tupleOf item _, v =>
    (match v with | .tuple xs => (xs.map (rawIssuesV item)).flatten | _ => [])
  | .struct c _ _, _ => if c.inline then ["unnormalised:inline-dict"] else []
  | .anyOf fs, v => rawIssuesAll fs v
  | .integer _, _ => []
  | .number _, _ => []
  | .string _ _ _, _ => []
  | .enumLit _, _ => []
  | .noneF, _ => []
  | .seqAny _ _, _ => []
  | .oneOf _, _ => []
  | .allOf _, _ => []
  | .notF _, _ => []
  | .anything, _ => []
  | .seqPos k items x y, v =>
    (if rawOkV (.seqPos k items x y) v then [] else ["rebuilt-collection:unproved"])
      ++ (match seqLike v with | some xs => rawIssuesZip items xs | none => [])
  | .setAny imm x, v => if rawOkV (.setAny imm x) v then [] else ["rebuilt-collection:unproved"]
  | .setOf imm item x, v =>
    (if rawOkV (.setOf imm item x) v then [] else ["rebuilt-collection:unproved"])
      ++ (match seqLike v with | some xs => (xs.map (rawIssuesV item)).flatten | none => [])
  | .tuplePos items x, v =>
    (if rawOkV (.tuplePos items x) v then [] else ["rebuilt-collection:unproved"])
      ++ (match seqLike v with | some xs => rawIssuesZip items xs | none => [])
  | .mapAny x, v => if rawOkV (.mapAny x) v then [] else ["rebuilt-collection:unproved"]
  | .mapOf kf vf x, v =>
    (if rawOkV (.mapOf kf vf x) v then [] else ["rebuilt-collection:unproved"])
      ++ (match v with
          | .dict kvs => (kvs.map fun kv => rawIssuesV kf kv.1 ++ rawIssuesV vf kv.2).flatten
          | _ => [])
termination_by structural f _ => f
def rawIssuesAll : List FieldDecl → PyVal → List String
  | [], _ => []
  | f :: fs, v => rawIssuesV f v ++ rawIssuesAll fs v
termination_by structural fs _ => fs
def rawIssuesZip : List FieldDecl → List PyVal → List String
  | [], _ => []
  | _ :: _, [] => []
  | f :: fs, x :: xs => rawIssuesV f x ++ rawIssuesZip fs xs
termination_by structural fs _ => fs
end

def kwIssues (cls : FieldDecl) (kw : List (String × PyVal)) : List String :=
  match cls with
  | .struct _ fields defaults =>
    ((if kw.all (fun a => (fields.map (·.1)).contains a.1) then [] else ["dropped:undeclared-keys"])
      ++ (fields.map fun p => match lookup p.1 kw with
            | none => if noDefault defaults p.1 then [] else ["defaults-not-applied"]
            | some v => rawIssuesV p.2 v
                        ++ (if v.isNone && !noDefault defaults p.1 then ["defaults-not-applied"] else [])).flatten).eraseDups
  | _ => ["not-a-class"]


/-! ### documents of classes with mappers, read back to field names: `untrV Mp cls d` is the
    document `d` with the keys of every class-level object translated back to field names by that
    class's own simple mapper (declared fields first, in field order, then the other entries).
    Props/C10.lean: `trusted_mapper_factor` (the trusted path with mappers is the mapper-free
    trusted path on this document) and `deserializeMapped` (the regular path with per-class
    simple mappers on documents spelled with the classes' own keys). -/

def isContainerD : FieldDecl → Bool
  | .struct _ _ _ | .seqOf _ _ _ | .setOf _ _ _ => true
  | _ => false

/-- the entries of a keyword list as a dict -/
def dictOfKw (kw : List (String × PyVal)) : PyVal := .dict (kw.map fun a => (PyVal.str a.1, a.2))

mutual
def untrV (Mp : MapEnv) : FieldDecl → PyVal → PyVal
  | .struct c fields _, v =>
    if c.inline then v
    else (match v with
      | .dict kvs => (match kwOfDict kvs with
        | some doc =>
          dictOfKw (untrKw Mp (remapDoc (Mp c.name) (fields.map (·.1)) doc) fields
            ++ (remapDoc (Mp c.name) (fields.map (·.1)) doc).filter fun a => !(fields.map (·.1)).contains a.1)
        | none => v)
      | _ => v)
  | .seqOf _ item _, v => (match v with | .list xs => .list (xs.map (untrV Mp item)) | _ => v)
  | .setOf _ item _, v => (match v with | .list xs => .list (xs.map (untrV Mp item)) | _ => v)
  | .anyOf fs, v => untrFirst Mp fs v
  | .integer _, v => v
  | .number _, v => v
  | .float _, v => v
  | .string _ _ _, v => v
  | .boolean, v => v
  | .enumLit _, v => v
  | .enumCls _ _, v => v
  | .noneF, v => v
  | .seqAny _ _, v => v
  | .seqPos _ _ _ _, v => v
  | .setAny _ _, v => v
  | .tupleOf _ _, v => v
  | .tuplePos _ _, v => v
  | .mapAny _, v => v
  | .mapOf _ _ _, v => v
  | .oneOf _, v => v
  | .allOf _, v => v
  | .notF _, v => v
  | .anything, v => v
termination_by structural f _ => f
def untrFirst (Mp : MapEnv) : List FieldDecl → PyVal → PyVal
  | [], v => v
  | f :: fs, v => if isContainerD f then untrV Mp f v else untrFirst Mp fs v
termination_by structural fs _ => fs
def untrKw (Mp : MapEnv) (doc : List (String × PyVal)) : List (String × FieldDecl) → List (String × PyVal)
  | [] => []
  | (n, f) :: rest =>
    (match lookup n doc with
      | some v => [(n, untrV Mp f v)]
      | none => []) ++ untrKw Mp doc rest
termination_by structural fs => fs
end

/-- **the regular path with key-renaming mappers**, on documents spelled with every class's own
    keys: each class-level object is read through its class's mapper (`_deserialization_mapper`,
    else `_serialization_mapper`, declared or inherited: `MapperDecl.resolved`), then deserialized
    by the mapper-free regular path `Sem/Deser.deserialize`.  Outside this description (known
    findings `mapper:cascade`, `mapper:base-chain`, `mapper:fallback`): TO_CAMELCASE / TO_LOWERCASE
    of an enclosing class reaching nested classes, a parent's mapper chained with the class's own,
    documents that also spell a renamed field by its field name. -/
def deserializeMapped (Mp : MapEnv) (O : Oracles) (opts : DeserOpts) (cls : FieldDecl) (d : PyVal) : R PyVal :=
  deserialize O opts cls (untrV Mp cls d)

end Typedpy
