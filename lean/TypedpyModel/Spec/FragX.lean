/-
  Spec/FragX.lean — the stored values of the extension kinds on which the round trip is exact, as a
  decidable predicate on (XDecl, stored value):
  * `base f`: a conforming value of the core fragment `inFrag`;
  * `DecimalNumber`: a Decimal within the bounds that a double represents exactly (`float(d) == d`: the
    serialized form is `float(d)`, so any other Decimal comes back changed — the lossy clause);
  * `Enum` by value: a member whose value is a JSON scalar and is not `==` to the value of a member
    listed before it (the by-value table finds it back);
  * `DateField` / `DateTime`: a value of the field's type whose `strftime` text `strptime` reads back;
  * `Enum` by name over a mixin enum class: a member; DateString / TimeString / IPV4 / HostName: a str that
    passes the format test;
  * `AnyOf[X, NoneField]`: None (when `X` itself refuses None) or a value of `X`'s fragment;
  * Array / Deque / Set / Map with String keys / positional Tuple / nested classes over these, any depth.
-/
import TypedpyModel.Sem.SerdeX
import TypedpyModel.Spec.SerFrag
namespace Typedpy
open PyVal (pyEq)

/-- member `n` exists, its value is a JSON scalar and the by-value lookup of that value finds `n` -/
def xMemberOk (ms : List (String × PyVal)) (n : String) : Bool :=
  match lookup n ms with
  | some val => xScalarJson val && (xFindByValue ms val == some n)
  | none => false

/-- core scalar declarations that refuse None (constructor and deserializer alike) -/
def xPlainBase : FieldDecl → Bool
  | .number _ => true
  | .integer _ => true
  | .float _ => true
  | .string _ _ _ => true
  | .boolean => true
  | .enumCls _ _ => true
  | _ => false

/-- the declaration refuses None: `AnyOf[X, NoneField]` then reads a null as None -/
def xNoNone : XDecl → Bool
  | .base f => xPlainBase f
  | .decimal _ => true
  | .enumVal _ ms _ => !(ms.any fun m => pyEq .none m.2)
  | .temporal _ _ _ => true
  | .enumName _ ms _ => !(ms.any fun m => pyEq .none m.2)
  | .fmtStr _ _ => true
  | .opt _ => false
  | .anyOf _ => false
  | .seqOf _ _ => true
  | .setOf _ => true
  | .mapStr _ => true
  | .tuplePos _ => true
  | .struct _ _ => true
  | .structU _ _ => true

/-- JSON types the deserializer of an extension declaration can possibly accept WITHOUT the model answering
    "not modelled" (`true` wherever the top-level shape does not decide) -/
def acceptsDocX : XDecl → DocKind → Bool
  | _, .other => true
  | .base f, k => acceptsDoc f k
  | .decimal _, k => !(k == .null || k == .dict)
  | .enumVal _ _ _, k => !(k == .list || k == .dict)
  | .temporal _ _ ints, k => k == .str || (ints && k == .int)
  | .enumName _ _ _, _ => true
  | .fmtStr _ strict, k => k == .str || (!strict && (k == .list || k == .dict))
  | .opt _, _ => true
  | .anyOf _, _ => true
  | .seqOf _ _, k => k == .list
  | .setOf _, k => k == .list
  | .mapStr _, k => k == .dict
  | .tuplePos _, k => k == .list
  | .struct _ _, k => k == .dict
  | .structU _ _, k => k == .dict

mutual
def xFrag (XO : XOracles) : XDecl → PyVal → Bool
  | .base f, v => conforms XO.base f v && inFrag XO.base f v
  | .decimal o, v =>
    (match v with
      | .dec q => numOk o q && decide (XO.toFloat q = q)
      | _ => false)
  | .enumVal cls ms _, v =>
    (match v with
      | .enumv c n => c == cls && xMemberOk ms n
      | _ => false)
  | .temporal ty fmt _, v =>
    (match v with
      | .opaque t => xIsKind XO ty t && (XO.parse ty fmt (XO.format ty fmt t) == some t)
      | _ => false)
  | .enumName cls ms _, v =>
    (match v with
      | .enumv c n => c == cls && (ms.map (·.1)).contains n
      | _ => false)
  | .fmtStr kind _, v =>
    (match v with
      | .str s => XO.fmtOk kind s
      | _ => false)
  | .opt x, v => if v.isNone then xNoNone x else xFrag XO x v
  | .anyOf xs, v => xFragAny XO xs v
  | .seqOf k x, v =>
    (match seqElems k v with
      | some xs => xs.all (xFrag XO x)
      | none => false)
  | .setOf x, v =>
    (match v with
      | .set fr xs => !fr && PyVal.pyNodup xs && !(xs.any unhashable) && xs.all (xFrag XO x)
      | _ => false)
  | .mapStr x, v =>
    (match v with
      | .dict kvs => strKeysDistinct kvs && kvs.all (fun kv => xFrag XO x kv.2)
      | _ => false)
  | .tuplePos xs, v =>
    (match v with
      | .tuple ys => ys.length == xs.length && xFragZip XO xs ys
      | _ => false)
  | .struct c fields, v =>
    c.accepts.contains c.name && decide ((fields.map (·.1)).Nodup)
      && (match v with
          | .inst n attrs =>
            n == c.name && c.required.all (fun r => (lookup r attrs).isSome)
              && xCanonAttrs XO c fields attrs
          | _ => false)
  | .structU _ _, _ => false      -- (_enable_undefined_value classes: modelled and corresponded, not in the proved fragment)
termination_by structural x _ => x

/-- `AnyOf[x₁, …, xₙ]` holding `v`: some option owns the value - its `_validate` passes and `v` lies in its
    fragment - and every option listed before it is skipped by all three passes: by the serializer (its
    `_validate` fails, or its serialization raises), by the constructor (its validation raises) and by the
    deserializer (it cannot accept a document of the JSON type produced) -/
def xFragAny (XO : XOracles) : List XDecl → PyVal → Bool
  | [], _ => false
  | x :: xs, v =>
    (shallowOkX XO x v && xFrag XO x v)
    || ((!shallowOkX XO x v || (match serX XO x v with | .error e => !xOutside e | .ok _ => false))
        && (match validateX XO x v with | .error e => !xOutside e | .ok _ => false)
        && (match serAnyX XO xs v with
            | .ok j => !acceptsDocX x (docKind j)
            | .error _ => false)
        && xFragAny XO xs v)
termination_by structural xs _ => xs

def xFragZip (XO : XOracles) : List XDecl → List PyVal → Bool
  | [], _ => true
  | _ :: _, [] => true
  | x :: xs, y :: ys => xFrag XO x y && xFragZip XO xs ys
termination_by structural xs _ => xs

/-- the attribute list as the constructor builds it: declared fields only, in field order, every set
    value not None and in the fragment, every unset field optional -/
def xCanonAttrs (XO : XOracles) (c : ClassOpts) :
    List (String × XDecl) → List (String × PyVal) → Bool
  | [], attrs => attrs.isEmpty
  | (n, _) :: rest, [] => absentOk c [] n && xCanonAttrs XO c rest []
  | (n, x) :: rest, (m, v) :: as =>
    if m == n then !v.isNone && xFrag XO x v && xCanonAttrs XO c rest as
    else absentOk c [] n && xCanonAttrs XO c rest ((m, v) :: as)
termination_by structural fs _ => fs
end

end Typedpy
