/-
  Spec/Accepts.lean — declarative specification of the documented accept decision (`admits`) and
  documented normal form (`norm`) of every field type, written from the documentation:
  type, minimum/maximum/exclusiveMaximum/multiplesOf, minLength/maxLength/pattern,
  minItems/maxItems/uniqueItems/additionalItems, per-position / per-element item fields, key and
  value fields, enum membership, all-of/any-of/one-of/not, required and additional properties,
  None only where configured.  No error classes, no check order.
-/
import TypedpyModel.Sem.Validate
namespace Typedpy
open PyVal (pyEq pyMem pyNodup)

def patOk (O : Oracles) (pat : Option String) (s : String) : Bool :=
  match pat with | none => true | some p => O.reMatch p s

/-! ### shape functions -/

def aNumber (o : NumOpts) (v : PyVal) : Bool :=
  match v.asNum with | some q => numOk o q | none => false

def aInteger (o : NumOpts) (v : PyVal) : Bool :=
  match v with
  | .int i => numOk o (Q.ofInt i)
  | .bool b => numOk o (Q.ofInt (if b then 1 else 0))
  | _ => false

def aFloat (o : NumOpts) (v : PyVal) : Bool :=
  match v with
  | .int i => numOk o (Q.ofInt i)
  | .float q => numOk o q
  | _ => false

/-- `Float` reads back a float -/
def nFloat (v : PyVal) : PyVal := match v with | .int i => .float (Q.ofInt i) | _ => v

def aString (O : Oracles) (lo hi : Option Nat) (pat : Option String) (v : PyVal) : Bool :=
  match v with
  | .str s => geLen lo s.length && leLen hi s.length && patOk O pat s
  | _ => false

def aBoolean (v : PyVal) : Bool :=
  match v with
  | .bool _ => true
  | .str s => s == "True" || s == "False"
  | _ => false

/-- `Boolean` reads back a bool for 'True' / 'False' -/
def nBoolean (v : PyVal) : PyVal :=
  match v with
  | .str s => if s == "True" then .bool true else if s == "False" then .bool false else v
  | _ => v

def aEnumCls (cls : String) (names : List String) (v : PyVal) : Bool :=
  match v with
  | .str n => names.contains n
  | .enumv c n => c == cls && names.contains n
  | _ => false

/-- an enum name reads back as the member -/
def nEnumCls (cls : String) (v : PyVal) : PyVal := match v with | .str n => .enumv cls n | _ => v

/-- sequence fields: right container type, unique (before and after normalisation), size, the
    positional length rule `pre`, and the elements admitted (`a`) -/
def aSeq (k : SeqKind) (sz : SizeOpts) (pre : List PyVal → Bool) (a : List PyVal → Bool)
    (n : List PyVal → List PyVal) (v : PyVal) : Bool :=
  match seqElems k v with
  | some xs => uniqOk sz.uniq xs && sizeOk sz xs.length && pre xs && a xs && uniqOk sz.uniq (n xs)
  | none => false

def nSeq (k : SeqKind) (n : List PyVal → List PyVal) (v : PyVal) : PyVal :=
  match seqElems k v with | some xs => mkSeq k (n xs) | none => v

def aSet (sz : SizeOpts) (a : List PyVal → Bool) (n : List PyVal → List PyVal) (v : PyVal) : Bool :=
  match v with
  | .set _ xs => sizeOk sz xs.length && a xs && sizeOk sz (dedup (n xs)).length
  | _ => false

/-- `ImmutableSet` reads back a frozenset -/
def nSet (imm : Bool) (n : List PyVal → List PyVal) (v : PyVal) : PyVal :=
  match v with | .set fr xs => .set (fr || imm) (dedup (n xs)) | _ => v

def aTuple (uniq : Bool) (pre : List PyVal → Bool) (a : List PyVal → Bool)
    (n : List PyVal → List PyVal) (v : PyVal) : Bool :=
  match v with
  | .tuple xs => uniqOk uniq xs && pre xs && a xs && uniqOk uniq (n xs)
  | _ => false

def nTuple (n : List PyVal → List PyVal) (v : PyVal) : PyVal :=
  match v with | .tuple xs => .tuple (n xs) | _ => v

def aMap (sz : SizeOpts) (a : List (PyVal × PyVal) → Bool)
    (n : List (PyVal × PyVal) → List (PyVal × PyVal)) (v : PyVal) : Bool :=
  match v with
  | .dict kvs => sizeOk sz kvs.length && a kvs && sizeOk sz (dictOfPairs (n kvs)).length
  | _ => false

def nMap (n : List (PyVal × PyVal) → List (PyVal × PyVal)) (v : PyVal) : PyVal :=
  match v with | .dict kvs => .dict (dictOfPairs (n kvs)) | _ => v

def aClassRef (c : ClassOpts) (v : PyVal) : Bool :=
  match v with | .inst c' _ => c.accepts.contains c' | _ => false

def aInline (v : PyVal) (k : List (String × PyVal) → Bool) : Bool :=
  match v with
  | .dict kvs => (match kwOfDict kvs with | none => false | some kw => k kw)
  | .inst _ attrs => k attrs
  | _ => false

def nInline (v : PyVal) (k : List (String × PyVal) → PyVal) : PyVal :=
  match v with
  | .dict kvs => (match kwOfDict kvs with | none => v | some kw => k kw)
  | .inst _ attrs => k attrs
  | _ => v

/-- required names present; no undeclared name unless additional properties are allowed -/
def kwShapeOk (c : ClassOpts) (names : List String) (kw : List (String × PyVal)) : Bool :=
  c.required.all (fun r => (lookup r kw).isSome) && (c.addl || kw.all (fun a => names.contains a.1))

/-! ### the recursive specification -/

mutual
/-- documented accept decision for input `v` -/
def admits (O : Oracles) : FieldDecl → PyVal → Bool
  | .number o, v => aNumber o v
  | .integer o, v => aInteger o v
  | .float o, v => aFloat o v
  | .string lo hi pat, v => aString O lo hi pat v
  | .boolean, v => aBoolean v
  | .enumLit vals, v => pyMem v vals
  | .enumCls cls names, v => aEnumCls cls names v
  | .seqAny k sz, v => aSeq k sz (fun _ => true) (fun _ => true) id v
  | .seqOf k f sz, v => aSeq k sz (fun _ => true) (fun xs => xs.all (admits O f)) (List.map (norm O f)) v
  | .seqPos k fs addl sz, v =>
    aSeq k sz (fun xs => decide (fs.length ≤ xs.length) && (addl || decide (xs.length ≤ fs.length)))
      (admitsZip O fs) (normZip O fs) v
  | .setAny _ sz, v => aSet sz (fun _ => true) id v
  | .setOf _ f sz, v => aSet sz (fun xs => xs.all (admits O f)) (List.map (norm O f)) v
  | .tupleOf f uniq, v =>
    aTuple uniq (fun _ => true) (fun xs => xs.all (admits O f)) (List.map (norm O f)) v
  | .tuplePos fs uniq, v =>
    aTuple uniq (fun xs => fs.length == xs.length) (admitsZip O fs) (normZip O fs) v
  | .mapAny sz, v => aMap sz (fun _ => true) id v
  | .mapOf kf vf sz, v =>
    aMap sz (fun kvs => kvs.all (fun kv => admits O kf kv.1 && admits O vf kv.2))
      (List.map (fun kv => (norm O kf kv.1, norm O vf kv.2))) v
  | .struct c fields defaults, v =>
    if c.inline then
      aInline v (fun kw => kwShapeOk c (fields.map (·.1)) kw && admitsFields O c defaults kw fields)
    else aClassRef c v
  | .anyOf fs, v => admitsAny O fs v
  | .oneOf fs, v => countAdmits O fs v == 1
  | .allOf fs, v => admitsAll O fs v
  | .notF fs, v => countAdmits O fs v == 0
  | .noneF, v => v.isNone
  | .anything, _ => true
termination_by structural f _ => f

/-- documented normal form of an admitted input -/
def norm (O : Oracles) : FieldDecl → PyVal → PyVal
  | .float _, v => nFloat v
  | .boolean, v => nBoolean v
  | .enumCls cls _, v => nEnumCls cls v
  | .seqAny k _, v => nSeq k id v
  | .seqOf k f _, v => nSeq k (List.map (norm O f)) v
  | .seqPos k fs _ _, v => nSeq k (normZip O fs) v
  | .setAny imm _, v => nSet imm id v
  | .setOf imm f _, v => nSet imm (List.map (norm O f)) v
  | .tupleOf f _, v => nTuple (List.map (norm O f)) v
  | .tuplePos fs _, v => nTuple (normZip O fs) v
  | .mapAny _, v => nMap id v
  | .mapOf kf vf _, v => nMap (List.map (fun kv => (norm O kf kv.1, norm O vf kv.2))) v
  | .struct c fields defaults, v =>
    if c.inline then
      nInline v (fun kw =>
        .inst c.name (extrasOf c (fields.map (·.1)) kw ++ normFields O c defaults kw fields))
    else v
  | .anyOf fs, v => normAny O fs v
  | .number _, v => v
  | .integer _, v => v
  | .string _ _ _, v => v
  | .enumLit _, v => v
  | .oneOf _, v => v
  | .allOf _, v => v
  | .notF _, v => v
  | .noneF, v => v
  | .anything, v => v
termination_by structural f _ => f

def admitsZip (O : Oracles) : List FieldDecl → List PyVal → Bool
  | [], _ => true
  | _ :: _, [] => true
  | f :: fs, x :: xs => admits O f x && admitsZip O fs xs
termination_by structural fs _ => fs

def normZip (O : Oracles) : List FieldDecl → List PyVal → List PyVal
  | [], xs => xs
  | _ :: _, [] => []
  | f :: fs, x :: xs => norm O f x :: normZip O fs xs
termination_by structural fs _ => fs

def admitsAny (O : Oracles) : List FieldDecl → PyVal → Bool
  | [], _ => false
  | f :: fs, v => admits O f v || admitsAny O fs v
termination_by structural fs _ => fs

def admitsAll (O : Oracles) : List FieldDecl → PyVal → Bool
  | [], _ => true
  | f :: fs, v => admits O f v && admitsAll O fs v
termination_by structural fs _ => fs

def countAdmits (O : Oracles) : List FieldDecl → PyVal → Nat
  | [], _ => 0
  | f :: fs, v => (if admits O f v then 1 else 0) + countAdmits O fs v
termination_by structural fs _ => fs

/-- `AnyOf` keeps the normal form of the first admitting option -/
def normAny (O : Oracles) : List FieldDecl → PyVal → PyVal
  | [], v => v
  | f :: fs, v => if admits O f v then norm O f v else normAny O fs v
termination_by structural fs _ => fs

/-- every supplied / default value is admitted by its field -/
def admitsFields (O : Oracles) (c : ClassOpts) (defaults kw : List (String × PyVal)) :
    List (String × FieldDecl) → Bool
  | [] => true
  | (name, f) :: rest =>
    (match argFor c defaults kw name with
      | none => true
      | some v => admits O f v) && admitsFields O c defaults kw rest
termination_by structural fs => fs

def normFields (O : Oracles) (c : ClassOpts) (defaults kw : List (String × PyVal)) :
    List (String × FieldDecl) → List (String × PyVal)
  | [] => []
  | (name, f) :: rest =>
    match argFor c defaults kw name with
    | none => normFields O c defaults kw rest
    | some v => (name, norm O f v) :: normFields O c defaults kw rest
termination_by structural fs => fs
end

/-- keyword arguments the constructor of class `cls` accepts -/
def admitsKw (O : Oracles) (cls : FieldDecl) (kw : List (String × PyVal)) : Bool :=
  match cls with
  | .struct c fields defaults =>
    kwShapeOk c (fields.map (·.1)) kw && admitsFields O c defaults kw fields
  | _ => false

/-- the instance the documentation promises for accepted keyword arguments -/
def normKw (O : Oracles) (cls : FieldDecl) (kw : List (String × PyVal)) : PyVal :=
  match cls with
  | .struct c fields defaults =>
    .inst c.name (extrasOf c (fields.map (·.1)) kw ++ normFields O c defaults kw fields)
  | _ => .none

end Typedpy
