/-
  Spec/NestedHooks.lean — `allInst H v`: every Structure instance inside the value `v` (at any depth: attributes,
  elements, keys, values) is accepted by the `__validate__` hook of its class (`H : class name → attribute state → Bool`).
  Evaluated by the driver on the instances the real code returned (construct suite, nested-hook stream); preserved by
  the constructor and the instance-based entry points (Lemmas/NestedHooks.lean, Props/C01.lean).
-/
import TypedpyModel.Core.Field
namespace Typedpy

abbrev Hooks := String → List (String × PyVal) → Bool

mutual
def allInst (H : Hooks) : PyVal → Bool
  | .inst c attrs => H c attrs && allInstAttrs H attrs
  | .list xs => allInstList H xs
  | .tuple xs => allInstList H xs
  | .deque xs => allInstList H xs
  | .set _ xs => allInstList H xs
  | .dict kvs => allInstPairs H kvs
  | .none => true
  | .bool _ => true
  | .int _ => true
  | .float _ => true
  | .dec _ => true
  | .str _ => true
  | .enumv _ _ => true
  | .opaque _ => true
termination_by structural v => v
def allInstList (H : Hooks) : List PyVal → Bool
  | [] => true
  | x :: xs => allInst H x && allInstList H xs
termination_by structural xs => xs
def allInstAttrs (H : Hooks) : List (String × PyVal) → Bool
  | [] => true
  | (_, v) :: rest => allInst H v && allInstAttrs H rest
termination_by structural xs => xs
def allInstPairs (H : Hooks) : List (PyVal × PyVal) → Bool
  | [] => true
  | (k, v) :: rest => allInst H k && allInst H v && allInstPairs H rest
termination_by structural xs => xs
end

end Typedpy
