/-
  Spec/Faults.lean — the single-fault vocabulary of C14's statement ("a class statement raises, and
  yields no class, when …"), as an inductive type with an injection into an arbitrary class source
  and, per fault, the condition under which it really is that fault.
-/
import TypedpyModel.Sem.Define
namespace Typedpy

inductive Fault where
  /-- `name = F(…, default=v)` where `v` violates `F(…)` -/
  | defaultKw (name : String) (d : FieldDecl) (v : Dflt)
  /-- `name: F(…) = v` where `v` violates `F(…)` -/
  | defaultEq (name : String) (d : FieldDecl) (v : Dflt)
  /-- `name: F = v` with a Field *class* as annotation (`F(default=v)` is built by the metaclass) -/
  | defaultClassForm (name : String) (d : FieldDecl) (v : PyVal)
  /-- `name: F(…) = <list | dict | set literal>` -/
  | mutableEq (name : String) (d : FieldDecl) (v : PyVal)
  /-- `name: F = <list | dict | set literal>` with a Field class as annotation -/
  | mutableClassForm (name : String) (d : FieldDecl) (v : PyVal)
  /-- a field named with a leading underscore or `kwargs` -/
  | badName (name : String) (e : SrcEntry)
  /-- `_optional` names a field that is already required -/
  | optionalRequired (n : String)
  /-- a base that is a subclass of ImmutableStructure / FinalStructure -/
  | sealedBase (b : String)
  /-- `name = Constant(v)` with `v` of an unsupported type -/
  | badConstant (name : String) (v : PyVal)
  /-- `@keys_of(…, E, …)` where member `n` of the enum class `E` — at any argument position, among
      any other members, with any other enum classes before and after — is not a field -/
  | keysOfMissing (before : List (List String)) (m₁ : List String) (n : String) (m₂ : List String)
      (after : List (List String))
  /-- an unknown attribute holding a bool / list / dict (guard `block_unknown_consts`) -/
  | unknownAttr (name : String) (a : AttrVal)
  /-- a bare non-typedpy type (guard `block_non_typedpy_field_assignment`) -/
  | bareType (name : String) (a : AttrVal)

def addEntry (src : ClassSrc) (name : String) (e : SrcEntry) : ClassSrc :=
  { src with entries := src.entries ++ [(name, e)] }

/-- the class source with the fault added -/
def inject : Fault → ClassSrc → ClassSrc
  | .defaultKw n d v, src => addEntry src n (.field d (some v) none)
  | .defaultEq n d v, src => addEntry src n (.field d none (some v))
  | .defaultClassForm n d v, src => addEntry src n (.field d (some (.lit v)) (some (.lit v)))
  | .mutableEq n d v, src => addEntry src n (.field d none (some (.lit v)))
  | .mutableClassForm n d v, src => addEntry src n (.field d (some (.lit v)) (some (.lit v)))
  | .badName n e, src => addEntry src n e
  | .optionalRequired n, src => { src with optional := n :: src.optional }
  | .sealedBase b, src => { src with bases := src.bases ++ [b] }
  | .badConstant n v, src => addEntry src n (.obj (.const v))
  | .keysOfMissing before m₁ n m₂ after, src =>
    { src with keysOf := before ++ (m₁ ++ n :: m₂) :: (after ++ src.keysOf) }
  | .unknownAttr n a, src => addEntry src n (.attr a)
  | .bareType n a, src => addEntry src n (.attr a)

/-- the values the statement calls "a bare non-typedpy type": a class, a parameterised generic, or a
    PEP 604 union of such -/
def nonTypedpyType : AttrVal → Bool
  | .bareType => true
  | .generic => true
  | .union => true
  | _ => false

def isError {α} (r : R α) : Bool :=
  match r with
  | .ok _ => false
  | .error _ => true

/-- the condition under which the injected item is the fault the statement talks about -/
def Fault.applies (O : Oracles) (w : World) (src : ClassSrc) : Fault → Bool
  | .defaultKw _ d v => isError (validate O d v.value)
  | .defaultEq _ d v => isError (validate O d v.value)
  | .defaultClassForm _ d v => isError (validate O d v)
  | .mutableEq _ _ v => (Dflt.lit v).isMutableLit
  | .mutableClassForm _ _ v => (Dflt.lit v).isMutableLit
  | .badName n e => (entryMember e).isSome && badFieldName n
  | .optionalRequired n =>
    (src.required.isSome && (requiredEff w src).contains n) || (basesRequired w src).contains n
  | .sealedBase b => sealedCls w b
  | .badConstant _ v => !constSupported v
  | .keysOfMissing _ _ n _ _ => !((allFieldsOf w src).map (·.1)).contains n
  | .unknownAttr n a =>
    w.blockConsts && blockedAttr a && !knownAttrs.contains n && !isDunder n && !isCustomAttr n
  | .bareType n a => w.blockNonTypedpy && nonTypedpyType a && !isSunder n && !isDunder n

/-- the two regions in which the code today lets the fault through (known findings):
    a falsy `default=` is never validated (`if default:` in `Field.__init__`), and a truthy valid
    mutable literal given to a Field-class annotation is not refused -/
def Fault.knownHole (O : Oracles) : Fault → Bool
  | .defaultKw _ _ v => !v.truthy
  | .mutableClassForm _ d v => pyTruthy v && !isError (validate O d v)
  | _ => false

end Typedpy
