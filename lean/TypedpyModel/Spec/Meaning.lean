/-
  Spec/Meaning.lean — what a spelling of a field declaration *means*, written from the documentation
  (README "Python type hints" / PEP-585 / Optional / Union / AnyOf sections), independently of the
  elaboration code modelled in Sem/Elaborate.lean:

  * `denote`       — the Field a type expression stands for;
  * `SameMeaning`  — the equivalences of the C13 statement, closed under congruence at any depth;
  * `FieldSame` / `ClassSame` — the same at field level (annotation vs assignment, `= v` vs
    `default=v`, `Optional[T]` vs `AnyOf[T, None]` + `_optional`) and class level (any mix of
    equivalent spellings across the fields, with and without `from __future__ import annotations`);
  * `supported` / `fieldSupported` — the decidable region in which the implementation is claimed to
    honour the equivalences: it excludes the one open finding (falsy invalid `default=`), the places
    where `typing` / Python itself rewrites the expression (directly nested or duplicate members of
    `Union` / `Optional` / `int | str`) and forms that are not documented spellings (`items=` given a
    non-field, `|` between a plain type and a `typing` object).
-/
import TypedpyModel.Sem.Elaborate
namespace Typedpy.Elab
open Typedpy

def Scalar.decl : Scalar → FieldDecl
  | .int => .integer {} | .str => .string none none none | .float => .float {}
  | .bool => .boolean | .any => .anything

def Coll.anyDecl : Coll → FieldDecl
  | .list => .seqAny .list {} | .deque => .seqAny .deque {}
  | .set => .setAny false {} | .frozenset => .setAny true {}
  /- not a documented spelling (`Tuple` requires `items`; all bare tuple forms raise TypeError): a
     placeholder, excluded from `supported` and `documentedSp` -/
  | .tuple => .tupleOf .anything false

def Coll.ofDecl : Coll → FieldDecl → FieldDecl
  | .list, d => .seqOf .list d {} | .deque, d => .seqOf .deque d {}
  | .set, d => .setOf false d {} | .frozenset, d => .setOf true d {}
  /- "The following define a tuple of any number of Integers: Tuple[Integer]" -/
  | .tuple, d => .tupleOf d false

/-- the Field a type expression stands for -/
def denote : Sp → FieldDecl
  | .builtin k | .fcls k | .finst k => k.decl
  | .lit d _ => d
  | .noneLit => .noneF
  | .bareBuiltin c | .bareTyping c | .bareCls c | .bareInst c => c.anyDecl
  | .pep585 c x | .typingG c x | .sub c x | .call c x => c.ofDecl (denote x)
  | .dictBare | .tDictBare | .mapBare | .mapInst => .mapAny {}
  | .dict585 k v | .dictTyping k v | .mapSub k v | .mapCall k v => .mapOf (denote k) (denote v) {}
  | .optional x => .anyOf [denote x, .noneF]
  | .union x y | .anyOf x y | .pipe x y => .anyOf [denote x, denote y]
  /- "a Structure class can be used as a field type": a reference to that class -/
  | .scls d _ => d
  /- "c is a tuple of 3: integer, string, float: Tuple[Integer, String, Float]" - one field per position -/
  | .tup585 x y | .tupTyping x y | .tupSub x y | .tupCall x y => .tuplePos [denote x, denote y] false
  /- "a: Integer(maximum=100) | Foo | str | 529 … a can be assigned … the number 529": the literal is one more
     alternative, an Enum of exactly that value -/
  | .pipeLit x v _ => .anyOf [denote x, .enumLit [v]]

/-! ### the spelling forms of one meaning -/

inductive ScalarForm where | builtin | cls | inst
deriving Repr, DecidableEq
def mkScalar : ScalarForm → Scalar → Sp
  | .builtin, k => .builtin k | .cls, k => .fcls k | .inst, k => .finst k

inductive BareForm where | builtin | typing | cls | inst
deriving Repr, DecidableEq
def mkBare : BareForm → Coll → Sp
  | .builtin, c => .bareBuiltin c | .typing, c => .bareTyping c | .cls, c => .bareCls c | .inst, c => .bareInst c
def mkBareDict : BareForm → Sp
  | .builtin => .dictBare | .typing => .tDictBare | .cls => .mapBare | .inst => .mapInst

inductive CollForm where | pep585 | typing | sub | call
deriving Repr, DecidableEq
def mkColl : CollForm → Coll → Sp → Sp
  | .pep585, c, x => .pep585 c x | .typing, c, x => .typingG c x | .sub, c, x => .sub c x | .call, c, x => .call c x
def mkDict : CollForm → Sp → Sp → Sp
  | .pep585, k, v => .dict585 k v | .typing, k, v => .dictTyping k v | .sub, k, v => .mapSub k v
  | .call, k, v => .mapCall k v

def mkTup : CollForm → Sp → Sp → Sp
  | .pep585, x, y => .tup585 x y | .typing, x, y => .tupTyping x y | .sub, x, y => .tupSub x y
  | .call, x, y => .tupCall x y

inductive AltForm where | union | anyOf | pipe
deriving Repr, DecidableEq
def mkAlt : AltForm → Sp → Sp → Sp
  | .union, x, y => .union x y | .anyOf, x, y => .anyOf x y | .pipe, x, y => .pipe x y

/-- The equivalences of the statement, closed under congruence (any nesting depth):
    `int ~ Integer ~ Integer()`; `list ~ List ~ Array ~ Array()`;
    `list[T] ~ List[T] ~ Array[T] ~ Array(items=T)` (same for set / frozenset / deque, and for the
    single-argument tuple forms `tuple[T] ~ typing.Tuple[T] ~ Tuple[T] ~ Tuple(items=T)`);
    `dict[K, V] ~ Dict[K, V] ~ Map[K, V] ~ Map(items=[K, V])`;
    `Optional[T] ~ Union[T, None] ~ AnyOf[T, None] ~ T | None`; `A | B ~ Union[A, B] ~ AnyOf[A, B]`. -/
inductive SameMeaning : Sp → Sp → Prop where
  | scalar (f g : ScalarForm) (k : Scalar) : SameMeaning (mkScalar f k) (mkScalar g k)
  | lit (d : FieldDecl) (n m : Nat) : SameMeaning (.lit d n) (.lit d m)
  | none : SameMeaning .noneLit .noneLit
  | bare (f g : BareForm) (c : Coll) : SameMeaning (mkBare f c) (mkBare g c)
  | bareDict (f g : BareForm) : SameMeaning (mkBareDict f) (mkBareDict g)
  | coll (f g : CollForm) (c : Coll) {x y : Sp} :
      SameMeaning x y → SameMeaning (mkColl f c x) (mkColl g c y)
  | dict (f g : CollForm) {k k' v v' : Sp} :
      SameMeaning k k' → SameMeaning v v' → SameMeaning (mkDict f k v) (mkDict g k' v')
  | optional {x y : Sp} : SameMeaning x y → SameMeaning (.optional x) (.optional y)
  | optionalAlt (g : AltForm) {x y : Sp} : SameMeaning x y → SameMeaning (.optional x) (mkAlt g y .noneLit)
  | altOptional (f : AltForm) {x y : Sp} : SameMeaning x y → SameMeaning (mkAlt f x .noneLit) (.optional y)
  | alt (f g : AltForm) {x x' y y' : Sp} :
      SameMeaning x x' → SameMeaning y y' → SameMeaning (mkAlt f x y) (mkAlt g x' y')
  /-- a Structure class is named in one way only (`len`: the same class under names of different length) -/
  | scls (d : FieldDecl) (n m : Nat) : SameMeaning (.scls d n) (.scls d m)
  /-- `tuple[X, Y] ~ typing.Tuple[X, Y] ~ Tuple[X, Y] ~ Tuple(items=[X, Y])` -/
  | tup (f g : CollForm) {x x' y y' : Sp} :
      SameMeaning x x' → SameMeaning y y' → SameMeaning (mkTup f x y) (mkTup g x' y')
  /-- `X | 529 ~ AnyOf[X, Enum(values=[529])]` (and `X | 529 ~ X' | 529`) -/
  | pipeLit {x y : Sp} (v : PyVal) (n m : Nat) : SameMeaning x y → SameMeaning (.pipeLit x v n) (.pipeLit y v m)
  | pipeLitAnyOf {x y : Sp} (v : PyVal) (n m : Nat) :
      SameMeaning x y → SameMeaning (.pipeLit x v n) (.anyOf y (.lit (.enumLit [v]) m))
  | anyOfPipeLit {x y : Sp} (v : PyVal) (n m : Nat) :
      SameMeaning x y → SameMeaning (.anyOf x (.lit (.enumLit [v]) m)) (.pipeLit y v n)

/-! ### the supported region -/

/-- the expression evaluates to a Field class or instance -/
def isFieldExpr : Sp → Bool
  | .fcls _ | .finst _ | .lit _ _ | .bareCls _ | .bareInst _ | .sub _ _ | .call _ _
  | .mapBare | .mapInst | .mapSub _ _ | .mapCall _ _ | .anyOf _ _ | .tupSub _ _ | .tupCall _ _ => true
  | .pipe x _ => isFieldExpr x
  | .pipeLit x _ _ => isFieldExpr x
  | _ => false

/-- the expression is the name of a Structure class (usable wherever a Field class is, except that it has no
    `|` operator of its own and no call form) -/
def isStructSp : Sp → Bool
  | .scls _ _ => true
  | _ => false

/-- `Owner | …` between plain types: evaluates to a `types.UnionType` whose first member is a Structure class -/
def structFirstPipe : Sp → Bool
  | .pipe x _ => isStructSp x || structFirstPipe x
  | _ => false

/-- usable as an ARGUMENT of a typedpy field (`Array[·]`, `Map[·, ·]`, `AnyOf[·, ·]`, `Tuple[·, ·]`): everything (a
    Structure-first PEP 604 union used to be excluded: finding `pep604-structure-first-nested`, fixed in typedpy 4d54fb6) -/
def itemOk (_s : Sp) : Bool := true

/-- a Field or a Structure class: what `items=` and a plain assignment are documented to take -/
def isFieldOrStruct (s : Sp) : Bool := isFieldExpr s || isStructSp s

def isStructDecl : FieldDecl → Bool
  | .struct _ _ _ => true
  | _ => false

/-- the expression evaluates to a `typing.Union` (which an enclosing `Union` / `Optional` flattens) -/
def unionLike : Sp → Bool
  | .optional _ | .union _ _ => true
  /- `int | str` (a PEP-604 union of plain types) is flattened as well; `Field | …` is a Field -/
  | .pipe x _ => !isFieldExpr x
  | _ => false

/-- the expression evaluates to a builtin class or a PEP-585 alias (`type.__or__` applies) -/
def plainSp : Sp → Bool
  | .builtin k => k != .any
  | .bareBuiltin _ | .dictBare | .pep585 _ _ | .dict585 _ _ | .tup585 _ _ => true
  /- a Structure class is a plain class as far as `|` is concerned -/
  | .scls _ _ => true
  | _ => false

def isNoneLit : Sp → Bool
  | .noneLit => true
  | _ => false

/-- right operands of `plain | …` that give a `types.UnionType`: plain types and bare Field classes -/
def plainRightSp : Sp → Bool
  | .fcls _ | .bareCls _ | .mapBare => true
  | s => plainSp s

/-- `typing` would not merge the two members -/
def distinctObjs (tm : TypeMap) (x y : Sp) : Bool :=
  match ev tm x, ev tm y with
  | .ok a, .ok b => !objEq (typingArg a) (typingArg b)
  | _, _ => true

def supported (tm : TypeMap) : Sp → Bool
  | .builtin _ | .fcls _ | .finst _ | .lit _ _ => true
  | .noneLit => false
  | .bareBuiltin c | .bareTyping c | .bareCls c | .bareInst c => c != .tuple
  | .pep585 _ x | .typingG _ x => supported tm x
  | .sub _ x => supported tm x && itemOk x
  | .call _ x => supported tm x && isFieldOrStruct x
  | .dictBare | .tDictBare | .mapBare | .mapInst => true
  | .dict585 k v | .dictTyping k v => supported tm k && supported tm v
  | .mapSub k v => supported tm k && supported tm v && itemOk k && itemOk v
  | .mapCall k v => supported tm k && supported tm v && isFieldOrStruct k && isFieldOrStruct v
  | .scls d _ => isStructDecl d
  | .tup585 x y | .tupTyping x y => supported tm x && supported tm y
  | .tupSub x y => supported tm x && supported tm y && itemOk x && itemOk y
  | .tupCall x y => supported tm x && supported tm y && isFieldOrStruct x && isFieldOrStruct y
  | .pipeLit x v _ => supported tm x && isFieldExpr x && scalarDefault v
  | .optional x => supported tm x && !unionLike x
  /- `None` may be either member (`Union[None, int]`, `AnyOf[None, Integer]`, `None | int`) -/
  | .union x y =>
    (isNoneLit x || (supported tm x && !unionLike x)) && (isNoneLit y || (supported tm y && !unionLike y))
    && distinctObjs tm x y
  | .anyOf x y => (isNoneLit x || (supported tm x && itemOk x)) && (isNoneLit y || (supported tm y && itemOk y))
  | .pipe x y =>
    if isNoneLit x then supported tm y && plainRightSp y && !unionLike y
    else supported tm x
      && (if isFieldExpr x then isNoneLit y || supported tm y
          else plainSp x
               && (isNoneLit y || (supported tm y && plainRightSp y && !unionLike y))
               && distinctObjs tm x y)

/-! ### field level -/

/-- what a default means: (the value that must be valid for the field, what the field's default is).
    A factory is the default itself - documented to be evaluated for every instance - and its product must
    be valid. -/
def DefaultSp.value : DefaultSp → Option (PyVal × PyVal)
  | .none => Option.none
  | .eq v _ => some (v, v)
  /- `default=None` is the parameter's own default: no default -/
  | .kw v _ => if v.isNone then Option.none else some (v, v)
  | .eqF p _ => some (p, factoryTag)
  | .kwF p _ => some (p, factoryTag)

/-- the field is optional: listed in `_optional`, or annotated with a typing expression whose
    meaning admits `None` (`Optional[T]`, `Union[T, None]`) -/
def effOptional (fs : FieldSp) : Bool :=
  fs.inOptional || (fs.mode == .ann && !isFieldExpr fs.ty && hasNoneOpt (denote fs.ty))

/-- documented meaning of a field declaration: the default (if any) must be valid for the field; a
    field is required iff it has no default (`= None` is not a default) and is not optional -/
def fieldMeaning (O : Oracles) (fs : FieldSp) : R FieldRes :=
  match fs.dflt.value with
  | Option.none => .ok (.field (denote fs.ty) (!effOptional fs) Option.none)
  | some (v, stored) =>
    bindE (tryDefault O (denote fs.ty) v) fun _ => .ok (eqResult (denote fs.ty) (effOptional fs) stored)

/-- the same field in two spellings -/
structure FieldSame (a b : FieldSp) : Prop where
  name : a.name = b.name
  ty : SameMeaning a.ty b.ty
  dflt : a.dflt.value = b.dflt.value
  opt : effOptional a = effOptional b

def defaultOk (O : Oracles) (d : FieldDecl) (v : PyVal) : Bool :=
  match validate O d v with
  | .ok _ => true
  | .error _ => false

/-- region in which a field declaration is claimed to elaborate to its meaning -/
def fieldSupported (O : Oracles) (tm : TypeMap) (_future : Bool) (fs : FieldSp) : Bool :=
  supported tm fs.ty
  && (match fs.mode with
      | .ann => true
      | .assign => isFieldOrStruct fs.ty)
  && (match fs.dflt with
      | .none => true
      | .eq v _ => eqDefault v && fs.mode == .ann
      | .kw v _ => kwDefault v && kwAllowed fs.ty && (truthy v || v.isNone || defaultOk O (denote fs.ty) v)
      | .eqF _ _ => fs.mode == .ann
      | .kwF _ _ => kwAllowed fs.ty)

/-- the expression only uses documented forms: `items=` is given fields, `None` only appears as
    one alternative of `Union` / `AnyOf` / `|` -/
def documentedSp : Sp → Bool
  | .builtin _ | .fcls _ | .finst _ | .lit _ _ => true
  | .noneLit => false
  | .bareBuiltin c | .bareTyping c | .bareCls c | .bareInst c => c != .tuple
  | .pep585 _ x | .typingG _ x | .sub _ x => documentedSp x
  | .call _ x => documentedSp x && isFieldOrStruct x
  | .dictBare | .tDictBare | .mapBare | .mapInst => true
  | .dict585 k v | .dictTyping k v | .mapSub k v => documentedSp k && documentedSp v
  | .mapCall k v => documentedSp k && documentedSp v && isFieldOrStruct k && isFieldOrStruct v
  | .scls d _ => isStructDecl d
  | .tup585 x y | .tupTyping x y | .tupSub x y => documentedSp x && documentedSp y
  | .tupCall x y => documentedSp x && documentedSp y && isFieldOrStruct x && isFieldOrStruct y
  | .pipeLit x v _ => documentedSp x && isFieldExpr x && scalarDefault v
  | .optional x => documentedSp x
  | .union x y | .anyOf x y | .pipe x y =>
    (isNoneLit x || documentedSp x) && (isNoneLit y || documentedSp y) && !(isNoneLit x && isNoneLit y)

/-- the domain of the statement at field level: documented forms, an assignment declares a field
    expression, `default=` sits in a call of a Field class, defaults are scalar literals -/
def documentedField (fs : FieldSp) : Bool :=
  documentedSp fs.ty
  && (match fs.mode with | .ann => true | .assign => isFieldOrStruct fs.ty)
  && (match fs.dflt with
      | .none => true
      | .eq v _ => eqDefault v && fs.mode == .ann
      | .kw v _ => kwDefault v && kwAllowed fs.ty
      | .eqF _ _ => fs.mode == .ann
      | .kwF _ _ => kwAllowed fs.ty)

/-- two class bodies declaring the same fields, each in any of its spellings -/
inductive ClassSame : List FieldSp → List FieldSp → Prop where
  | nil : ClassSame [] []
  | cons {a b : FieldSp} {as bs : List FieldSp} : FieldSame a b → ClassSame as bs → ClassSame (a :: as) (b :: bs)

/-- string annotations (future import, quoted, or both; of any length) are claimed to behave like evaluated ones
    unless their names live in an enclosing function (`string-annotation-enclosing-scope`, a limitation of string
    annotations themselves) -/
def stringOk (sc : Scope) (future : Bool) (fs : FieldSp) : Bool :=
  !(stringAnn future fs && sc == .enclosing && fs.unresolved)

def fieldSupportedAt (O : Oracles) (tm : TypeMap) (sc : Scope) (future : Bool) (fs : FieldSp) : Bool :=
  fieldSupported O tm future fs && stringOk sc future fs

def classSupported (O : Oracles) (tm : TypeMap) (c : ClassSp) : Bool :=
  c.fields.all (fieldSupportedAt O tm c.scope c.future)

/-! ### typing's flattening of directly nested unions -/

/-! the general union tree: `Union[…]`, `Optional[…]` and PEP 604 `|` between non-field operands -/

/-- what kind of Python object an operand of `|` is, as far as the operator is concerned -/
inductive UKind where | plain | typing | fcls | none | bad
deriving Repr, DecidableEq

/-- Python's `l | r` for non-field operands: a `typing` object on either side gives a `typing.Union`; plain types,
    `None` and Field classes among themselves a `types.UnionType`; `None | None` and the rest are TypeErrors -/
def pipeKind : UKind → UKind → UKind
  | .typing, .typing | .typing, .plain | .typing, .none | .typing, .fcls => .typing
  | .plain, .typing => .typing
  | .plain, .plain | .plain, .none | .plain, .fcls => .plain
  | .none, .typing => .typing
  | .none, .plain | .none, .fcls => .plain
  | _, _ => .bad

def leafKind (s : Sp) : UKind :=
  if isNoneLit s then .none
  else if plainSp s then .plain
  else match s with
    | .bareTyping _ | .tDictBare | .typingG _ _ | .dictTyping _ _ | .tupTyping _ _ => .typing
    | .fcls _ | .bareCls _ | .mapBare => .fcls
    | _ => .bad

def nodeKind : Sp → UKind
  | .optional _ | .union _ _ => .typing
  | .pipe x y => if isFieldExpr x then .bad else pipeKind (nodeKind x) (nodeKind y)
  | s => leafKind s

def flatAlts : Sp → List FieldDecl
  | .optional x => flatAlts x ++ [.noneF]
  | .union x y => flatAlts x ++ flatAlts y
  | .pipe x y => if isFieldExpr x then [denote (.pipe x y)] else flatAlts x ++ flatAlts y
  | .noneLit => [.noneF]
  | s => [denote s]

def leavesOk (tm : TypeMap) : Sp → Bool
  | .optional x => leavesOk tm x
  | .union x y => leavesOk tm x && leavesOk tm y
  | .pipe x y =>
    if isFieldExpr x then supported tm (.pipe x y)
    else leavesOk tm x && leavesOk tm y && pipeKind (nodeKind x) (nodeKind y) != .bad
  | .noneLit => true
  | s => supported tm s && !unionLike s

def flatObjs (tm : TypeMap) : Sp → List Obj
  | .optional x => flatObjs tm x ++ [.noneTy]
  | .union x y => flatObjs tm x ++ flatObjs tm y
  | .pipe x y =>
    if isFieldExpr x then (match ev tm (.pipe x y) with | .ok o => [o] | .error _ => [])
    else flatObjs tm x ++ flatObjs tm y
  | .noneLit => [.noneTy]
  | s => match ev tm s with
    | .ok o => [o]
    | .error _ => []

def isUnionTree : Sp → Bool
  | .optional _ | .union _ _ => true
  | .pipe x _ => !isFieldExpr x
  | _ => false

/-- no two of the objects are `==` (typing would skip the redundant one) -/
def allDistinct : List Obj → Bool
  | [] => true
  | x :: xs => xs.all (fun y => !objEq x y) && allDistinct xs

/-- field declarations whose annotation is such a union tree (no default): outside `fieldSupported`, covered by
    `C13.elabField_flatten` -/
def flatRegion (tm : TypeMap) (fs : FieldSp) : Bool :=
  fs.mode == .ann && isUnionTree fs.ty && leavesOk tm fs.ty && allDistinct (flatObjs tm fs.ty)
  && (match fs.dflt with | .none => true | .eq v _ => eqDefault v | .eqF _ _ => true | _ => false)

/-- the declaration such an annotation stands for: the AnyOf of the flattened alternatives -/
def flatDecl (fs : FieldSp) : FieldDecl := .anyOf (flatAlts fs.ty)

/-- optional iff `None` is one of the flattened alternatives or the name is listed in `_optional` -/
def flatOptional (fs : FieldSp) : Bool := (flatAlts fs.ty).any isNoneF || fs.inOptional

/-- documented meaning there (same shape as `fieldMeaning`): the default, if any, must be valid for the flattened
    AnyOf; required iff there is no default and the field is not optional -/
def flatMeaning (O : Oracles) (fs : FieldSp) : R FieldRes :=
  match fs.dflt.value with
  | Option.none => .ok (.field (flatDecl fs) (!flatOptional fs) Option.none)
  | some (v, stored) =>
    bindE (tryDefault O (flatDecl fs) v) fun _ => .ok (eqResult (flatDecl fs) (flatOptional fs) stored)

/-- the union of the two proved regions, and the documented meaning on it -/
def fieldRegionX (O : Oracles) (tm : TypeMap) (sc : Scope) (future : Bool) (fs : FieldSp) : Bool :=
  (flatRegion tm fs && stringOk sc future fs) || fieldSupportedAt O tm sc future fs

def fieldMeaningX (O : Oracles) (tm : TypeMap) (fs : FieldSp) : R FieldRes :=
  if flatRegion tm fs then flatMeaning O fs else fieldMeaning O fs

def classRegionX (O : Oracles) (tm : TypeMap) (c : ClassSp) : Bool :=
  c.fields.all (fieldRegionX O tm c.scope c.future)

/-- the same field in two declarations of the (extended) region: same name, same documented meaning - e.g.
    `Union[Union[a, b], None]`, `a' | b' | None`, `Optional[Union[a, b']]` … with each leaf in any of its spellings -/
structure FieldSameX (O : Oracles) (tm : TypeMap) (a b : FieldSp) : Prop where
  name : a.name = b.name
  meaning : fieldMeaningX O tm a = fieldMeaningX O tm b

inductive ClassSameX (O : Oracles) (tm : TypeMap) : List FieldSp → List FieldSp → Prop where
  | nil : ClassSameX O tm [] []
  | cons {a b : FieldSp} {as bs : List FieldSp} :
      FieldSameX O tm a b → ClassSameX O tm as bs → ClassSameX O tm (a :: as) (b :: bs)

end Typedpy.Elab
