/-
  Spec/Lift.lean — the documented JSON form, read backwards: which Python keyword arguments a
  JSON-like document denotes for a class (arrays for Array/Set/Tuple/Deque, objects for Map and
  nested structures, numbers / strings / enum names as themselves).  Written from the docs; no
  validation happens here — that is the constructor's job.  Defined for wrapper-free declarations
  (`liftable`); AnyOf/OneOf/AllOf/NotField need the validation result to pick an option and are
  decided by the correspondence harness only.
-/
import TypedpyModel.Sem.Deser
import TypedpyModel.Spec.SerFrag
namespace Typedpy

def mapO {α β} (g : α → Option β) : List α → Option (List β)
  | [] => some []
  | x :: xs => match g x, mapO g xs with
    | some y, some ys => some (y :: ys)
    | _, _ => none

/-- not a multi-field wrapper and not NoneField: a declaration that does not accept None -/
def plainDecl : FieldDecl → Bool
  | .anyOf _ | .oneOf _ | .allOf _ | .notF _ | .noneF | .anything => false
  | .enumLit vals => !PyVal.pyMem .none vals
  | _ => true

mutual
def liftable : FieldDecl → Bool
  | .seqOf _ f _ => liftable f
  | .seqPos _ fs _ _ => liftableAll fs
  | .setOf _ f _ => liftable f
  | .tupleOf f _ => liftable f
  | .tuplePos fs _ => liftableAll fs
  | .mapOf kf vf _ => liftable kf && liftable vf
  | .struct _ fields _ => liftableFields fields
  | .anyOf fs => liftableOpt fs
  | .oneOf _ => false
  | .allOf _ => false
  | .notF _ => false
  | .number _ => true
  | .integer _ => true
  | .float _ => true
  | .string _ _ _ => true
  | .boolean => true
  | .enumLit _ => true
  | .enumCls _ _ => true
  | .seqAny _ _ => true
  | .setAny _ _ => true
  | .mapAny _ => true
  | .noneF => true
  | .anything => true
termination_by structural f => f
def liftableAll : List FieldDecl → Bool
  | [] => true
  | f :: fs => liftable f && liftableAll fs
termination_by structural fs => fs
/-- `Optional[X]` = `AnyOf[NoneField, X]` / `AnyOf[X, NoneField]` over a liftable `X` that is not itself a
    multi-field wrapper -/
def liftableOpt : List FieldDecl → Bool
  | [] => false
  | [_] => false
  | f :: g :: [] => (isNoneDecl f && plainDecl g && liftable g) || (isNoneDecl g && plainDecl f && liftable f)
  | _ :: _ :: _ :: _ => false
termination_by structural fs => fs
def liftableFields : List (String × FieldDecl) → Bool
  | [] => true
  | (_, f) :: rest => liftable f && liftableFields rest
termination_by structural fs => fs
end

def listDoc : PyVal → Option (List PyVal)
  | .list xs => some xs
  | _ => none

mutual
/-- the Python value that document `d` denotes for a field of declaration `f`; `none` = `d` is not
    the documented JSON form of any value of that field -/
def lift (O : Oracles) (opts : DeserOpts) : FieldDecl → PyVal → Option PyVal
  | .seqAny k _, d => (listDoc d).map (mkSeq k)
  | .seqOf k f _, d => (listDoc d).bind fun js => (mapO (lift O opts f) js).map (mkSeq k)
  | .seqPos k fs _ _, d => (listDoc d).bind fun js => (liftZip O opts fs js).map (mkSeq k)
  | .setAny _ _, d => (listDoc d).bind fun js =>
      if js.any unhashable then none else some (.set false (dedup js))
  | .setOf _ f _, d => (listDoc d).bind fun js => (mapO (lift O opts f) js).bind fun ys =>
      if ys.any unhashable then none else some (.set false (dedup ys))
  | .tupleOf f _, d => (listDoc d).bind fun js => (mapO (lift O opts f) js).map .tuple
  | .tuplePos fs _, d => (listDoc d).bind fun js => (liftZip O opts fs js).map .tuple
  | .mapAny _, d => (match d with | .dict _ => some d | _ => none)
  | .mapOf kf vf _, d => (match d with
    | .dict kvs => (mapO (fun (kv : PyVal × PyVal) =>
          match lift O opts kf kv.1,
                lift O opts vf kv.2 with
          | some k', some v' => some (k', v')
          | _, _ => none) kvs).bind fun r =>
        if r.any (fun kv => unhashable kv.1) then none else some (.dict (dictOfPairs r))
    | _ => none)
  | .struct c fields defaults, d => (match d with
    | .inst _ _ => some d
    | .dict kvs => (kwOfDict kvs).bind fun doc =>
        (liftFields O opts c doc fields).bind fun args =>
          let kw := deserExtras opts c (fields.map (·.1)) doc ++ args
          match vConstruct c (fields.map (·.1)) kw (validateFields O c defaults kw fields) with
          | .ok x => if c.inline then some (.dict (kw.map fun a => (.str a.1, a.2))) else some x
          | .error _ => none
    | _ => none)
  | .number _, d => some d
  | .integer _, d => some d
  | .float _, d => some d
  | .string _ _ _, d => some d
  | .boolean, d => some d
  | .enumLit _, d => some d
  | .enumCls _ _, d => some d
  | .noneF, d => some d
  | .anything, d => some d
  | .anyOf fs, d => liftOpt O opts fs d
  | .oneOf _, d => some d
  | .allOf _, d => some d
  | .notF _, d => some d
termination_by structural f _ => f

/-- `Optional[X]`: a null denotes None, anything else what it denotes for `X`; other AnyOf shapes have no
    documented lifting (the document is handed on) -/
def liftOpt (O : Oracles) (opts : DeserOpts) : List FieldDecl → PyVal → Option PyVal
  | [], d => some d
  | [_], d => some d
  | f :: g :: [], d =>
    if isNoneDecl f && plainDecl g then (if d.isNone then some d else lift O opts g d)
    else if isNoneDecl g && plainDecl f then (if d.isNone then some d else lift O opts f d)
    else some d
  | _ :: _ :: _ :: _, d => some d
termination_by structural fs _ => fs

def liftZip (O : Oracles) (opts : DeserOpts) : List FieldDecl → List PyVal → Option (List PyVal)
  | [], xs => some xs
  | _ :: _, [] => none
  | f :: fs, x :: xs => match lift O opts f x, liftZip O opts fs xs with
    | some y, some ys => some (y :: ys)
    | _, _ => none
termination_by structural fs _ => fs

/-- keyword arguments for the declared fields present in the document -/
def liftFields (O : Oracles) (opts : DeserOpts) (c : ClassOpts) (doc : List (String × PyVal)) :
    List (String × FieldDecl) → Option (List (String × PyVal))
  | [] => some []
  | (name, f) :: rest =>
    match lookup name doc with
    | none => liftFields O opts c doc rest
    | some v =>
      -- a null stands for an absent optional field
      if v.isNone then liftFields O opts c doc rest else
      match lift O opts f v, liftFields O opts c doc rest with
      | some y, some ys => some ((name, y) :: ys)
      | _, _ => none
termination_by structural fs => fs
end

/-- the keyword arguments a document denotes for class `cls` (undeclared keys are kept or dropped
    according to the documented flags) -/
def liftDoc (O : Oracles) (opts : DeserOpts) (cls : FieldDecl) (d : PyVal) :
    Option (List (String × PyVal)) :=
  match cls, d with
  | .struct c fields _, .dict kvs =>
    (kwOfDict kvs).bind fun doc =>
      (liftFields O opts c doc fields).map fun args =>
        deserExtras opts c (fields.map (·.1)) doc ++ args
  | _, _ => none

/-- the documented result of deserializing `d`: the constructor applied to the lifted arguments -/
def expectedDeser (O : Oracles) (opts : DeserOpts) (cls : FieldDecl) (d : PyVal) : Option PyVal :=
  match liftDoc O opts cls d with
  | none => none
  | some kw => match construct O cls kw with
    | .ok x => some x
    | .error _ => none

/-! ### the fragment on which "deserialization = constructor ∘ documented lifting" is proved -/

/-- scalar declarations whose deserialization hands the document value on unchanged (every scalar
    but an Enum over an enum class, whose names become members) -/
def idScalar : FieldDecl → Bool
  | .number _ => true
  | .integer _ => true
  | .float _ => true
  | .string _ _ _ => true
  | .boolean => true
  | .enumLit _ => true
  | _ => false

mutual
/-- scalars with every constraint, enums, NoneField, Array / Deque / Tuple (homogeneous — with uniqueItems
    when the items are plain scalars — or positional), Set of strings, Map from strings, `Optional[X]`,
    nested Structure classes and StructureReference (inline classes), at any depth -/
def exactDecl : FieldDecl → Bool
  | .number _ => true
  | .integer _ => true
  | .float _ => true
  | .string _ _ _ => true
  | .boolean => true
  | .enumLit _ => true
  | .enumCls _ _ => true
  | .seqOf _ f sz => (!sz.uniq || idScalar f) && exactDecl f
  | .seqPos _ fs _ sz => !sz.uniq && exactAll fs
  | .tupleOf f u => (!u || idScalar f) && exactDecl f
  | .tuplePos fs u => !u && exactAll fs
  | .struct c fields _ =>
    (c.inline || c.accepts.contains c.name) && decide ((fields.map (·.1)).Nodup) && exactFields fields
  | .seqAny _ _ => false
  | .setAny _ _ => false
  | .setOf _ f _ => isStringDecl f
  | .mapAny _ => false
  | .mapOf kf vf _ => isStringDecl kf && exactDecl vf
  | .anyOf fs => exactOpt fs
  | .oneOf _ => false
  | .allOf _ => false
  | .notF _ => false
  | .noneF => true
  | .anything => false
termination_by structural f => f
def exactAll : List FieldDecl → Bool
  | [] => true
  | f :: fs => exactDecl f && exactAll fs
termination_by structural fs => fs
/-- `Optional[X]` over an exact `X` that does not itself accept None -/
def exactOpt : List FieldDecl → Bool
  | [] => false
  | [_] => false
  | f :: g :: [] => (isNoneDecl f && plainDecl g && exactDecl g) || (isNoneDecl g && plainDecl f && exactDecl f)
  | _ :: _ :: _ :: _ => false
termination_by structural fs => fs
def exactFields : List (String × FieldDecl) → Bool
  | [] => true
  | (_, f) :: rest => exactDecl f && exactFields rest
termination_by structural fs => fs
end

mutual
/-- a JSON document: null / bool / number / string / array / object with pairwise different string
    keys (a Python `dict` read from JSON cannot hold one key twice) -/
def strictJson : PyVal → Bool
  | .none => true
  | .bool _ => true
  | .int _ => true
  | .float _ => true
  | .str _ => true
  | .list xs => strictJsonList xs
  | .dict kvs => strKeysDistinct kvs && strictJsonPairs kvs
  | _ => false
termination_by structural v => v
def strictJsonList : List PyVal → Bool
  | [] => true
  | x :: xs => strictJson x && strictJsonList xs
termination_by structural xs => xs
def strictJsonPairs : List (PyVal × PyVal) → Bool
  | [] => true
  | (k, v) :: rest => (match k with | .str _ => true | _ => false) && strictJson v && strictJsonPairs rest
termination_by structural xs => xs
end

end Typedpy
