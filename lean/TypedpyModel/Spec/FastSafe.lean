/-
  Spec/FastSafe.lean — the region on which C10's fast-serialization claim is PROVED
  (Props/C10.lean: `fast_equiv_partial`), as decidable predicates, and the names of the known
  defects outside it (driver only).

  * `fsafeCls cls`   — declaration level: scalars, Enum, Array / Deque / Set / Map / fixed-length
                       Tuple over safe fields, nested (fast) classes, Optional of a safe field;
  * `noDecV f v`     — value level: no `Decimal` held by a Number field (the regular path turns it
                       into a string the model does not render).
-/
import TypedpyModel.Sem.Fast
import TypedpyModel.Spec.WfDecl
import TypedpyModel.Spec.Conforms
import TypedpyModel.Spec.SerFrag
namespace Typedpy

def isAnyOfD : FieldDecl → Bool
  | .anyOf _ => true
  | _ => false

mutual
def fsafeD (NF : List String) : FieldDecl → Bool
  | .number _ => true
  | .integer _ => true
  | .float _ => true
  | .string _ _ _ => true
  | .boolean => true
  | .noneF => true
  | .enumLit _ => true
  | .enumCls _ _ => true
  | .seqOf _ item _ => fsafeD NF item
  | .setOf _ item _ => fsafeD NF item
  | .tuplePos items _ => fsafeL NF items
  | .tupleOf item _ => fsafeD NF item
  | .seqPos .list items _ _ => fsafeL NF items     -- (instances without surplus elements: `fwf`)
  | .seqPos .deque _ _ _ => false
  | .mapOf kf vf _ => fsafeD NF kf && fsafeD NF vf
  | .struct c fields _ =>
    !c.inline && !NF.contains c.name && strNodup (fields.map (·.1)) && fsafeFields NF fields
  | .anyOf fs => fsafeOpt NF fs
  | .seqAny _ _ => false
  | .setAny _ _ => false
  | .mapAny _ => false
  | .oneOf _ => false
  | .allOf _ => false
  | .notF _ => false
  | .anything => false
termination_by structural f => f

def fsafeL (NF : List String) : List FieldDecl → Bool
  | [] => true
  | f :: fs => fsafeD NF f && fsafeL NF fs
termination_by structural fs => fs

/-- `[X, NoneField]` or `[NoneField, X]`, `X` safe and not itself an `AnyOf` -/
def fsafeOpt (NF : List String) : List FieldDecl → Bool
  | [] => false
  | x :: rest =>
    (match rest with
      | [y] => (isNoneF y && !isNoneF x && fsafeD NF x && !isAnyOfD x)
               || (isNoneF x && !isNoneF y && fsafeOptTail NF rest)
      | _ => false)
termination_by structural fs => fs

def fsafeOptTail (NF : List String) : List FieldDecl → Bool
  | [] => false
  | y :: _ => fsafeD NF y && !isAnyOfD y
termination_by structural fs => fs

def fsafeFields (NF : List String) : List (String × FieldDecl) → Bool
  | [] => true
  | (_, f) :: rest => fsafeD NF f && fsafeFields NF rest
termination_by structural fs => fs
end

def fsafeCls (NF : List String) (cls : FieldDecl) : Bool :=
  match cls with
  | .struct _ _ _ => fsafeD NF cls
  | _ => false

def hasDec : PyVal → Bool
  | .dec _ => true
  | _ => false

mutual
/-- no Number field holds a Decimal and no instance holds an attribute that is not a declared
    field, at any depth -/
def noDecV : FieldDecl → PyVal → Bool
  | .number _, v => !hasDec v
  | .seqOf _ item _, v => (match seqLike v with | some xs => xs.all (noDecV item) | none => true)
  | .setOf _ item _, v => (match seqLike v with | some xs => xs.all (noDecV item) | none => true)
  | .tuplePos items _, v => (match seqLike v with | some xs => noDecZip items xs | none => true)
  | .tupleOf item _, v => (match seqLike v with | some xs => xs.all (noDecV item) | none => true)
  | .mapOf kf vf _, v =>
    (match v with | .dict kvs => kvs.all (fun kv => noDecV kf kv.1 && noDecV vf kv.2) | _ => true)
  | .struct _ fields _, v =>
    (match v with
      | .inst _ attrs => attrs.all (fun a => (fields.map (·.1)).contains a.1) && noDecFields attrs fields
      | _ => true)
  | .anyOf fs, v => noDecAll fs v
  | .integer _, _ => true
  | .float _, _ => true
  | .string _ _ _, _ => true
  | .boolean, _ => true
  | .noneF, _ => true
  | .enumLit _, _ => true
  | .enumCls _ _, _ => true
  | .seqPos _ _ _ _, _ => true
  | .seqAny _ _, _ => true
  | .setAny _ _, _ => true
  | .mapAny _, _ => true
  | .oneOf _, _ => true
  | .allOf _, _ => true
  | .notF _, _ => true
  | .anything, _ => true
termination_by structural f _ => f
def noDecZip : List FieldDecl → List PyVal → Bool
  | [], _ => true
  | _ :: _, [] => true
  | f :: fs, x :: xs => noDecV f x && noDecZip fs xs
termination_by structural fs _ => fs
def noDecAll : List FieldDecl → PyVal → Bool
  | [], _ => true
  | f :: fs, v => noDecV f v && noDecAll fs v
termination_by structural fs _ => fs
def noDecFields (attrs : List (String × PyVal)) : List (String × FieldDecl) → Bool
  | [] => true
  | (n, f) :: rest =>
    (match lookup n attrs with | some v => noDecV f v | none => true) && noDecFields attrs rest
termination_by structural fs => fs
end

/-- instance level: no Decimal, and no attribute that is not a declared field -/
def fplainInst (cls : FieldDecl) (x : PyVal) : Bool :=
  match cls, x with
  | .struct _ _ _, .inst _ _ => noDecV cls x
  | _, _ => false

/-! ### names of the known defects (driver only) -/

mutual
def fdefD (NF : List String) : FieldDecl → List String
  | .tupleOf item _ => fdefD NF item
  | .seqPos .list items _ _ => "fast:untyped-raw" :: fdefL NF items     -- surplus elements are copied raw
  | .seqPos .deque items _ _ => "positional-deque:unproved" :: fdefL NF items
  | .seqAny _ _ => ["fast:untyped-raw"]
  | .setAny _ _ => ["fast:untyped-raw"]
  | .mapAny _ => ["fast:untyped-raw"]
  | .anything => ["fast:json-dumps"]
  | .oneOf fs => "fast:multi-wrapper" :: fdefL NF fs
  | .allOf fs => "fast:multi-wrapper" :: fdefL NF fs
  | .notF fs => "fast:multi-wrapper" :: fdefL NF fs
  | .anyOf fs =>
    (if fs.length == 2 && fs.any isNoneF then
       -- an Optional: the non-None option must not be an AnyOf again (and must exist)
       (if fs.all (fun g => isNoneF g || isAnyOfD g) then ["optional-shape:unproved"] else [])
     else ["fast:multi-wrapper"]) ++ fdefL NF fs
  | .seqOf _ item _ => fdefD NF item
  | .setOf _ item _ => fdefD NF item
  | .tuplePos items _ => fdefL NF items
  | .mapOf kf vf _ => fdefD NF kf ++ fdefD NF vf
  | .struct c fields _ =>
    (if c.inline then ["fast:inline-none-keys"] else [])
    ++ (if NF.contains c.name then ["fast:nonfast-nested"] else [])
    ++ (if strNodup (fields.map (·.1)) then [] else ["duplicate-field-names"])
    ++ fdefFields NF fields
  | .number _ => []
  | .integer _ => []
  | .float _ => []
  | .string _ _ _ => []
  | .boolean => []
  | .noneF => []
  | .enumLit _ => []
  | .enumCls _ _ => []
termination_by structural f => f
def fdefL (NF : List String) : List FieldDecl → List String
  | [] => []
  | f :: fs => fdefD NF f ++ fdefL NF fs
termination_by structural fs => fs
def fdefFields (NF : List String) : List (String × FieldDecl) → List String
  | [] => []
  | (_, f) :: rest => fdefD NF f ++ fdefFields NF rest
termination_by structural fs => fs
end

mutual
/-- some nested class's key changes under an enum mapper of an enclosing class -/
def cascades (Mp : MapEnv) (outer : List TMapper) : FieldDecl → Bool
  | .struct c fields _ =>
    (!c.inline && fields.any (fun p =>
        outer.any fun m => mapKey m (mapKey (Mp c.name) p.1) != mapKey (Mp c.name) p.1))
    || cascadesFields Mp (match Mp c.name with
                           | .camel => .camel :: outer | .lower => .lower :: outer | _ => outer) fields
  | .seqOf _ item _ => cascades Mp outer item
  | .setOf _ item _ => cascades Mp outer item
  | .tupleOf item _ => cascades Mp outer item
  | .mapOf _ vf _ => cascades Mp outer vf
  | .anyOf fs => cascadesL Mp outer fs
  | .tuplePos fs _ => cascadesL Mp outer fs
  | .seqPos _ fs _ _ => cascadesL Mp outer fs
  | .oneOf fs => cascadesL Mp outer fs
  | .allOf fs => cascadesL Mp outer fs
  | .notF fs => cascadesL Mp outer fs
  | .number _ => false
  | .integer _ => false
  | .float _ => false
  | .string _ _ _ => false
  | .boolean => false
  | .noneF => false
  | .enumLit _ => false
  | .enumCls _ _ => false
  | .seqAny _ _ => false
  | .setAny _ _ => false
  | .mapAny _ => false
  | .anything => false
termination_by structural f => f
def cascadesL (Mp : MapEnv) (outer : List TMapper) : List FieldDecl → Bool
  | [] => false
  | f :: fs => cascades Mp outer f || cascadesL Mp outer fs
termination_by structural fs => fs
def cascadesFields (Mp : MapEnv) (outer : List TMapper) : List (String × FieldDecl) → Bool
  | [] => false
  | (_, f) :: rest => cascades Mp outer f || cascadesFields Mp outer rest
termination_by structural fs => fs
end

/-- the known defects a fast-serialization case runs into -/
def fastDefects (Mp : MapEnv) (NF : List String) (compact sn : Bool) (cls : FieldDecl)
    (x : PyVal) : List String :=
  match cls with
  | .struct c fields defaults =>
    let names := fields.map (·.1)
    let attrs := attrsOf x
    ((fdefFields NF fields)
      ++ (if strNodup names then [] else ["duplicate-field-names"])
      ++ (if noDecV cls x then [] else ["fast:extras-dropped"])
      ++ (if sn && fields.any (fun p => (getAttr defaults attrs p.1).isNone) then ["fast:serialize-none"] else [])
      ++ (if compact && fields.length == 1
            && !(c.required == names && !c.addl
                 && !fields.any (fun p => (getAttr defaults attrs p.1).isNone)) then ["fast:compact-conditions"] else [])
      ++ (if cascades Mp [] cls then ["fast:mapper-cascade"] else [])).eraseDups
  | _ => ["not-a-class"]


/-! ### instances in canonical attribute order -/

mutual
/-- the same value with the attributes of every (nested) instance listed in field order: the
    order of `__dict__` is not part of the model's claim -/
def canonV : FieldDecl → PyVal → PyVal
  | .seqOf _ item _, v =>
    (match v with
      | .list xs => .list (xs.map (canonV item))
      | .deque xs => .deque (xs.map (canonV item))
      | w => w)
  | .setOf _ item _, v => (match v with | .set fr xs => .set fr (xs.map (canonV item)) | w => w)
  | .tuplePos items _, v => (match v with | .tuple xs => .tuple (canonZip items xs) | w => w)
  | .tupleOf item _, v => (match v with | .tuple xs => .tuple (xs.map (canonV item)) | w => w)
  | .seqPos .list items _ _, v => (match v with | .list xs => .list (canonZip items xs) | w => w)
  | .seqPos .deque _ _ _, v => v
  | .mapOf kf vf _, v =>
    (match v with | .dict kvs => .dict (kvs.map fun kv => (canonV kf kv.1, canonV vf kv.2)) | w => w)
  | .struct _ fields _, v => (match v with | .inst cn attrs => .inst cn (canonFields attrs fields) | w => w)
  | .anyOf fs, v => canonAny fs v
  | .number _, v => v
  | .integer _, v => v
  | .float _, v => v
  | .string _ _ _, v => v
  | .boolean, v => v
  | .noneF, v => v
  | .enumLit _, v => v
  | .enumCls _ _, v => v
  | .seqAny _ _, v => v
  | .setAny _ _, v => v
  | .mapAny _, v => v
  | .oneOf _, v => v
  | .allOf _, v => v
  | .notF _, v => v
  | .anything, v => v
termination_by structural f _ => f
def canonZip : List FieldDecl → List PyVal → List PyVal
  | [], xs => xs
  | _ :: _, [] => []
  | f :: fs, x :: xs => canonV f x :: canonZip fs xs
termination_by structural fs _ => fs
/-- through the option that is not `NoneField` (an Optional has exactly one) -/
def canonAny : List FieldDecl → PyVal → PyVal
  | [], v => v
  | f :: fs, v => if isNoneF f then canonAny fs v else canonV f v
termination_by structural fs _ => fs
def canonFields (attrs : List (String × PyVal)) : List (String × FieldDecl) → List (String × PyVal)
  | [] => []
  | (n, f) :: rest =>
    (match lookup n attrs with
      | some v => [(n, canonV f v)]
      | none => []) ++ canonFields attrs rest
termination_by structural fs => fs
end


/-! ### valid instances, as far as serialization looks at them -/

mutual
/-- the stored value `v` has the shape field `f` stores (JSON scalars for the scalar fields, the
    right container, nested instances of the declared class holding only declared attributes, an
    absent attribute only where the field has no default) -/
def fwf (O : Oracles) : FieldDecl → PyVal → Bool
  | .number _, v => numJson v
  | .integer _, v => (match v with | .int _ => true | .bool _ => true | _ => false)
  | .float _, v => (match v with | .float _ => true | _ => false)
  | .string _ _ _, v => (match v with | .str _ => true | _ => false)
  | .boolean, v => (match v with | .bool _ => true | _ => false)
  | .noneF, v => v.isNone
  | .enumLit _, _ => true
  | .enumCls _ _, v => (match v with | .enumv _ _ => true | _ => false)
  | .seqOf k item _, v => (match seqElems k v with | some xs => xs.all (fwf O item) | none => false)
  | .setOf _ item _, v => (match v with | .set _ xs => xs.all (fwf O item) | _ => false)
  | .tuplePos items _, v =>
    (match v with | .tuple xs => xs.length == items.length && fwfZip O items xs | _ => false)
  | .tupleOf item _, v => (match v with | .tuple xs => xs.all (fwf O item) | _ => false)
  | .seqPos .list items _ _, v =>
    (match v with | .list xs => xs.length == items.length && fwfZip O items xs | _ => false)
  | .seqPos .deque _ _ _, _ => false
  | .mapOf kf vf _, v =>
    (match v with | .dict kvs => kvs.all (fun kv => fwf O kf kv.1 && fwf O vf kv.2) | _ => false)
  | .struct c fields defaults, v =>
    (match v with
      | .inst cn attrs =>
        cn == c.name && attrs.all (fun a => (fields.map (·.1)).contains a.1)
          && fwfFields O defaults attrs fields
      | _ => false)
  | .anyOf fs, v => !v.isNone && fwfAny O fs v
  | .seqAny _ _, _ => false
  | .setAny _ _, _ => false
  | .mapAny _, _ => false
  | .oneOf _, _ => false
  | .allOf _, _ => false
  | .notF _, _ => false
  | .anything, _ => false
termination_by structural f _ => f
def fwfZip (O : Oracles) : List FieldDecl → List PyVal → Bool
  | [], _ => true
  | _ :: _, [] => true
  | f :: fs, x :: xs => fwf O f x && fwfZip O fs xs
termination_by structural fs _ => fs
/-- the value fits an option that is not `NoneField`, also as `serialize_multifield_wrapper`
    sees it (the option's `_validate` passes and its serialization succeeds) -/
def fwfAny (O : Oracles) : List FieldDecl → PyVal → Bool
  | [], _ => false
  | f :: fs, v =>
    (!isNoneF f && fwf O f v && shallowOk O f (canonV f v) && !(canonV f v).isNone
      && (match ser O f (canonV f v) with | .ok _ => true | .error _ => false))
    || fwfAny O fs v
termination_by structural fs _ => fs
def fwfFields (O : Oracles) (defaults attrs : List (String × PyVal)) : List (String × FieldDecl) → Bool
  | [] => true
  | (n, f) :: rest =>
    (match lookup n attrs with
      | some v => v.isNone || fwf O f v
      | none => (lookup n defaults).all (·.isNone))
    && fwfFields O defaults attrs rest
termination_by structural fs => fs
end


/-! ### key-renaming mappers (Props/C10 §7) -/

def relabelKey (m : TMapper) : PyVal → PyVal
  | .str n => .str (mapKey m n)
  | k => k

def relabelPairs (m : TMapper) (r : List (PyVal × PyVal)) : List (PyVal × PyVal) :=
  r.map fun kv => (relabelKey m kv.1, kv.2)

/-- the document of a class-level object with its keys renamed by the class's mapper -/
def relabelDoc (m : TMapper) (d : PyVal) : R PyVal :=
  match d with
  | .dict r => .ok (.dict (relabelPairs m r))
  | v => .ok v


mutual
/-- no class inside `f` has a mapper -/
def mfreeD (Mp : MapEnv) : FieldDecl → Bool
  | .struct c fields _ => (c.inline || (Mp c.name).isNone) && mfreeFields Mp fields
  | .seqOf _ item _ => mfreeD Mp item
  | .setOf _ item _ => mfreeD Mp item
  | .tupleOf item _ => mfreeD Mp item
  | .tuplePos items _ => mfreeL Mp items
  | .seqPos _ items _ _ => mfreeL Mp items
  | .mapOf kf vf _ => mfreeD Mp kf && mfreeD Mp vf
  | .anyOf fs => mfreeL Mp fs
  | .oneOf fs => mfreeL Mp fs
  | .allOf fs => mfreeL Mp fs
  | .notF fs => mfreeL Mp fs
  | .number _ => true
  | .integer _ => true
  | .float _ => true
  | .string _ _ _ => true
  | .boolean => true
  | .noneF => true
  | .enumLit _ => true
  | .enumCls _ _ => true
  | .seqAny _ _ => true
  | .setAny _ _ => true
  | .mapAny _ => true
  | .anything => true
termination_by structural f => f
def mfreeL (Mp : MapEnv) : List FieldDecl → Bool
  | [] => true
  | f :: fs => mfreeD Mp f && mfreeL Mp fs
termination_by structural fs => fs
def mfreeFields (Mp : MapEnv) : List (String × FieldDecl) → Bool
  | [] => true
  | (_, f) :: rest => mfreeD Mp f && mfreeFields Mp rest
termination_by structural fs => fs
end


/-! ### the document of a class tree with every class's keys renamed by its own mapper -/

mutual
/-- `relV Mp f j`: the mapper-free document `j` of a value of field `f` with the keys of every
    class-level object renamed by that class's own mapper (classes directly in a field, in an
    Array / Deque / Set / Tuple[X], in an Optional) -/
def relV (Mp : MapEnv) : FieldDecl → PyVal → PyVal
  | .struct c fields _, j =>
    (match j with
      | .dict r => if c.inline then .dict r else .dict (relFields Mp (Mp c.name) fields r)
      | other => other)
  | .seqOf _ item _, j => (match j with | .list js => .list (js.map (relV Mp item)) | other => other)
  | .setOf _ item _, j => (match j with | .list js => .list (js.map (relV Mp item)) | other => other)
  | .tupleOf item _, j => (match j with | .list js => .list (js.map (relV Mp item)) | other => other)
  | .anyOf fs, j => relLast Mp fs j
  | .number _, j => j
  | .integer _, j => j
  | .float _, j => j
  | .string _ _ _, j => j
  | .boolean, j => j
  | .noneF, j => j
  | .enumLit _, j => j
  | .enumCls _ _, j => j
  | .seqAny _ _, j => j
  | .seqPos _ _ _ _, j => j
  | .setAny _ _, j => j
  | .tuplePos _ _, j => j
  | .mapAny _, j => j
  | .mapOf _ _ _, j => j
  | .oneOf _, j => j
  | .allOf _, j => j
  | .notF _, j => j
  | .anything, j => j
termination_by structural f _ => f
/-- through the option `AnyOf.serialize` uses: the last one that is not `NoneField` -/
def relLast (Mp : MapEnv) : List FieldDecl → PyVal → PyVal
  | [], j => j
  | f :: rest, j => if rest.all isNoneF && !isNoneF f then relV Mp f j else relLast Mp rest j
termination_by structural fs _ => fs
/-- the entries of a class-level object (field order, absent fields skipped) -/
def relFields (Mp : MapEnv) (m : TMapper) : List (String × FieldDecl) → List (PyVal × PyVal) → List (PyVal × PyVal)
  | [], r => r
  | (n, f) :: rest, r =>
    (match r with
      | [] => []
      | (k, j) :: r' =>
        if (match k with | .str s => s == n | _ => false)
        then (PyVal.str (mapKey m n), relV Mp f j) :: relFields Mp m rest r'
        else relFields Mp m rest ((k, j) :: r'))
termination_by structural fs _ => fs
end

mutual
/-- mappers may sit on classes in fields, Array / Deque / Set / Tuple[X] items and Optionals; inside
    Map values and positional items the classes are mapper-free; every mapper is simple and injective
    on its class's fields -/
def fmsafeD (Mp : MapEnv) : FieldDecl → Bool
  | .struct c fields _ =>
    !c.inline && !(Mp c.name).isComplex && strNodup (fields.map fun p => mapKey (Mp c.name) p.1)
      && fmsafeFields Mp fields
  | .seqOf _ item _ => fmsafeD Mp item
  | .setOf _ item _ => fmsafeD Mp item
  | .tupleOf item _ => fmsafeD Mp item
  | .anyOf fs => fmsafeL Mp fs
  | .tuplePos items _ => mfreeL Mp items
  | .seqPos _ items _ _ => mfreeL Mp items
  | .mapOf kf vf _ => mfreeD Mp kf && mfreeD Mp vf
  | .number _ => true
  | .integer _ => true
  | .float _ => true
  | .string _ _ _ => true
  | .boolean => true
  | .noneF => true
  | .enumLit _ => true
  | .enumCls _ _ => true
  | .seqAny _ _ => true
  | .setAny _ _ => true
  | .mapAny _ => true
  | .oneOf _ => false
  | .allOf _ => false
  | .notF _ => false
  | .anything => true
termination_by structural f => f
def fmsafeL (Mp : MapEnv) : List FieldDecl → Bool
  | [] => true
  | f :: fs => fmsafeD Mp f && fmsafeL Mp fs
termination_by structural fs => fs
def fmsafeFields (Mp : MapEnv) : List (String × FieldDecl) → Bool
  | [] => true
  | (_, f) :: rest => fmsafeD Mp f && fmsafeFields Mp rest
termination_by structural fs => fs
end


end Typedpy
