/-
  Spec/CodeExact.lean — C09 exactness ("the generated class accepts a document iff the schema admits
  it"): the JSON document of a scalar schema of the C09 AST (`scalarDoc`), the exact scalar
  sub-fragment (`exactSchema`) and an executable "the generated field accepts" (`acceptsB`:
  `Sem/Deser.deser` + `Sem/Validate.validate` on `schemaToDecl`), against the draft-4 validator model
  of C08 (`Spec/JsValid.jsV`).
-/
import TypedpyModel.Sem.SchemaToCode
import TypedpyModel.Sem.Schema
import TypedpyModel.Sem.Deser
import TypedpyModel.Spec.JsValid
import TypedpyModel.Spec.SchemaFrag
namespace Typedpy.CodeExact
open Typedpy Typedpy.Sch

/-- the JSON document of a scalar schema of the AST (`fx`: draft-4 spelling `multipleOf`) -/
def scalarDoc (fx : Bool) : Schema → PyVal
  | .num i mult mn mx ex =>
    .dict ([kw "type" (.str (if i then "integer" else "number"))]
      ++ optKw (multKey fx) (mult.map PyVal.int)
      ++ optKw "minimum" (mn.map numJ) ++ optKw "maximum" (mx.map numJ)
      ++ optKw "exclusiveMaximum" (if ex then some (.bool true) else none))
  | .str lo hi p => .dict (strKws lo hi p)
  | .bool => .dict [kw "type" (.str "boolean")]
  | .enum vs => .dict [kw "enum" (.list vs)]
  | _ => .none

def multOk : Option Int → Bool
  | none => true
  | some m => decide (0 < m)

/-- the exact scalar sub-fragment of the schema AST: integer with bounds / multiplesOf, number with
    bounds, `exclusiveMaximum` only next to `maximum`, strings with lengths and a start-anchored
    pattern, boolean, non-empty enum of int / float / str / bool literals -/
def exactSchema : Schema → Bool
  | .num i mult _ mx ex => multOk mult && (i || mult.isNone) && (!ex || mx.isSome)
  | .str _ _ p => (match p with | some p => startAnchored p | none => true)
  | .bool => true
  | .enum vs => !vs.isEmpty && vs.all Sch.enumScalar
  | _ => false

/-- the trivial resolvers / oracles used by the kernel-checked counterexamples -/
def R0 : String → PyVal → Bool := fun _ _ => false
def S0 : String → String → Bool := fun _ _ => false
def O0 : Oracles := { reMatch := fun _ _ => false }
def rho0 : String → FieldDecl := fun r => .struct { name := r, required := [], accepts := [r] } [] []

/-- the generated field accepts the document value (deserialization + validation), as a Bool -/
def acceptsWith (O : Oracles) (f : FieldDecl) (v : PyVal) : Bool :=
  match deser O {} false f v with
  | .ok y => (match validate O f y with | .ok _ => true | .error _ => false)
  | .error _ => false

def acceptsB (f : FieldDecl) (v : PyVal) : Bool := acceptsWith O0 f v

end Typedpy.CodeExact
