/-
  Spec/SerFrag.lean — the serializable fragment of C05 on which the round trip is exact, as a
  decidable predicate on (declaration, stored value): scalars, Enum by name, JSON-literal enums,
  Array/Deque/Tuple (homogeneous or positional without surplus elements), nested Structure classes
  (instances of exactly the declared class, attributes in constructor order, every set attribute
  not None and itself in the fragment, every unset field optional without a default) and
  `Optional[X]` (`AnyOf[NoneField, X]`) holding a value, mutable Set, Map with String keys, at any
  nesting depth, and `AnyOf` over options that are distinguishable on the value held (`inFragAny`).
  StructureReference, ImmutableSet, Map with other keys, untyped collections / Anything / OneOf / AllOf / NotField /
  AnyOf over indistinguishable options are outside this predicate: for them the round trip is decided by the correspondence
  harness (the model mirrors their code paths); the field-level theorems are therefore `_partial`.
-/
import TypedpyModel.Sem.Deser
import TypedpyModel.Spec.Conforms
namespace Typedpy

def jsonScalar : PyVal → Bool
  | .none | .bool _ | .int _ | .float _ | .str _ => true
  | _ => false

def numJson : PyVal → Bool
  | .int _ | .float _ | .bool _ => true
  | _ => false

/-- an unconstrained-type String key field (its constraints are checked by `conforms`) -/
def isStringDecl : FieldDecl → Bool
  | .string _ _ _ => true
  | _ => false

/-- all keys are strings and pairwise different -/
def strKeysDistinct : List (PyVal × PyVal) → Bool
  | [] => true
  | (.str k, _) :: rest => !(rest.any fun kv => match kv.1 with | .str k' => k == k' | _ => false) && strKeysDistinct rest
  | _ :: _ => false

/-- all keys are (non-bool) ints and pairwise different -/
def intKeysDistinct : List (PyVal × PyVal) → Bool
  | [] => true
  | (.int i, _) :: rest => !(rest.any fun kv => match kv.1 with | .int j => i == j | _ => true) && intKeysDistinct rest
  | _ :: _ => false

def isIntDecl : FieldDecl → Bool
  | .integer _ => true
  | _ => false

def isNoneDecl : FieldDecl → Bool
  | .noneF => true
  | _ => false

/-- the JSON type of a document value (`other`: not a JSON value) -/
inductive DocKind where | null | bool | int | float | str | list | dict | other
deriving DecidableEq, Repr

def docKind : PyVal → DocKind
  | .none => .null
  | .bool _ => .bool
  | .int _ => .int
  | .float _ => .float
  | .str _ => .str
  | .list _ => .list
  | .dict _ => .dict
  | _ => .other

/-- JSON types a declaration's deserializer can possibly accept, judged by the top-level shape alone
    (`true` wherever the answer needs more than the shape): a document of any other JSON type is
    rejected by `deserialize_single_field` — this is what makes two AnyOf options distinguishable -/
def acceptsDoc : FieldDecl → DocKind → Bool
  | _, .other => true
  | .number _, k => k == .bool || k == .int || k == .float
  | .integer _, k => k == .bool || k == .int
  | .float _, k => k == .int || k == .float
  | .string _ _ _, k => k == .str
  | .boolean, k => k == .bool || k == .str
  | .enumCls _ _, k => k == .str
  | .seqAny _ _, k => k == .list
  | .seqOf _ _ _, k => k == .list
  | .seqPos _ _ _ _, k => k == .list
  | .setAny _ _, k => k == .list
  | .setOf _ _ _, k => k == .list
  | .tupleOf _ _, k => k == .list
  | .tuplePos _ _, k => k == .list
  | .mapAny _, k => k == .dict
  | .mapOf _ _ _, k => k == .dict
  | .struct _ _ _, k => k == .dict
  | .noneF, k => k == .null
  | _, _ => true

/-- a field that may stay unset: not required and without a default the constructor would fill in -/
def absentOk (c : ClassOpts) (defaults : List (String × PyVal)) (n : String) : Bool :=
  !c.required.contains n && (match lookup n defaults with | none => true | some d => d.isNone)

mutual
def inFrag (O : Oracles) : FieldDecl → PyVal → Bool
  | .number _, v => numJson v
  | .integer _, _ => true
  | .float _, _ => true
  | .string _ _ _, _ => true
  | .boolean, _ => true
  | .enumLit _, v => jsonScalar v
  | .enumCls _ _, _ => true
  | .seqOf _ f _, v => (match seqLike v with | some xs => xs.all (inFrag O f) | none => false)
  | .seqPos _ fs _ _, v =>
    (match seqLike v with | some xs => xs.length == fs.length && inFragZip O fs xs | none => false)
  | .tupleOf f _, v => (match seqLike v with | some xs => xs.all (inFrag O f) | none => false)
  | .tuplePos fs _, v =>
    (match seqLike v with | some xs => xs.length == fs.length && inFragZip O fs xs | none => false)
  | .struct c fields defaults, v =>
    !c.inline && c.accepts.contains c.name && decide ((fields.map (·.1)).Nodup)
      && (match v with
          | .inst n attrs =>
            n == c.name && c.required.all (fun r => (lookup r attrs).isSome)
              && canonAttrs O c defaults fields attrs
          | _ => false)
  | .anyOf fs, v => inFragAny O fs v
  | .noneF, v => v.isNone
  /- a (mutable) Set: the stored elements are hashable and pairwise distinct, as in every real set
     (an ImmutableSet stores a frozenset, which deserializes to a set first and is frozen by the
     constructor: equal, but not identical in the model) -/
  | .setOf imm f _, v =>
    !imm && (match v with
      | .set fr xs => !fr && PyVal.pyNodup xs && !(xs.any unhashable) && xs.all (inFrag O f)
      | _ => false)
  /- a Map with String keys, or with Integer keys (as a PYTHON document: json.dumps would turn the int keys into
     strings, see map_int_keys_text_counterexample): distinct keys (as in every real dict), values in the fragment -/
  | .mapOf kf vf _, v =>
    (match v with
      | .dict kvs =>
        ((isStringDecl kf && strKeysDistinct kvs) || (isIntDecl kf && intKeysDistinct kvs))
          && kvs.all (fun kv => inFrag O vf kv.2)
      | _ => false)
  | _, _ => false
termination_by structural f _ => f

/-- `AnyOf[f₁, …, fₙ]` holding `v`: the FIRST option whose shallow check (the `_validate` that
    serialize_multifield_wrapper runs) passes is the option the value belongs to — `v` conforms to it and
    lies in its fragment — and every option listed before it is DISTINGUISHABLE from it on this value: its
    shallow check fails (the serializer skips it), its validation fails (the constructor skips it) and it
    cannot accept a document of the JSON type the value serializes to (the deserializer skips it).
    `Optional[X]` in either order, `AnyOf[A, B, None]`, unions of scalars with collections or classes. -/
def inFragAny (O : Oracles) : List FieldDecl → PyVal → Bool
  | [], _ => false
  | f :: fs, v =>
    if shallowOk O f v then conforms O f v && inFrag O f v
    else !(validate O f v).toBool
      && (match serFirst O fs v with
          | .ok j => !acceptsDoc f (docKind j)
          | .error _ => false)
      && inFragAny O fs v
termination_by structural fs _ => fs

/-- the attribute list of an instance as the constructor builds it: declared fields only, in
    constructor order, each set value not None, conforming and in the fragment (or an ImmutableSet /
    StructureReference attribute, `attrSpecial`); each unset field may stay unset -/
def canonAttrs (O : Oracles) (c : ClassOpts) (defaults : List (String × PyVal)) :
    List (String × FieldDecl) → List (String × PyVal) → Bool
  | [], attrs => attrs.isEmpty
  | (n, _) :: rest, [] => absentOk c defaults n && canonAttrs O c defaults rest []
  | (n, f) :: rest, (m, v) :: as =>
    if m == n then !v.isNone && ((conforms O f v && inFrag O f v) || attrSpecial O f v) && canonAttrs O c defaults rest as
    else absentOk c defaults n && canonAttrs O c defaults rest ((m, v) :: as)
termination_by structural fs _ => fs

/-- field kinds whose STORED form is not what the deserializer hands to the constructor, as the value of a
    class attribute: an ImmutableSet stores a frozenset (the deserializer builds a set, the constructor
    freezes it) and a StructureReference stores an instance of its inline class (the deserializer hands on the
    validated keyword arguments as a dict, the constructor builds the instance) -/
def attrSpecial (O : Oracles) : FieldDecl → PyVal → Bool
  | .setOf imm f sz, v =>
    imm && (match v with
      | .set fr xs => fr && sizeOk sz xs.length && PyVal.pyNodup xs && !(xs.any unhashable)
          && xs.all (fun x => conforms O f x && inFrag O f x)
      | _ => false)
  | .struct c fields defaults, v =>
    c.inline && decide ((fields.map (·.1)).Nodup)
      && (match v with
          | .inst n attrs =>
            n == c.name && c.required.all (fun r => (lookup r attrs).isSome)
              && canonAttrs O c defaults fields attrs
          | _ => false)
  | _, _ => false
termination_by structural f _ => f

def inFragZip (O : Oracles) : List FieldDecl → List PyVal → Bool
  | [], _ => true
  | _ :: _, [] => true
  | f :: fs, x :: xs => inFrag O f x && inFragZip O fs xs
termination_by structural fs _ => fs

end

/-! ### JSON documents in the strict sense -/

mutual
/-- a JSON document in the strict sense: null / bool / number / string / array / object whose keys are strings -/
def docStable : PyVal → Bool
  | .none => true
  | .bool _ => true
  | .int _ => true
  | .float _ => true
  | .str _ => true
  | .list xs => docStableList xs
  | .dict kvs => docStablePairs kvs
  | _ => false
termination_by structural v => v
def docStableList : List PyVal → Bool
  | [] => true
  | x :: xs => docStable x && docStableList xs
termination_by structural xs => xs
def docStablePairs : List (PyVal × PyVal) → Bool
  | [] => true
  | (k, v) :: rest => (match k with | .str _ => true | _ => false) && docStable v && docStablePairs rest
termination_by structural xs => xs
end


end Typedpy
