/-
  Spec/SerFrag.lean — the serializable fragment of C05 on which the round trip is exact, as a
  decidable predicate on (declaration, stored value): scalars, Enum by name, JSON-literal enums,
  Array/Deque/Tuple (homogeneous or positional without surplus elements), at any nesting depth.
  Nested structures, Optional, Set / Map / untyped collections / Anything / OneOf / AllOf / NotField
  are outside this predicate: for them the round trip is decided by the correspondence harness
  (the model mirrors their code paths); the field-level theorems are therefore `_partial`.
-/
import TypedpyModel.Sem.Deser
import TypedpyModel.Spec.Conforms
namespace Typedpy

def jsonScalar : PyVal → Bool
  | .none | .bool _ | .int _ | .float _ | .str _ => true
  | _ => false

def numJson : PyVal → Bool
  | .int _ | .float _ | .bool _ => true
  | _ => false

mutual
def inFrag (O : Oracles) : FieldDecl → PyVal → Bool
  | .number _, v => numJson v
  | .integer _, _ => true
  | .float _, _ => true
  | .string _ _ _, _ => true
  | .boolean, _ => true
  | .enumLit _, v => jsonScalar v
  | .enumCls _ _, _ => true
  | .seqOf _ f _, v => (match seqLike v with | some xs => xs.all (inFrag O f) | none => false)
  | .seqPos _ fs _ _, v =>
    (match seqLike v with | some xs => xs.length == fs.length && inFragZip O fs xs | none => false)
  | .tupleOf f _, v => (match seqLike v with | some xs => xs.all (inFrag O f) | none => false)
  | .tuplePos fs _, v =>
    (match seqLike v with | some xs => xs.length == fs.length && inFragZip O fs xs | none => false)
  | _, _ => false
termination_by structural f _ => f

def inFragZip (O : Oracles) : List FieldDecl → List PyVal → Bool
  | [], _ => true
  | _ :: _, [] => true
  | f :: fs, x :: xs => inFrag O f x && inFragZip O fs xs
termination_by structural fs _ => fs

end

end Typedpy
