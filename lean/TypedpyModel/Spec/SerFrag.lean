/-
  Spec/SerFrag.lean — the serializable fragment of C05 on which the round trip is exact, as a
  decidable predicate on (declaration, stored value): scalars, Enum by name, JSON-literal enums,
  Array/Deque/Tuple (homogeneous or positional without surplus elements), nested Structure classes
  (instances of exactly the declared class, attributes in constructor order, every set attribute
  not None and itself in the fragment, every unset field optional without a default) and
  `Optional[X]` (`AnyOf[NoneField, X]`) holding a value, mutable Set, Map with String keys, at any
  nesting depth.
  StructureReference, ImmutableSet, Map with other keys, untyped collections / Anything / OneOf / AllOf / NotField /
  wider AnyOf are outside this predicate: for them the round trip is decided by the correspondence
  harness (the model mirrors their code paths); the field-level theorems are therefore `_partial`.
-/
import TypedpyModel.Sem.Deser
import TypedpyModel.Spec.Conforms
namespace Typedpy

def jsonScalar : PyVal → Bool
  | .none | .bool _ | .int _ | .float _ | .str _ => true
  | _ => false

def numJson : PyVal → Bool
  | .int _ | .float _ | .bool _ => true
  | _ => false

/-- an unconstrained-type String key field (its constraints are checked by `conforms`) -/
def isStringDecl : FieldDecl → Bool
  | .string _ _ _ => true
  | _ => false

/-- all keys are strings and pairwise different -/
def strKeysDistinct : List (PyVal × PyVal) → Bool
  | [] => true
  | (.str k, _) :: rest => !(rest.any fun kv => match kv.1 with | .str k' => k == k' | _ => false) && strKeysDistinct rest
  | _ :: _ => false

def isNoneDecl : FieldDecl → Bool
  | .noneF => true
  | _ => false

/-- a field that may stay unset: not required and without a default the constructor would fill in -/
def absentOk (c : ClassOpts) (defaults : List (String × PyVal)) (n : String) : Bool :=
  !c.required.contains n && (match lookup n defaults with | none => true | some d => d.isNone)

mutual
def inFrag (O : Oracles) : FieldDecl → PyVal → Bool
  | .number _, v => numJson v
  | .integer _, _ => true
  | .float _, _ => true
  | .string _ _ _, _ => true
  | .boolean, _ => true
  | .enumLit _, v => jsonScalar v
  | .enumCls _ _, _ => true
  | .seqOf _ f _, v => (match seqLike v with | some xs => xs.all (inFrag O f) | none => false)
  | .seqPos _ fs _ _, v =>
    (match seqLike v with | some xs => xs.length == fs.length && inFragZip O fs xs | none => false)
  | .tupleOf f _, v => (match seqLike v with | some xs => xs.all (inFrag O f) | none => false)
  | .tuplePos fs _, v =>
    (match seqLike v with | some xs => xs.length == fs.length && inFragZip O fs xs | none => false)
  | .struct c fields defaults, v =>
    !c.inline && c.accepts.contains c.name && decide ((fields.map (·.1)).Nodup)
      && (match v with
          | .inst n attrs =>
            n == c.name && c.required.all (fun r => (lookup r attrs).isSome)
              && canonAttrs O c defaults fields attrs
          | _ => false)
  | .anyOf fs, v => inFragOpt O fs v
  /- a (mutable) Set: the stored elements are hashable and pairwise distinct, as in every real set
     (an ImmutableSet stores a frozenset, which deserializes to a set first and is frozen by the
     constructor: equal, but not identical in the model) -/
  | .setOf imm f _, v =>
    !imm && (match v with
      | .set fr xs => !fr && PyVal.pyNodup xs && !(xs.any unhashable) && xs.all (inFrag O f)
      | _ => false)
  /- a Map with String keys: distinct string keys (as in every real dict), values in the fragment -/
  | .mapOf kf vf _, v =>
    isStringDecl kf && (match v with
      | .dict kvs => strKeysDistinct kvs && kvs.all (fun kv => inFrag O vf kv.2)
      | _ => false)
  | _, _ => false
termination_by structural f _ => f

/-- `Optional[X]` = `AnyOf[NoneField, X]` holding a (non-None) value of the fragment of `X` -/
def inFragOpt (O : Oracles) : List FieldDecl → PyVal → Bool
  | [], _ => false
  | [_], _ => false
  | f :: g :: [], v => isNoneDecl f && !v.isNone && conforms O g v && inFrag O g v
  | _ :: _ :: _ :: _, _ => false
termination_by structural fs _ => fs

/-- the attribute list of an instance as the constructor builds it: declared fields only, in
    constructor order, each set value not None, conforming and in the fragment; each unset field
    may stay unset -/
def canonAttrs (O : Oracles) (c : ClassOpts) (defaults : List (String × PyVal)) :
    List (String × FieldDecl) → List (String × PyVal) → Bool
  | [], attrs => attrs.isEmpty
  | (n, _) :: rest, [] => absentOk c defaults n && canonAttrs O c defaults rest []
  | (n, f) :: rest, (m, v) :: as =>
    if m == n then !v.isNone && conforms O f v && inFrag O f v && canonAttrs O c defaults rest as
    else absentOk c defaults n && canonAttrs O c defaults rest ((m, v) :: as)
termination_by structural fs _ => fs

def inFragZip (O : Oracles) : List FieldDecl → List PyVal → Bool
  | [], _ => true
  | _ :: _, [] => true
  | f :: fs, x :: xs => inFrag O f x && inFragZip O fs xs
termination_by structural fs _ => fs

end

end Typedpy
