/-
  Spec/Mappers.lean — the statement side of C07, written over single fields and mapper *lists*
  (no dicts of dicts): what key a field is written under, which mapper list governs a nested level,
  the key-set law, and the decidable hypotheses of the round-trip theorem.
-/
import TypedpyModel.Sem.Mappers
namespace Typedpy.Mappers

/-! ### pointwise specification of the aggregated mapping -/

/-- the dict mapper `m` already maps field `f` to its current key `s` (re-application of an inherited
    mapper must not rename twice) -/
def mapsTo (m : Mapper) (f s : String) : Bool :=
  match m with
  | .dict d => (match lookupR (.fld f) d with | some (.key t) => s == t | _ => false)
  | _ => false

/-- one mapper applied to field `f` whose current key is `cur`: renaming acts on the *current* key -/
def stepKey (S : StrFns) (m : Mapper) (f : String) (cur : MV) : MV :=
  match cur with
  | .key s => if mapsTo m f s then .key s else applyKey S m s
  | other => other

/-- the key of field `f` under the mapper list `L` (first element applied first) -/
def keyOf (S : StrFns) (L : List Mapper) (f : String) : MV :=
  L.foldl (fun cur m => stepKey S m f cur) (.key f)

/-- what an outer mapper contributes to the structure nested under field `f`: an enum mapper applies
    as a whole, a dict contributes its `"<f>._mapper"` entry -/
def through (f : String) : Mapper → Option Mapper
  | .dict d => (match lookupR (.nest f) d with | some (.sub x) => some (.dict x) | _ => none)
  | e => some e

/-- the mapper list governing the structure nested under field `f` of a class governed by `L` -/
def nestedList (own : List Mapper) (f : String) (L : List Mapper) : List Mapper :=
  own ++ L.filterMap (through f)


mutual
/-- the document the specification prescribes for instance `x` of a class with fields `fs` governed
    by the mapper list `L`: at every level the populated fields under their `keyOf`, dropped when
    mapped to `DoNotSerialize` -/
def specSer (S : StrFns) : List Mapper → List Fld → J → J
  | L, fs, .obj kvs => .obj (specFields S L fs kvs)
  | L, fs, .arr xs => .arr (specList S L fs xs)
  | _, _, .null => .null
  | _, _, .int i => .int i
  | _, _, .str s => .str s
termination_by structural _ _ x => x
def specFields (S : StrFns) : List Mapper → List Fld → List (String × J) → List (String × J)
  | _, _, [] => []
  | L, fs, (f, v) :: rest =>
    if v.isNull then specFields S L fs rest
    else match keyOf S L f with
      | .key k =>
        (k, match findFld fs f with
            | some (.nested _ _ _ ci fs') => specSer S (nestedList ci.ser f L) fs' v
            | _ => v) :: specFields S L fs rest
      | _ => specFields S L fs rest
termination_by structural _ _ kvs => kvs
def specList (S : StrFns) : List Mapper → List Fld → List J → List J
  | _, _, [] => []
  | L, fs, x :: xs => specSer S L fs x :: specList S L fs xs
termination_by structural _ _ xs => xs
end

/-! ### the key-set law, at every level -/

/-- keys of the populated, not dropped fields, in instance order -/
def imageKeys (S : StrFns) (camel : Bool) (m : MDict) : List (String × J) → List String
  | [] => []
  | (f, v) :: rest =>
    if v.isNull then imageKeys S camel m rest
    else match serKey S camel m f with
      | none => imageKeys S camel m rest
      | some k => k :: imageKeys S camel m rest

mutual
/-- document `d` obeys the key-set law for instance `x` under the resolved mapper `m`: at every level
    its key list is exactly the image of the populated, not dropped fields, and every nested value
    obeys the law under the `"<field>._mapper"` entry -/
def keysLaw (S : StrFns) (camel : Bool) : MDict → J → J → Bool
  | m, .obj kvs, d => (match d with
    | .obj dk => (dk.map (·.1) == imageKeys S camel m kvs) && fieldsLaw S camel m kvs dk
    | _ => false)
  | m, .arr xs, d => (match d with
    | .arr ds => listLaw S camel m xs ds
    | _ => false)
  | _, .null, d => d.isNull
  | _, .int i, d => (match d with | .int j => i == j | _ => false)
  | _, .str s, d => (match d with | .str t => s == t | _ => false)
termination_by structural _ x _ => x
def fieldsLaw (S : StrFns) (camel : Bool) : MDict → List (String × J) → List (String × J) → Bool
  | _, [], dk => dk.isEmpty
  | m, (f, v) :: rest, dk =>
    if v.isNull || (serKey S camel m f).isNone then fieldsLaw S camel m rest dk
    else match dk with
      | [] => false
      | (_, dv) :: dk' => keysLaw S camel (subSer m f) v dv && fieldsLaw S camel m rest dk'
termination_by structural _ kvs _ => kvs
def listLaw (S : StrFns) (camel : Bool) : MDict → List J → List J → Bool
  | _, [], ds => ds.isEmpty
  | m, x :: xs, ds => (match ds with
    | [] => false
    | d :: ds' => keysLaw S camel m x d && listLaw S camel m xs ds')
termination_by structural _ xs _ => xs
end

/-! ### hypotheses of the round trip (all decidable, evaluated by the driver on every case) -/

/-- the key string of field `f` under the resolved mapper `m` (`""` when not a string) -/
def kOf (m : MDict) (f : String) : String :=
  match lookupR (.fld f) m with
  | some (.key s) => s
  | _ => ""

def isKeyAt (m : MDict) (f : String) : Bool :=
  match lookupR (.fld f) m with
  | some (.key _) => true
  | _ => false

/-- keys of the populated fields -/
def popKeys (m : MDict) (kvs : List (String × J)) : List String :=
  (kvs.filter (fun p => !p.2.isNull)).map (fun p => kOf m p.1)

def nodupB : List String → Bool
  | [] => true
  | a :: r => !r.contains a && nodupB r

def isDnsAt (m : MDict) (f : String) : Bool :=
  match lookupR (.fld f) m with
  | some .dns => true
  | _ => false

/-- `Sync`: serializer and deserializer resolve every field of the level alike — both to the same
    string key, or both to `DoNotSerialize` and then the field is absent (no field is dropped) -/
def syncOK (ms M : MDict) (kvs : List (String × J)) : Bool :=
  kvs.all fun p =>
    (isKeyAt ms p.1 && isKeyAt M p.1 && (kOf M p.1 == kOf ms p.1))
    || (isDnsAt ms p.1 && isDnsAt M p.1 && p.2.isNull)

/-- `NoDot`: no string key of the level is read as a dotted path -/
def noDotOK (S : StrFns) (ms : MDict) (kvs : List (String × J)) : Bool :=
  kvs.all fun p => !isKeyAt ms p.1 || (S.split (kOf ms p.1) == [kOf ms p.1])

/-- populated fields have pairwise distinct keys (implied by injectivity of the aggregate on the class's fields) -/
def injOK (ms : MDict) (kvs : List (String × J)) : Bool := nodupB (popKeys ms kvs)

/-- an absent field's string key is not the key of a populated field (implied by injectivity as well) -/
def absentKeyOK (ms : MDict) (kvs : List (String × J)) : Bool :=
  kvs.all fun p => !p.2.isNull || !isKeyAt ms p.1 || !(popKeys ms kvs).contains (kOf ms p.1)

/-- the hypotheses of the round trip at one level.  (`NoFallbackCapture` is no longer among them:
    since /repo f476845 it follows from `Sync` and `absentKeyOK`; the strict flag is irrelevant.) -/
def levelOK (S : StrFns) (ms M : MDict) (_strict : Bool) (kvs : List (String × J)) : Bool :=
  syncOK ms M kvs && noDotOK S ms kvs && injOK ms kvs && absentKeyOK ms kvs

/-- the domain in which the property demands the round trip: no populated field is dropped (every
    populated field has a string key on the serializer's side), no dotted key, populated keys
    distinct, absent fields' keys not populated -/
def levelDom (S : StrFns) (ms _M : MDict) (_strict : Bool) (kvs : List (String × J)) : Bool :=
  (kvs.all fun p => p.2.isNull || isKeyAt ms p.1) && noDotOK S ms kvs && injOK ms kvs && absentKeyOK ms kvs

/-- a scalar field holds an integer, or nothing when optional -/
def scalarOK (opt : Bool) (v : J) : Bool :=
  match v with
  | .null => opt
  | .int _ => true
  | _ => false

/-- a nested field holds nothing (when optional), one structure, or a list of structures, each of
    which satisfies `g` -/
def nestedOK (opt : Bool) (shape : Shape) (g : J → Bool) (v : J) : Bool :=
  match v with
  | .null => opt
  | .obj kvs => (match shape with | .one => g (.obj kvs) | .many => false)
  | .arr xs => (match shape with | .one => false | .many => xs.all g)
  | _ => false

/-- a per-level hypothesis: serializer's mapper, deserializer's mapper, strict flag, the level's fields -/
abbrev LevelPred := MDict → MDict → Bool → List (String × J) → Bool

/-- hypotheses for one nested structure: the level's hypotheses and, recursively, its fields' -/
def rtObj (lv : LevelPred) (ms M : MDict) (h : List (String × J) → Bool) (y : J) : Bool :=
  match y with
  | .obj kvs => lv ms M false kvs && h kvs
  | _ => false

/-- no key of the serialized level `kvs` (under the serializer's mapper `ms`) is kept by the
    deserializer as an undefined attribute -/
def exFree (S : StrFns) (camel ku closedOwn : Bool) (names : List String) (ms : MDict)
    (kvs : List (String × J)) : Bool :=
  (extrasOf ku closedOwn names (serFields S camel ms kvs)).isEmpty

mutual
/-- the instance lists exactly the class fields in class order with values of the declared shape, and
    every nested level satisfies the level hypotheses under the sub-mapper the serializer uses
    (`subSer`) and the mapper the deserializer re-aggregates from its override (`subDeser`), and none
    of its serialized keys is kept as an undefined attribute (`ku` = the adjusted `keep_undefined`) -/
def rtFields (S : StrFns) (camel ku : Bool) (lv : LevelPred) (ms M : MDict) : List Fld → List (String × J) → Bool
  | [], kvs => kvs.isEmpty
  | f :: fs, kvs => (match kvs with
    | [] => false
    | p :: rest => rtFld S camel ku lv ms M f p && rtFields S camel ku lv ms M fs rest)
termination_by structural fs _ => fs
def rtFld (S : StrFns) (camel ku : Bool) (lv : LevelPred) (ms M : MDict) : Fld → String × J → Bool
  | .scalar n opt, p => (p.1 == n) && scalarOK opt p.2
  | .nested n opt shape ci fs, p =>
    (p.1 == n) && nestedOK opt shape
      (rtObj lv (subSer ms n) (aggregate S false ci.desL fs (subDeser M n) camel)
        (fun kvs => exFree S camel (kuNext ku camel ci.desL) ci.closedAny (fs.map Fld.name) (subSer ms n) kvs
          && rtFields S camel (kuNext ku camel ci.desL) lv (subSer ms n)
            (aggregate S false ci.desL fs (subDeser M n) camel) fs kvs))
      p.2
  -- Map-valued fields are outside the round-trip theorems (explicit exclusion)
  | .mapped _ _ _ _, _ => false
termination_by structural f _ => f
end

/-- all hypotheses of the round trip for instance `x` of class `c`, serialized with the resolved
    mapper `ms` and deserialized with override `ov` and `keep_undefined = ku` -/
def rtClsK (S : StrFns) (camel ku : Bool) (lv : LevelPred) (c : Cls) (ms : MDict) (ov : Option MDict) (strict : Bool)
    (x : J) : Bool :=
  match x with
  | .obj kvs =>
    lv ms (aggregate S false c.desL c.fields ov camel) strict kvs
      && exFree S camel (kuNext ku camel c.desL) c.closedAny (c.fields.map Fld.name) ms kvs
      && rtFields S camel (kuNext ku camel c.desL) lv ms (aggregate S false c.desL c.fields ov camel) c.fields kvs
  | _ => false

/-- the same for `keep_undefined = False` -/
def rtCls (S : StrFns) (camel : Bool) (lv : LevelPred) (c : Cls) (ms : MDict) (ov : Option MDict) (strict : Bool)
    (x : J) : Bool := rtClsK S camel false lv c ms ov strict x

/-! ### the resolved mapper of every level *is* the pointwise specification (serializer side) -/

mutual
/-- distinct field names at every nested level -/
def subsOK : List Fld → Bool
  | [] => true
  | f :: fs => subOK f && subsOK fs
termination_by structural fs => fs
def subOK : Fld → Bool
  | .scalar _ _ => true
  | .nested _ _ _ _ fs => nodupB (fs.map Fld.name) && subsOK fs
  | .mapped _ _ _ _ => true
termination_by structural f => f
end

/-- a class tree with pairwise distinct field names at every level (always true of Python classes) -/
def wfFields (fs : List Fld) : Bool := nodupB (fs.map Fld.name) && subsOK fs

mutual
/-- the resolved mapper `d` of a level agrees with the mapper list `L` on the fields `fs`: every field's
    entry is `keyOf L`, and the `"<field>._mapper"` entry of a nested field agrees, recursively, with
    the list `nestedList` prescribes for the nested level -/
def AgreesFs (S : StrFns) : MDict → List Mapper → List Fld → Prop
  | _, _, [] => True
  | d, L, f :: fs => AgreesF S d L f ∧ AgreesFs S d L fs
termination_by structural _ _ fs => fs
def AgreesF (S : StrFns) : MDict → List Mapper → Fld → Prop
  | d, L, .scalar n _ => lookupR (.fld n) d = some (keyOf S L n)
  | d, L, .nested n _ _ ci fs =>
    lookupR (.fld n) d = some (keyOf S L n) ∧
      ∃ p, lookupR (.nest n) d = some (.sub p) ∧ AgreesFs S p (nestedList ci.ser n L) fs
  | d, L, .mapped n _ _ _ => lookupR (.fld n) d = some (keyOf S L n)
termination_by structural _ _ f => f
end

def isScalarJ : J → Bool
  | .null => true
  | .int _ => true
  | .str _ => true
  | _ => false

mutual
/-- instance `x` (attributes in any order) fits the class fields `fs`: a structure position holds an
    object (or a list of objects) whose keys are field names, scalar fields hold scalars, nested
    fields hold nothing or fitting structures -/
def conf : List Fld → J → Bool
  | fs, .obj kvs => confKvs fs kvs
  | fs, .arr xs => confList fs xs
  | _, .null => false
  | _, .int _ => false
  | _, .str _ => false
termination_by structural _ x => x
def confKvs : List Fld → List (String × J) → Bool
  | _, [] => true
  | fs, (f, v) :: rest =>
    (match findFld fs f with
     | some (.nested _ _ _ _ fs') => v.isNull || conf fs' v
     | some (.scalar _ _) => isScalarJ v
     | some (.mapped _ _ _ _) => false
     | none => false) && confKvs fs rest
termination_by structural _ kvs => kvs
def confList : List Fld → List J → Bool
  | _, [] => true
  | fs, x :: xs => conf fs x && confList fs xs
termination_by structural _ xs => xs
end

/-! ### the region in which `Sync` holds at every nested level (deserializer side)

  The deserializer re-aggregates every nested class from the mapper it is handed down.  Inside the
  region below its resolved mapper at every level is literally the list `shapeFields L fs` for the
  same mapper list `L` that governs the serializer's level, so both sides resolve every field alike. -/

/-- what the list `L` of a level lets through to the structure nested under field `n` -/
def thru (n : String) (L : List Mapper) : List Mapper := L.filterMap (through n)

/-- the name under which the deserializer's aggregate keeps the nested entry of field `n` after the
    rounds of `L` (re-keyed by the mapped name in every round) -/
def nk (S : StrFns) (L : List Mapper) (n : String) : String :=
  L.foldl (fun c m => nestName (applyKey S m c)) n

/-- the nested class's own deserialization aggregate with the mappers `T` the outer list lets through on top -/
def handed (S : StrFns) (T own : List Mapper) (fs : List Fld) : MDict :=
  foldAdd S false T (foldAdd S false own (baseFields S false fs))

def shapeFld (S : StrFns) (L : List Mapper) : Fld → MDict
  | .scalar n _ => [(.fld n, keyOf S L n)]
  | .nested n _ _ ci fs => [(.nest (nk S L n), .sub (handed S (thru n L) ci.desL fs)), (.fld n, keyOf S L n)]
  | .mapped n _ _ _ => [(.fld n, keyOf S L n)]

/-- the deserializer's aggregate of a class with fields `fs` after the rounds of `L`, entry by entry -/
def shapeFields (S : StrFns) (L : List Mapper) : List Fld → MDict
  | [] => []
  | f :: fs => shapeFld S L f ++ shapeFields S L fs

def mkeysNodup (d : MDict) : Bool := decide (d.map (·.1)).Nodup

/-- the deserializer, in the round of `m`, finds for the nested entry currently keyed `cur` (re-keyed to
    `mk`) the sub-mapper the serializer applies for the field `n` -/
def subAgree (m : Mapper) (mk cur n : String) : Bool :=
  match m with
  | .dict d =>
    (mk == n || (lookupR (.nest mk) d).isNone)
      && (cur == n || ((lookupR (.nest cur) d).isNone && (lookupR (.nest n) d).isNone))
  | _ => true

/-- one round `m` on the nested entry of field `n` (keyed `cur`, holding `V`): not the 'latest mapper
    already maps to this value' branch, and both directions use the same sub-mapper.  Holds for every
    enum mapper and every dict without `"<field>._mapper"` entries. -/
def stepNestOK (S : StrFns) (m : Mapper) (cur n : String) (V : MDict) : Bool :=
  !hit m (.nest cur) (.sub V) && subAgree m (newNest S false m cur) cur n

def stepFldOK (S : StrFns) (m : Mapper) (P : List Mapper) : Fld → Bool
  | .scalar _ _ => true
  | .nested n _ _ ci fs => stepNestOK S m (nk S P n) n (handed S (thru n P) ci.desL fs)
  | .mapped _ _ _ _ => true

/-- after any round of `Ms` on top of `P`: no two entries collide (nested entries are re-keyed), and
    every nested entry is stepped as the serializer steps it -/
def prefixOK (S : StrFns) (fs : List Fld) : List Mapper → List Mapper → Bool
  | _, [] => true
  | P, m :: Ms =>
    mkeysNodup (shapeFields S (P ++ [m]) fs) && fs.all (stepFldOK S m P) && prefixOK S fs (P ++ [m]) Ms

/-- the nested entry of field `n` is found under the field's mapped key -/
def trackOK (S : StrFns) (L : List Mapper) (n : String) : Bool :=
  match keyOf S L n with
  | .key s => s == nk S L n
  | _ => false

/-- equality of two field entries that are not dicts -/
def mvFlatEq : MV → MV → Bool
  | .key a, .key b => a == b
  | .dns, .dns => true
  | _, _ => false

/-- re-aggregation under the handed-down dict `shapeFields L full` turns the entry field `n` has in the
    class's own aggregate (list `B`) into the entry it has under `L` -/
def fldStepOK (S : StrFns) (B L : List Mapper) (full : List Fld) (n : String) : Bool :=
  mvFlatEq (stepKey S (.dict (shapeFields S L full)) n (keyOf S B n)) (keyOf S L n)

mutual
/-- a level reached by re-aggregation (depth >= 1 below the top class): the class's base mapper is the
    shape list of `B` (`[]` for the class itself, its own list for the entries of the classes nested
    in it), the dict it is handed the shape list of `L`.  Field by field the re-aggregation must land
    on the entry under `L`; the nested entry of a nested field, keyed `nk B n`, must either be found
    equal (then it is the field's own entry) or be re-keyed to `nk L n`; and recursively so for the
    nested class, whose entries are the shape lists of `own ++ thru n B` and `own ++ thru n L`.
    Holds when a class two levels down has no own mapper, and also when it has one that the mappers
    reaching it from above leave alone (e.g. `TO_CAMELCASE` on every class of the tree). -/
def reaggFs (S : StrFns) (B L : List Mapper) (full : List Fld) : List Fld → Bool
  | [] => true
  | f :: fs => reaggF S B L full f && reaggFs S B L full fs
termination_by structural fs => fs
def reaggF (S : StrFns) (B L : List Mapper) (full : List Fld) : Fld → Bool
  | .scalar n _ => fldStepOK S B L full n
  | .nested n _ _ ci fs =>
    fldStepOK S B L full n
      && ((lookupR (.nest (nk S B n)) (shapeFields S L full)).isNone || (nk S L n == nk S B n))
      && (nestName (applyKey S (.dict (shapeFields S L full)) (nk S B n)) == nk S L n)
      && prefixOK S fs [] (ci.desL ++ thru n B) && prefixOK S fs [] (ci.desL ++ thru n L)
      && mkeysNodup (shapeFields S (ci.desL ++ thru n L) fs)
      && reaggFs S (ci.desL ++ thru n B) (ci.desL ++ thru n L) fs fs
  | .mapped n _ _ _ => fldStepOK S B L full n
termination_by structural f => f
end

def reaggOK (S : StrFns) (L : List Mapper) (fs : List Fld) : Bool :=
  mkeysNodup (shapeFields S L fs) && reaggFs S [] L fs fs

def camelTail (camel : Bool) : List Mapper := if camel then [.camel] else []

mutual
/-- every nested class below a level governed (on the deserializer's side) by the list `L`: plain own
    mappers, tracked entry, the nested level is a re-aggregation level under `own ++ enums`, no
    collision after the `camel_case_convert` round, and recursively so below -/
def regionFs (S : StrFns) (camel : Bool) (L : List Mapper) : List Fld → Bool
  | [] => true
  | f :: fs => regionF S camel L f && regionFs S camel L fs
termination_by structural fs => fs
def regionF (S : StrFns) (camel : Bool) (L : List Mapper) : Fld → Bool
  | .scalar _ _ => true
  | .nested n _ _ ci fs =>
    ci.des.isNone && trackOK S L n && !fs.isEmpty
      && prefixOK S fs [] (ci.ser ++ thru n L) && reaggOK S (ci.ser ++ thru n L) fs
      && prefixOK S fs (ci.ser ++ thru n L) (camelTail camel)
      && regionFs S camel (ci.ser ++ thru n L ++ camelTail camel) fs
  | .mapped _ _ _ _ => true
termination_by structural f => f
end

/-- **the region**: a decidable predicate on the class tree, its mapper lists and the
    `camel_case_convert` flag -/
def regionOK (S : StrFns) (c : Cls) (ov : Option MDict) (camel : Bool) : Bool :=
  c.des.isNone && wfFields c.fields
    && prefixOK S c.fields [] (effList c.own ov camel)
    && mkeysNodup (shapeFields S (effList c.own ov camel) c.fields)
    && regionFs S camel (effList c.own ov camel) c.fields

/-- the serializer's list `Ls` and the deserializer's list `Ld` of one level: equal, or — with
    `camel_case_convert`, which the deserializer applies again at every level — equal up to repetitions
    of the final `TO_CAMELCASE` -/
def CamelRel (camel : Bool) (Ls Ld : List Mapper) : Prop :=
  if camel then ∃ X j, Ls = X ++ [.camel] ∧ Ld = X ++ List.replicate (j + 1) .camel else Ld = Ls

def entryOKB (m : MDict) (p : String × J) : Bool := isKeyAt m p.1 || (isDnsAt m p.1 && p.2.isNull)

/-- the demanded domain, with "every field resolves to a string key or is an absent `DoNotSerialize`
    field" spelled out (a dict as a field's value is not a mapper) -/
def levelDomE (S : StrFns) (ms M : MDict) (strict : Bool) (kvs : List (String × J)) : Bool :=
  levelDom S ms M strict kvs && kvs.all (entryOKB ms)

mutual
/-- every class nested below forbids additional properties (in its own body or by inheritance) -/
def closedFs : List Fld → Bool
  | [] => true
  | f :: fs => closedF f && closedFs fs
termination_by structural fs => fs
def closedF : Fld → Bool
  | .scalar _ _ => true
  | .nested _ _ _ ci fs => ci.closedAny && closedFs fs
  | .mapped _ _ _ _ => true
termination_by structural f => f
end


end Typedpy.Mappers
