/-
  Spec/WfDecl.lean — well-formedness of declarations as typedpy itself guarantees it for every class
  it lets you define: field names of a class are distinct and `_required` only lists fields.
  (Decidable; evaluated by the driver on every declaration the harness dumps from real classes.)
-/
import TypedpyModel.Core.Field
namespace Typedpy

def strNodup : List String → Bool
  | [] => true
  | x :: xs => !xs.contains x && strNodup xs

mutual
def wfDecl : FieldDecl → Bool
  | .seqOf _ f _ => wfDecl f
  | .seqPos _ fs _ _ => wfDecls fs
  | .setOf _ f _ => wfDecl f
  | .tupleOf f _ => wfDecl f
  | .tuplePos fs _ => wfDecls fs
  | .mapOf kf vf _ => wfDecl kf && wfDecl vf
  | .struct c fields _ =>
    strNodup (fields.map (·.1)) && c.required.all (fun r => (fields.map (·.1)).contains r)
      && wfFields fields
  | .anyOf fs => wfDecls fs
  | .oneOf fs => wfDecls fs
  | .allOf fs => wfDecls fs
  | .notF fs => wfDecls fs
  | .number _ => true
  | .integer _ => true
  | .float _ => true
  | .string _ _ _ => true
  | .boolean => true
  | .enumLit _ => true
  | .enumCls _ _ => true
  | .seqAny _ _ => true
  | .setAny _ _ => true
  | .mapAny _ => true
  | .noneF => true
  | .anything => true
termination_by structural f => f

def wfDecls : List FieldDecl → Bool
  | [] => true
  | f :: fs => wfDecl f && wfDecls fs
termination_by structural fs => fs

def wfFields : List (String × FieldDecl) → Bool
  | [] => true
  | (_, f) :: rest => wfDecl f && wfFields rest
termination_by structural fs => fs
end

end Typedpy
