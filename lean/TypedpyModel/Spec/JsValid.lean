/-
  Spec/JsValid.lean — a JSON-Schema **draft-4** validator and a well-formedness predicate, written
  from the draft-4 specification (json-schema-validation, fge-00 / the draft-04 meta-schema),
  independent of typedpy.  Schemas and documents are raw JSON values (the JSON subset of `PyVal`).

  * `jsV R S schema doc`: validation.  `R : String → PyVal → Bool` resolves a `$ref` string (how the
    referenced schema judges the document), `S pattern string` is the regular-expression oracle
    with **search** semantics (ECMA 262 `pattern` is not anchored).
  * `$ref`: an object with a `$ref` member is a reference; its siblings are ignored (draft 4).
  * `resolver D S n`: references into the pointer table `D` (`"#/definitions/X"` ↦ schema), with
    fuel `n` = maximal number of nested reference jumps; `jsValidFuel`.  For the acyclic
    definitions typedpy emits the result is independent of the fuel once it exceeds the nesting
    depth of the class references (`Lemmas/SchemaAdmits.lean`: `fuel_stable`).
  * `wfDraft4 D schema`: every keyword value has the JSON type (and range) the draft-4 meta-schema
    demands, every sub-schema is well-formed, every `$ref` is a key of `D`.
  Keywords covered: type, enum, minimum/maximum/exclusiveMinimum/exclusiveMaximum/multipleOf,
  minLength/maxLength/pattern, items (single / positional)/additionalItems/minItems/maxItems/
  uniqueItems, properties/patternProperties/additionalProperties/required/minProperties/
  maxProperties, allOf/anyOf/oneOf/not, $ref.  (`dependencies`, `format` are not covered; typedpy
  never emits them.)  Unknown keywords are ignored, as the specification says.
-/
import TypedpyModel.Sem.Schema
namespace Typedpy.Sch
open Typedpy

/-! ### JSON equality (draft 4 §3.6): numbers by mathematical value, booleans are not numbers,
    objects as unordered maps -/

def jsNum : PyVal → Option Q
  | .int i => some (Q.ofInt i)
  | .float q => some q
  | _ => none

mutual
def jsonEq : PyVal → PyVal → Bool
  | .none, w => (match w with | .none => true | _ => false)
  | .bool a, w => (match w with | .bool b => a == b | _ => false)
  | .int a, w => (match jsNum w with | some q => Q.eq (Q.ofInt a) q | none => false)
  | .float a, w => (match jsNum w with | some q => Q.eq a q | none => false)
  | .str a, w => (match w with | .str b => a == b | _ => false)
  | .list a, w => (match w with | .list b => jsonEqL a b | _ => false)
  | .dict a, w => (match w with | .dict b => a.length == b.length && jsonSub a b | _ => false)
  | _, _ => false
termination_by structural x _ => x
def jsonEqL : List PyVal → List PyVal → Bool
  | [], w => w.isEmpty
  | x :: xs, w => (match w with | y :: ys => jsonEq x y && jsonEqL xs ys | [] => false)
termination_by structural x _ => x
def jsonSub : List (PyVal × PyVal) → List (PyVal × PyVal) → Bool
  | [], _ => true
  | (k, v) :: rest, b => b.any (fun kv => jsonEq k kv.1 && jsonEq v kv.2) && jsonSub rest b
termination_by structural x _ => x
end

def jsonMem (x : PyVal) (xs : List PyVal) : Bool := xs.any (fun y => jsonEq x y)

def jsonNodup : List PyVal → Bool
  | [] => true
  | x :: xs => !jsonMem x xs && jsonNodup xs

/-! ### keywords -/

inductive Kw where
  | type | enum | minimum | maximum | multipleOf | minLength | maxLength | pattern
  | items | additionalItems | minItems | maxItems | uniqueItems
  | properties | patternProperties | additionalProperties | required | minProperties | maxProperties
  | allOf | anyOf | oneOf | not | other
deriving DecidableEq, Repr

def kwOfStr (s : String) : Kw :=
  if s == "type" then .type else if s == "enum" then .enum
  else if s == "minimum" then .minimum else if s == "maximum" then .maximum
  else if s == "multipleOf" then .multipleOf
  else if s == "minLength" then .minLength else if s == "maxLength" then .maxLength
  else if s == "pattern" then .pattern
  else if s == "items" then .items else if s == "additionalItems" then .additionalItems
  else if s == "minItems" then .minItems else if s == "maxItems" then .maxItems
  else if s == "uniqueItems" then .uniqueItems
  else if s == "properties" then .properties else if s == "patternProperties" then .patternProperties
  else if s == "additionalProperties" then .additionalProperties
  else if s == "required" then .required
  else if s == "minProperties" then .minProperties else if s == "maxProperties" then .maxProperties
  else if s == "allOf" then .allOf else if s == "anyOf" then .anyOf else if s == "oneOf" then .oneOf
  else if s == "not" then .not
  else .other

def kwOf : PyVal → Kw
  | .str s => kwOfStr s
  | _ => .other

/-- draft-4 primitive types; `1.0` is a number but not an integer, booleans are neither -/
def typeIs (t : String) (d : PyVal) : Bool :=
  if t == "integer" then (match d with | .int _ => true | _ => false)
  else if t == "number" then (match d with | .int _ => true | .float _ => true | _ => false)
  else if t == "string" then (match d with | .str _ => true | _ => false)
  else if t == "boolean" then (match d with | .bool _ => true | _ => false)
  else if t == "null" then (match d with | .none => true | _ => false)
  else if t == "array" then (match d with | .list _ => true | _ => false)
  else if t == "object" then (match d with | .dict _ => true | _ => false)
  else false

def typeOk (v d : PyVal) : Bool :=
  match v with
  | .str t => typeIs t d
  | .list ts => ts.any (fun t => match t with | .str s => typeIs s d | _ => false)
  | _ => false

/-- `x / m` is an integer -/
def isMult (x m : Q) : Bool := decide ((x.num * m.den) % (m.num * x.den) = 0)

def natOf : PyVal → Option Nat
  | .int i => if 0 ≤ i then some i.toNat else none
  | _ => none

def boolKw (k : String) (ctx : List (PyVal × PyVal)) : Bool :=
  match getKw k ctx with
  | some (.bool b) => b
  | _ => false

def docKey : PyVal → Option String
  | .str s => some s
  | _ => none

/-- the names under `properties` / the patterns under `patternProperties` of the schema object -/
def memberNames (k : String) (ctx : List (PyVal × PyVal)) : List String :=
  match getKw k ctx with
  | some (.dict ps) => ps.filterMap (fun p => docKey p.1)
  | _ => []

/-- the members of a document object that neither `properties` nor `patternProperties` covers -/
def extraMembers (S : String → String → Bool) (ctx : List (PyVal × PyVal)) (kvs : List (PyVal × PyVal)) :
    List (PyVal × PyVal) :=
  kvs.filter fun kv => match docKey kv.1 with
    | some name => !(memberNames "properties" ctx).contains name
                   && !(memberNames "patternProperties" ctx).any (fun p => S p name)
    | none => true

/-- number of positional `items` schemas (`none`: `items` absent or a single schema, in which case
    `additionalItems` is ignored) -/
def itemsLen (ctx : List (PyVal × PyVal)) : Option Nat :=
  match getKw "items" ctx with
  | some (.list ss) => some ss.length
  | _ => none

/-- the keywords whose check does not descend into a sub-schema -/
def kwLeaf (S : String → String → Bool) (ctx : List (PyVal × PyVal)) (k : Kw) (v d : PyVal) : Bool :=
  match k with
  | .type => typeOk v d
  | .enum => (match v with | .list vs => jsonMem d vs | _ => false)
  | .minimum => (match jsNum d, jsNum v with
      | some x, some m => if boolKw "exclusiveMinimum" ctx then Q.lt m x else Q.le m x
      | none, _ => true
      | some _, none => false)
  | .maximum => (match jsNum d, jsNum v with
      | some x, some m => if boolKw "exclusiveMaximum" ctx then Q.lt x m else Q.le x m
      | none, _ => true
      | some _, none => false)
  | .multipleOf => (match jsNum d, jsNum v with
      | some x, some m => isMult x m
      | none, _ => true
      | some _, none => false)
  | .minLength => (match d, natOf v with
      | .str s, some n => decide (n ≤ s.length)
      | .str _, none => false
      | _, _ => true)
  | .maxLength => (match d, natOf v with
      | .str s, some n => decide (s.length ≤ n)
      | .str _, none => false
      | _, _ => true)
  | .pattern => (match d, v with
      | .str s, .str p => S p s
      | .str _, _ => false
      | _, _ => true)
  | .minItems => (match d, natOf v with
      | .list xs, some n => decide (n ≤ xs.length)
      | .list _, none => false
      | _, _ => true)
  | .maxItems => (match d, natOf v with
      | .list xs, some n => decide (xs.length ≤ n)
      | .list _, none => false
      | _, _ => true)
  | .uniqueItems => (match d, v with
      | .list xs, .bool b => !b || jsonNodup xs
      | .list _, _ => false
      | _, _ => true)
  | .required => (match d, v with
      | .dict kvs, .list names =>
        names.all (fun n => match n with | .str s => (getKw s kvs).isSome | _ => false)
      | .dict _, _ => false
      | _, _ => true)
  | .minProperties => (match d, natOf v with
      | .dict kvs, some n => decide (n ≤ kvs.length)
      | .dict _, none => false
      | _, _ => true)
  | .maxProperties => (match d, natOf v with
      | .dict kvs, some n => decide (kvs.length ≤ n)
      | .dict _, none => false
      | _, _ => true)
  | _ => true

/-- one keyword of a schema object, given how the sub-schemas under it judge documents:
    `one` = the keyword value as a single schema, `zip` / `allL` / `anyL` / `cnt` = the keyword value
    as a list of schemas, `props` / `pats` = as a name → schema map -/
def kwNode (S : String → String → Bool) (ctx : List (PyVal × PyVal)) (k : Kw) (v d : PyVal)
    (one : PyVal → Bool) (zip : List PyVal → Bool) (allL anyL : Unit → Bool) (cnt : Unit → Nat)
    (props pats : List (PyVal × PyVal) → Bool) : Bool :=
  match k with
  | .items => (match d with
    | .list xs => (match v with
      | .list _ => zip xs
      | _ => xs.all one)
    | _ => true)
  | .additionalItems => (match d, itemsLen ctx with
    | .list xs, some n => (match v with
      | .bool b => b || decide (xs.length ≤ n)
      | _ => (xs.drop n).all one)
    | _, _ => true)
  | .properties => (match v with
    | .dict _ => (match d with | .dict kvs => props kvs | _ => true)
    | _ => false)
  | .patternProperties => (match v with
    | .dict _ => (match d with | .dict kvs => pats kvs | _ => true)
    | _ => false)
  | .additionalProperties => (match d with
    | .dict kvs => (match v with
      | .bool b => b || (extraMembers S ctx kvs).isEmpty
      | _ => (extraMembers S ctx kvs).all (fun kv => one kv.2))
    | _ => true)
  | .allOf => (match v with | .list _ => allL () | _ => false)
  | .anyOf => (match v with | .list _ => anyL () | _ => false)
  | .oneOf => (match v with | .list _ => cnt () == 1 | _ => false)
  | .not => !one d
  | leaf => kwLeaf S ctx leaf v d

mutual
/-- `doc` is valid against `schema` -/
def jsV (R : String → PyVal → Bool) (S : String → String → Bool) : PyVal → PyVal → Bool
  | .dict kws, d =>
    (match getKw "$ref" kws with
     | some r => (match r with | .str p => R p d | _ => false)
     | none => jsKws R S kws kws d)
  | _, _ => false
termination_by structural s _ => s

/-- every keyword of the schema object `ctx` accepts the document -/
def jsKws (R : String → PyVal → Bool) (S : String → String → Bool) (ctx : List (PyVal × PyVal)) :
    List (PyVal × PyVal) → PyVal → Bool
  | [], _ => true
  | (k, v) :: rest, d =>
    kwNode S ctx (kwOf k) v d (jsV R S v) (jsZipV R S v)
      (fun _ => jsAllV R S v d) (fun _ => jsAnyV R S v d) (fun _ => jsCountV R S v d)
      (jsPropsV R S v) (jsPatsV R S v)
    && jsKws R S ctx rest d
termination_by structural kws _ => kws

/-- the keyword value as a list of schemas / as a name → schema map -/
def jsZipV (R : String → PyVal → Bool) (S : String → String → Bool) : PyVal → List PyVal → Bool
  | .list ss, xs => jsZip R S ss xs
  | _, _ => true
termination_by structural v _ => v
def jsAllV (R : String → PyVal → Bool) (S : String → String → Bool) : PyVal → PyVal → Bool
  | .list ss, d => jsAllL R S ss d
  | _, _ => true
termination_by structural v _ => v
def jsAnyV (R : String → PyVal → Bool) (S : String → String → Bool) : PyVal → PyVal → Bool
  | .list ss, d => jsAnyL R S ss d
  | _, _ => true
termination_by structural v _ => v
def jsCountV (R : String → PyVal → Bool) (S : String → String → Bool) : PyVal → PyVal → Nat
  | .list ss, d => jsCount R S ss d
  | _, _ => 0
termination_by structural v _ => v
def jsPropsV (R : String → PyVal → Bool) (S : String → String → Bool) : PyVal → List (PyVal × PyVal) → Bool
  | .dict ps, kvs => jsProps R S ps kvs
  | _, _ => true
termination_by structural v _ => v
def jsPatsV (R : String → PyVal → Bool) (S : String → String → Bool) : PyVal → List (PyVal × PyVal) → Bool
  | .dict ps, kvs => jsPats R S ps kvs
  | _, _ => true
termination_by structural v _ => v

/-- positional `items` -/
def jsZip (R : String → PyVal → Bool) (S : String → String → Bool) : List PyVal → List PyVal → Bool
  | [], _ => true
  | s :: ss, xs => (match xs with
    | [] => true
    | x :: xs' => jsV R S s x && jsZip R S ss xs')
termination_by structural ss _ => ss

def jsAllL (R : String → PyVal → Bool) (S : String → String → Bool) : List PyVal → PyVal → Bool
  | [], _ => true
  | s :: ss, d => jsV R S s d && jsAllL R S ss d
termination_by structural ss _ => ss

def jsAnyL (R : String → PyVal → Bool) (S : String → String → Bool) : List PyVal → PyVal → Bool
  | [], _ => false
  | s :: ss, d => jsV R S s d || jsAnyL R S ss d
termination_by structural ss _ => ss

def jsCount (R : String → PyVal → Bool) (S : String → String → Bool) : List PyVal → PyVal → Nat
  | [], _ => 0
  | s :: ss, d => (if jsV R S s d then 1 else 0) + jsCount R S ss d
termination_by structural ss _ => ss

/-- `properties`: a member of the document with that name must satisfy the schema -/
def jsProps (R : String → PyVal → Bool) (S : String → String → Bool) :
    List (PyVal × PyVal) → List (PyVal × PyVal) → Bool
  | [], _ => true
  | (n, s) :: ps, kvs =>
    (match docKey n with
     | some name => (match getKw name kvs with
       | some x => jsV R S s x
       | none => true)
     | none => true)
    && jsProps R S ps kvs
termination_by structural ps _ => ps

/-- `patternProperties`: every member whose name the pattern matches must satisfy the schema -/
def jsPats (R : String → PyVal → Bool) (S : String → String → Bool) :
    List (PyVal × PyVal) → List (PyVal × PyVal) → Bool
  | [], _ => true
  | (p, s) :: ps, kvs =>
    (match docKey p with
     | some pat => kvs.all (fun kv => match docKey kv.1 with
        | some name => !S pat name || jsV R S s kv.2
        | none => true)
     | none => true)
    && jsPats R S ps kvs
termination_by structural ps _ => ps
end

/-! ### references -/

/-- resolve `$ref` strings in the pointer table `D` with at most `n` nested jumps -/
def resolver (D : Defs) (S : String → String → Bool) : Nat → String → PyVal → Bool
  | 0 => fun _ _ => false
  | n + 1 => fun p d => match lookup p D with
    | some s => jsV (resolver D S n) S s d
    | none => false

/-- validation of `doc` against `schema` whose `$ref`s point into `D` (keys `#/definitions/<name>`) -/
def jsValidFuel (n : Nat) (D : Defs) (S : String → String → Bool) (schema doc : PyVal) : Bool :=
  jsV (resolver D S n) S schema doc

/-! ### well-formedness (the draft-04 meta-schema, keyword by keyword) -/

def simpleType (t : PyVal) : Bool :=
  match t with
  | .str s => s == "array" || s == "boolean" || s == "integer" || s == "null" || s == "number"
              || s == "object" || s == "string"
  | _ => false

def isNatJ (v : PyVal) : Bool := (natOf v).isSome
def isBoolJ : PyVal → Bool
  | .bool _ => true
  | _ => false
def isStrJ : PyVal → Bool
  | .str _ => true
  | _ => false

mutual
/-- a JSON value (what `json.dumps` can write without help) -/
def jsonOnly : PyVal → Bool
  | .none | .bool _ | .int _ | .float _ | .str _ => true
  | .list xs => jsonOnlyL xs
  | .dict kvs => jsonOnlyP kvs
  | _ => false
termination_by structural v => v
def jsonOnlyL : List PyVal → Bool
  | [] => true
  | x :: xs => jsonOnly x && jsonOnlyL xs
termination_by structural xs => xs
def jsonOnlyP : List (PyVal × PyVal) → Bool
  | [] => true
  | (k, v) :: rest => isStrJ k && jsonOnly v && jsonOnlyP rest
termination_by structural kvs => kvs
end

/-- keywords whose well-formedness does not descend into a sub-schema -/
def wfLeaf (k : Kw) (v : PyVal) : Bool :=
  match k with
  | .type => (match v with
      | .str _ => simpleType v
      | .list ts => !ts.isEmpty && ts.all simpleType && jsonNodup ts
      | _ => false)
  | .enum => (match v with | .list vs => !vs.isEmpty && jsonNodup vs | _ => false)
  | .minimum => (jsNum v).isSome
  | .maximum => (jsNum v).isSome
  | .multipleOf => (match jsNum v with | some m => Q.lt (Q.ofInt 0) m | none => false)
  | .minLength | .maxLength | .minItems | .maxItems | .minProperties | .maxProperties => isNatJ v
  | .pattern => isStrJ v
  | .uniqueItems => isBoolJ v
  | .required => (match v with
      | .list names => !names.isEmpty && names.all isStrJ && jsonNodup names
      | _ => false)
  | _ => true

/-- well-formedness of one keyword given the well-formedness of what is under it -/
def wfNode (D : Defs) (ctx : List (PyVal × PyVal)) (k : PyVal) (v : PyVal)
    (one : Unit → Bool) (lst : Unit → Bool) (props : Unit → Bool) : Bool :=
  match kwOf k with
  | .items => (match v with
    | .list ss => !ss.isEmpty && lst ()
    | _ => one ())
  | .additionalItems | .additionalProperties => (match v with
    | .bool _ => true
    | _ => one ())
  | .properties | .patternProperties => (match v with
    | .dict _ => props ()
    | _ => false)
  | .allOf | .anyOf | .oneOf => (match v with
    | .list ss => !ss.isEmpty && lst ()
    | _ => false)
  | .not => one ()
  | .other =>
    -- `$ref` must be a string that resolves; `exclusiveMaximum` / `exclusiveMinimum` are
    -- booleans that need their companion (meta-schema `dependencies`)
    if keyIs "$ref" k then (match v with | .str p => (lookup p D).isSome | _ => false)
    else if keyIs "exclusiveMaximum" k then isBoolJ v && (getKw "maximum" ctx).isSome
    else if keyIs "exclusiveMinimum" k then isBoolJ v && (getKw "minimum" ctx).isSome
    else if keyIs "title" k || keyIs "description" k then isStrJ v
    else if keyIs "default" k then jsonOnly v
    else true
  | leaf => wfLeaf leaf v

mutual
def wfDraft4 (D : Defs) : PyVal → Bool
  | .dict kws => wfKws D kws kws
  | _ => false
termination_by structural s => s

def wfKws (D : Defs) (ctx : List (PyVal × PyVal)) : List (PyVal × PyVal) → Bool
  | [] => true
  | (k, v) :: rest =>
    wfNode D ctx k v (fun _ => wfDraft4 D v) (fun _ => wfListV D v) (fun _ => wfPropsV D v)
    && wfKws D ctx rest
termination_by structural kws => kws

def wfListV (D : Defs) : PyVal → Bool
  | .list ss => wfList D ss
  | _ => true
termination_by structural v => v
def wfPropsV (D : Defs) : PyVal → Bool
  | .dict ps => wfProps D ps
  | _ => true
termination_by structural v => v

def wfList (D : Defs) : List PyVal → Bool
  | [] => true
  | s :: ss => wfDraft4 D s && wfList D ss
termination_by structural ss => ss

def wfProps (D : Defs) : List (PyVal × PyVal) → Bool
  | [] => true
  | (n, s) :: ps => isStrJ n && wfDraft4 D s && wfProps D ps
termination_by structural ps => ps
end

def wfDefs (D : Defs) : Defs → Bool
  | [] => true
  | (_, s) :: rest => wfDraft4 D s && wfDefs D rest

/-- the pair returned by `structure_to_schema` is a well-formed draft-4 document: the schema and
    every definition are well-formed and every `$ref` resolves inside the definitions -/
def wfDocument (schema : PyVal) (defs : Defs) : Bool :=
  wfDraft4 (ptrDefs defs) schema && wfDefs (ptrDefs defs) defs

end Typedpy.Sch
