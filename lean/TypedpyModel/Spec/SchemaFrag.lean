/-
  Spec/SchemaFrag.lean — the decidable predicates that delimit what the C08 theorems cover.

  * `fragF` / `inSchemaFragment`: declaration-level fragment of `schema_admits_partial`.  Every
    excluded kind is named here (classes with defaults are inside: the validator ignores `default`):
      - Deque / Anything / NoneField / non-String map keys / non-scalar enum literals: the mapping raises;
      - `multiplesOf = 0`;
      - NotField, OneOf beyond Number / Integer / String options of pairwise different JSON types,
        AllOf beyond raw scalars, AnyOf over non-scalar options: corresponded only.
    Set and `uniqueItems` are inside, under the region's explicit hypothesis `distinctImages`.
  * `regF` / `inAdmitRegion`: (declaration, value)-level region: the value is deeply well-formed and
    outside the known-finding regions (bool stored in a numeric / enum field, value inside the gap
    of a sign-only float bound, required or defaulted
    field absent or None, `AnyOf[X, None]` holding None inside a container).
  * `wfFragF` / `inWfFragment`: declaration-level fragment of `schema_wellformed_partial`.
  * `exactCls` / `inExactFragment`: the exact sub-fragment of `schema_exact_partial`.
  * `refDepth`, `RefsFaithful`.
-/
import TypedpyModel.Spec.JsValid
import TypedpyModel.Spec.Conforms
import TypedpyModel.Sem.Deser
namespace Typedpy.Sch
open Typedpy

def nodupS : List String → Bool
  | [] => true
  | x :: xs => !xs.contains x && nodupS xs

/-- `multiplesOf` is not 0 (it is exported as its absolute value; draft 4 wants `multipleOf > 0`) -/
def numOptsOk (o : NumOpts) : Bool :=
  match o.mult with | some m => m != 0 | none => true

/-- kinds whose serialization is the value itself -/
def plainScalar : FieldDecl → Bool
  | .number _ | .integer _ | .float _ | .string _ _ _ | .boolean | .enumLit _ => true
  | _ => false

/-- scalar kinds that store the raw input unchanged and for which "accepted" and "conforms" are the same
    test (Number, Integer, String, Enum of literals): an `AllOf` over them stores a value every option
    conforms to.  Float (an int is accepted and normalised), Boolean (the strings 'True' / 'False' are
    accepted) and enum classes (names are accepted) keep the raw input inside AllOf: findings
    `admits:allOf`, `admits:raw-boolean-string` -/
def rawScalar : FieldDecl → Bool
  | .number _ | .integer _ | .string _ _ _ | .enumLit _ => true
  | _ => false

/-- JSON type class of a raw scalar kind -/
inductive JK where
  | num | str
deriving DecidableEq

def jkind : FieldDecl → Option JK
  | .number _ | .integer _ => some .num
  | .string _ _ _ => some .str
  | _ => none

def vkind : PyVal → Option JK
  | .int _ | .float _ => some .num
  | .str _ => some .str
  | _ => none

def nodupK : List (Option JK) → Bool
  | [] => true
  | x :: xs => !xs.contains x && nodupK xs

/-- the options are Number / Integer / String with pairwise different JSON types -/
def typeDisjoint (fs : List FieldDecl) : Bool :=
  fs.all (fun f => (jkind f).isSome) && nodupK (fs.map jkind)

/-- item kinds for which `==`-distinct stored values have JSON-distinct serializations -/
def uniqSafe : FieldDecl → Bool
  | .enumCls _ _ => true
  | f => plainScalar f

/-- `String()` key without constraints that survive `MapMapper`'s truthiness tests -/
def plainKey (k : FieldDecl) : Bool := isStringField k && mapKeyPattern k == ""

mutual
def fragF : FieldDecl → Bool
  | .number o => numOptsOk o
  | .integer o => numOptsOk o
  | .float o => numOptsOk o
  | .string _ _ _ => true
  | .boolean => true
  | .enumLit vs => !vs.isEmpty && vs.all enumValOk && jsonNodup vs
  | .enumCls _ names => !names.isEmpty && nodupS names
  | .seqAny k _ => k == .list
  | .seqOf k f _ => k == .list && fragF f
  | .seqPos k fs _ _ => k == .list && !fs.isEmpty && fragL fs
  | .setAny _ _ => true
  | .setOf _ f _ => fragF f
  | .tupleOf f _ => fragF f
  | .tuplePos fs _ => !fs.isEmpty && fragL fs
  | .mapAny _ => true
  | .mapOf k v _ => isStringField k && fragF v
  | .struct _ fields _ =>
    nodupS (fields.map (·.1)) && fragP fields
  | .anyOf fs =>
    if optShape fs then fragOpt fs else !fs.isEmpty && fs.all plainScalar && fragL fs
  | .oneOf fs => !fs.isEmpty && typeDisjoint fs && fragL fs
  | .allOf fs => !fs.isEmpty && fs.all rawScalar && fragL fs
  | .notF _ => false
  | .noneF => false
  | .anything => false
termination_by structural f => f
def fragL : List FieldDecl → Bool
  | [] => true
  | f :: fs => fragF f && fragL fs
termination_by structural fs => fs
/-- as `fragL`, skipping the `NoneField` of an `AnyOf[X, None]` -/
def fragOpt : List FieldDecl → Bool
  | [] => true
  | f :: fs => (isNoneF f || fragF f) && fragOpt fs
termination_by structural fs => fs
def fragP : List (String × FieldDecl) → Bool
  | [] => true
  | (_, f) :: ps => fragF f && fragP ps
termination_by structural ps => ps
end

/-- the class is in the fragment of `schema_admits_partial` (the top-level class itself may not be a
    field wrapper either: that form pairs with `compact=True` serialization, see
    `wrapper_admits_partial`) -/
def inSchemaFragment (cls : FieldDecl) : Bool :=
  match cls with
  | .struct c fields _ => !c.inline && !collapses c (fields.map (·.1)) && fragF cls
  | _ => false

/-! ### the value region -/

def notBool : PyVal → Bool
  | .bool _ => false
  | _ => true

/-- an `int` or a `float` (not a `bool`, not a `Decimal`, which serializes to a string) -/
def jsNumVal : PyVal → Bool
  | .int _ | .float _ => true
  | _ => false

/-- the value lies in the gap between the declared sign and the bound the schema substitutes for it
    (`PositiveFloat` ↦ `minimum: 0.000001`) -/
def signGap (o : NumOpts) (v : PyVal) : Bool :=
  match v.asNum with
  | some q =>
    (o.min.isNone && o.sign == .pos && Q.lt q tiny) || (o.max.isNone && o.sign == .neg && Q.lt negTiny q)
  | none => false

/-- the hypothesis under which `uniqueItems` (always present for a Set) can be promised: the JSON
    images of the elements are pairwise distinct as JSON values.  Python-distinct elements can have
    one image (`(1, 2)` and `[1, 2]`, `1` and `1.0` in an untyped position): finding
    `admits:uniqueItems` -/
def distinctImages (r : R (List PyVal)) : Bool :=
  match r with
  | .ok ys => jsonNodup ys
  | .error _ => true

/-- a size bound on a Map counts the members of the serialized object: Python keys that are different
    can have one JSON name (`1` and `"1"`), then the object is smaller than the map (finding
    `admits:map-size-key-collision`); without a bound nothing is asked -/
def sameCount (sz : SizeOpts) (n : Nat) (r : R PyVal) : Bool :=
  (sz.min.isNone && sz.max.isNone) || (match r with
    | .ok (.dict r') => r'.length == n
    | _ => true)

def attrPresent (attrs : List (String × PyVal)) (r : String) : Bool :=
  match lookup r attrs with
  | some v => !v.isNone
  | none => false

mutual
def regF (O : Oracles) : FieldDecl → PyVal → Bool
  | .number o, v => jsNumVal v && !signGap o v
  | .integer _, v => notBool v
  | .float o, v => !signGap o v
  | .string _ _ _, _ => true
  | .boolean, _ => true
  | .enumLit vs, v => jsonMem v vs
  | .enumCls _ _, _ => true
  | .seqAny _ sz, v => (match seqLike v with
    | some xs => !sz.uniq || distinctImages (serAnyList xs)
    | none => false)
  | .seqOf _ f sz, v => (match seqLike v with
    | some xs => xs.all (regF O f) && (!sz.uniq || distinctImages (mapE (ser O f) xs))
    | none => false)
  | .seqPos _ fs _ sz, v => (match seqLike v with
    | some xs => regZip O fs xs && (!sz.uniq || distinctImages (serZip O fs xs))
    | none => false)
  | .setAny _ _, v => (match v with
    | .set _ xs => distinctImages (serAnyList xs)
    | _ => false)
  | .setOf _ f _, v => (match v with
    | .set _ xs => xs.all (regF O f) && distinctImages (mapE (ser O f) xs)
    | _ => false)
  | .tupleOf f u, v => (match v with
    | .tuple xs => xs.all (regF O f) && (!u || distinctImages (mapE (ser O f) xs))
    | _ => false)
  | .tuplePos fs u, v => (match v with
    | .tuple xs => regZip O fs xs && (!u || distinctImages (serZip O fs xs))
    | _ => false)
  | .mapAny sz, v => (match v with
    | .dict kvs => sameCount sz kvs.length (ser O (.mapAny sz) (.dict kvs))
    | _ => false)
  | .mapOf kf vf sz, v => (match v with
    | .dict kvs => kvs.all (fun kv => regF O vf kv.2) && sameCount sz kvs.length (ser O (.mapOf kf vf sz) (.dict kvs))
    | _ => false)
  | .struct c fields defaults, v => (match v with
    | .inst cn attrs =>
      cn == c.name && nodupS (attrs.map (·.1))
      && wfAttrs c (fields.map (·.1)) attrs (fieldsConform O attrs fields)
      && (schemaRequired c defaults).all (attrPresent attrs)
      && regFields O attrs fields
    | _ => false)
  | .anyOf fs, v => if optShape fs then !v.isNone && regOpt O fs v else regAll O fs v
  | .allOf fs, v => regAll O fs v
  | .oneOf fs, v => regAll O fs v
  | _, _ => false
termination_by structural f _ => f
def regZip (O : Oracles) : List FieldDecl → List PyVal → Bool
  | [], _ => true
  | f :: fs, xs => (match xs with
    | [] => true
    | x :: xs' => regF O f x && regZip O fs xs')
termination_by structural fs _ => fs
/-- every option the value conforms to has it in its region -/
def regAll (O : Oracles) : List FieldDecl → PyVal → Bool
  | [], _ => true
  | f :: fs, v => (!conforms O f v || regF O f v) && regAll O fs v
termination_by structural fs _ => fs
def regOpt (O : Oracles) : List FieldDecl → PyVal → Bool
  | [], _ => true
  | f :: fs, v => (isNoneF f || regF O f v) && regOpt O fs v
termination_by structural fs _ => fs
def regFields (O : Oracles) (attrs : List (String × PyVal)) : List (String × FieldDecl) → Bool
  | [] => true
  | (n, f) :: ps =>
    (match lookup n attrs with
     | some v => v.isNone || regF O f v
     | none => true) && regFields O attrs ps
termination_by structural ps => ps
end

/-- the instance is deeply well-formed and outside the known-finding regions -/
def inAdmitRegion (O : Oracles) (cls : FieldDecl) (x : PyVal) : Bool := regF O cls x

/-! ### class references -/

mutual
/-- nesting depth of class references = number of `$ref` jumps validation may need -/
def refDepth : FieldDecl → Nat
  | .seqOf _ f _ => refDepth f
  | .seqPos _ fs _ _ => refDepthL fs
  | .setOf _ f _ => refDepth f
  | .tupleOf f _ => refDepth f
  | .tuplePos fs _ => refDepthL fs
  | .mapOf _ v _ => refDepth v
  | .struct c fields _ => if c.inline then refDepthP fields else refDepthP fields + 1
  | .anyOf fs => refDepthL fs
  | .oneOf fs => refDepthL fs
  | .allOf fs => refDepthL fs
  | .notF fs => refDepthL fs
  | _ => 0
termination_by structural f => f
def refDepthL : List FieldDecl → Nat
  | [] => 0
  | f :: fs => max (refDepth f) (refDepthL fs)
termination_by structural fs => fs
def refDepthP : List (String × FieldDecl) → Nat
  | [] => 0
  | (_, f) :: ps => max (refDepth f) (refDepthP ps)
termination_by structural ps => ps
end

mutual
/-- every class reference inside the declaration points, in the pointer table `D`, at the schema
    of that very class (false exactly when two different classes share a `__name__`) -/
def RefsFaithful (D : Defs) : FieldDecl → Prop
  | .seqOf _ f _ => RefsFaithful D f
  | .seqPos _ fs _ _ => RefsFaithfulL D fs
  | .setOf _ f _ => RefsFaithful D f
  | .tupleOf f _ => RefsFaithful D f
  | .tuplePos fs _ => RefsFaithfulL D fs
  | .mapOf _ v _ => RefsFaithful D v
  | .struct c fields defaults =>
    (c.inline = true ∨
      lookup ("#/definitions/" ++ c.name) D = some (classObj c defaults (emitP true fields)))
    ∧ RefsFaithfulP D fields
  | .anyOf fs => RefsFaithfulL D fs
  | .oneOf fs => RefsFaithfulL D fs
  | .allOf fs => RefsFaithfulL D fs
  | .notF fs => RefsFaithfulL D fs
  | _ => True
termination_by structural f => f
def RefsFaithfulL (D : Defs) : List FieldDecl → Prop
  | [] => True
  | f :: fs => RefsFaithful D f ∧ RefsFaithfulL D fs
termination_by structural fs => fs
def RefsFaithfulP (D : Defs) : List (String × FieldDecl) → Prop
  | [] => True
  | (_, f) :: ps => RefsFaithful D f ∧ RefsFaithfulP D ps
termination_by structural ps => ps
end

mutual
/-- every class reference inside the declaration resolves in the pointer table `D` (weaker than
    `RefsFaithful`: it holds of the returned definitions for EVERY declaration, also when two
    classes share a `__name__` — `Lemmas/SchemaDefs.lean`) -/
def RefsResolve (D : Defs) : FieldDecl → Prop
  | .seqOf _ f _ => RefsResolve D f
  | .seqPos _ fs _ _ => RefsResolveL D fs
  | .setOf _ f _ => RefsResolve D f
  | .tupleOf f _ => RefsResolve D f
  | .tuplePos fs _ => RefsResolveL D fs
  | .mapOf _ v _ => RefsResolve D v
  | .struct c fields _ =>
    (c.inline = true ∨ (lookup ("#/definitions/" ++ c.name) D).isSome = true) ∧ RefsResolveP D fields
  | .anyOf fs => RefsResolveL D fs
  | .oneOf fs => RefsResolveL D fs
  | .allOf fs => RefsResolveL D fs
  | .notF fs => RefsResolveL D fs
  | _ => True
termination_by structural f => f
def RefsResolveL (D : Defs) : List FieldDecl → Prop
  | [] => True
  | f :: fs => RefsResolve D f ∧ RefsResolveL D fs
termination_by structural fs => fs
def RefsResolveP (D : Defs) : List (String × FieldDecl) → Prop
  | [] => True
  | (_, f) :: ps => RefsResolve D f ∧ RefsResolveP D ps
termination_by structural ps => ps
end

/-- the pointer table of the dialect-fixed definitions `structure_to_schema(cls, {})` returns -/
def fixedPtrDefs (cls : FieldDecl) : Defs := ptrDefs (fixDefs (toSchema cls).2)

/-- `RefsFaithful` for the fields of the top-level class -/
def ClassRefsFaithful (D : Defs) : FieldDecl → Prop
  | .struct _ fields _ => RefsFaithfulP D fields
  | _ => True

/-- `RefsResolve` for the fields of the top-level class -/
def ClassRefsResolve (D : Defs) : FieldDecl → Prop
  | .struct _ fields _ => RefsResolveP D fields
  | _ => True

/-! ### structural equality on JSON values (to make `RefsFaithful` checkable by evaluation) -/

mutual
def structEq : PyVal → PyVal → Bool
  | .none, w => (match w with | .none => true | _ => false)
  | .bool a, w => (match w with | .bool b => a == b | _ => false)
  | .int a, w => (match w with | .int b => a == b | _ => false)
  | .float a, w => (match w with | .float b => a.num == b.num && a.den == b.den | _ => false)
  | .str a, w => (match w with | .str b => a == b | _ => false)
  | .list a, w => (match w with | .list b => structEqL a b | _ => false)
  | .dict a, w => (match w with | .dict b => structEqP a b | _ => false)
  | _, _ => false
termination_by structural x _ => x
def structEqL : List PyVal → List PyVal → Bool
  | [], w => w.isEmpty
  | x :: xs, w => (match w with | y :: ys => structEq x y && structEqL xs ys | [] => false)
termination_by structural x _ => x
def structEqP : List (PyVal × PyVal) → List (PyVal × PyVal) → Bool
  | [], w => w.isEmpty
  | (k, v) :: rest, w => (match w with
    | (k', v') :: rest' => structEq k k' && structEq v v' && structEqP rest rest'
    | [] => false)
termination_by structural x _ => x
end

mutual
/-- executable form of `RefsFaithful` -/
def refsFaithfulB (D : Defs) : FieldDecl → Bool
  | .seqOf _ f _ => refsFaithfulB D f
  | .seqPos _ fs _ _ => refsFaithfulBL D fs
  | .setOf _ f _ => refsFaithfulB D f
  | .tupleOf f _ => refsFaithfulB D f
  | .tuplePos fs _ => refsFaithfulBL D fs
  | .mapOf _ v _ => refsFaithfulB D v
  | .struct c fields defaults =>
    (c.inline ||
      (match lookup ("#/definitions/" ++ c.name) D with
       | some s => structEq s (classObj c defaults (emitP true fields))
       | none => false))
    && refsFaithfulBP D fields
  | .anyOf fs => refsFaithfulBL D fs
  | .oneOf fs => refsFaithfulBL D fs
  | .allOf fs => refsFaithfulBL D fs
  | .notF fs => refsFaithfulBL D fs
  | _ => true
termination_by structural f => f
def refsFaithfulBL (D : Defs) : List FieldDecl → Bool
  | [] => true
  | f :: fs => refsFaithfulB D f && refsFaithfulBL D fs
termination_by structural fs => fs
def refsFaithfulBP (D : Defs) : List (String × FieldDecl) → Bool
  | [] => true
  | (_, f) :: ps => refsFaithfulB D f && refsFaithfulBP D ps
termination_by structural ps => ps
end

def classRefsFaithfulB (D : Defs) : FieldDecl → Bool
  | .struct _ fields _ => refsFaithfulBP D fields
  | _ => true

/-! ### well-formedness fragment -/

/-- every default is written into the schema as a JSON value (an enum member by its name): excluded is
    exactly the finding `ill-formed:default:not-json` (a set, a tuple, a list of enum members, …) -/
def defaultsJson (defaults : List (String × PyVal)) : Bool :=
  defaults.all (fun d => jsonOnly (defaultJ d.2))

mutual
/-- declarations whose emitted schema is a well-formed draft-4 document after the dialect fix.
    Excluded (each a finding or a raise): classes without any required or defaulted field
    (`required: []`), `multiplesOf = 0`, empty positional `items`, empty / duplicated enums, raising kinds,
    defaults that are not JSON values. -/
def wfFragF : FieldDecl → Bool
  | .number o => numOptsOk o
  | .integer o => numOptsOk o
  | .float o => numOptsOk o
  | .string _ _ _ => true
  | .boolean => true
  | .enumLit vs => !vs.isEmpty && vs.all enumValOk && jsonNodup vs
  | .enumCls _ names => !names.isEmpty && nodupS names
  | .seqAny k _ => k == .list
  | .seqOf k f _ => k == .list && wfFragF f
  | .seqPos k fs _ _ => k == .list && !fs.isEmpty && wfFragL fs
  | .setAny _ _ => true
  | .setOf _ f _ => wfFragF f
  | .tupleOf f _ => wfFragF f
  | .tuplePos fs _ => !fs.isEmpty && wfFragL fs
  | .mapAny _ => true
  | .mapOf k v _ => isStringField k && wfFragF v
  | .struct c fields defaults =>
    !(schemaRequired c defaults).isEmpty && nodupS (schemaRequired c defaults)
    && defaultsJson defaults && wfFragP fields
  | .anyOf fs => if optShape fs then wfFragOpt fs else !fs.isEmpty && wfFragL fs
  | .oneOf fs => !fs.isEmpty && wfFragL fs
  | .allOf fs => !fs.isEmpty && wfFragL fs
  | .notF fs => !fs.isEmpty && wfFragL fs
  | .noneF => false
  | .anything => false
termination_by structural f => f
def wfFragL : List FieldDecl → Bool
  | [] => true
  | f :: fs => wfFragF f && wfFragL fs
termination_by structural fs => fs
def wfFragOpt : List FieldDecl → Bool
  | [] => true
  | f :: fs => (isNoneF f || wfFragF f) && wfFragOpt fs
termination_by structural fs => fs
def wfFragP : List (String × FieldDecl) → Bool
  | [] => true
  | (_, f) :: ps => wfFragF f && wfFragP ps
termination_by structural ps => ps
end

/-- the top-level class may be a field wrapper (then its schema is the schema of its only field) -/
def inWfFragment (cls : FieldDecl) : Bool :=
  match cls with
  | .struct c fields _ =>
    !c.inline && (if collapses c (fields.map (·.1)) then wfFragP fields else wfFragF cls)
  | _ => false

/-! ### key-renaming mapper: the decidable side conditions of `schema_admits_renamed_partial` -/

def docKeys (r : List (PyVal × PyVal)) : List String := r.filterMap (fun kv => docKey kv.1)

/-- the key map is injective on the list of names -/
def injOnB (km : KeyMap) (L : List String) : Bool :=
  L.all fun a => L.all fun b => mapName km a != mapName km b || a == b

/-- the in-place renaming of `required` ends with exactly the mapped required names (it does not when a
    field is renamed onto the name of a later field: finding `admits:mapper-required-renamed-in-place`) -/
def requiredFaithful (km : KeyMap) (c : ClassOpts) (defaults : List (String × PyVal)) (names : List String) : Bool :=
  sameSet (requiredM km defaults names c.required) ((schemaRequired c defaults).map (mapName km))

/-- no two names of the class / keys of the serialized document are mapped onto one key, and the
    exported `required` is the image of the required names -/
def renameSafe (km : KeyMap) (cls : FieldDecl) (j : PyVal) : Bool :=
  match cls, j with
  | .struct c fields defaults, .dict r =>
    defaults.isEmpty && injOnB km (fields.map (·.1) ++ docKeys r) && requiredFaithful km c defaults (fields.map (·.1))
  | _, _ => false

/-! ### exact sub-fragment -/

/-- a regular expression that can only match at the start of the string (`re.search` = `re.match`) -/
def startAnchored (p : String) : Bool := p.startsWith "^"

/-- scalar fields for which "the schema admits the document" implies "the Deserializer accepts it":
    no float sign classes, no `multiplesOf` on Number / Float, start-anchored patterns, integer sign
    classes only without an explicit bound on the same side -/
def exactScalar : FieldDecl → Bool
  | .integer o =>
    numOptsOk o && (match o.sign with
      | .any => true
      | .pos | .nonneg => o.min.isNone
      | .neg | .nonpos => o.max.isNone)
  | .number o => numOptsOk o && o.sign == .any && o.mult.isNone
  | .float o => numOptsOk o && o.sign == .any && o.mult.isNone
  | .string _ _ pat => (match pat with | some p => startAnchored p | none => true)
  | .boolean => true
  | .enumLit vs => !vs.isEmpty && vs.all enumScalar      -- an Enum with None admits null, which the runtime treats as absent
  | .enumCls _ names => !names.isEmpty
  | _ => false

/-- an unconstrained `String()` key -/
def exactKey : FieldDecl → Bool
  | .string none none none => true
  | _ => false

/-- an `AnyOf` (in particular `Optional[X]`): not allowed as a direct element of an exact `Array` / `Tuple` -/
def isOptionalF : FieldDecl → Bool
  | .anyOf _ => true
  | _ => false

mutual
/-- the exact fragment at field level: exact scalars, homogeneous `Array[X]` / `Tuple[X]` (no
    `uniqueItems`, any size bounds) over it, `Optional[X]` (as a class member or inside another
    Optional-free position, not as a direct array element), `Map[String, X]` with an unconstrained key and
    no size bounds, and nested Structure classes (by `$ref`; no defaults, the
    class accepts its own instances, required fields declared) whose fields are in it — at any depth.
    Positional items, sized or key-constrained Maps are NOT exact (findings exact:positional-shorter,
    exact:map-size, exact:map-key-constraint) -/
def exactF : FieldDecl → Bool
  | .seqOf k f sz => k == .list && !sz.uniq && !isOptionalF f && exactF f
  | .tupleOf f u => !u && !isOptionalF f && exactF f
  | .anyOf fs => exactOpt fs
  | .mapOf k vf sz => exactKey k && sz.min.isNone && sz.max.isNone && !isOptionalF vf && exactF vf
  | .struct c fields defaults =>
    !c.inline && defaults.isEmpty && c.accepts.contains c.name && nodupS (fields.map (·.1))
    && c.required.all (fields.map (·.1)).contains && exactFields fields
  | .number o => exactScalar (.number o)
  | .integer o => exactScalar (.integer o)
  | .float o => exactScalar (.float o)
  | .string lo hi pat => exactScalar (.string lo hi pat)
  | .boolean => true
  | .enumLit vs => exactScalar (.enumLit vs)
  | .enumCls c names => exactScalar (.enumCls c names)
  | _ => false
termination_by structural f => f
def exactFields : List (String × FieldDecl) → Bool
  | [] => true
  | (_, f) :: ps => exactF f && exactFields ps
termination_by structural ps => ps
/-- `Optional[X]` = `AnyOf[X, None]` over an exact `X` (exported as the schema of `X`) -/
def exactOpt : List FieldDecl → Bool
  | [] => false
  | f :: rest => exactF f && (match rest with | [.noneF] => true | _ => false)
termination_by structural fs => fs
end

mutual
/-- a JSON document as Python reads it: every object key is a string -/
def jsonDoc : PyVal → Bool
  | .list xs => jsonDocL xs
  | .dict kvs => jsonDocP kvs
  | _ => true
termination_by structural v => v
def jsonDocL : List PyVal → Bool
  | [] => true
  | x :: xs => jsonDoc x && jsonDocL xs
termination_by structural xs => xs
def jsonDocP : List (PyVal × PyVal) → Bool
  | [] => true
  | (k, v) :: rest => isStrJ k && jsonDoc v && jsonDocP rest
termination_by structural kvs => kvs
end

/-- classes over the exact field fragment (scalars, Array[X], Tuple[X], nested classes), no defaults, not a field wrapper -/
def inExactFragment (cls : FieldDecl) : Bool :=
  match cls with
  | .struct c fields defaults =>
    !c.inline && defaults.isEmpty && !collapses c (fields.map (·.1)) && nodupS (fields.map (·.1))
    && c.required.all (fields.map (·.1)).contains && exactFields fields
  | _ => false

end Typedpy.Sch
