/-
  Spec/FieldSet.lean — the documented outcome of the derivation operators (written from the
  docstrings of Partial / AllFieldsRequired / Extend / Omit / Pick and `Structure.omit/pick`,
  not from the code):

  * Partial: same fields, none required;
  * AllFieldsRequired: same fields, every field without an explicit default required (a Constant
    has a fixed value and is not a constructor argument: it is carried over, not required);
  * Extend: same fields, same required;
  * Omit: the fields not listed, required restricted to them;
  * Pick: the fields listed, required restricted to them.

  `Bool` predicates on names so that the driver can evaluate them on the field / required sets
  the real code produced.
-/
import TypedpyModel.Sem.Derive
namespace Typedpy

/-- `n` is documented to be a field of `op` applied to a class with fields `srcFields` -/
def specHasField (op : DeriveOp) (srcFields : List String) (n : String) : Bool :=
  match op with
  | .partialOf => srcFields.contains n
  | .allRequired => srcFields.contains n
  | .extend => srcFields.contains n
  | .omit names => srcFields.contains n && !names.contains n
  | .pick names => srcFields.contains n && names.contains n

def memberHasDefault (fs : List (String × Member)) (n : String) : Bool :=
  match lookup n fs with
  | some m => m.hasDefault
  | none => false

def memberNeedsValue (fs : List (String × Member)) (n : String) : Bool :=
  match lookup n fs with
  | some m => m.needsValue
  | none => false

/-- `n` is documented to be required in `op` applied to class `c` -/
def specRequires (op : DeriveOp) (c : ClassDef) (n : String) : Bool :=
  match op with
  | .partialOf => false
  | .allRequired => memberNeedsValue c.allFields n
  | .extend => c.required.contains n
  | .omit names => c.required.contains n && !names.contains n
  | .pick names => c.required.contains n && names.contains n

/-- the field-name set `got` is exactly the documented one -/
def fieldSetOk (op : DeriveOp) (srcFields got : List String) : Bool :=
  got.all (specHasField op srcFields) && (srcFields.filter (specHasField op srcFields)).all got.contains

/-- the required set `got` is exactly the documented one -/
def requiredSetOk (op : DeriveOp) (c : ClassDef) (got : List String) : Bool :=
  got.all (specRequires op c)
  && ((c.required ++ c.fieldNames).filter (specRequires op c)).all got.contains

end Typedpy

namespace Typedpy

/-- documented field set of a composition of operators (each applied to the previous result) -/
def specHasFieldMany : List DeriveOp → List String → String → Bool
  | [], fs, n => fs.contains n
  | op :: rest, fs, n => specHasFieldMany rest (fs.filter (specHasField op fs)) n

end Typedpy
