/-
  Spec/AliasScope.lean — the decidable scope / exclusion predicates of C19 (definitions only: no theorem, no
  generated or pinned table), shared by Props/C19.lean and by the driver suite Drive/Alias.lean, so that the
  compiled driver never depends on a property theorem.

  * `inScopeSite`  — which sites the retained-input clause of the statement speaks about;
  * `AliasRow.safe` — when a table row is safe;
  * `knownRows` / `fixedRows` — the open known-finding rows and the rows repaired in typedpy;
  * `admitted`     — the exclusion predicate of `C19_partial`.
-/
import TypedpyModel.Sem.Alias
namespace Typedpy.C19
open Typedpy.Alias

/-- the retained-input clause of the statement speaks about typed fields given plain data: untyped content
    (`Anything`, elements of untyped collections, undeclared keys, whatever a `NotField` lets through) and
    Structure instances passed by reference (ClassReference) are shared by design -/
def inScopeSite (op : OpK) (k : Kind) : Bool :=
  !((op == .construct || op == .setattr || op == .deserialize) &&
    (k == .any || k == .notF || (k == .struct && op != .deserialize)))

def _root_.Typedpy.Alias.AliasRow.inScope (r : AliasRow) : Bool := inScopeSite r.op r.kind

/-- a row is safe: no in-place edit of the argument, the two readings of the code agree, nothing handed on -/
def _root_.Typedpy.Alias.AliasRow.safe (r : AliasRow) : Bool := !r.argMutated && r.agree && r.mode.copies

/-- the known-finding rows (same sites as the keys in known_findings.json) -/
def knownRows : List (OpK × Kind × Cat) := [
  -- OneOf / AllOf store the caller's object, not the option's normalised copy
  (.construct, .oneOf, .coll), (.construct, .oneOf, .inline), (.construct, .oneOf, .wrap),
  (.construct, .allOf, .coll), (.construct, .allOf, .inline), (.construct, .allOf, .wrap),
  (.setattr, .oneOf, .coll), (.setattr, .oneOf, .inline), (.setattr, .oneOf, .wrap),
  (.setattr, .allOf, .coll), (.setattr, .allOf, .inline), (.setattr, .allOf, .wrap)]

/-- rows that were findings of the first round and were repaired in typedpy: the `return value` short cuts
    of Array/Deque/Map.serialize (commit 5e8a8ad: fast serialization and `<field>.serialize` handed out the
    stored collection) the Set field without `items` (commit d7f6fe4: kept the caller's set) and the schema default (commit c0c3c23) -/
def fixedRows : List (OpK × Kind × Cat) := [
  (.fieldSerialize, .array, .number), (.fieldSerialize, .array, .string), (.fieldSerialize, .array, .untyped),
  (.fieldSerialize, .deque, .untyped), (.fieldSerialize, .map, .untyped),
  (.fastSerialize, .array, .number), (.fastSerialize, .array, .string), (.fastSerialize, .array, .untyped),
  (.fastSerialize, .deque, .untyped), (.fastSerialize, .map, .untyped),
  (.construct, .set, .untyped), (.setattr, .set, .untyped),
  -- commit c0c3c23: structure_to_schema put a field's non-callable mutable default live into the schema
  (.toSchema, .default, .any)]

def isKnown (r : AliasRow) : Bool := knownRows.contains (r.op, r.kind, r.cat)

/-- a site the statement speaks about and that is not a listed finding (a site the table does not know is
    never admitted) -/
def admitted (tbl : List AliasRow) (op : OpK) (kc : Kind × Cat) : Bool :=
  match lookupRow tbl op kc.1 kc.2 with
  | some r => r.inScope && !isKnown r
  | none => false

end Typedpy.C19
