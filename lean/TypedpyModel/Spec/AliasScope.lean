/-
  Spec/AliasScope.lean — the decidable scope / exclusion predicates of C19 (definitions only: no theorem, no
  generated or pinned table), shared by Props/C19.lean and by the driver suite Drive/Alias.lean, so that the
  compiled driver never depends on a property theorem.

  * `inScopeSite`  — which sites the retained-input clause of the statement speaks about;
  * `AliasRow.safe` — when a table row is safe;
  * `knownRows` / `fixedRows` — the open known-finding rows and the rows repaired in typedpy;
  * `admitted`     — the exclusion predicate of `C19_partial`.
-/
import TypedpyModel.Sem.Alias
namespace Typedpy.C19
open Typedpy.Alias

/-- the retained-input clause of the statement speaks about typed fields given plain data: untyped content
    (`Anything`, elements of untyped collections, undeclared keys, whatever a `NotField` lets through) and
    Structure instances passed by reference (ClassReference) are shared by design -/
def inScopeSite (op : OpK) (k : Kind) : Bool :=
  !((op == .construct || op == .setattr || op == .deserialize) &&
    (k == .any || k == .notF || (k == .struct && op != .deserialize)))

def _root_.Typedpy.Alias.AliasRow.inScope (r : AliasRow) : Bool := inScopeSite r.op r.kind

/-- a row is safe: no in-place edit of the argument, the two readings of the code agree, nothing handed on -/
def _root_.Typedpy.Alias.AliasRow.safe (r : AliasRow) : Bool := !r.argMutated && r.agree && r.mode.copies

/-- the known-finding rows (same sites as the keys in known_findings.json) -/
def knownRows : List (OpK × Kind × Cat) := []

/-- rows that were findings of the first round and were repaired in typedpy: the `return value` short cuts
    of Array/Deque/Map.serialize (commit 5e8a8ad: fast serialization and `<field>.serialize` handed out the
    stored collection) the Set field without `items` (commit d7f6fe4: kept the caller's set), the schema default (commit c0c3c23) and OneOf / AllOf (commit 89fd84a) -/
def fixedRows : List (OpK × Kind × Cat) := [
  (.fieldSerialize, .array, .number), (.fieldSerialize, .array, .string), (.fieldSerialize, .array, .untyped),
  (.fieldSerialize, .deque, .untyped), (.fieldSerialize, .map, .untyped),
  (.fastSerialize, .array, .number), (.fastSerialize, .array, .string), (.fastSerialize, .array, .untyped),
  (.fastSerialize, .deque, .untyped), (.fastSerialize, .map, .untyped),
  (.construct, .set, .untyped), (.setattr, .set, .untyped),
  -- commit c0c3c23: structure_to_schema put a field's non-callable mutable default live into the schema
  (.toSchema, .default, .any),
  -- commit 89fd84a (supersedes 95931f6): OneOf / AllOf store a private deep copy of the given value (they kept the
  -- caller's own object)
  (.construct, .oneOf, .coll), (.construct, .oneOf, .inline), (.construct, .oneOf, .wrap),
  (.construct, .allOf, .coll), (.construct, .allOf, .inline), (.construct, .allOf, .wrap),
  (.setattr, .oneOf, .coll), (.setattr, .oneOf, .inline), (.setattr, .oneOf, .wrap),
  (.setattr, .allOf, .coll), (.setattr, .allOf, .inline), (.setattr, .allOf, .wrap),
  -- commit 2fb1f4d: the private copy of OneOf / AllOf covers tuples and frozensets too
  (.construct, .oneOf, .tupl), (.construct, .allOf, .tupl), (.setattr, .oneOf, .tupl), (.setattr, .allOf, .tupl)]

def isKnown (r : AliasRow) : Bool := knownRows.contains (r.op, r.kind, r.cat)

/-- a site the statement speaks about and that is not a listed finding (a site the table does not know is
    never admitted) -/
def admitted (tbl : List AliasRow) (op : OpK) (kc : Kind × Cat) : Bool :=
  match lookupRow tbl op kc.1 kc.2 with
  | some r => r.inScope && !isKnown r
  | none => false

/-! ## public entry points (direction: "never mutate caller data" speaks about EVERY public callable) -/

/-- how a public callable of typedpy is covered by this property -/
inductive ApiClass
  | op (o : OpK)      -- an entry point of operation `o` of the heap model (its argument rows are in the table)
  | probe             -- outside the heap model; arguments snapshotted before / after by a direct probe on every run
  | outside           -- takes no caller-owned mutable data (configuration flags, type predicates, decorators over
                      -- functions / classes, markers) or belongs to another property (stub generation: C16)
  deriving DecidableEq, Repr, Inhabited

/-- one row per public function / method / non-field class; a public callable without a row breaks `api_covered` -/
def apiRows : List (String × ApiClass) := [
  -- construction and the alternative constructors
  ("Structure", .op .construct), ("ImmutableStructure", .op .construct), ("AbstractStructure", .op .construct),
  ("FinalStructure", .op .construct), ("ErrorInfo", .op .construct),
  ("Structure.shallow_clone_with_overrides", .op .construct), ("Structure.cast_to", .op .construct),
  ("Structure.to_other_class", .op .construct), ("Structure.from_other_class", .op .construct),
  ("Structure.from_trusted_data", .probe),
  -- (de)serialization
  ("Deserializer", .op .deserialize), ("Deserializer.deserialize", .op .deserialize),
  ("deserialize_structure", .op .deserialize), ("deserialize_single_field", .probe),
  ("deserializer_by_discriminator", .probe),
  ("Serializer", .op .serialize), ("Serializer.serialize", .op .serialize), ("serialize", .op .serialize),
  ("serialize_field", .probe), ("Field.serialize", .op .fieldSerialize),
  ("create_serializer", .op .fastSerialize), ("FastSerializable", .op .fastSerialize),
  ("FastSerializable.serialize", .op .fastSerialize),
  -- versioned conversion and mapper values
  ("convert_dict", .op .convert), ("Versioned", .op .convert), ("Constant", .op .convert), ("Deleted", .op .convert),
  ("FunctionCall", .op .convert),
  -- class derivation
  ("Extend", .op .derive), ("Omit", .op .derive), ("Pick", .op .derive), ("Partial", .op .derive),
  ("AllFieldsRequired", .op .derive), ("Structure.omit", .probe), ("Structure.pick", .probe),
  -- schema
  ("structure_to_schema", .op .toSchema), ("Field.to_json_schema", .op .toSchema),
  ("schema_to_struct_code", .op .schemaToCode), ("schema_definitions_to_code", .op .schemaToCode),
  ("Field.from_json_schema", .op .schemaToCode), ("write_code_from_schema", .probe),
  -- accessors that hand out class-level state
  ("Structure.get_all_fields_by_name", .probe), ("Structure.get_aggregated_serialization_mapper", .probe),
  ("Structure.get_aggregated_deserialization_mapper", .probe),
  -- helpers over caller data
  ("deep_get", .probe), ("flatten", .probe), ("first_in", .probe), ("create_typed_field", .probe),
  ("get_simplified_error", .probe), ("standard_readable_error_for_typedpy_exception", .probe),
  -- no caller-owned mutable data: getters of what the caller passed, flags, type predicates, decorators, markers
  ("Deserializer.mapper", .outside), ("Serializer.mapper", .outside), ("Field.get_type", .outside),
  ("Structure.failing_fast", .outside), ("Structure.is_non_typedpy_field_assignment_blocked", .outside),
  ("Structure.set_additional_properties_default", .outside), ("Structure.set_auto_enum_conversion", .outside),
  ("Structure.set_block_non_typedpy_field_assignment", .outside),
  ("Structure.set_compact_deserialization_default", .outside), ("Structure.set_compact_serialization_default", .outside),
  ("Structure.set_fail_fast", .outside), ("Structure.trust_supplied_values", .outside),
  ("Structure.used_trusted_instantiation", .outside),
  ("DoNotSerialize", .outside), ("HasTypes", .outside), ("MultiFieldWrapper", .outside), ("SizedCollection", .outside),
  ("TypedPyDefaults", .outside), ("Undefined", .outside), ("mappers", .outside),
  ("default_factories", .outside), ("get_list_type", .outside), ("keys_of", .outside), ("nested", .outside),
  ("type_is_generic", .outside), ("unique", .outside),
  -- stub generation (files in, files out): property C16
  ("create_pyi", .outside), ("create_stub_for_file", .outside), ("create_stub_for_file_using_ast", .outside)]

/-- Field subclasses are declarations (their constructor arguments `values` / `items` / `default` / `fields` are
    covered by the `declare:fields` probe and the class-level sites of the table), exception classes and plain
    values take no caller data: classified by kind; everything else needs a row by name -/
def apiKindCovered (kind : String) : Bool := kind == "field" || kind == "exception" || kind == "value"

def apiCovered (api : List (String × String)) : Bool :=
  api.all fun p => apiKindCovered p.2 || apiRows.any fun r => r.1 == p.1

/-- every row that is not `outside` names something the suite really exercises -/
def apiRowsProbed (probed : List String) : Bool :=
  apiRows.all fun r => r.2 == .outside || probed.contains r.1

/-- every `op` row points at an operation the table has rows for, none of which edits an argument -/
def apiOpsInTable (tbl : List AliasRow) : Bool :=
  apiRows.all fun r => match r.2 with
    | .op o => (tbl.any fun t => t.op == o) && (tbl.all fun t => !(t.op == o) || !t.argMutated)
    | _ => true

end Typedpy.C19
