/-
  Spec/ConvertSpec.lean — what C17 says about versioned conversion, written from the documentation of
  `Versioned` ("The version is expected to start with 1 and increase by 1 in every update … The first mapping maps
  version 1 to 2, the second 2 to 3, etc.") and from the property statement, independently of how
  `convert_dict` selects the mappings (it slices the list once by the start version).

  * `docVersion d`      — the version a document declares (`none`: no integer `version` key);
  * `effectiveVersion d` — the version `convert_dict` is documented to assume: a document without a `version`
                           key is a version-1 document;
  * `writesKey`, `wfHistory` — the decidable well-formedness predicate: no mapping of the history has an entry
                           for the top-level key `version` (neither `version` nor `version._mapper`);
  * `upgrade`           — the documented process: while the document's *own current* version `v` is at most
                           `len ms`, apply mapping number `v` (`ms[v-1]`) and move to `v+1`.
  * Bool laws (`versionLaw`, `sameResult`) that the driver evaluates on what the real code returned.
-/
import TypedpyModel.Sem.Convert
namespace Typedpy.Convert

/-- does the mapping have an entry for top-level key `q` (a `sub` entry is keyed by its field) -/
def writesKey (q : String) (m : Mapping) : Bool := m.any fun p => p.1 == q

/-- no mapping of the history touches the `version` key -/
def wfHistory (ms : List Mapping) : Bool := ms.all fun m => !writesKey "version" m

/-- the integer version a document carries -/
def docVersion : Json → Option Int
  | .obj kvs => match get "version" kvs with
    | some (.int i) => some i
    | _ => none
  | _ => none

def hasVersionKey : Json → Bool
  | .obj kvs => (get "version" kvs).isSome
  | _ => false

/-- a document without a `version` key counts as version 1 (`the_dict.get("version", 1)`) -/
def effectiveVersion : Json → Option Int
  | .obj kvs => match get "version" kvs with
    | none => some 1
    | some (.int i) => some i
    | _ => none
  | _ => none

/-- documented single step from version `v` to `v+1`: apply mapping number `v`, then record `v+1` -/
def stepSpec (m : Mapping) (v : Int) (d : Json) : R Json :=
  bindE (convert m d) fun d' =>
    match d' with
    | .obj kvs => .ok (.obj (set "version" (.int (v + 1)) kvs))
    | _ => .error .attrErr

/-- the documented upgrade process, driven by the document's own current version (fuel = number of steps
    allowed; `len ms` always suffices) -/
def upgrade (ms : List Mapping) : Nat → Json → R Json
  | 0, d => .ok d
  | n + 1, d =>
    match docVersion d with
    | none => .ok d
    | some v =>
      if v < 1 then .ok d
      else match ms[(v - 1).toNat]? with
        | none => .ok d
        | some m => bindE (stepSpec m v d) fun d' => upgrade ms n d'

/-! ### executable laws for the oracle (evaluated by the driver on the real code's results) -/

/-- result version is `len ms + 1` -/
def versionLaw (ms : List Mapping) (r : Json) : Bool :=
  match docVersion r with
  | some v => v == (ms.length : Int) + 1
  | none => false

/-- outcomes agree (`Json.beq` on documents, same exception class) -/
def sameResult : R Json → R Json → Bool
  | .ok a, .ok b => a.beq b
  | .error a, .error b => a == b
  | _, _ => false

/-- the start version is one `convert_dict` is specified for -/
def inDomain (ms : List Mapping) (d : Json) : Bool :=
  match docVersion d with
  | some v => decide (1 ≤ v) && decide (v ≤ (ms.length : Int) + 1)
  | none => false

end Typedpy.Convert
