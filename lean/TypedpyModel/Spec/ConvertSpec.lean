/-
  Spec/ConvertSpec.lean — what C17 says about versioned conversion, written from the documentation of
  `Versioned` ("The version is expected to start with 1 and increase by 1 in every update … The first mapping maps
  version 1 to 2, the second 2 to 3, etc.") and from the property statement, independently of how
  `convert_dict` selects the mappings (it slices the list once by the start version).

  * `docVersion d`      — the version a document declares (`none`: no integer `version` key);
  * `effectiveVersion d` — the version `convert_dict` is documented to assume: a document without a `version`
                           key is a version-1 document;
  * `writesKey`, `wfHistory` — does a mapping have an entry for the top-level key `version` (since typedpy commit
                           f017e49 no theorem needs this restriction any more; kept for the case statistics);
  * `upgrade`           — the documented process: while the document's *own current* (effective) version `v` is at
                           most `len ms`, apply mapping number `v` (`ms[v-1]`) and move to `v+1`.
  * Bool laws (`versionLaw`, `sameResult`) that the driver evaluates on what the real code returned.
-/
import TypedpyModel.Sem.Convert
namespace Typedpy.Convert

/-- does the mapping have an entry for top-level key `q` (a `sub` entry is keyed by its field) -/
def writesKey (q : String) (m : Mapping) : Bool := m.any fun p => p.1 == q

/-- no mapping of the history touches the `version` key -/
def wfHistory (ms : List Mapping) : Bool := ms.all fun m => !writesKey "version" m

/-- the integer version a document carries -/
def docVersion : Json → Option Int
  | .obj kvs => match get "version" kvs with
    | some (.int i) => some i
    | _ => none
  | _ => none

def hasVersionKey : Json → Bool
  | .obj kvs => (get "version" kvs).isSome
  | _ => false

/-- a document without a `version` key counts as version 1 (`the_dict.get("version", 1)`), and so does `True` -/
def effectiveVersion : Json → Option Int
  | .obj kvs => match get "version" kvs with
    | none => some 1
    | some (.int i) => some i
    | some (.bool true) => some 1     -- a bool is an int in Python: `True` is version 1
    | _ => none
  | _ => none

/-- documented single step from version `v` to `v+1`: apply mapping number `v`, then record `v+1` -/
def stepSpec (m : Mapping) (v : Int) (d : Json) : R Json :=
  bindE (convert m d) fun d' =>
    match d' with
    | .obj kvs => .ok (.obj (set "version" (.int (v + 1)) kvs))
    | _ => .error .typeErr

/-- the documented upgrade process, driven by the document's own current version (fuel = number of steps
    allowed; `len ms` always suffices) -/
def upgrade (ms : List Mapping) : Nat → Json → R Json
  | 0, d => .ok d
  | n + 1, d =>
    match effectiveVersion d with
    | none => .ok d
    | some v =>
      if v < 1 then .ok d
      else match ms[(v - 1).toNat]? with
        | none => .ok d
        | some m => bindE (stepSpec m v d) fun d' => upgrade ms n d'

/-! ### executable laws for the oracle (evaluated by the driver on the real code's results) -/

/-- result version is `len ms + 1` (a result without `version` key counts as version 1) -/
def versionLaw (ms : List Mapping) (r : Json) : Bool :=
  match effectiveVersion r with
  | some v => v == (ms.length : Int) + 1
  | none => false

/-- outcomes agree (`Json.beq` on documents, same exception class) -/
def sameResult : R Json → R Json → Bool
  | .ok a, .ok b => a.beq b
  | .error a, .error b => a == b
  | _, _ => false

/-- the start version is one `convert_dict` is specified for -/
def inDomain (ms : List Mapping) (d : Json) : Bool :=
  match effectiveVersion d with
  | some v => decide (1 ≤ v) && decide (v ≤ (ms.length : Int) + 1)
  | none => false

/-! ### the documented contract of one mapping application (docs/versioning.rst), as an executable check

  `stepViolations m before after` lists the clauses of the contract that the pair (document before, document after
  applying mapping `m`) violates.  Clauses, each guarded so that it only speaks where the documentation is
  unambiguous (no other entry of the same mapping interferes with the keys involved):

  * `deleted`  — "the newer version no longer has this field, and it should be dropped": the key is absent;
  * `constant` — "populate it with a default value": the key holds the constant (when `k._mapper` is also given: if
                 that entry is written before the Constant, or the sub-document is absent / None);
  * `move`     — the key holds what the (dotted) source path held before, when the path's first key is written by no
                 Constant / `._mapper` / FunctionCall entry and no earlier move (it may be `Deleted`: the rename idiom
                 `{"new": "old", "old": Deleted}`); else what the path holds at the end, when no later move writes the
                 first key and it is not deleted (moves run after the other entries);
  * `function` — the key holds the function applied to the values of the argument keys: the value before the
                 step when no *earlier* entry of the mapping writes the key, the constant when the one earlier
                 writer is a `Constant` (entries act in the order written); not judged otherwise;
  * `nested`   — `f._mapper`: a sub-document, or every sub-document of a list, satisfies the nested mapping's
                 contract; `None`/absent stays; list length is kept; also when earlier entries (Constant,
                 FunctionCall) write the same key — the conversion of the sub-document that was there before wins;
  * `frame`    — keys the mapping does not mention are unchanged (`version` is the caller's bookkeeping).
-/

/-- mapping entries with nested contracts resolved -/
inductive PEntry where
  | const (v : Json)
  | deleted
  | move (path : List String)
  | sub (post : Json → Json → List String)
  | fn (f : UserFn) (args : List String)

def PEntry.isSub : PEntry → Bool | .sub _ => true | _ => false
def PEntry.isDeleted : PEntry → Bool | .deleted => true | _ => false
def PEntry.isMove : PEntry → Bool | .move _ => true | _ => false
def PEntry.isWriter1 : PEntry → Bool | .const _ => true | .sub _ => true | .fn _ _ => true | _ => false

def keyed (q : String) (m : List (String × PEntry)) : List PEntry := (m.filter fun p => p.1 == q).map (·.2)

/-- insertion of a key into a key-sorted association list -/
def insertKV (k : String) (v : Json) : Obj → Obj
  | [] => [(k, v)]
  | (k', v') :: r => if k < k' then (k, v) :: (k', v') :: r else (k', v') :: insertKV k v r

mutual
/-- canonical form: keys of every object sorted (Python's `==` on dicts ignores insertion order) -/
def Json.norm : Json → Json
  | .list xs => .list (normList xs)
  | .obj kvs => .obj (normObj kvs)
  | j => j
termination_by structural x => x
def normList : List Json → List Json
  | [] => []
  | x :: r => x.norm :: normList r
termination_by structural x => x
def normObj : List (String × Json) → Obj
  | [] => []
  | (k, v) :: r => insertKV k v.norm (normObj r)
termination_by structural x => x
end

/-- Python `==` on JSON documents -/
def pyEq (a b : Json) : Bool := a.norm.beq b.norm

def optBeq : Option Json → Option Json → Bool
  | none, none => true
  | some a, some b => pyEq a b
  | _, _ => false

def zipPosts (post : Json → Json → List String) : List Json → List Json → List String
  | [], [] => []
  | x :: xs, y :: ys =>
    (match x with | .obj _ => post x y | _ => []) ++ zipPosts post xs ys
  | _, _ => ["nested:list-length-changed"]

def absentOrNull : Option Json → Bool
  | none => true
  | some .null => true
  | _ => false

/-- the nested clause for key `k`; `alone` = `k._mapper` is the only entry for `k` (then `None` / absent must stay) -/
def subViolations (post : Json → Json → List String) (k : String) (before after : Obj) (alone : Bool) : List String :=
  match get k before with
  | none => if alone then (if (get k after).isNone then [] else [s!"nested:{k}-appeared"]) else []
  | some .null => if alone then (if optBeq (get k after) (some .null) then [] else [s!"nested:{k}-null-changed"]) else []
  | some (.list xs) =>
    match get k after with
    | some (.list ys) => (zipPosts post xs ys).map fun s => s!"{k}/{s}"
    | _ => [s!"nested:{k}-list-lost"]
  | some (.obj kvs) =>
    match get k after with
    | some y => (post (.obj kvs) y).map fun s => s!"{k}/{s}"
    | none => [s!"nested:{k}-lost"]
  | some _ => []

/-- `mapM` in `Option`, written out (structural, kernel-reducible) -/
def optMapM {α β} (f : α → Option β) : List α → Option (List β)
  | [] => some []
  | a :: as =>
    match f a with
    | none => none
    | some b => match optMapM f as with
      | none => none
      | some bs => some (b :: bs)

/-- the value an argument key `x` of the FunctionCall entry keyed `k` holds when that entry runs (`pre` = the
    entries written before it): the value before the step when no earlier entry writes `x` in loop 1 (or `x` is
    the entry's own key, which nothing else may write), the constant when the one earlier writer is a `Constant`,
    the final value when all writers of the key come earlier; `none` = not judged -/
def argValOf (k : String) (m pre : List (String × PEntry)) (before after : Obj) (x : String) : Option Json :=
  if x == k then some (getD x before)
  else match (keyed x pre).filter PEntry.isWriter1 with
    | [] => some (getD x before)
    | [.const v] => some v
    | _ =>
      -- several earlier writers, or a FunctionCall / `._mapper` one: when nothing writes the key any more after this
      -- entry ran (no later loop-1 writer, no move onto it, no Deleted; `version` is rewritten by the caller), the
      -- value the function saw is the value the key has at the end
      if x != "version"
          && ((keyed x m).filter PEntry.isWriter1).length == ((keyed x pre).filter PEntry.isWriter1).length
          && (keyed x m).all PEntry.isWriter1 then some (getD x after) else none

def entryViolations (m pre : List (String × PEntry)) (before after : Obj) (k : String) (e : PEntry) : List String :=
  match e with
  | .deleted => if (get k after).isSome then [s!"deleted:{k}-still-present"] else []
  | .const v =>
    -- entries act in the order written: a `k._mapper` entry written BEFORE the Constant is overwritten by it; one
    -- written after it overrides the constant only when the sub-document is there (not absent / None)
    if !(keyed k m).any PEntry.isSub || (keyed k pre).any PEntry.isSub || absentOrNull (get k before) then
      if optBeq (get k after) (some v) then [] else [s!"constant:{k}-not-set"]
    else []
  | .move p =>
    match p with
    | [] => []
    | h :: _ =>
      -- moves run after every Constant / `._mapper` / FunctionCall entry, in the order written, and before the
      -- deletions.  The source key `h` still holds what it held before the step when no such entry and no earlier
      -- move writes it (this covers the rename idiom `{"new": "old", "old": Deleted}`) …
      if ((keyed h m).filter PEntry.isWriter1).isEmpty && ((keyed h pre).filter PEntry.isMove).isEmpty then
        if optBeq (get k after) (some (deepGet (.obj before) p)) then [] else [s!"move:{k}-wrong-value"]
      -- … and otherwise it holds what it holds at the end, when no later move writes it and it is not deleted
      else if h != k && h != "version"
          && ((keyed h m).filter PEntry.isMove).length == ((keyed h pre).filter PEntry.isMove).length
          && !(keyed h m).any PEntry.isDeleted then
        if optBeq (get k after) (some (deepGet (.obj after) p)) then [] else [s!"move:{k}-wrong-value"]
      else []
  | .fn g args =>
    if (keyed k m).length == 1 then
      match optMapM (argValOf k m pre before after) (if args.isEmpty then [k] else args) with
      | some vals =>
        match g vals with
        | .ok r => if optBeq (get k after) (some r) then [] else [s!"function:{k}-wrong-value"]
        | .error _ => []
      | none => []
    else []
  | .sub post =>
    if (keyed k m).length == 1 then subViolations post k before after true
    -- the last entry for the key, and nothing moves onto / deletes the key: it overrides what the earlier entries
    -- (a Constant, a FunctionCall) wrote whenever the sub-document is there
    else if (keyed k m).length == (keyed k pre).length + 1 && (keyed k m).all PEntry.isWriter1 then
      subViolations post k before after false
    else []

/-- all entries, each judged knowing the entries written before it -/
def entriesViolations (top : Bool) (m : List (String × PEntry)) (before after : Obj) :
    List (String × PEntry) → List (String × PEntry) → List String
  | _, [] => []
  | pre, p :: rest =>
    (if top && p.1 == "version" then [] else entryViolations m pre before after p.1 p.2)
      ++ entriesViolations top m before after (pre ++ [p]) rest

def frameViolations (m : List (String × PEntry)) (before after : Obj) : List String :=
  ((before.map (·.1)) ++ (after.map (·.1))).filterMap fun q =>
    if q == "version" || (keyed q m).length != 0 then none
    else if optBeq (get q after) (get q before) then none else some s!"frame:{q}-changed"

def postShape (top : Bool) (m : List (String × PEntry)) (before after : Json) : List String :=
  match before, after with
  | .obj b, .obj a =>
    -- at the top level the `version` key belongs to `convert_dict`'s bookkeeping: entries keyed by it are not
    -- judged (but still count as interfering writers for the other clauses)
    entriesViolations top m b a [] m ++ frameViolations m b a
  | .obj _, _ => ["result-not-a-dict"]
  | _, _ => []

mutual
def Entry.toPost : Entry → PEntry
  | .const v => .const v
  | .deleted => .deleted
  | .move p => .move p
  | .fn g a => .fn g a
  | .sub m => .sub (postShape false (postMap m))
termination_by structural x => x
def postMap : List (String × Entry) → List (String × PEntry)
  | [] => []
  | (k, e) :: r => (k, e.toPost) :: postMap r
termination_by structural x => x
end

/-- clauses of the documented single-step contract violated by `after` = (`before` converted with `m`) -/
def stepViolations (m : Mapping) (before after : Json) : List String :=
  postShape false (postMap m) before after

/-- the same for one step of `convert_dict` (top level: `version` is bumped by the caller) -/
def stepViolationsTop (m : Mapping) (before after : Json) : List String :=
  postShape true (postMap m) before after

/-! ### a mapping is a Python `dict`: a key occurs at most once

  In the model a `sub` entry (Python key `"<f>._mapper"`) is keyed by `<f>`, so a key may carry one `sub` entry and
  one other entry; apart from that keys are unique, at every nesting level.  The harness checks this on every
  case (`wfMappings` in the driver output); the step-contract theorems assume it. -/

def Entry.isSub : Entry → Bool | .sub _ => true | _ => false

/-- no two entries with the same Python key -/
def keysOk (m : Mapping) : Bool :=
  m.all fun p => (m.filter fun p' => p'.1 == p.1 && p'.2.isSub == p.2.isSub).length == 1

mutual
def Entry.wfDeep : Entry → Bool
  | .sub m => keysOk m && wfDeepList m
  | _ => true
termination_by structural x => x
def wfDeepList : List (String × Entry) → Bool
  | [] => true
  | (_, e) :: r => e.wfDeep && wfDeepList r
termination_by structural x => x
end

def wfMapping (m : Mapping) : Bool := keysOk m && wfDeepList m

end Typedpy.Convert
