/-
  Drive/Wire.lean — JSON wire format between the Python harness and the Lean driver.
  Trusted glue (not part of any theorem): decoding of values / declarations, encoding of results.
-/
import Lean.Data.Json
import TypedpyModel.Core.Field
import TypedpyModel.Core.Formats
namespace Typedpy.Wire
open Lean (Json)
open Typedpy

def qOfJson (j : Json) : Except String Q := do
  let arr ← j.getArr?
  if arr.size != 2 then throw "Q: expected [num, den]"
  let n ← arr[0]!.getInt?
  let d ← arr[1]!.getNat?
  pure ⟨n, d⟩

def qToJson (q : Q) : Json := Json.arr #[Json.num (Lean.JsonNumber.fromInt q.num), Json.num (Lean.JsonNumber.fromNat q.den)]

partial def valOfJson (j : Json) : Except String PyVal :=
  match j with
  | .null => pure .none
  | .bool b => pure (.bool b)
  | .num _ => do let i ← j.getInt?; pure (.int i)
  | .str s => pure (.str s)
  | .arr _ => throw "value: bare array"
  | .obj _ => do
    if let .ok x := j.getObjVal? "f" then return .float (← qOfJson x)
    if let .ok x := j.getObjVal? "d" then return .dec (← qOfJson x)
    if let .ok x := j.getObjVal? "l" then return .list (← (← x.getArr?).toList.mapM valOfJson)
    if let .ok x := j.getObjVal? "t" then return .tuple (← (← x.getArr?).toList.mapM valOfJson)
    if let .ok x := j.getObjVal? "s" then return .set false (← (← x.getArr?).toList.mapM valOfJson)
    if let .ok x := j.getObjVal? "fs" then return .set true (← (← x.getArr?).toList.mapM valOfJson)
    if let .ok x := j.getObjVal? "q" then return .deque (← (← x.getArr?).toList.mapM valOfJson)
    if let .ok x := j.getObjVal? "m" then
      let kvs ← (← x.getArr?).toList.mapM fun kv => do
        let a ← kv.getArr?
        if a.size != 2 then throw "dict entry"
        pure ((← valOfJson a[0]!), (← valOfJson a[1]!))
      return .dict kvs
    if let .ok x := j.getObjVal? "e" then
      let a ← x.getArr?
      return .enumv (← a[0]!.getStr?) (← a[1]!.getStr?)
    if let .ok x := j.getObjVal? "o" then
      let a ← x.getArr?
      let attrs ← (← a[1]!.getArr?).toList.mapM fun kv => do
        let p ← kv.getArr?
        pure ((← p[0]!.getStr?), (← valOfJson p[1]!))
      return .inst (← a[0]!.getStr?) attrs
    if let .ok x := j.getObjVal? "x" then return .opaque (← x.getStr?)
    throw s!"value: unknown object {j.compress}"

partial def valToJson : PyVal → Json
  | .none => .null
  | .bool b => .bool b
  | .int i => Json.num (Lean.JsonNumber.fromInt i)
  | .float q => Json.mkObj [("f", qToJson q)]
  | .dec q => Json.mkObj [("d", qToJson q)]
  | .str s => .str s
  | .list xs => Json.mkObj [("l", Json.arr (xs.map valToJson).toArray)]
  | .tuple xs => Json.mkObj [("t", Json.arr (xs.map valToJson).toArray)]
  | .set false xs => Json.mkObj [("s", Json.arr (xs.map valToJson).toArray)]
  | .set true xs => Json.mkObj [("fs", Json.arr (xs.map valToJson).toArray)]
  | .deque xs => Json.mkObj [("q", Json.arr (xs.map valToJson).toArray)]
  | .dict kvs => Json.mkObj [("m", Json.arr (kvs.map fun (k, v) => Json.arr #[valToJson k, valToJson v]).toArray)]
  | .enumv c n => Json.mkObj [("e", Json.arr #[.str c, .str n])]
  | .inst c attrs => Json.mkObj [("o", Json.arr #[.str c,
      Json.arr (attrs.map fun (k, v) => Json.arr #[.str k, valToJson v]).toArray])]
  | .opaque t => Json.mkObj [("x", .str t)]

def optField (j : Json) (k : String) : Option Json :=
  match j.getObjVal? k with
  | .ok .null => none
  | .ok x => some x
  | .error _ => none

def optNat (j : Json) (k : String) : Except String (Option Nat) :=
  match optField j k with | none => pure none | some x => do pure (some (← x.getNat?))
def optInt (j : Json) (k : String) : Except String (Option Int) :=
  match optField j k with | none => pure none | some x => do pure (some (← x.getInt?))
def optQ (j : Json) (k : String) : Except String (Option Q) :=
  match optField j k with | none => pure none | some x => do pure (some (← qOfJson x))
def optBool (j : Json) (k : String) (dflt : Bool) : Except String Bool :=
  match optField j k with | none => pure dflt | some x => x.getBool?
def optStr (j : Json) (k : String) : Except String (Option String) :=
  match optField j k with | none => pure none | some x => do pure (some (← x.getStr?))
def strList (j : Json) (k : String) : Except String (List String) :=
  match optField j k with
  | none => pure []
  | some x => do (← x.getArr?).toList.mapM (·.getStr?)

def signOfStr : String → Except String Sign
  | "any" => pure .any | "pos" => pure .pos | "neg" => pure .neg
  | "nonpos" => pure .nonpos | "nonneg" => pure .nonneg
  | s => throw s!"sign {s}"

def numOpts (j : Json) : Except String NumOpts := do
  let sign ← match ← optStr j "sign" with | none => pure Sign.any | some s => signOfStr s
  pure { mult := ← optInt j "mult", min := ← optQ j "min", max := ← optQ j "max",
         exclMax := ← optBool j "excl" false, sign }

def sizeOpts (j : Json) : Except String SizeOpts := do
  pure { min := ← optNat j "minItems", max := ← optNat j "maxItems", uniq := ← optBool j "uniq" false }

def seqKind (j : Json) : Except String SeqKind := do
  match ← optStr j "seq" with
  | some "deque" => pure .deque
  | _ => pure .list

def kvList (j : Json) (k : String) : Except String (List (String × Json)) :=
  match optField j k with
  | none => pure []
  | some x => do
    (← x.getArr?).toList.mapM fun kv => do
      let p ← kv.getArr?
      pure ((← p[0]!.getStr?), p[1]!)

partial def declOfJson (j : Json) : Except String FieldDecl := do
  let kind ← (← j.getObjVal? "k").getStr?
  let sub (k : String) : Except String FieldDecl := do declOfJson (← j.getObjVal? k)
  let subs (k : String) : Except String (List FieldDecl) := do
    (← (← j.getObjVal? k).getArr?).toList.mapM declOfJson
  match kind with
  | "number" => pure (.number (← numOpts j))
  | "integer" => pure (.integer (← numOpts j))
  | "float" => pure (.float (← numOpts j))
  | "string" => do
    -- extension string fields travel as `string` declarations: SizedString's "maxlen" is one more upper bound on the
    -- length (the tighter of maxLength / maxlen decides; both failures are ValueError), a formatted string's "fmt"
    -- takes the pattern slot as the synthetic token "§fmt:<fmt>" (answered by `fmtMatch` / the per-case table)
    let hi ← optNat j "maxLength"
    let hi := match hi, ← optNat j "maxlen" with
      | some a, some b => some (min a b)
      | none, some b => some b
      | a, none => a
    let pat ← match ← optStr j "fmt" with
      | some f => pure (some ("§fmt:" ++ f))
      | none => optStr j "pattern"
    pure (.string (← optNat j "minLength") hi pat)
  | "boolean" => pure .boolean
  | "enumLit" => do
    pure (.enumLit (← (← (← j.getObjVal? "values").getArr?).toList.mapM valOfJson))
  | "enumCls" => pure (.enumCls (← (← j.getObjVal? "cls").getStr?) (← strList j "names"))
  | "seqAny" => pure (.seqAny (← seqKind j) (← sizeOpts j))
  | "seqOf" => pure (.seqOf (← seqKind j) (← sub "item") (← sizeOpts j))
  | "seqPos" => pure (.seqPos (← seqKind j) (← subs "items") (← optBool j "addl" true) (← sizeOpts j))
  | "setAny" => pure (.setAny (← optBool j "imm" false) (← sizeOpts j))
  | "setOf" => pure (.setOf (← optBool j "imm" false) (← sub "item") (← sizeOpts j))
  | "tupleOf" => pure (.tupleOf (← sub "item") (← optBool j "uniq" false))
  | "tuplePos" => pure (.tuplePos (← subs "items") (← optBool j "uniq" false))
  | "mapAny" => pure (.mapAny (← sizeOpts j))
  | "mapOf" => pure (.mapOf (← sub "key") (← sub "val") (← sizeOpts j))
  | "struct" => do
    let c : ClassOpts := {
      name := ← (← j.getObjVal? "name").getStr?
      required := ← strList j "required"
      addl := ← optBool j "addl" true
      ignoreNone := ← optBool j "ignoreNone" false
      immutable := ← optBool j "immutable" false
      accepts := ← strList j "accepts"
      inline := ← optBool j "inline" false
      immFields := ← strList j "immFields"
      defOrder := ← strList j "defOrder" }
    let fields ← (← kvList j "fields").mapM fun (k, d) => do pure (k, ← declOfJson d)
    let defaults ← (← kvList j "defaults").mapM fun (k, d) => do pure (k, ← valOfJson d)
    pure (.struct c fields defaults)
  | "anyOf" => pure (.anyOf (← subs "fields"))
  | "oneOf" => pure (.oneOf (← subs "fields"))
  | "allOf" => pure (.allOf (← subs "fields"))
  | "notF" => pure (.notF (← subs "fields"))
  | "noneF" => pure .noneF
  | "anything" => pure .anything
  | k => throw s!"decl kind {k}"

def errName : ErrCls → String
  | .typeErr => "TypeError" | .valueErr => "ValueError" | .both => "InvalidStructureErr"
  | .other n => n

def resToJson (r : Except ErrCls PyVal) : Json :=
  match r with
  | .ok v => Json.mkObj [("ok", valToJson v)]
  | .error e => Json.mkObj [("err", .str (errName e))]

/-- regex oracle from a table of (pattern, string, matched) triples -/
def oraclesOfJson (j : Json) : Except String Oracles := do
  let table : List (String × String × Bool) ← match optField j "re" with
    | none => pure []
    | some x => (← x.getArr?).toList.mapM fun t => do
      let a ← t.getArr?
      pure ((← a[0]!.getStr?), (← a[1]!.getStr?), (← a[2]!.getBool?))
  -- `__validate__` hooks of the correspondence suites: the hook raises when field `f` is set and
  -- equal (Python ==) to `v`, for one of the listed pairs
  let hooks : List (String × PyVal) ← match optField j "hook" with
    | none => pure []
    | some x => (← x.getArr?).toList.mapM fun t => do
      let a ← t.getArr?
      pure ((← a[0]!.getStr?), (← valOfJson a[1]!))
  -- "reOverride": answers that take precedence over everything else (the harness lists here the strings on which the
  -- library's formatted-string field is known to deviate from the documented language, with the LIBRARY's verdict, so
  -- that the rest of the case is still compared in full; the deviation itself is reported as a finding)
  let over : List (String × String × Bool) ← match optField j "reOverride" with
    | none => pure []
    | some x => (← x.getArr?).toList.mapM fun t => do
      let a ← t.getArr?
      pure ((← a[0]!.getStr?), (← a[1]!.getStr?), (← a[2]!.getBool?))
  -- a second family of hooks (optional key "hookNeed"): the hook raises unless, for every listed
  -- group of fields, at least one field of the group holds a value (is set and not None)
  let needs : List (List String) ← match optField j "hookNeed" with
    | none => pure []
    | some x => (← x.getArr?).toList.mapM fun g => do
      (← g.getArr?).toList.mapM fun n => n.getStr?
  -- a third family (optional key "hookHeadMin"): for every listed field holding a sequence of ints, the hook raises
  -- unless the first element is the smallest (an invariant on the ORDER of the elements)
  let heads : List String ← match optField j "hookHeadMin" with
    | none => pure []
    | some x => (← x.getArr?).toList.mapM fun n => n.getStr?
  let intsOf : List PyVal → Option (List Int) := fun xs =>
    xs.foldr (fun v acc => match v, acc with | .int i, some r => some (i :: r) | _, _ => none) (some [])
  let headMin : PyVal → Bool := fun v =>
    let xs := match v with | .list xs => xs | .deque xs => xs | _ => []
    match intsOf xs with
    | some (h :: t) => t.all (fun e => decide (h ≤ e))
    | _ => true
  pure { reMatch := fun p s => match over.find? (fun t => t.1 == p && t.2.1 == s) with
            | some t => t.2.2
            | none => fmtMatch (fun p s => match table.find? (fun t => t.1 == p && t.2.1 == s) with
                                | some t => t.2.2 | none => false) p s,
         hookOk := fun st => (hooks.all fun h => match lookup h.1 st with
                                | some x => !PyVal.pyEq x h.2 | none => true)
                             && (needs.all fun g => g.any fun n => match lookup n st with
                                | some x => !x.isNone | none => false)
                             && (heads.all fun f => match lookup f st with
                                | some v => headMin v | none => true) }

def kwOfJson (j : Json) : Except String (List (String × PyVal)) := do
  (← j.getArr?).toList.mapM fun kv => do
    let p ← kv.getArr?
    pure ((← p[0]!.getStr?), (← valOfJson p[1]!))

end Typedpy.Wire
