/-
  Drive/Pairs.lean — driver suite `pairs` (C11): instances of one class read back from the real
  code are compared pairwise with the model of `Structure.__eq__`, rendered with the model of
  `Structure.__str__` (the string `__hash__` hashes), copied / deep-copied / pickled on the value
  level, and the copies are mutated through `Sem/EqHash.runI` (the C03 machine plus the
  `_instantiated` flag).  Trusted glue, no theorem depends on it.
-/
import TypedpyModel.Drive.Wire
import TypedpyModel.Drive.Mutate
import TypedpyModel.Sem.EqHash
import TypedpyModel.Lemmas.HashLemmas
import TypedpyModel.Lemmas.CanonHash
import TypedpyModel.Spec.Conforms
import TypedpyModel.Generated.Wrappers
import TypedpyModel.Sem.AliasC11
import TypedpyModel.Generated.AliasingC11
namespace Typedpy.Drive.Pairs
open Lean (Json)
open Typedpy Typedpy.Wire

def instOfJson (j : Json) : Except String Inst := do
  match ← valOfJson j with
  | .inst c attrs =>
    pure { cls := c, attrs := attrs, instantiated := ← optBool j "inst" true, nones := ← strList j "nones",
           undef := ← optBool j "undef" false }
  | _ => throw "pairs: instance expected"

def instToJson (x : Inst) : Json :=
  (valToJson (.inst x.cls x.attrs)).mergeObj
    (Json.mkObj [("inst", .bool x.instantiated), ("nones", Json.arr (x.nones.map Json.str).toArray),
                 ("undef", .bool x.undef)])

/-- canonical text of a value, used as the key of the `str()` oracle table -/
def valKey (v : PyVal) : String := (valToJson v).compress

/-- Python's `str()` answers for the floats / foreign objects occurring in the case -/
def renderOfJson (j : Json) : Except String Render := do
  let floats : List (Q × String) ← match optField j "floats" with
    | none => pure []
    | some x => (← x.getArr?).toList.mapM fun t => do
      let a ← t.getArr?
      pure ((← qOfJson a[0]!), (← a[1]!.getStr?))
  let others : List (String × String) ← match optField j "others" with
    | none => pure []
    | some x => (← x.getArr?).toList.mapM fun t => do
      let a ← t.getArr?
      pure (valKey (← valOfJson a[0]!), (← a[1]!.getStr?))
  let inl ← strList j "inline"
  pure { float := fun q => match floats.find? (fun t => Q.eq t.1 q) with
                           | some t => t.2 | none => "<float?>"
         other := fun v => match others.find? (fun t => t.1 == valKey v) with
                           | some t => t.2 | none => "<other?>"
         inlineCls := fun c => inl.contains c }

/-- independent reading of "field-wise equality of the values read back": every declared field
    and every attribute either instance carries, through `getA` -/
def fieldwise (defaults : EqCtx) (fieldNames : List String) (a b : Inst) : Bool :=
  (fieldNames ++ a.attrs.map (·.1) ++ b.attrs.map (·.1)).all
    (fun k => PyVal.pyEq (getA defaults a k) (getA defaults b k))

/-- CPython's set iteration order after a rebuild, as observed on the real copy -/
def setOrderOfJson (j : Json) (k : String) : Except String SetOrder := do
  let table : List (String × List PyVal) ← match optField j k with
    | none => pure []
    | some x => (← x.getArr?).toList.mapM fun t => do
      let a ← t.getArr?
      let inp ← (← a[0]!.getArr?).toList.mapM valOfJson
      let out ← (← a[1]!.getArr?).toList.mapM valOfJson
      pure (valKey (.list inp), out)
  pure fun xs => match table.find? (fun t => t.1 == valKey (.list xs)) with
    | some t => t.2 | none => xs

def stepsJson (c : ClassOpts) (fields : List (String × FieldDecl)) (O : Oracles) :
    Inst → List Op → List Json
  | _, [] => []
  | x, op :: rest =>
    let r := stepI Generated.nestedBound Generated.delitemHook Generated.wrappers O c fields x op
    Json.mkObj [("out", Mutate.outcomeJson r.2), ("state", instToJson r.1)] :: stepsJson c fields O r.1 rest

def copyJson (R : Render) (defaults : EqCtx) (x y : Inst) : Json :=
  Json.mkObj [("state", instToJson y), ("eq", .bool (instEq defaults x y)),
              ("eqRev", .bool (instEq defaults y x)), ("key", .str (hashKey R y))]

/-! ### heap requests: `copy.copy` / `copy.deepcopy` / pickle on the object graph read off the real instance -/

open Typedpy.Alias Typedpy.AliasC11 in
def itemOfJson (j : Json) : Except String Item :=
  match j with
  | .num n => pure (.atom n.mantissa)
  | _ => do
    let a ← (← j.getObjVal? "r").getNat?
    pure (.ref a)

open Typedpy.Alias Typedpy.AliasC11 in
def cellOfJson (j : Json) : Except String Cell := do
  let tag ← (← j.getObjVal? "t").getStr?
  let items ← (← (← j.getObjVal? "i").getArr?).toList.mapM fun p => do
    let a ← p.getArr?
    pure ((← a[0]!.getStr?), (← itemOfJson a[1]!))
  pure ⟨tag, items⟩

open Typedpy.Alias in
partial def treeToJson : Tree → Json
  | .atom v => Json.num (Lean.JsonNumber.fromInt v)
  | .cut => Json.str "cut"
  | .node t ks => Json.mkObj [("t", .str t), ("k", Json.arr (ks.map fun p => Json.arr #[.str p.1, treeToJson p.2]).toArray)]

/-- `sharedPaths` with the tag of the shared cell (the harness leaves immutable containers out on both sides) -/
def sharedPathsT : Nat → Typedpy.Alias.Heap → List Nat → List String → Typedpy.Alias.Item → List (List String × String)
  | _, _, _, _, .atom _ => []
  | 0, h, shared, path, .ref a => if shared.contains a then [(path.reverse, (h.cells a).tag)] else []
  | n + 1, h, shared, path, .ref a =>
    (if shared.contains a then [(path.reverse, (h.cells a).tag)] else []) ++
      ((h.cells a).items.map fun p => sharedPathsT n h shared (p.1 :: path) p.2).flatten

open Typedpy.Alias Typedpy.AliasC11 in
def copyOpOfStr (s : String) : Except String CopyOp :=
  if s == "copy" then pure .copy else if s == "deepcopy" then pure .deepcopy
  else if s == "pickle" then pure .pickle else throw s!"pairs: unknown copy op {s}"

open Typedpy.Alias Typedpy.AliasC11 in
def runHeap (j : Json) : Except String Json := do
  let cells ← (← (← j.getObjVal? "cells").getArr?).toList.mapM cellOfJson
  let depth ← (← j.getObjVal? "depth").getNat?
  let h := Heap.ofList cells
  let probes ← (← (← j.getObjVal? "probes").getArr?).toList.mapM fun p => do
    pure ((← (← p.getObjVal? "root").getNat?), (← copyOpOfStr (← (← p.getObjVal? "op").getStr?)))
  let outs := probes.map fun (root, op) =>
    let real := copyOp Generated.copyRows op false 64 h root
    let strict := match op with
      | .copy => false
      | _ => (copyOp Generated.copyRows op true 64 h root).2.isSome
    match real with
    | (h', some y) =>
      let old := reachList depth h (.ref root)
      Json.mkObj [("ok", .bool true), ("strict", .bool strict),
        ("shared", Json.arr ((sharedPaths depth h' old [] y).map fun path => Json.arr (path.map Json.str).toArray).toArray),
        ("sharedT", Json.arr ((sharedPathsT depth h' old [] y).map fun pt =>
            Json.arr #[Json.arr (pt.1.map Json.str).toArray, Json.str pt.2]).toArray),
        ("unchanged", .bool (sameBelow h.next h h')),
        ("same", .bool (match y with | .ref a => a == root | _ => false)),
        ("tree", treeToJson (observeN depth h' y)),
        ("origTree", treeToJson (observeN depth h' (.ref root)))]
    | (_, none) => Json.mkObj [("ok", .bool false), ("strict", .bool strict)]
  pure (Json.mkObj [("heap", Json.arr outs.toArray)])

def run (j : Json) : Except String Json := do
  if let some hj := optField j "heap" then return (← runHeap hj)
  let O ← oraclesOfJson j
  let R ← renderOfJson j
  let cls ← declOfJson (← j.getObjVal? "cls")
  match cls with
  | .struct c fields defaults0 =>
    let defaults : EqCtx := { defaults := defaults0, fields := fields.map (·.1) }
    let kws ← (← (← j.getObjVal? "kws").getArr?).toList.mapM kwOfJson
    let starts := kws.map (fun kw => resToJson (construct O cls kw))
    let insts ← (← (← j.getObjVal? "insts").getArr?).toList.mapM instOfJson
    let names := fields.map (·.1)
    -- the order in which the class lists its fields (`get_all_fields_by_name()`, read off the real class)
    let fieldOrder ← strList j "fieldOrder"
    let eq := insts.map fun a => Json.arr (insts.map fun b => Json.bool (instEq defaults a b)).toArray
    let fw := insts.map fun a => Json.arr (insts.map fun b =>
      Json.bool (a.cls == b.cls && fieldwise defaults names a b)).toArray
    let keys := insts.map fun a => Json.str (hashKey R a)
    let wf := insts.map fun a => Json.bool (wellFormed O cls (.inst a.cls a.attrs))
    -- hypotheses of the theorems, evaluated on what the real code produced
    let ok := insts.map fun a => Json.bool (okAttrs a.attrs && okAttrs defaults0 && keysDistinct (a.attrs.map (·.1)))
    -- … and of `eq_canon_hash` (the repaired hash): `okInstS`
    let okS := insts.map fun a => Json.bool (okInstS defaults a && keysDistinct (a.attrs.map (·.1)))
    let same := insts.map fun a => Json.arr (insts.map fun b => Json.bool (sameSpellI a b)).toArray
    let ops ← match optField j "ops" with
      | none => pure []
      | some x => (← x.getArr?).toList.mapM Mutate.opOfJson
    let sDeep ← setOrderOfJson j "setOrdDeep"
    let sPickle ← setOrderOfJson j "setOrdPickle"
    let copies : List (String × Json) := match insts with
      | [] => []
      | x :: _ =>
        let d := deepcopyI c sDeep x
        let p := pickleI sPickle x
        let chainKinds := match optField j "chain" with
          | some (Json.arr a) => a.toList.filterMap (fun (k : Json) => k.getStr?.toOption)
          | _ => []
        let chained := chainKinds.foldl (fun y k =>
          if k == "deepcopy" then deepcopyI c sDeep y else if k == "pickle" then pickleI sPickle y else copyI y) x
        [("chain", copyJson R defaults x chained),
         ("copy", copyJson R defaults x (copyI x)),
         ("deepcopy", copyJson R defaults x d),
         ("pickle", copyJson R defaults x p),
         ("pickleOrder", Json.arr ((pickleOrdI fieldOrder sPickle x).attrs.map fun kv => Json.str kv.1).toArray),
         ("runFresh", Json.arr (stepsJson c fields O x ops).toArray),
         ("runDeep", Json.arr (stepsJson c fields O d ops).toArray),
         ("runPickle", Json.arr (stepsJson c fields O p ops).toArray)]
    pure (Json.mkObj ([("start", Json.arr starts.toArray), ("eq", Json.arr eq.toArray),
                       ("fieldwise", Json.arr fw.toArray), ("keys", Json.arr keys.toArray),
                       ("wf", Json.arr wf.toArray), ("ok", Json.arr ok.toArray), ("okS", Json.arr okS.toArray),
                       ("same", Json.arr same.toArray)] ++ copies))
  | _ => throw "pairs: cls must be a struct"

end Typedpy.Drive.Pairs
