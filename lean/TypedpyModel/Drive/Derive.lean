/-
  Drive/Derive.lean — driver suite `derive` (stub; to be implemented).
-/
import TypedpyModel.Drive.Wire
namespace Typedpy.Drive.Derive
open Lean (Json)

def run (_j : Json) : Except String Json := .error "suite derive not implemented"

end Typedpy.Drive.Derive
