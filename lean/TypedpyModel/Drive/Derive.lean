/-
  Drive/Derive.lean — driver suite `derive`: the same history runner as suite `define`
  (Drive/Define.lean); derivation steps additionally report the documented field-set
  specification (Spec/FieldSet.lean) evaluated on what the real code produced.
-/
import TypedpyModel.Drive.Define
namespace Typedpy.Drive.Derive
open Lean (Json)

def run (j : Json) : Except String Json := Typedpy.Drive.Define.run j

end Typedpy.Drive.Derive
