/-
  Drive/SerdeX.lean — driver suite `serdex`: the extension kinds (Sem/SerdeX.lean): construction,
  serialization, the round trip and deserialization of a document, with the `float(Decimal)` /
  `strptime` / `strftime` answers of the case supplied as tables.
-/
import TypedpyModel.Drive.Wire
import TypedpyModel.Drive.Serde
import TypedpyModel.Sem.SerdeX
import TypedpyModel.Spec.FragX
namespace Typedpy.Drive.SerdeX
open Lean (Json)
open Typedpy Typedpy.Wire

partial def xdeclOfJson (j : Json) : Except String XDecl := do
  let kind ← (← j.getObjVal? "k").getStr?
  match kind with
  | "base" => pure (.base (← declOfJson (← j.getObjVal? "f")))
  | "decimal" => pure (.decimal (← numOpts j))
  | "enumVal" => do
    let ms ← (← (← j.getObjVal? "members").getArr?).toList.mapM fun kv => do
      let p ← kv.getArr?
      pure ((← p[0]!.getStr?), (← valOfJson p[1]!))
    pure (.enumVal (← (← j.getObjVal? "cls").getStr?) ms (← optBool j "mixin" false))
  | "temporal" => pure (.temporal (← (← j.getObjVal? "ty").getStr?) (← (← j.getObjVal? "fmt").getStr?) (← optBool j "ints" false))
  | "enumName" => do
    let ms ← (← (← j.getObjVal? "members").getArr?).toList.mapM fun kv => do
      let p ← kv.getArr?
      pure ((← p[0]!.getStr?), (← valOfJson p[1]!))
    pure (.enumName (← (← j.getObjVal? "cls").getStr?) ms (← optBool j "mixin" false))
  | "fmtStr" => pure (.fmtStr (← (← j.getObjVal? "kind").getStr?) (← optBool j "strict" true))
  | "opt" => pure (.opt (← xdeclOfJson (← j.getObjVal? "x")))
  | "anyOf" => pure (.anyOf (← (← (← j.getObjVal? "xs").getArr?).toList.mapM xdeclOfJson))
  | "seqOf" => pure (.seqOf (← seqKind j) (← xdeclOfJson (← j.getObjVal? "x")))
  | "setOf" => pure (.setOf (← xdeclOfJson (← j.getObjVal? "x")))
  | "mapStr" => pure (.mapStr (← xdeclOfJson (← j.getObjVal? "x")))
  | "tuplePos" => pure (.tuplePos (← (← (← j.getObjVal? "xs").getArr?).toList.mapM xdeclOfJson))
  | "struct" => do
    let c : ClassOpts := {
      name := ← (← j.getObjVal? "name").getStr?
      required := ← strList j "required"
      addl := ← optBool j "addl" true
      ignoreNone := ← optBool j "ignoreNone" false
      accepts := ← strList j "accepts" }
    let fields ← (← kvList j "fields").mapM fun (k, d) => do pure (k, ← xdeclOfJson d)
    if ← optBool j "undef" false then pure (.structU c fields) else pure (.struct c fields)
  | k => throw s!"xdecl kind {k}"

def xoraclesOfJson (j : Json) : Except String XOracles := do
  let base ← oraclesOfJson j
  let tf : List (Q × Q) ← match optField j "toFloat" with
    | none => pure []
    | some x => (← x.getArr?).toList.mapM fun t => do
      let a ← t.getArr?
      pure ((← qOfJson a[0]!), (← qOfJson a[1]!))
  -- rows [ty, fmt, string, tag | null] and [ty, fmt, tag, string]
  let ps : List (String × String × Option String) ← match optField j "parse" with
    | none => pure []
    | some x => (← x.getArr?).toList.mapM fun t => do
      let a ← t.getArr?
      let r ← match a[3]! with | .null => pure none | y => do pure (some (← y.getStr?))
      pure ((← a[0]!.getStr?) ++ "/" ++ (← a[1]!.getStr?), (← a[2]!.getStr?), r)
  let fs : List (String × String × String) ← match optField j "format" with
    | none => pure []
    | some x => (← x.getArr?).toList.mapM fun t => do
      let a ← t.getArr?
      pure ((← a[0]!.getStr?) ++ "/" ++ (← a[1]!.getStr?), (← a[2]!.getStr?), (← a[3]!.getStr?))
  -- rows [kind, string, ok]
  let fo : List (String × String × Bool) ← match optField j "fmtOk" with
    | none => pure []
    | some x => (← x.getArr?).toList.mapM fun t => do
      let a ← t.getArr?
      pure ((← a[0]!.getStr?), (← a[1]!.getStr?), (← a[2]!.getBool?))
  -- rows [string, null (not modelled) | false (not a number) | [num, den]]
  let ds : List (String × Option (Option Q)) ← match optField j "decOfStr" with
    | none => pure []
    | some x => (← x.getArr?).toList.mapM fun t => do
      let a ← t.getArr?
      let r : Option (Option Q) ← match a[1]! with
        | .null => pure none
        | .bool _ => pure (some none)
        | y => do pure (some (some (← qOfJson y)))
      pure ((← a[0]!.getStr?), r)
  pure { base,
         decOfStr := fun s => match ds.find? (fun t => t.1 == s) with | some t => t.2 | none => none,
         fmtOk := fun k s => match fo.find? (fun t => t.1 == k && t.2.1 == s) with | some t => t.2.2 | none => false,
         toFloat := fun q => match tf.find? (fun t => decide (t.1 = q)) with | some t => t.2 | none => q,
         parse := fun ty fmt s => match ps.find? (fun t => t.1 == ty ++ "/" ++ fmt && t.2.1 == s) with | some t => t.2.2 | none => none,
         typeOf := fun t => String.ofList (t.toList.takeWhile (· != ':')),
         format := fun ty fmt t => match fs.find? (fun r => r.1 == ty ++ "/" ++ fmt && r.2.1 == t) with | some r => r.2.2 | none => "?" }

def run (j : Json) : Except String Json := do
  let XO ← xoraclesOfJson j
  let cls ← xdeclOfJson (← j.getObjVal? "cls")
  let opts ← match optField j "opts" with | none => pure {} | some x => Serde.optsOfJson x
  -- compact single-field wrappers: `compactSer` = serialize(compact=True) applies to this class,
  -- `compactDeser` = TypedPyDefaults.compact_deserialization_default is on
  let cser ← optBool j "compactSer" false
  let cdes ← optBool j "compactDeser" false
  let mut out : List (String × Json) := []
  if let some kwj := optField j "kw" then
    let kw ← kwOfJson kwj
    let inst := constructX XO cls kw
    out := out ++ [("inst", resToJson inst)]
    match inst with
    | .ok x =>
      let s := if cser then serializeCompactX XO cls x else serializeX XO cls x
      out := out ++ [("inFrag", Json.bool (xFrag XO cls x))]
      out := out ++ [("ser", resToJson s)]
      match s with
      | .ok d =>
        out := out ++ [("isJson", Json.bool (isJson d)),
                       ("back", resToJson (if cdes then deserializeCompactX XO opts cls d else deserializeX XO opts cls d))]
      | .error _ => pure ()
    | .error _ => pure ()
  if let some dj := optField j "doc" then
    let d ← valOfJson dj
    out := out ++ [("deser", resToJson (deserializeX XO opts cls d))]
  pure (Json.mkObj out)

end Typedpy.Drive.SerdeX
