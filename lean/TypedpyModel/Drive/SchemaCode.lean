/-
  Drive/SchemaCode.lean — driver suite `schemacode` (stub; to be implemented).
-/
import TypedpyModel.Drive.Wire
namespace Typedpy.Drive.SchemaCode
open Lean (Json)

def run (_j : Json) : Except String Json := .error "suite schemacode not implemented"

end Typedpy.Drive.SchemaCode
