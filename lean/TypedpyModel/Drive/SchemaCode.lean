/-
  Drive/SchemaCode.lean — driver suite `schemacode` (C09).

  Wire form of a schema: the JSON schema itself, except that `properties` is an array of
  `[name, schema]` pairs (document order), `enum` members and `default` are wire *values*
  (Drive/Wire.lean) and `minimum`/`maximum` are exact rationals `[num, den]`.
  Trusted glue: `Schema.ofJson` / `Schema.toJson` / `declToJson`.
-/
import TypedpyModel.Drive.Wire
import TypedpyModel.Sem.SchemaToCode
import TypedpyModel.Sem.SchemaEmit
import TypedpyModel.Spec.CodeExact
namespace Typedpy.Drive.SchemaCode
open Lean (Json)
open Typedpy Typedpy.Wire

def hasKey (j : Json) (k : String) : Bool := (optField j k).isSome

def sizeOfJson (j : Json) : Except String SizeOpts := do
  pure { min := ← optNat j "minItems", max := ← optNat j "maxItems", uniq := ← optBool j "uniqueItems" false }

partial def Schema.ofJson (j : Json) : Except String Schema := do
  let subs (x : Json) : Except String (List Schema) := do (← x.getArr?).toList.mapM Schema.ofJson
  if hasKey j "default" then throw "default outside a property"
  if let some x := optField j "$ref" then
    let s ← x.getStr?
    return .ref (refName s)
  -- precedence of `_convert_field_to_schema_code_internal`: multi-field keywords, enum, type
  if let some x := optField j "allOf" then return .allOf (← subs x)
  if let some x := optField j "anyOf" then return .anyOf (← subs x)
  if let some x := optField j "oneOf" then return .oneOf (← subs x)
  if let some x := optField j "not" then return .notS (← subs x)
  if let some x := optField j "enum" then return .enum (← (← x.getArr?).toList.mapM valOfJson)
  let ty ← match ← optStr j "type" with | some t => pure t | none => pure "object"
  match ty with
  | "integer" | "number" =>
    pure (.num (ty == "integer") (← optInt j "multiplesOf") (← optQ j "minimum") (← optQ j "maximum")
      (← optBool j "exclusiveMaximum" false))
  | "string" => pure (.str (← optNat j "minLength") (← optNat j "maxLength") (← optStr j "pattern"))
  | "boolean" => pure .bool
  | "array" =>
    let sz ← sizeOfJson j
    match optField j "items" with
    | none =>
      -- `additionalItems` without positional items: kept by the generated `Array(additionalItems=…)` object
      -- and emitted back, but it has no counterpart in `FieldDecl` (no runtime effect); the AST abstracts
      -- from it and the harness compares the keyword on the real round trip literally
      pure (.arrAny sz)
    | some (.arr xs) =>
      pure (.arrPos (← xs.toList.mapM Schema.ofJson) (← optBool j "additionalItems" true) sz)
    | some x =>
      pure (.arrOf (← Schema.ofJson x) sz)
  | "object" =>
    match optField j "properties" with
    | some ps =>
      let pairs ← (← ps.getArr?).toList.mapM fun kv => do
        let p ← kv.getArr?
        let name ← p[0]!.getStr?
        let sub := p[1]!
        let dflt ← match optField sub "default" with
          | none => pure none
          | some d => do pure (some (← valOfJson d))
        let sub' := sub.setObjVal! "default" .null
        pure (name, ← Schema.ofJson sub', dflt)
      let req ← match optField j "required" with
        | none => pure none
        | some _ => do pure (some (← strList j "required"))
      pure (.obj (pairs.map fun (n, s, _) => (n, s))
        (pairs.filterMap fun (n, _, d) => d.map fun v => (n, v)) req
        (← optBool j "additionalProperties" true))
    | none =>
      match optField j "additionalProperties" with
      | none => pure (.mapAny none (← optNat j "minItems") (← optNat j "maxItems"))
      | some (.bool b) => pure (.mapAny (some b) (← optNat j "minItems") (← optNat j "maxItems"))
      | some x => pure (.mapOf (← Schema.ofJson x) (← optNat j "minItems") (← optNat j "maxItems"))
  | t => throw s!"schema type {t}"

def optKV {α} (k : String) (f : α → Json) : Option α → List (String × Json)
  | none => []
  | some x => [(k, f x)]
def natJ (n : Nat) : Json := Json.num (Lean.JsonNumber.fromNat n)
def intJ (n : Int) : Json := Json.num (Lean.JsonNumber.fromInt n)
def sizeKV (sz : SizeOpts) : List (String × Json) :=
  optKV "minItems" natJ sz.min ++ optKV "maxItems" natJ sz.max
    ++ (if sz.uniq then [("uniqueItems", Json.bool true)] else [])

partial def Schema.toJson : Schema → Json
  | .num i m mn mx ex => Json.mkObj ([("type", Json.str (if i then "integer" else "number"))]
      ++ optKV "multiplesOf" intJ m ++ optKV "minimum" qToJson mn ++ optKV "maximum" qToJson mx
      ++ (if ex then [("exclusiveMaximum", Json.bool true)] else []))
  | .str lo hi p => Json.mkObj ([("type", Json.str "string")] ++ optKV "minLength" natJ lo
      ++ optKV "maxLength" natJ hi ++ optKV "pattern" Json.str p)
  | .bool => Json.mkObj [("type", "boolean")]
  | .enum vs => Json.mkObj [("enum", Json.arr (vs.map valToJson).toArray)]
  | .arrAny sz => Json.mkObj ([("type", Json.str "array")] ++ sizeKV sz)
  | .arrOf s sz => Json.mkObj ([("type", Json.str "array"), ("items", Schema.toJson s)] ++ sizeKV sz)
  | .arrPos ss addl sz => Json.mkObj ([("type", Json.str "array"),
      ("items", Json.arr (ss.map Schema.toJson).toArray)]
      ++ (if addl then [] else [("additionalItems", Json.bool false)]) ++ sizeKV sz)
  | .mapAny a mn mx => Json.mkObj ([("type", Json.str "object")] ++ optKV "additionalProperties" Json.bool a
      ++ optKV "minItems" natJ mn ++ optKV "maxItems" natJ mx)
  | .mapOf v mn mx => Json.mkObj ([("type", Json.str "object"), ("additionalProperties", Schema.toJson v)]
      ++ optKV "minItems" natJ mn ++ optKV "maxItems" natJ mx)
  | .obj props defaults req addl =>
    Json.mkObj ([("type", Json.str "object"),
      ("properties", Json.arr (props.map fun (n, s) =>
        let sj := Schema.toJson s
        let sj := match lookup n defaults with
          | some d => sj.setObjVal! "default" (valToJson d)
          | none => sj
        Json.arr #[Json.str n, sj]).toArray),
      ("additionalProperties", Json.bool addl)]
      ++ optKV "required" (fun (r : List String) => Json.arr (r.map Json.str).toArray) req)
  | .ref n => Json.mkObj [("$ref", Json.str (refOf n))]
  | .allOf ss => Json.mkObj [("allOf", Json.arr (ss.map Schema.toJson).toArray)]
  | .anyOf ss => Json.mkObj [("anyOf", Json.arr (ss.map Schema.toJson).toArray)]
  | .oneOf ss => Json.mkObj [("oneOf", Json.arr (ss.map Schema.toJson).toArray)]
  | .notS ss => Json.mkObj [("not", Json.arr (ss.map Schema.toJson).toArray)]
  | .unsupported w => Json.mkObj [("unsupported", Json.str w)]

/-! ### declarations on the wire (inverse of `Wire.declOfJson`, same keys as `harness/dump.py`) -/

def numKV (o : NumOpts) : List (String × Json) :=
  optKV "mult" intJ o.mult ++ optKV "min" qToJson o.min ++ optKV "max" qToJson o.max
    ++ (if o.exclMax then [("excl", Json.bool true)] else [])
def szKV (sz : SizeOpts) : List (String × Json) :=
  optKV "minItems" natJ sz.min ++ optKV "maxItems" natJ sz.max
    ++ (if sz.uniq then [("uniq", Json.bool true)] else [])

partial def declToJson : FieldDecl → Json
  | .number o => Json.mkObj ([("k", Json.str "number")] ++ numKV o)
  | .integer o => Json.mkObj ([("k", Json.str "integer")] ++ numKV o)
  | .float o => Json.mkObj ([("k", Json.str "float")] ++ numKV o)
  | .string lo hi p => Json.mkObj ([("k", Json.str "string")] ++ optKV "minLength" natJ lo
      ++ optKV "maxLength" natJ hi ++ optKV "pattern" Json.str p)
  | .boolean => Json.mkObj [("k", "boolean")]
  | .enumLit vs => Json.mkObj [("k", "enumLit"), ("values", Json.arr (vs.map valToJson).toArray)]
  | .enumCls c ns => Json.mkObj [("k", "enumCls"), ("cls", Json.str c), ("names", Json.arr (ns.map Json.str).toArray)]
  | .seqAny _ sz => Json.mkObj ([("k", Json.str "seqAny")] ++ szKV sz)
  | .seqOf _ f sz => Json.mkObj ([("k", Json.str "seqOf"), ("item", declToJson f)] ++ szKV sz)
  | .seqPos _ fs addl sz => Json.mkObj ([("k", Json.str "seqPos"),
      ("items", Json.arr (fs.map declToJson).toArray)]
      ++ (if addl then [] else [("addl", Json.bool false)]) ++ szKV sz)
  | .setAny _ sz => Json.mkObj ([("k", Json.str "setAny")] ++ szKV sz)
  | .setOf _ f sz => Json.mkObj ([("k", Json.str "setOf"), ("item", declToJson f)] ++ szKV sz)
  | .tupleOf f u => Json.mkObj ([("k", Json.str "tupleOf"), ("item", declToJson f)]
      ++ (if u then [("uniq", Json.bool true)] else []))
  | .tuplePos fs u => Json.mkObj ([("k", Json.str "tuplePos"), ("items", Json.arr (fs.map declToJson).toArray)]
      ++ (if u then [("uniq", Json.bool true)] else []))
  | .mapAny sz => Json.mkObj ([("k", Json.str "mapAny")] ++ szKV sz)
  | .mapOf k v sz => Json.mkObj ([("k", Json.str "mapOf"), ("key", declToJson k), ("val", declToJson v)] ++ szKV sz)
  | .struct c fields defaults => Json.mkObj ([("k", Json.str "struct"), ("name", Json.str c.name),
      ("required", Json.arr (c.required.map Json.str).toArray), ("addl", Json.bool c.addl),
      ("fields", Json.arr (fields.map fun (n, f) => Json.arr #[Json.str n, declToJson f]).toArray)]
      ++ (if c.inline then [("inline", Json.bool true)] else [])
      ++ (if defaults.isEmpty then [] else
          [("defaults", Json.arr (defaults.map fun (n, v) => Json.arr #[Json.str n, valToJson v]).toArray)]))
  | .anyOf fs => Json.mkObj [("k", "anyOf"), ("fields", Json.arr (fs.map declToJson).toArray)]
  | .oneOf fs => Json.mkObj [("k", "oneOf"), ("fields", Json.arr (fs.map declToJson).toArray)]
  | .allOf fs => Json.mkObj [("k", "allOf"), ("fields", Json.arr (fs.map declToJson).toArray)]
  | .notF fs => Json.mkObj [("k", "notF"), ("fields", Json.arr (fs.map declToJson).toArray)]
  | .noneF => Json.mkObj [("k", "noneF")]
  | .anything => Json.mkObj [("k", "anything")]

/-- property names at every depth (targets of annotations / keyword-argument names) -/
partial def propNamesOf : Schema → List String
  | .arrOf s _ => propNamesOf s
  | .arrPos ss _ _ => (ss.map propNamesOf).flatten
  | .mapOf v _ _ => propNamesOf v
  | .obj props _ _ _ => props.map (·.1) ++ (props.map fun (_, s) => propNamesOf s).flatten
  | .allOf ss | .anyOf ss | .oneOf ss | .notS ss => (ss.map propNamesOf).flatten
  | _ => []

/-- the string is exactly one name token (an identifier that is not a keyword) -/
def isPyName (X : PyGram.Ora) (n : String) : Bool :=
  match PyGram.tokens X n.toList with
  | .ok [.name m, .newline] => m == n.toList
  | _ => false

def siteJson (s : StringSite) : Json :=
  Json.mkObj [("site", Json.str s.site), ("source", Json.str s.source),
    ("lexed", match PyLex.pyLexStr s.source with | some v => Json.str v | none => Json.null),
    ("faithful", Json.bool s.faithful)]

def strs (xs : List String) : Json := Json.arr (xs.map Json.str).toArray

def run (j : Json) : Except String Json := do
  let name ← (← j.getObjVal? "name").getStr?
  let sj ← j.getObjVal? "schema"
  let defsJ ← match optField j "defs" with
    | none => pure []
    | some x => (← x.getArr?).toList.mapM fun kv => do
      let p ← kv.getArr?
      pure ((← p[0]!.getStr?), p[1]!)
  let desc ← optStr j "desc"
  let nonprint : List Nat ← match optField j "nonprint" with
    | none => pure []
    | some x => (← x.getArr?).toList.mapM (·.getNat?)
  let pr : Char → Bool := fun c => !nonprint.contains c.toNat
  let s ← Schema.ofJson sj
  let defsDict ← defsJ.mapM fun (n, d) => do pure (n, ← Schema.ofJson d)
  let defDescs0 : List (Option String) ← match optField j "defDescs" with
    | none => pure (defsDict.map fun _ => none)
    | some x => (← x.getArr?).toList.mapM fun e => match e with
      | .null => pure none
      | e => do pure (some (← e.getStr?))
  -- `schema_definitions_to_code` emits in depth-first dependency order (`_definitions_in_dependency_order`)
  let order := topoOrder defsDict
  let defs : List (String × Schema) := order.filterMap fun n => (lookup n defsDict).map fun d => (n, d)
  let descOf (n : String) : Option String :=
    match (defsDict.map (·.1)).zip defDescs0 |>.find? (fun e => e.1 == n) with
    | some e => e.2
    | none => none
  -- text
  -- at top level the emitted `_required` is the private copy after the `remove`s
  let emitted (x : Schema) : Schema := match x with
    | .obj p d (some r) a => .obj p d (emittedRequired (.obj p d (some r) a)) a
    | .mapOf _ _ _ => .mapAny none none none   -- top-level map: nothing is emitted for it
    | y => y
  let sites := (defs.map fun (_, d) => stringSites pr (emitted d)).flatten ++ stringSites pr (emitted s)
    ++ (match desc with | some d => [descriptionSite d] | none => [])
  let unfaithful := sites.filter (fun x => !x.faithful)
  -- a site whose literal is not a well-formed single literal: the module does not compile
  let unlexable := sites.any (fun x => (PyLex.pyLexStr x.source).isNone)
  let docLex : Option String := match desc with
    | none => none
    | some d => PyLex.pyLexStr (PyLex.docWrap d)
  let crash := (defs.map fun (_, d) => topCrashes d).flatten ++ topCrashes s
  let ordered := refsOrdered [] defs && (refsOf s).all (defs.map (·.1)).contains
  -- the emitted TEXT and the structural recogniser (Sem/SchemaEmit.lean, Sem/PyGram.lean)
  let natsOf (k : String) : Except String (List Nat) := match optField j k with
    | none => pure []
    | some x => do (← x.getArr?).toList.mapM (·.getNat?)
  let idstart ← natsOf "idstart"
  let idcont ← natsOf "idcont"
  let X : PyGram.Ora := ⟨fun c => idstart.contains c.toNat, fun c => idcont.contains c.toNat⟩
  let floats : List (Q × List Char) ← match optField j "floats" with
    | none => pure []
    | some x => (← x.getArr?).toList.mapM fun e => do
      let p ← e.getArr?
      pure ((⟨← p[0]!.getInt?, ← p[1]!.getNat?⟩ : Q), (← p[2]!.getStr?).toList)
  let O : Emit.EOra := ⟨pr, fun q => match floats.find? (fun e => e.1 == q) with
    | some e => e.2 | none => ['?']⟩
  let floatOk (t : List Char) : Bool := match t with
    | '-' :: r => PyGram.isNumText r
    | r => PyGram.isNumText r
  let oracleOk := floats.all (fun e => floatOk e.2)
  let defSrcs : List Emit.ClassSrc := defs.map fun (n, d) => ⟨n, descOf n, d⟩
  let write := (← optStr j "api") == some "write"
  let text := Emit.moduleText O write defSrcs ⟨name, desc, s⟩
  let recog := PyGram.recognise X text
  -- the side conditions of `C09.emitted_module_accepted_partial`
  let srcOk := defSrcs.all (Emit.classSrcOk X) && Emit.classSrcOk X ⟨name, desc, s⟩
  let clean := PyGram.textClean text
  let nestOk := Emit.schemaDepthOk defSrcs ⟨name, desc, s⟩
  let recogReal : Option PyGram.Verdict := match optField j "code" with
    | some (.str c) => some (PyGram.recognise X c.toList)
    | _ => none
  let mutantsJ : List String ← match optField j "mutants" with
    | none => pure []
    | some x => (← x.getArr?).toList.mapM (·.getStr?)
  let mutantVerdicts := mutantsJ.map fun m => (PyGram.recognise X m.toList).name
  let topProps (x : Schema) : List String := match x with
    | .mapAny _ _ _ | .mapOf _ _ _ => []
    | y => propNamesOf y
  let targets := (defs.map fun (_, d) => topProps d).flatten ++ topProps s
  let plainNames := name :: defs.map (·.1) ++ (defs.map fun (_, d) => refsOf d).flatten ++ refsOf s
  -- `__x` (not `__x__`) inside a class body is name-mangled to `_Class__x`
  let mangled (n : String) : Bool := n.startsWith "__" && !n.endsWith "__"
  let nameIssue := targets.any (fun n => !isPyName X n || PyGram.forbiddenTarget n.toList || mangled n)
    || plainNames.any (fun n => !isPyName X n || mangled n)
  -- exactness models on this case's documents: for a property in the exact scalar sub-fragment and a value `v`,
  -- "the generated field accepts v" (Deser + validate on schemaToDecl) and "the validator admits v" (jsV on scalarDoc)
  let reTab : List ((String × String) × (Bool × Bool)) ← match optField j "reTable" with
    | none => pure []
    | some x => (← x.getArr?).toList.mapM fun e => do
      let p ← e.getArr?
      pure (((← p[0]!.getStr?), (← p[1]!.getStr?)), ((← p[2]!.getBool?), (← p[3]!.getBool?)))
  let Ore : Oracles := { reMatch := fun p t => match reTab.find? (fun e => e.1 == (p, t)) with
    | some e => e.2.1 | none => false }
  let Sre : String → String → Bool := fun p t => match reTab.find? (fun e => e.1 == (p, t)) with
    | some e => e.2.2 | none => false
  let fieldDocs : List (String × PyVal) ← match optField j "fieldDocs" with
    | none => pure []
    | some x => (← x.getArr?).toList.mapM fun e => do
      let p ← e.getArr?
      pure ((← p[0]!.getStr?), (← valOfJson p[1]!))
  let fieldVerdicts : List Json := fieldDocs.map fun (n, v) =>
    match s with
    | .obj props defaults _ _ =>
      (match lookup n props with
       | some sp =>
         if CodeExact.exactSchema sp && (lookup n defaults).isNone then
           Json.arr #[Json.bool (CodeExact.acceptsWith Ore (schemaToDecl (envResolver []) sp) v),
                      Json.bool (Sch.jsV CodeExact.R0 Sre (CodeExact.scalarDoc true sp) v)]
         else Json.null
       | none => Json.null)
    | _ => Json.null
  let phase :=
    if !crash.isEmpty then "gen"
    else if recog == .reject then "compile"
    else if recog == .unknown && unlexable then "compile"
    else if !ordered then "exec"
    else "ok"
  let env := defsEnv [] defs
  let ρ := envResolver env
  let cls := schemaToClass ρ name s
  let classPart :=
    [("decl", declToJson cls),
     ("defDecls", Json.arr (env.map fun (n, d) => Json.arr #[Json.str n, declToJson d]).toArray),
     ("back", Schema.toJson (toSchemaClass cls)),
     ("defBacks", Json.arr (env.map fun (n, d) => Json.arr #[Json.str n, Schema.toJson (toSchemaDef d)]).toArray),
     ("doc", match docLex with | some d => Json.str d | none => Json.null)]
  pure (Json.mkObj ([
    ("phase", Json.str phase),
    ("crashes", strs crash),
    ("text", if crash.isEmpty then Json.str (String.ofList text) else Json.null),
    ("recog", Json.str recog.name),
    ("recogReal", match recogReal with | some v => Json.str v.name | none => Json.null),
    ("mutantVerdicts", strs mutantVerdicts),
    ("oracleOk", Json.bool oracleOk),
    ("canon", Schema.toJson s),
    ("canonDefs", Json.arr (defsDict.map fun (n, d) => Json.arr #[Json.str n, Schema.toJson d]).toArray),
    ("fieldVerdicts", Json.arr fieldVerdicts.toArray),
    ("srcOk", Json.bool srcOk), ("clean", Json.bool clean), ("nestOk", Json.bool nestOk),
    ("nameIssue", Json.bool nameIssue),
    ("refsOrdered", Json.bool ordered),
    ("refs", strs ((defs.map fun (_, d) => refsOf d).flatten ++ refsOf s)),
    ("sites", Json.arr (sites.map siteJson).toArray),
    ("unfaithful", strs (unfaithful.map (·.site))),
    ("issues", strs (topIssues s)),
    ("defIssues", Json.arr (defs.map fun (n, d) => Json.arr #[Json.str n, strs (defIssues d)]).toArray),
    ("inFragment", Json.bool (inCodeFragment s && defs.all (fun (_, d) => inCodeFragment d))),
    ("reqBefore", match requiredBefore s with | some r => strs r | none => Json.null),
    ("reqAfter", match requiredAfter s with | some r => strs r | none => Json.null),
    ("defReqAfter", Json.arr (defs.map fun (n, d) => Json.arr #[Json.str n,
        match requiredAfter d with | some r => strs r | none => Json.null]).toArray)
  ] ++ classPart))

end Typedpy.Drive.SchemaCode
