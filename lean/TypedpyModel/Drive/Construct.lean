/-
  Drive/Construct.lean — driver suite `construct`: keyword construction of a class, the documented
  decision / normal form, and the model's `wellFormed` evaluated on the instance the real code
  produced (the executable conclusion of C01).
-/
import TypedpyModel.Drive.Wire
import TypedpyModel.Spec.Conforms
import TypedpyModel.Spec.WfDecl
import TypedpyModel.Sem.Entry
import TypedpyModel.Sem.Decimal
import TypedpyModel.Sem.EntryD
import TypedpyModel.Spec.NestedHooks
namespace Typedpy.Drive.Construct
open Lean (Json)
open Typedpy Typedpy.Wire

/-- exception classes of every failing field (collect-all view), for order-independent comparison -/
def fieldErrs (O : Oracles) (cls : FieldDecl) (kw : List (String × PyVal)) : List String :=
  match cls with
  | .struct c fields defaults =>
    (if bindOk c (fields.map (·.1)) kw then [] else ["TypeError"]) ++
    fields.filterMap fun (name, f) =>
      match argFor c defaults kw name with
      | none => none
      | some v => match validate O f v with
        | .ok _ => none
        | .error e => some (errName e)
  | _ => []

def deserOptsOfJson (j : Json) : Except String DeserOpts := do
  match optField j "opts" with
  | none => pure {}
  | some o => pure { keepUndefined := ← optBool o "keepUndefined" true,
                     ignoreInvalidAddl := ← optBool o "ignoreInvalidAddl" true }

def entryOfJson (j : Json) : Except String EntryOpD := do
  let op ← (← j.getObjVal? "op").getStr?
  let kw ← match optField j "kw" with | none => pure [] | some x => kwOfJson x
  match op with
  | "copy" => pure (.plain .copy)
  | "deepcopy" => pure (.plain .deepcopy)
  | "pickle" => pure (.plain .pickle)
  | "shallowClone" => pure (.plain (.shallowClone kw))
  | "fromOtherClass" => pure (.plain (.fromOtherClass (← strList j "ignore") kw))
  | "fromMapping" => pure (.plain (.fromMapping (← strList j "ignore") kw))
  | "castTo" => pure (.plain .castTo)
  | "deser" => pure (.deser (← deserOptsOfJson j) (← valOfJson (← j.getObjVal? "doc")))
  | "reser" => pure (.reser (← deserOptsOfJson j))
  | s => throw s!"entry op {s}"

/-- exception classes of every failing field at the FIRST failing step of a chain (the real constructor applies
    defaults before arguments, so with several invalid fields only the set is comparable) -/
def chainErrs (O : Oracles) (cls : FieldDecl) : PyVal → List EntryOpD → List String
  | _, [] => []
  | x, op :: rest =>
    match applyEntryD O cls x op with
    | .ok y => chainErrs O cls y rest
    | .error _ => match op with
      | .plain p => (match entryKw cls x p with
        | some kw => fieldErrs O cls kw
        | none => [])
      | _ => []

/-- the verdicts of the Lean format functions (`ipv4Ok`, `hostNameOk`) on every string the case's oracle table lists
    for their tokens: the harness compares them with its own independent implementation and with typedpy -/
def fmtVerdicts (j : Json) : Except String Json := do
  match optField j "re" with
  | none => pure (Json.arr #[])
  | some x => do
    let rows ← (← x.getArr?).toList.filterMapM fun t => do
      let a ← t.getArr?
      let p ← a[0]!.getStr?
      let s ← a[1]!.getStr?
      if p == ipv4Token || p == hostNameToken then
        pure (some (Json.arr #[.str p, .str s, .bool (fmtMatch (fun _ _ => false) p s)]))
      else pure none
    pure (Json.arr rows.toArray)

/-- DecimalNumber positions of the class ("decs": [[field, "bare" | "items" | "values"]]) and the `Decimal(str)` oracle
    table ("decParse": [[string, [num, den] | null]]) -/
def decsOfJson (j : Json) : Except String (List (String × DecPos)) :=
  match optField j "decs" with
  | none => pure []
  | some x => do
    (← x.getArr?).toList.mapM fun t => do
      let a ← t.getArr?
      let pos ← match ← a[1]!.getStr? with
        | "bare" => pure DecPos.bare | "items" => pure DecPos.items | "values" => pure DecPos.values
        | "optional" => pure DecPos.optional
        | s => throw s!"dec position {s}"
      pure ((← a[0]!.getStr?), pos)

def decParseOfJson (j : Json) : Except String (String → Option Q) := do
  let table : List (String × Option Q) ← match optField j "decParse" with
    | none => pure []
    | some x => (← x.getArr?).toList.mapM fun t => do
      let a ← t.getArr?
      let q ← match a[1]! with
        | .null => pure none
        | y => do pure (some (← qOfJson y))
      pure ((← a[0]!.getStr?), q)
  pure fun s => match table.find? (fun t => t.1 == s) with | some t => t.2 | none => none

/-- error classes of the failing conversions (per argument), for order-independent comparison -/
def convErrs (parse : String → Option Q) (decs : List (String × DecPos)) (kw : List (String × PyVal)) : List String :=
  kw.filterMap fun (name, v) => match convertAt parse decs name v with
    | .ok _ => none
    | .error e => some (errName e)

/-- the keyword arguments with every convertible argument converted (a failing one is left as it is) -/
def convertLenient (parse : String → Option Q) (decs : List (String × DecPos)) (kw : List (String × PyVal)) :
    List (String × PyVal) :=
  kw.map fun (name, v) => match convertAt parse decs name v with
    | .ok y => (name, y)
    | .error _ => (name, v)

def runDecimal (j : Json) (O : Oracles) (cls : FieldDecl) (kw : List (String × PyVal))
    (decs : List (String × DecPos)) : Except String Json := do
  let parse ← decParseOfJson j
  let res := constructD parse O cls decs kw
  let conv := convertKw parse decs kw
  let (adm, nrm) := match conv with
    | .ok kw' => (admitsKw O cls kw' && O.hookOk (instAttrs (normKw O cls kw')), normKw O cls kw')
    | .error _ => (false, PyVal.none)
  let base := [("res", resToJson res), ("admits", Json.bool adm), ("norm", valToJson nrm),
               ("errs", Json.arr ((convErrs parse decs kw ++ fieldErrs O cls (convertLenient parse decs kw)).map Json.str).toArray),
               ("wfDecl", Json.bool (wfDecl cls)), ("fmtLean", ← fmtVerdicts j)]
  let extra ← match optField j "impl" with
    | none => pure []
    | some x => do
      let v ← valOfJson x
      pure [("implWellFormed", Json.bool (wellFormed O cls v))]
  pure (Json.mkObj (base ++ extra))

/-- hooks of the nested classes of a case: "hooksByClass": [[class, [[field, value], …]], …] - the hook of `class`
    raises when `field` is set and `==` to `value` (the same predicate the harness installs on the real classes) -/
def hooksByClass (j : Json) : Except String (Option Hooks) :=
  match optField j "hooksByClass" with
  | none => pure none
  | some x => do
    let tbl : List (String × List (String × PyVal)) ← (← x.getArr?).toList.mapM fun t => do
      let a ← t.getArr?
      let hs ← (← a[1]!.getArr?).toList.mapM fun h => do
        let b ← h.getArr?
        pure ((← b[0]!.getStr?), (← valOfJson b[1]!))
      pure ((← a[0]!.getStr?), hs)
    pure (some fun cls attrs => match tbl.find? (fun t => t.1 == cls) with
      | none => true
      | some t => t.2.all fun h => match lookup h.1 attrs with
        | some v => !PyVal.pyEq v h.2
        | none => true)

def run (j : Json) : Except String Json := do
  let O ← oraclesOfJson j
  let cls ← declOfJson (← j.getObjVal? "cls")
  let kw ← kwOfJson (← j.getObjVal? "kw")
  let decs ← decsOfJson j
  if !decs.isEmpty then return (← runDecimal j O cls kw decs)
  let res := constructH O cls kw
  let base := [("res", resToJson res),
               ("admits", Json.bool (admitsKw O cls kw)),
               ("norm", valToJson (normKw O cls kw)),
               ("errs", Json.arr ((fieldErrs O cls kw).map Json.str).toArray)]
  let chainPart ← match optField j "chain" with
    | none => pure []
    | some x => do
      let ops ← (← x.getArr?).toList.mapM entryOfJson
      let r := match res with
        | .ok inst => runChainD O cls inst ops
        | .error e => .error e
      let errs := match res with
        | .ok inst => chainErrs O cls inst ops
        | .error _ => []
      pure [("chainRes", resToJson r), ("chainErrs", Json.arr (errs.map Json.str).toArray)]
  let base := base ++ chainPart ++ [("wfDecl", Json.bool (wfDecl cls)), ("fmtLean", ← fmtVerdicts j)]
  let extra ← match optField j "impl" with
    | none => pure []
    | some x => do
      let v ← valOfJson x
      let nested ← match ← hooksByClass j with
        | none => pure []
        | some H => pure [("implNestedHooksOk", Json.bool (allInstAttrs H (instAttrs v)))]
      pure ([("implWellFormed", Json.bool (wellFormed O cls v))] ++ nested)
  pure (Json.mkObj (base ++ extra))

end Typedpy.Drive.Construct
