/-
  Drive/Serde.lean — driver suite `serde`: serialization of an instance, deserialization of a
  document, the round trip, JSON purity; mapper-free.
-/
import TypedpyModel.Drive.Wire
import TypedpyModel.Sem.Deser
import TypedpyModel.Spec.Conforms
import TypedpyModel.Spec.Lift
namespace Typedpy.Drive.Serde
open Lean (Json)
open Typedpy Typedpy.Wire

def optsOfJson (j : Json) : Except String DeserOpts := do
  pure { keepUndefined := ← optBool j "keepUndefined" true,
         ignoreInvalidAddl := ← optBool j "ignoreInvalidAddl" true }

/-- exception classes a deserialization of `doc` may raise, field by field (order-free view) -/
def fieldErrs (O : Oracles) (opts : DeserOpts) (cls : FieldDecl) (doc : PyVal) : List String :=
  match cls, doc with
  | .struct c fields defaults, .dict kvs =>
    (match kwOfDict kvs with
      | none => []
      | some kw =>
        fields.filterMap fun (name, f) =>
          match lookup name kw with
          | none => none
          | some v => if v.isNone then none else match deser O opts c.ignoreNone f v with
            | .error e => some (errName e)
            | .ok y => match (if y.isNone && c.ignoreNone && !c.required.contains name then .ok y else validate O f y) with
              | .error e => some (errName e)
              | .ok _ => none)
  | _, _ => []

/-- the hypotheses of `class_round_trip_extras_partial`: an open class, keep_undefined on, undeclared
    attributes (listed first) holding non-None JSON scalars, the declared rest in the fragment -/
def fragExtras (O : Oracles) (opts : DeserOpts) (cls : FieldDecl) (x : PyVal) : Bool :=
  match cls, x with
  | .struct c fields defaults, .inst n attrs =>
    let names := fields.map (·.1)
    let ex := attrs.takeWhile (fun a => !names.contains a.1)
    let rest := attrs.dropWhile (fun a => !names.contains a.1)
    n == c.name && c.addl && opts.keepUndefined
      && ex.all (fun a => !a.2.isNone && jsonScalar a.2)
      && inFrag O (.struct c fields defaults) (.inst c.name rest)
  | _, _ => false

/-- the hypotheses of `class_round_trip_none_attrs_partial`: the instance without its None attributes is in the fragment -/
def fragNoneAttrs (O : Oracles) (cls : FieldDecl) (x : PyVal) : Bool :=
  match cls, x with
  | .struct c fields defaults, .inst n attrs =>
    n == c.name && inFrag O (.struct c fields defaults) (.inst c.name (attrs.filter fun a => !a.2.isNone))
  | _, _ => false

def run (j : Json) : Except String Json := do
  let O ← oraclesOfJson j
  let cls ← declOfJson (← j.getObjVal? "cls")
  let opts ← match optField j "opts" with | none => pure {} | some x => optsOfJson x
  let mut out : List (String × Json) := []
  if let some kwj := optField j "kw" then
    let kw ← kwOfJson kwj
    let inst := construct O cls kw
    out := out ++ [("inst", resToJson inst)]
    -- serialize the instance as the real code holds it (real `__dict__` order) when supplied
    let inst' : R PyVal ← match optField j "x" with
      | some xj => do pure (.ok (← valOfJson xj))
      | none => pure inst
    match inst' with
    | .ok x =>
      let s := serialize O cls x
      -- is the instance inside the fragment on which the round trip is PROVED (class_round_trip_partial)?
      -- (the instance the MODEL constructs: attributes in the constructor's order, undeclared ones first)
      let xm := match inst with | .ok y => y | .error _ => x
      out := out ++ [("inFrag", Json.bool (inFrag O cls xm)), ("inFragExtras", Json.bool (fragExtras O opts cls xm)),
                     ("inFragNone", Json.bool (fragNoneAttrs O cls xm))]
      out := out ++ [("ser", resToJson s)]
      match s with
      | .ok d =>
        out := out ++ [("isJson", Json.bool (isJson d)), ("docStable", Json.bool (docStable d)),
                       ("back", resToJson (deserialize O opts cls d))]
      | .error _ => pure ()
    | .error _ => pure ()
  if let some dj := optField j "doc" then
    let d ← valOfJson dj
    let liftOk := match cls with | .struct _ fields _ => liftableFields fields | _ => false
    out := out ++ [("exactDecl", Json.bool (exactDecl cls && strictJson d)), ("liftable", Json.bool liftOk),
                   ("expected", match expectedDeser O opts cls d with
                      | some x => Json.mkObj [("ok", valToJson x)]
                      | none => Json.mkObj [("reject", Json.bool true)])]
    out := out ++ [("deser", resToJson (deserialize O opts cls d)),
                   ("errs", Json.arr ((fieldErrs O opts cls d).map Json.str).toArray)]
  if let some ij := optField j "implInst" then
    out := out ++ [("implWellFormed", Json.bool (wellFormed O cls (← valOfJson ij)))]
  pure (Json.mkObj out)

end Typedpy.Drive.Serde
