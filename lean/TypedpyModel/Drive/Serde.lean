/-
  Drive/Serde.lean — driver suite `serde` (stub; to be implemented).
-/
import TypedpyModel.Drive.Wire
namespace Typedpy.Drive.Serde
open Lean (Json)

def run (_j : Json) : Except String Json := .error "suite serde not implemented"

end Typedpy.Drive.Serde
