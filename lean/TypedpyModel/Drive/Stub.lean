/-
  Drive/Stub.lean — driver suite `stub` (stub; to be implemented).
-/
import TypedpyModel.Drive.Wire
namespace Typedpy.Drive.Stub
open Lean (Json)

def run (_j : Json) : Except String Json := .error "suite stub not implemented"

end Typedpy.Drive.Stub
