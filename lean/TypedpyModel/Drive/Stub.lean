/-
  Drive/Stub.lean — driver suite `stub`: one case = one generated module.
  Input:  {"suite":"stub","dflt":b,"apd":b,
           "classes":[{"name","fields":[{"n","c","d","o"}],"required":null|[..],"optional":[..],
                       "addl":null|b,"bases":[index of earlier class,…]}],
           "targets":[index,…], "imports":[[name,module],…]}
  Output: per target class the model's stub `__init__` / helper parameter lists, the model's runtime
          signature, `_required`, constants, admits-extra and the known-finding region predicate;
          the rendered extra-import lines.
-/
import TypedpyModel.Drive.Wire
import TypedpyModel.Sem.Stub
namespace Typedpy.Drive.Stub
open Lean (Json)
open Typedpy.Wire Typedpy.Stub

def fieldOfJson (j : Json) : Except String FieldInfo := do
  let n ← (← j.getObjVal? "n").getStr?
  pure { name := n, isConst := ← optBool j "c" false, hasDefault := ← optBool j "d" false,
         optShape := ← optBool j "o" false }

def declOfJson (j : Json) : Except String (Decl × List Nat) := do
  let name ← (← j.getObjVal? "name").getStr?
  let fields ← (← (← j.getObjVal? "fields").getArr?).toList.mapM fieldOfJson
  let required ← match optField j "required" with
    | none => pure none
    | some x => do pure (some (← (← x.getArr?).toList.mapM (·.getStr?)))
  let optional ← strList j "optional"
  let addl ← match optField j "addl" with
    | none => pure none
    | some x => do pure (some (← x.getBool?))
  let bases ← match optField j "bases" with
    | none => pure []
    | some x => do (← x.getArr?).toList.mapM (·.getNat?)
  pure ({ name := name, fields := fields, requiredDecl := required, optionalDecl := optional, addl := addl }, bases)

def buildClasses (ds : List (Decl × List Nat)) : Except String (Array ClassInfo) :=
  ds.foldlM (init := #[]) fun acc (d, bs) => do
    let bases ← bs.mapM fun i => match acc[i]? with
      | some c => pure c
      | none => throw s!"class {d.name}: base index {i} not defined yet"
    pure (acc.push (.mk d bases))

def paramsToJson (ps : List Param) : Json :=
  Json.arr (ps.map fun p => Json.arr #[.str p.name, .bool p.hasDefault]).toArray

def sigToJson (s : Sig) : Json := Json.mkObj [("params", paramsToJson s.params), ("kw", .bool s.kw)]

def strsToJson (xs : List String) : Json := Json.arr (xs.map Json.str).toArray

/-- same predicate as `Typedpy.C16.inheritedAddlOn` (Props files are not imported by the driver) -/
def inheritedAddlOn (dflt : Bool) (c : ClassInfo) : Bool :=
  !dflt && c.decl.addl.isNone && (addlLookup (mro c) == some true)

def inheritedAddlOff (dflt : Bool) (c : ClassInfo) : Bool :=
  dflt && c.decl.addl.isNone && (addlLookup (mro c) == some false)

def report (dflt apd : Bool) (c : ClassInfo) : Json :=
  Json.mkObj [
    ("name", .str c.decl.name),
    ("init", sigToJson (stubInit dflt apd c)),
    ("shallowClone", sigToJson (stubHelper dflt apd .shallowClone c)),
    ("fromOtherClass", sigToJson (stubHelper dflt apd .fromOtherClass c)),
    ("fromTrustedData", sigToJson (stubHelper dflt apd .fromTrustedData c)),
    ("runtime", sigToJson (runtimeSig dflt c)),
    ("required", strsToJson (clsRequired dflt c)),
    ("consts", strsToJson (constNames (allFields c))),
    ("fieldOrder", strsToJson ((allFields c).map (·.name))),
    ("admitsExtra", .bool (runtimeAdmitsExtra dflt c)),
    ("inheritedAddlOn", .bool (inheritedAddlOn dflt c)),
    ("inheritedAddlOff", .bool (inheritedAddlOff dflt c)),
    ("mandatoryFirst", .bool (mandatoryFirst (stubInit dflt apd c).params))]

def run (j : Json) : Except String Json := do
  let dflt ← optBool j "dflt" true
  let apd ← optBool j "apd" true
  let ds ← (← (← j.getObjVal? "classes").getArr?).toList.mapM declOfJson
  let classes ← buildClasses ds
  let targets ← match optField j "targets" with
    | none => pure (List.range classes.size)
    | some x => do (← x.getArr?).toList.mapM (·.getNat?)
  let reps ← targets.mapM fun i => match classes[i]? with
    | some c => pure (report dflt apd c)
    | none => throw s!"target index {i} out of range"
  let imports ← match optField j "imports" with
    | none => pure []
    | some x => do
      (← x.getArr?).toList.mapM fun kv => do
        let a ← kv.getArr?
        match a.toList with
        | [k, v] => pure ((← k.getStr?), (← v.getStr?))
        | _ => throw "imports entry must be [name, module]"
  pure (Json.mkObj [("classes", Json.arr reps.toArray), ("imports", strsToJson (renderImports imports))])

end Typedpy.Drive.Stub
