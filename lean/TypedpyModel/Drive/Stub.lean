/-
  Drive/Stub.lean — driver suite `stub`: one case = one generated module.
  Input:  {"suite":"stub","dflt":b,"apd":b,
           "classes":[{"name","fields":[{"n","c","d","o"}],"required":null|[..],"optional":[..],
                       "addl":null|b,"bases":[index of earlier class,…]}],
           "targets":[index,…], "imports":[[name,module],…]}
  Output: per target class the model's stub `__init__` / helper parameter lists, the model's runtime
          signature, `_required`, constants, admits-extra and the known-finding region predicate;
          the rendered extra-import lines.
-/
import TypedpyModel.Drive.Wire
import TypedpyModel.Sem.Stub
import TypedpyModel.Sem.StubText
import TypedpyModel.Sem.StubDefine
namespace Typedpy.Drive.Stub
open Lean (Json)
open Typedpy.Wire Typedpy.Stub Typedpy.StubText Typedpy.StubD

def fieldOfJson (j : Json) : Except String FieldInfo := do
  let n ← (← j.getObjVal? "n").getStr?
  pure { name := n, isConst := ← optBool j "c" false, hasDefault := ← optBool j "d" false,
         optShape := ← optBool j "o" false }

def declOfJson (j : Json) : Except String (Decl × List Nat) := do
  let name ← (← j.getObjVal? "name").getStr?
  let fields ← (← (← j.getObjVal? "fields").getArr?).toList.mapM fieldOfJson
  let required ← match optField j "required" with
    | none => pure none
    | some x => do pure (some (← (← x.getArr?).toList.mapM (·.getStr?)))
  let optional ← strList j "optional"
  let addl ← match optField j "addl" with
    | none => pure none
    | some x => do pure (some (← x.getBool?))
  let bases ← match optField j "bases" with
    | none => pure []
    | some x => do (← x.getArr?).toList.mapM (·.getNat?)
  pure ({ name := name, fields := fields, requiredDecl := required, optionalDecl := optional, addl := addl }, bases)

def buildClasses (ds : List (Decl × List Nat)) : Except String (Array ClassInfo) :=
  ds.foldlM (init := #[]) fun acc (d, bs) => do
    let bases ← bs.mapM fun i => match acc[i]? with
      | some c => pure c
      | none => throw s!"class {d.name}: base index {i} not defined yet"
    pure (acc.push (.mk d bases))

def paramsToJson (ps : List Param) : Json :=
  Json.arr (ps.map fun p => Json.arr #[.str p.name, .bool p.hasDefault]).toArray

def sigToJson (s : Stub.Sig) : Json := Json.mkObj [("params", paramsToJson s.params), ("kw", .bool s.kw)]

def strsToJson (xs : List String) : Json := Json.arr (xs.map Json.str).toArray

/-- same predicate as `Typedpy.C16.inheritedAddlOn` (Props files are not imported by the driver) -/
def inheritedAddlOn (dflt : Bool) (c : ClassInfo) : Bool :=
  !dflt && c.decl.addl.isNone && (addlLookup (mro c) == some true)

def inheritedAddlOff (dflt : Bool) (c : ClassInfo) : Bool :=
  dflt && c.decl.addl.isNone && (addlLookup (mro c) == some false)

def report (dflt apd : Bool) (c : ClassInfo) : Json :=
  Json.mkObj [
    ("name", .str c.decl.name),
    ("init", sigToJson (stubInit dflt apd c)),
    ("shallowClone", sigToJson (stubHelper dflt apd .shallowClone c)),
    ("fromOtherClass", sigToJson (stubHelper dflt apd .fromOtherClass c)),
    ("fromTrustedData", sigToJson (stubHelper dflt apd .fromTrustedData c)),
    ("runtime", sigToJson (runtimeSig dflt c)),
    ("required", strsToJson (clsRequired dflt c)),
    ("consts", strsToJson (constNames (allFields c))),
    ("fieldOrder", strsToJson ((allFields c).map (·.name))),
    ("admitsExtra", .bool (runtimeAdmitsExtra dflt c)),
    ("inheritedAddlOn", .bool (inheritedAddlOn dflt c)),
    ("inheritedAddlOff", .bool (inheritedAddlOff dflt c)),
    ("mandatoryFirst", .bool (mandatoryFirst (stubInit dflt apd c).params)),
    ("addlDeclared", .bool (addlLookup (mro c)).isSome)]

/-! ### the same classes as class objects of Sem/Define.lean (any hierarchy shape: C3 linearisation) -/

def clsKey (i : Nat) : String := s!"c{i}"

def toSrc (i : Nat) (d : Decl) (bases : List Nat) : ClassSrc :=
  { name := clsKey i
    bases := if bases.isEmpty then ["Structure"] else bases.map clsKey
    entries := d.fields.map fun f =>
      (f.name, SrcEntry.obj (if f.isConst then Member.const (.int 0)
                             else Member.field .anything (if f.hasDefault then some (.lit (.int 1)) else none)))
    required := d.requiredDecl, optional := d.optionalDecl, addl := d.addl }

/-- worlds before each class statement, and the sources -/
def buildWorlds (ds : List (Decl × List Nat)) : Array (World × ClassSrc) :=
  let step := fun (acc : Array (World × ClassSrc) × World × Nat) (x : Decl × List Nat) =>
    let src := toSrc acc.2.2 x.1 x.2
    (acc.1.push (acc.2.1, src), acc.2.1.add (build acc.2.1 src), acc.2.2 + 1)
  (ds.foldl step (#[], World.init, 0)).1

def helperD (h : Helper) (s : Stub.Sig) : Stub.Sig :=
  ⟨helperPrefix h ++ helperKeep h (s.params.map (fun p => ⟨p.name, true⟩)), s.kw⟩

def reportD (dflt apd : Bool) (label : String) (w : World) (src : ClassSrc) : Json :=
  let c := build w src
  let s := stubInitD apd w src
  Json.mkObj [
    ("name", .str label),
    ("init", sigToJson s),
    ("shallowClone", sigToJson (helperD .shallowClone s)),
    ("fromOtherClass", sigToJson (helperD .fromOtherClass s)),
    ("fromTrustedData", sigToJson (helperD .fromTrustedData s)),
    ("runtime", sigToJson ⟨sigParamsD (Typedpy.sigOf w src), sigKwD dflt w src⟩),
    ("required", strsToJson c.required),
    ("consts", strsToJson (c.constants.map (·.1))),
    ("fieldOrder", strsToJson (c.allFields.map (·.1))),
    ("admitsExtra", .bool (admitsD dflt w src)),
    ("inheritedAddlOn", .bool (inheritedOnD dflt w src)),
    ("inheritedAddlOff", .bool (inheritedOffD dflt w src)),
    ("mandatoryFirst", .bool (mandatoryFirst s.params)),
    ("namesCovered", .bool (namesCovered w src)),
    ("addlDeclared", .bool (addlAttr w src).isSome),
    ("mro", strsToJson c.mro),
    ("mroOk", .bool (mroOf w src).isSome),
    ("sigDup", .bool ((Typedpy.sigOf w src).req.any (fun n => (Typedpy.sigOf w src).opt.contains n)))]

/-! ### the text tie: annotation ASTs in, the real header texts in; model tokens vs lexed real text, parser verdicts out -/

partial def annOfJson (j : Json) : Except String Ann :=
  match j with
  | .str "..." => pure .ellipsis
  | _ => do
    if let some x := optField j "n" then
      return .name (← (← x.getArr?).toList.mapM (·.getStr?))
    if let some x := optField j "s" then
      let a ← x.getArr?
      match a.toList with
      | [h, args] =>
        return .sub (← (← h.getArr?).toList.mapM (·.getStr?)) (← (← args.getArr?).toList.mapM annOfJson)
      | _ => throw "ann: s expects [head, args]"
    if let some x := optField j "l" then
      return .lst (← (← x.getArr?).toList.mapM annOfJson)
    if (optField j "lit").isSome then return .lit
    throw s!"ann: unknown {j.compress}"

/-- a field as `get_type_info` dispatches on it (Sem/StubText.lean `FTy`); a bare annotation is a leaf -/
partial def ftyOfJson (j : Json) : Except String FTy := do
  if let some x := optField j "opt" then return .opt (← ftyOfJson x)
  if let some x := optField j "union" then return .union (← (← x.getArr?).toList.mapM ftyOfJson)
  if let some x := optField j "map" then return .map (← (← x.getArr?).toList.mapM ftyOfJson)
  if let some x := optField j "leaf" then return .leaf (← annOfJson x)
  return .leaf (← annOfJson j)

def kindStr : PKind → String
  | .po => "po" | .pk => "pk" | .va => "va" | .ko => "ko" | .vk => "vk"

def defInfoToJson (d : DefInfo) : Json :=
  Json.mkObj [("name", .str d.name),
    ("params", Json.arr (d.params.map fun p => Json.arr #[.str p.name, .str (kindStr p.kind), .bool p.hasDefault]).toArray),
    ("dupFree", .bool (dupFree (d.params.map (·.name))))]

/-- lex + parse one `def` header text -/
def parseDefText (s : String) : Json :=
  match lexPy s with
  | none => Json.mkObj [("lex", .bool false)]
  | some ts => match parseDef ts with
    | none => Json.mkObj [("lex", .bool true), ("parse", .null)]
    | some d => Json.mkObj [("lex", .bool true), ("parse", defInfoToJson d)]

def parseClassText (s : String) : Json :=
  match lexPy s with
  | none => Json.mkObj [("lex", .bool false)]
  | some ts => match parseClass ts with
    | none => Json.mkObj [("lex", .bool true), ("parse", .null)]
    | some (c, n) => Json.mkObj [("lex", .bool true), ("parse", Json.arr #[.str c, .num (Lean.JsonNumber.fromNat n)])]

/-- model tokens against the lexed real text -/
def tieToks (model : List Tok) (real : Option String) : Json :=
  match real with
  | none => .null
  | some s =>
    Json.mkObj [("eq", .bool (lexPy s == some model)), ("model", .str (toksText model)),
      ("accepted", .bool ((parseDef model).isSome))]

def optStr (j : Json) (k : String) : Except String (Option String) :=
  match optField j k with
  | none => pure none
  | some x => do pure (some (← x.getStr?))

def textClass (sigFor : Nat → Option (Stub.Sig × String)) (j : Json) : Except String Json := do
  let i ← (← j.getObjVal? "i").getNat?
  let (sig, cname) ← match sigFor i with
    | some x => pure x
    | none => throw s!"text: class index {i} out of range"
  let annsL ← (← (← j.getObjVal? "anns").getArr?).toList.mapM fun kv => do
    let a ← kv.getArr?
    match a.toList with
    | [k, v] => pure ((← k.getStr?), typeInfo (← ftyOfJson v))
    | _ => throw "text: anns entry must be [name, field shape]"
  let anns : String → Ann := fun n => ((annsL.find? (fun kv => kv.1 == n)).map (·.2)).getD anyAnn
  let bases ← match optField j "bases" with
    | none => pure []
    | some x => do (← x.getArr?).toList.mapM fun b => do (← b.getArr?).toList.mapM (·.getStr?)
  let attrs ← match optField j "attrs" with
    | none => pure []
    | some x => do (← x.getArr?).toList.mapM fun kv => do
        let a ← kv.getArr?
        match a.toList with
        | [k, v] => pure ((← k.getStr?), (← v.getStr?))
        | _ => throw "text: attrs entry must be [name, text]"
  let attrBad := attrs.filterMap fun (n, t) =>
    match sig.params.find? (fun p => p.name == n) with
    | none => some n
    | some p => if lexPy t == some (attrToks (anns n) p) then none else some n
  let domain := textDomain anns sig.params
  pure (Json.mkObj [
    ("name", .str cname), ("domain", .bool domain),
    ("init", tieToks (initToks anns sig) (← optStr j "init")),
    ("shallowClone", tieToks (helperToks anns .shallowClone sig) (← optStr j "shallowClone")),
    ("fromOtherClass", tieToks (helperToks anns .fromOtherClass sig) (← optStr j "fromOtherClass")),
    ("fromTrustedData", tieToks (helperToks anns .fromTrustedData sig) (← optStr j "fromTrustedData")),
    ("header", match (← optStr j "header") with
      | none => Json.null
      | some s => Json.mkObj [("eq", .bool (lexPy s == some (classToks cname bases))),
                              ("model", .str (toksText (classToks cname bases)))]),
    ("attrBad", strsToJson attrBad)])

def kindOfStr (s : String) : Except String PKind :=
  match s with
  | "po" => pure .po | "pk" => pure .pk | "va" => pure .va | "ko" => pure .ko | "vk" => pure .vk
  | _ => throw s!"unknown parameter kind {s}"

def optAnn (j : Json) : Except String (Option Ann) :=
  match j with
  | .null => pure none
  | _ => do pure (some (← annOfJson j))

/-- one method / function as `inspect.signature` reports it (+ the annotation / default expressions read off the
    stub): the model's `methodToks` against the lexed real header -/
def textMethod (j : Json) : Except String Json := do
  let f ← (← j.getObjVal? "name").getStr?
  let text ← (← j.getObjVal? "text").getStr?
  let ps ← (← (← j.getObjVal? "ps").getArr?).toList.mapM fun p => do
    let a ← p.getArr?
    match a.toList with
    | [n, k, ann, d] => do
      let n' ← n.getStr?
      let k' ← kindOfStr (← k.getStr?)
      let a' ← optAnn ann
      let d' ← optAnn d
      pure ({ name := n', kind := k', ann := a', dflt := d' } : RParam)
    | _ => throw "text: method parameter must be [name, kind, ann, default]"
  let ret ← match optField j "ret" with
    | none => pure none
    | some r => optAnn r
  let model := methodToks f ps ret
  pure (Json.mkObj [("eq", .bool (lexPy text == some model)), ("model", .str (toksText model)),
    ("valid", .bool (validGo .po0 false ps)),
    ("roundtrip", .bool (parseDef model == some ⟨f, ps.map RParam.info⟩))])

def textReport (sigFor : Nat → Option (Stub.Sig × String)) (j : Json) : Except String Json := do
  let cls ← match optField j "classes" with
    | none => pure []
    | some x => do (← x.getArr?).toList.mapM (textClass sigFor)
  let strs (k : String) : Except String (List String) := match optField j k with
    | none => pure []
    | some x => do (← x.getArr?).toList.mapM (·.getStr?)
  pure (Json.mkObj [
    ("classes", Json.arr cls.toArray),
    ("defs", Json.arr ((← strs "defs").map parseDefText).toArray),
    ("muts", Json.arr ((← strs "muts").map parseDefText).toArray),
    ("cls", Json.arr ((← strs "cls").map parseClassText).toArray),
    ("meths", Json.arr (← match optField j "meths" with
      | none => pure []
      | some x => do (← x.getArr?).toList.mapM textMethod).toArray)])

def run (j : Json) : Except String Json := do
  let dflt ← optBool j "dflt" true
  let apd ← optBool j "apd" true
  let ds ← (← (← j.getObjVal? "classes").getArr?).toList.mapM declOfJson
  let classes ← buildClasses ds
  let targets ← match optField j "targets" with
    | none => pure (List.range classes.size)
    | some x => do (← x.getArr?).toList.mapM (·.getNat?)
  let reps ← targets.mapM fun i => match classes[i]? with
    | some c => pure (report dflt apd c)
    | none => throw s!"target index {i} out of range"
  let imports ← match optField j "imports" with
    | none => pure []
    | some x => do
      (← x.getArr?).toList.mapM fun kv => do
        let a ← kv.getArr?
        match a.toList with
        | [k, v] => pure ((← k.getStr?), (← v.getStr?))
        | _ => throw "imports entry must be [name, module]"
  let worlds := buildWorlds ds
  let nontree ← match optField j "nontree" with
    | none => pure []
    | some x => do (← x.getArr?).toList.mapM (·.getNat?)
  let repsD := targets.filterMap fun i => match worlds[i]?, classes[i]? with
    | some (w, src), some c => some (reportD dflt apd c.decl.name w src)
    | _, _ => none
  let sigFor : Nat → Option (Stub.Sig × String) := fun i =>
    match classes[i]?, worlds[i]? with
    | some c, some (w, src) =>
      some (if nontree.contains i then stubInitD apd w src else stubInit dflt apd c, c.decl.name)
    | _, _ => none
  let text ← match optField j "text" with
    | none => pure Json.null
    | some t => textReport sigFor t
  pure (Json.mkObj [("classes", Json.arr reps.toArray), ("classesD", Json.arr repsD.toArray),
    ("imports", strsToJson (renderImports imports)), ("text", text)])

end Typedpy.Drive.Stub
