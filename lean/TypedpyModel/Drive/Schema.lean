/-
  Drive/Schema.lean — driver suite `schema` (C08): the model of `structure_to_schema`, the Lean
  draft-4 validator / well-formedness predicate evaluated on both the model's and the real code's
  schemas, the fragment predicates, and mapper-free serialization / deserialization of the
  generated instances and boundary documents.
-/
import TypedpyModel.Drive.Wire
import TypedpyModel.Spec.SchemaFrag
namespace Typedpy.Drive.Schema
open Lean (Json)
open Typedpy Typedpy.Wire Typedpy.Sch

def tableOfJson (j : Json) (key : String) : Except String (String → String → Bool) := do
  let table : List (String × String × Bool) ← match optField j key with
    | none => pure []
    | some x => (← x.getArr?).toList.mapM fun t => do
      let a ← t.getArr?
      pure ((← a[0]!.getStr?), (← a[1]!.getStr?), (← a[2]!.getBool?))
  pure fun p s => match table.find? (fun t => t.1 == p && t.2.1 == s) with
                  | some t => t.2.2 | none => false

def defsOfVal (v : PyVal) : Defs :=
  match v with
  | .dict kvs => kvs.filterMap fun kv => match kv.1 with | .str n => some (n, kv.2) | _ => none
  | _ => []

def defsToVal (D : Defs) : PyVal := .dict (D.map fun e => (.str e.1, e.2))

/-- fuel for real-code schemas: more than any acyclic definitions table can need -/
def fuelFor (D : Defs) : Nat := D.length + 2

def judgeDoc (S : String → String → Bool) (schema : PyVal) (defs : Defs) (d : PyVal) : Bool :=
  jsValidFuel (fuelFor defs) (ptrDefs (fixDefs defs)) S (dialectFix schema) d

def run (j : Json) : Except String Json := do
  let O ← oraclesOfJson j
  let S ← tableOfJson j "search"
  let cls ← declOfJson (← j.getObjVal? "cls")
  let (c, fields, _defaults) ← match cls with
    | .struct c fields defaults => pure (c, fields, defaults)
    | _ => throw "schema: cls is not a class"
  let collapsed := collapses c (fields.map (·.1))
  -- string-valued key map of a top-level `_serialization_mapper` (absent: mapper-free class)
  let km : Option KeyMap ← match optField j "km" with
    | none => pure none
    | some x => do
      let ps ← (← x.getArr?).toList.mapM fun t => do
        let a ← t.getArr?
        pure ((← a[0]!.getStr?), (← a[1]!.getStr?))
      pure (some ps)
  let mDefs := (toSchema cls).2
  let mSchema := match km with
    | some m => classSchemaM false m cls
    | none => (toSchema cls).1
  let mSchemaFx := match km with
    | some m => classSchemaM true m cls
    | none => classSchema true cls
  let mRaises := raisesP fields
  let D := fixedPtrDefs cls
  let mut out : List (String × Json) := [
    ("raises", Json.bool mRaises),
    ("collapsed", Json.bool collapsed),
    ("inFrag", Json.bool (inSchemaFragment cls)),
    ("inWfFrag", Json.bool (inWfFragment cls)),
    ("inExact", Json.bool (inExactFragment cls)),
    ("refsFaithful", Json.bool (classRefsFaithfulB D cls)),
    ("refDepth", Json.num (Lean.JsonNumber.fromNat (refDepth cls)))]
  if !mRaises then
    out := out ++ [("schema", valToJson mSchema), ("defs", valToJson (defsToVal mDefs)),
                   ("wfModel", Json.bool (wfDocument (dialectFix mSchema) (fixDefs mDefs))),
                   ("fixAgrees", Json.bool (structEq (dialectFix mSchema) mSchemaFx))]
  -- the real code's schema, judged by the Lean predicates
  let impl : Option (PyVal × Defs) ← match optField j "implSchema" with
    | none => pure none
    | some sj => do
      let s ← valOfJson sj
      let d ← match optField j "implDefs" with | none => pure [] | some dj => do pure (defsOfVal (← valOfJson dj))
      pure (some (s, d))
  if let some (s, d) := impl then
    out := out ++ [("wfImpl", Json.bool (wfDocument (dialectFix s) (fixDefs d)))]
  -- instances
  let insts ← match optField j "insts" with | none => pure #[] | some x => x.getArr?
  let mut res : Array Json := #[]
  for ij in insts do
    let x ← valOfJson (← ij.getObjVal? "x")
    let ser : R PyVal := if collapsed then
        (match x, fields with
         | .inst _ attrs, (n, f) :: _ => (match lookup n attrs with
            | some v => Typedpy.ser O f v
            | none => .error (.other "AttributeError"))
         | _, _ => .error (.other "not-an-instance"))
      else (match km, serialize O cls x with
        | some m, .ok d => .ok (renameDoc m d)
        | _, other => other)
    let safe := match km, serialize O cls x with
      | some m, .ok d => renameSafe m cls d
      | _, _ => true
    let mut r : List (String × Json) := [
      ("renameSafe", Json.bool safe),
      ("ser", resToJson ser),
      ("wellFormed", Json.bool (wellFormed O cls x)),
      ("inRegion", Json.bool (inAdmitRegion O cls x))]
    if !mRaises then
      match ser with
      | .ok d => r := r ++ [("validModel", Json.bool (jsValidFuel (refDepth cls) D S (dialectFix mSchema) d))]
      | .error _ => pure ()
    if let some (s, dfs) := impl then
      if let some dj := optField ij "doc" then
        let d ← valOfJson dj
        r := r ++ [("validImpl", Json.bool (judgeDoc S s dfs d))]
    res := res.push (Json.mkObj r)
  out := out ++ [("insts", Json.arr res)]
  -- boundary documents
  let bdocs ← match optField j "bdocs" with | none => pure #[] | some x => x.getArr?
  let mut bres : Array Json := #[]
  for dj in bdocs do
    let d ← valOfJson dj
    let mut r : List (String × Json) := [("deser", resToJson (deserialize O {} cls d))]
    if !mRaises then
      r := r ++ [("validModel", Json.bool (jsValidFuel (refDepth cls) D S (dialectFix mSchema) d))]
    if let some (s, dfs) := impl then
      r := r ++ [("validImpl", Json.bool (judgeDoc S s dfs d))]
    bres := bres.push (Json.mkObj r)
  out := out ++ [("bdocs", Json.arr bres)]
  pure (Json.mkObj out)

end Typedpy.Drive.Schema
