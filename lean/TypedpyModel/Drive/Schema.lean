/-
  Drive/Schema.lean — driver suite `schema` (stub; to be implemented).
-/
import TypedpyModel.Drive.Wire
namespace Typedpy.Drive.Schema
open Lean (Json)

def run (_j : Json) : Except String Json := .error "suite schema not implemented"

end Typedpy.Drive.Schema
