/-
  Drive/Sched.lean — driver suite `sched`: run the interleaving model (Sem/Sched.lean) on the validation calls and the
  event-level schedules the harness observed on the real code.
  in : {"calls": [call…], "sites": [[cell, site key]…], "init": [[cell, name]…], "schedules": [[tid…]…]}
       call = {"k":"homog","cell":c,"name":n,"initW":b,"elems":[[v,ok]…]} | {"k":"set"|"iset","cell":c,"name":n,"elems":…}
            | {"k":"map","kc":c,"vc":c,"name":n,"entries":[[[k,ok],[v,ok]]…]} | {"k":"pos","base":c,"name":n,"n":k,"elems":…}
            | {"k":"wrap","kind":"allOf"|"anyOf"|"oneOf"|"notField"|"allOfThrough"|"oneOfThrough","name":n,"v":v,"opts":[[cell,ok]…]}
            | {"k":"nest","cell":c,"name":n,"kind":…,"elems":[[v,[[cell,ok]…]]…]}
       a schedule lists thread ids at EVENT granularity: entry `t` = thread `t` runs up to and including its next step
       that touches a shared cell or starts a temp structure (what the harness observes); after the listed entries every
       thread runs to completion
  The programs are `modelProgs Generated.sharedWrites sites calls`: shared cells where the CURRENT tree's table lists the
  site as racy, private copies where it does not.
  out: {"progs": [[step letter…]…] (event steps as the harness spells them, others "E"), "seq": [outcome…],
        "runs": [[outcome|null…]…], "conflictFree": bool (C20_partial applies), "sameValue": bool
        (same_value_writes_linearizable applies), "noWrites": bool, "treeRacy": bool, "private": [cell…]}
-/
import Lean.Data.Json
import TypedpyModel.Sem.Sched
import TypedpyModel.Generated.SharedWrites
namespace Typedpy.Drive.Sched
open Lean (Json)
open Typedpy.Sched

def elemOfJson (j : Json) : Except String (Int × Bool) := do
  let a ← j.getArr?
  if a.size != 2 then throw "elem: expected [v, ok]"
  pure ((← a[0]!.getInt?), (← a[1]!.getBool?))

def elemsOf (j : Json) (k : String) : Except String (List (Int × Bool)) := do
  (← (← j.getObjVal? k).getArr?).toList.mapM elemOfJson

def wkindOf : String → Except String WKind
  | "allOf" => pure WKind.allOf
  | "anyOf" => pure WKind.anyOf
  | "oneOf" => pure WKind.oneOf
  | "notField" => pure WKind.notField
  | "allOfThrough" => pure WKind.allOfThrough
  | "oneOfThrough" => pure WKind.oneOfThrough
  | s => throw s!"unknown wrapper kind {s}"

def optOfJson (o : Json) : Except String (Nat × Bool) := do
  let a ← o.getArr?
  if a.size != 2 then throw "opt: expected [cell, ok]"
  pure ((← a[0]!.getNat?), (← a[1]!.getBool?))

def callOfJson (j : Json) : Except String Call := do
  let k ← (← j.getObjVal? "k").getStr?
  let name ← (← j.getObjVal? "name").getStr?
  match k with
  | "homog" =>
    pure (.homog (← (← j.getObjVal? "cell").getNat?) name (← (← j.getObjVal? "initW").getBool?) (← elemsOf j "elems"))
  | "set" => pure (.set (← (← j.getObjVal? "cell").getNat?) name (← elemsOf j "elems"))
  | "map" =>
    let es ← (← (← j.getObjVal? "entries").getArr?).toList.mapM fun e => do
      let a ← e.getArr?
      if a.size != 2 then throw "entry: expected [[k,ok],[v,ok]]"
      pure ((← elemOfJson a[0]!), (← elemOfJson a[1]!))
    pure (.map (← (← j.getObjVal? "kc").getNat?) (← (← j.getObjVal? "vc").getNat?) name es)
  | "pos" =>
    pure (.pos (← (← j.getObjVal? "base").getNat?) name (← (← j.getObjVal? "n").getNat?) (← elemsOf j "elems"))
  | "iset" => pure (.iset (← (← j.getObjVal? "cell").getNat?) name (← elemsOf j "elems"))
  | "wrap" =>
    let kind ← wkindOf (← (← j.getObjVal? "kind").getStr?)
    let opts ← (← (← j.getObjVal? "opts").getArr?).toList.mapM optOfJson
    pure (.wrap kind name (← (← j.getObjVal? "v").getInt?) opts)
  | "nest" =>
    let kind ← wkindOf (← (← j.getObjVal? "kind").getStr?)
    let es ← (← (← j.getObjVal? "elems").getArr?).toList.mapM fun e => do
      let a ← e.getArr?
      if a.size != 2 then throw "nest elem: expected [v, [[cell, ok]…]]"
      let opts ← (← a[1]!.getArr?).toList.mapM optOfJson
      pure ((← a[0]!.getInt?), opts)
    pure (.nest (← (← j.getObjVal? "cell").getNat?) name kind es)
  | s => throw s!"unknown call kind {s}"

def nmLetter : Nm → String
  | .const s => s!"'{s}'"
  | .cell c => s!"{c / 2}"
  | .cellSuf c suf => s!"{c / 2}+{suf}"

/-- event steps as the harness spells the events it observes on the real code; thread-private steps are "E" -/
def stepLetter (s : Step) : String :=
  if !s.isEvent then "E" else
  match s with
  | .write c (.const n) => s!"W{c / 2}={n}"
  | .write c n => s!"W{c / 2}=@{nmLetter n}"
  | .newTemp => "N"
  | .store n _ _ => s!"S{nmLetter n}"
  | .check n _ => s!"S{nmLetter n}"
  | .load n => s!"R{nmLetter n}"
  | .move a _ => s!"S{nmLetter a}"
  | .emit _ => "E"

def outcomeToJson : Option Outcome → Json
  | none => .null
  | some (.ok out) => Json.mkObj [("ok", Json.arr (out.map fun i => Json.num (Lean.JsonNumber.fromInt i)).toArray)]
  | some (.raised (.invalid n)) => Json.mkObj [("invalid", .str n)]
  | some (.raised (.missing n)) => Json.mkObj [("missing", .str n)]

/-- number of steps up to and including the first event step (all of them when there is none) -/
def takeEvent : List Step → Nat
  | [] => 0
  | s :: rest => if s.isEvent then 1 else 1 + takeEvent rest

/-- event-level schedule ↦ step-level schedule of `Sched.run` -/
def expand (rem : List (List Step)) : List Nat → List Nat
  | [] => []
  | t :: rest =>
    let p := rem.getD t []
    let k := takeEvent p
    List.replicate k t ++ expand (rem.set t (p.drop k)) rest

def completion (progs : List (List Step)) : List Nat :=
  (List.range progs.length).flatMap fun i => List.replicate (progs.getD i []).length i

def callCells : Call → List Nat
  | .homog c _ _ _ => [c]
  | .set c _ _ => [c]
  | .iset c _ _ => [c]
  | .map kc vc _ _ => [kc, vc]
  | .pos b _ n _ => (List.range n).map (b + ·)
  | .wrap _ _ _ os => os.map (·.1)
  | .nest cW _ _ es => cW :: es.flatMap fun e => e.2.map (·.1)

def run (j : Json) : Except String Json := do
  let calls ← (← (← j.getObjVal? "calls").getArr?).toList.mapM callOfJson
  let pairsOf (k : String) : Except String (List (Nat × String)) :=
    match j.getObjVal? k with
    | .ok x => do
        (← x.getArr?).toList.mapM fun p => do
          let a ← p.getArr?
          if a.size != 2 then throw s!"{k}: expected [cell, string]"
          pure ((← a[0]!.getNat?), (← a[1]!.getStr?))
    | .error _ => pure []
  let init ← pairsOf "init"
  let sites ← pairsOf "sites"
  for c in calls do
    for x in callCells c do
      if !(sites.any fun p => p.1 == x) then throw s!"cell {x} has no site"
  let scheds ← (← (← j.getObjVal? "schedules").getArr?).toList.mapM fun s => do
    (← s.getArr?).toList.mapM fun t => t.getNat?
  let tbl := Typedpy.Generated.sharedWrites
  let progs := modelProgs tbl sites calls
  let n := progs.length
  -- initial names are given per original cell: they hold for the shared cell and for every private copy of it
  let sh : Shared := instStore n (Shared.ofList init)
  let runs := scheds.map fun s =>
    let cfg := Typedpy.Sched.run (Cfg.init sh progs) (expand progs s ++ completion progs)
    Json.arr ((List.range n).map fun i => outcomeToJson (resultAt cfg i)).toArray
  -- which positive theorem covers these programs (if any)
  let writesOf : List (Nat × Nm) := progs.flatMap fun p => p.filterMap fun s => match s with
    | .write c n => some (c, n)
    | _ => none
  let k : Nat → String := fun c => match writesOf.lookup c with
    | some (.const v) => v
    | _ => ""
  let sameValue := progs.all fun p => uniformB k p && readsAfterOwnWrite [] p
  let noWrites := progs.all fun p => p.all fun s => !s.writesShared
  let priv := (sites.filter fun p => tablePriv tbl sites p.1).map fun p => Json.num (Lean.JsonNumber.fromNat p.1)
  pure (Json.mkObj [
    ("progs", Json.arr (progs.map fun p => Json.arr (p.map fun s => Json.str (stepLetter s)).toArray).toArray),
    ("seq", Json.arr (progs.map fun p => outcomeToJson (sequentialResult sh p)).toArray),
    ("runs", Json.arr runs.toArray),
    ("conflictFree", .bool (conflictFreeB progs)),
    ("sameValue", .bool sameValue),
    ("noWrites", .bool noWrites),
    ("treeRacy", .bool (tbl.any fun r => !r.safe && r.readBack)),
    ("private", Json.arr priv.toArray)])

end Typedpy.Drive.Sched
