/-
  Drive/Sched.lean — driver suite `sched` (stub; to be implemented).
-/
import TypedpyModel.Drive.Wire
namespace Typedpy.Drive.Sched
open Lean (Json)

def run (_j : Json) : Except String Json := .error "suite sched not implemented"

end Typedpy.Drive.Sched
