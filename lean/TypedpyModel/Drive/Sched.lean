/-
  Drive/Sched.lean — driver suite `sched`: run the interleaving model (Sem/Sched.lean) on the validation calls and the
  event-level schedules the harness observed on the real code.
  in : {"calls": [call…], "init": [[cell, name]…], "schedules": [[tid…]…]}
       call = {"k":"homog","cell":c,"name":n,"initW":b,"elems":[[v,ok]…]} | {"k":"set","cell":c,"name":n,"elems":…}
            | {"k":"map","kc":c,"vc":c,"name":n,"entries":[[[k,ok],[v,ok]]…]} | {"k":"pos","base":c,"name":n,"n":k,"elems":…}
  out: {"progs": [[step letter…]…], "seq": [outcome…], "runs": [[outcome|null…]…], "conflictFree": bool,
        "tableKeys": [[key, safe]…]}
-/
import Lean.Data.Json
import TypedpyModel.Sem.Sched
namespace Typedpy.Drive.Sched
open Lean (Json)
open Typedpy.Sched

def elemOfJson (j : Json) : Except String (Int × Bool) := do
  let a ← j.getArr?
  if a.size != 2 then throw "elem: expected [v, ok]"
  pure ((← a[0]!.getInt?), (← a[1]!.getBool?))

def elemsOf (j : Json) (k : String) : Except String (List (Int × Bool)) := do
  (← (← j.getObjVal? k).getArr?).toList.mapM elemOfJson

def callOfJson (j : Json) : Except String Call := do
  let k ← (← j.getObjVal? "k").getStr?
  let name ← (← j.getObjVal? "name").getStr?
  match k with
  | "homog" =>
    pure (.homog (← (← j.getObjVal? "cell").getNat?) name (← (← j.getObjVal? "initW").getBool?) (← elemsOf j "elems"))
  | "set" => pure (.set (← (← j.getObjVal? "cell").getNat?) name (← elemsOf j "elems"))
  | "map" =>
    let es ← (← (← j.getObjVal? "entries").getArr?).toList.mapM fun e => do
      let a ← e.getArr?
      if a.size != 2 then throw "entry: expected [[k,ok],[v,ok]]"
      pure ((← elemOfJson a[0]!), (← elemOfJson a[1]!))
    pure (.map (← (← j.getObjVal? "kc").getNat?) (← (← j.getObjVal? "vc").getNat?) name es)
  | "pos" =>
    pure (.pos (← (← j.getObjVal? "base").getNat?) name (← (← j.getObjVal? "n").getNat?) (← elemsOf j "elems"))
  | s => throw s!"unknown call kind {s}"

def stepLetter : Step → String
  | .writeShared c n => s!"W{c}={n}"
  | .newTemp => "N"
  | .storeTemp c _ _ => s!"S{c}"
  | .loadTemp c => s!"R{c}"
  | .emit _ => "E"

def outcomeToJson : Option Outcome → Json
  | none => .null
  | some (.ok out) => Json.mkObj [("ok", Json.arr (out.map fun i => Json.num (Lean.JsonNumber.fromInt i)).toArray)]
  | some (.raised (.invalid n)) => Json.mkObj [("invalid", .str n)]
  | some (.raised (.missing n)) => Json.mkObj [("missing", .str n)]

def run (j : Json) : Except String Json := do
  let calls ← (← (← j.getObjVal? "calls").getArr?).toList.mapM callOfJson
  let init ← match j.getObjVal? "init" with
    | .ok x => (← x.getArr?).toList.mapM fun p => do
        let a ← p.getArr?
        if a.size != 2 then throw "init: expected [cell, name]"
        pure ((← a[0]!.getNat?), (← a[1]!.getStr?))
    | .error _ => pure []
  let scheds ← (← (← j.getObjVal? "schedules").getArr?).toList.mapM fun s => do
    (← s.getArr?).toList.mapM fun t => t.getNat?
  let progs := calls.map Call.prog
  let sh := Shared.ofList init
  let n := progs.length
  let runs := scheds.map fun s =>
    let cfg := Typedpy.Sched.run (Cfg.init sh progs) s
    Json.arr ((List.range n).map fun i => outcomeToJson (resultAt cfg i)).toArray
  pure (Json.mkObj [
    ("progs", Json.arr (progs.map fun p => Json.arr (p.map fun s => Json.str (stepLetter s)).toArray).toArray),
    ("seq", Json.arr (progs.map fun p => outcomeToJson (sequentialResult sh p)).toArray),
    ("runs", Json.arr runs.toArray),
    ("conflictFree", .bool (conflictFreeB progs))])

end Typedpy.Drive.Sched
