/-
  Drive/ConvertHeap.lean — per-case run of the HEAP-level model of `convert_dict` (Sem/AliasC17.lean) with the copy
  sites read off the source under test (Generated/AliasingC17.lean): the document, the Constant values and the
  mappings are laid out as heap cells, user functions act through the call tables, and the run reports
    * whether it raised / what document it returned (read back), to be compared with the value-level model,
    * whether any pre-existing cell changed (`sameBelow`) and whether the result shares a cell with the old heap.
  Trusted glue (encoding of JSON values as cells, scalars interned as atoms).
-/
import TypedpyModel.Sem.AliasC17
import TypedpyModel.Generated.AliasingC17
import TypedpyModel.Spec.ConvertSpec
namespace Typedpy.Drive.ConvertHeap
open Typedpy.Alias Typedpy.AliasC17

abbrev J := Typedpy.Convert.Json

def isScalar : J → Bool
  | .list _ => false
  | .obj _ => false
  | _ => true

/-- scalars of a JSON value (with repetitions) -/
partial def scalarsOf : J → List J
  | .list xs => (xs.map scalarsOf).flatten
  | .obj kvs => (kvs.map fun p => scalarsOf p.2).flatten
  | j => [j]

/-- the atom table: index = atom code; code 0 is `None` -/
def internAll (js : List J) : Array J :=
  js.foldl (fun acc j => if acc.any (fun x => x.beq j) then acc else acc.push j) #[Typedpy.Convert.Json.null]

def codeOf (tbl : Array J) (j : J) : Int :=
  match tbl.findIdx? (fun x => x.beq j) with
  | some i => (i : Int)
  | none => -1

/-- lay a JSON value out in the heap (children first); returns the item -/
partial def encode (tbl : Array J) (h : Heap) : J → Heap × Item
  | .list xs =>
    let (h1, its) := xs.foldl (fun (acc : Heap × List Item) x =>
      let (h', it) := encode tbl acc.1 x
      (h', acc.2 ++ [it])) (h, [])
    let p := h1.alloc ⟨"list", (List.range its.length).zip its |>.map fun q => (toString q.1, q.2)⟩
    (p.1, .ref p.2)
  | .obj kvs =>
    let (h1, its) := kvs.foldl (fun (acc : Heap × List (String × Item)) kv =>
      let (h', it) := encode tbl acc.1 kv.2
      (h', acc.2 ++ [(kv.1, it)])) (h, [])
    let p := h1.alloc ⟨"dict", its⟩
    (p.1, .ref p.2)
  | j => (h, .atom (codeOf tbl j))

/-- read an item back as a JSON value -/
partial def decode (tbl : Array J) (h : Heap) : Item → J
  | .atom i => if i < 0 then .str "<unknown atom>" else (tbl[i.toNat]?).getD (.str "<unknown atom>")
  | .ref a =>
    let c := h.cells a
    if c.tag == "dict" then .obj (c.items.map fun p => (p.1, decode tbl h p.2))
    else .list (c.items.map fun p => decode tbl h p.2)

def atomsOf (tbl : Array J) : Atoms :=
  { none := 0
    isNone := fun i => i == 0
    truthyA := fun i => if i < 0 then true else Typedpy.Convert.truthy ((tbl[i.toNat]?).getD .null)
    delRaises := fun k h it =>
      match Typedpy.Convert.nonObjContains k (decode tbl h it) with
      | some false => false
      | _ => true }

/-- a user function on the heap: read the arguments back, ask the table, lay the answer out in new cells -/
def heapFn (tbl : Array J) (f : Typedpy.Convert.UserFn) : Heap → List Item → R Item := fun h args =>
  match f (args.map (decode tbl h)) with
  | .ok r => let p := encode tbl h r; (p.1, some p.2)
  | .error _ => (h, none)

/-- mappings to heap-level mappings; Constant values are laid out in the (old) heap -/
partial def encodeMapping (tbl : Array J) (h : Heap) (m : Typedpy.Convert.Mapping) : Heap × HMapping :=
  m.foldl (fun (acc : Heap × HMapping) p =>
    match p.2 with
    | .const v => let q := encode tbl acc.1 v; (q.1, acc.2 ++ [(p.1, HEntry.const q.2)])
    | .deleted => (acc.1, acc.2 ++ [(p.1, HEntry.deleted)])
    | .move path => (acc.1, acc.2 ++ [(p.1, HEntry.move path)])
    | .fn f args => (acc.1, acc.2 ++ [(p.1, HEntry.fn (heapFn tbl f) args)])
    | .sub m' => let q := encodeMapping tbl acc.1 m'; (q.1, acc.2 ++ [(p.1, HEntry.sub q.2)])) (h, [])

partial def constsOf (m : Typedpy.Convert.Mapping) : List J :=
  (m.map fun p => match p.2 with
    | .const v => scalarsOf v
    | .sub m' => constsOf m'
    | _ => []).flatten

structure Report where
  raised : Bool
  result : Option J
  inputIntact : Bool
  shared : List (List String)

/-- run `convert_dict(doc, ms)` on the heap; `extra` = further scalars that may occur (results of the call tables);
    `none` = the start version is not an integer (the value-level model raises before anything happens) -/
def run (sites : Sites) (doc : J) (ms : List Typedpy.Convert.Mapping) (extra : List J) : Option Report :=
  match doc with
  | .obj kvs =>
    match Typedpy.Convert.startVersion kvs with
    | .error _ => none
    | .ok v =>
      if v < 1 then none else
      let sliced := Typedpy.Convert.pySliceFrom (v - 1) ms
      let vers : List J := (List.range (sliced.length + 1)).map fun (i : Nat) => Typedpy.Convert.Json.int (v + (i : Int) + 1)
      let tbl := internAll (scalarsOf doc ++ (ms.map constsOf).flatten ++ extra ++ vers)
      let (h0, docItem) := encode tbl (Heap.ofList []) doc
      let (h1, hms) := sliced.foldl (fun (acc : Heap × List HMapping) m =>
        let q := encodeMapping tbl acc.1 m; (q.1, acc.2 ++ [q.2])) (h0, [])
      let ver : Nat → Int := fun i => codeOf tbl (.int (v + (i : Int) + 1))
      let out := hConvertDict (atomsOf tbl) sites 200 ver hms h1 docItem
      let old := List.range h1.next
      some { raised := out.2.isNone
             result := out.2.map (decode tbl out.1)
             inputIntact := sameBelow h1.next h1 out.1
             shared := match out.2 with
               | some r => sharedPaths 64 out.1 old [] r
               | none => [] }
  | _ => none

end Typedpy.Drive.ConvertHeap

