/-
  Drive/Errors.lean — driver suite `errors` (stub; to be implemented).
-/
import TypedpyModel.Drive.Wire
namespace Typedpy.Drive.Errors
open Lean (Json)

def run (_j : Json) : Except String Json := .error "suite errors not implemented"

end Typedpy.Drive.Errors
