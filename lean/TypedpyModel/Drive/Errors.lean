/-
  Drive/Errors.lean — driver suite `errors` (C18).

  Input  {cls, kw, ff, mode, msg?, re}:
    cls   class declaration (wire), fields in signature order (flat, or any declaration: collections at any
          depth, nested / inline structures)
    clsDef  (deser cases) the same class with every nested class's fields in DEFINITION order, for `deser`
    via / viaName / baseName  a class typedpy derived (Partial / AllFieldsRequired / Extend / Omit / Pick):
          kind, explicit name, base class name — the model name is Lean `derivedName`
    keepUndefined  keep_undefined as deserialize_structure_internal receives it
    kw    the keyword arguments as the real constructor received them (for `deser` cases: the
          lifted arguments, used only for `invalid`)
    ff    Structure.failing_fast()
    mode  "construct" | "deser" | "nested"
    msg   str(exception) of the real run (absent when nothing was raised)
    doc   (deser cases) the document values as handed to Deserializer, for the phase-one model
    mapper  [[field, document key] …] when a key-renaming mapper is in effect (doc is then keyed by
            document keys)
    order   field names in class-definition order (the order construct_fields_map visits them)
    scratch [[field, [inner Field `_name`s …]] …] observed just before the call
    alnum the non-ASCII characters of msg for which Python's str.isalnum() holds (oracle answers)
  Output:
    invalid  supplied fields that `validate` rejects (signature order) — the property's right-hand side
    raised   what the construction model raises: kind, exception class, per site: top, path, shape,
             head (the text the message must begin with); for the real message(s): whether each
             begins with its head and has the model's shape
    p1sites  (deser) the phase-one rejection sites (field, kind named/inner/foreign, head the text
             must begin with, exception class), aligned with the real message(s): headOk
    phase1   (deser) supplied fields the model of `deserialize_single_field` rejects;
             deserCollected = what collect-all deserialization reports (phase one's if any, else the
             constructor's)
    deep     (deser, class outside the flat domain) accept / reject, exception class, constructor arguments and
             `invalid` come from `deser` (Sem/Deser.lean), the sites from `p1SitesD` / `dHead`
    path     every field is in the path model's domain (`isPathDecl`)
    cmp      per constructor site and real text: headOk, shapeOk, problemOk (the theorems' side condition
             `goodTexts` on the real text), templateOk (typedpy's problem templates; evidence only)
    p1VsDeser  the flat phase-one model and `deser` agree on this (flat) document
    clsName / clsNameModel / clsNameWordReal / clsNameWordModel  class name of the heads, the model's name for
             a derived class, and whether each is in the field group
    readable the helper model on `msg`: {"raises": true} | {"single": info} | {"many": [info]}
  The JSON codec oracle is instantiated with Lean.Data.Json here (trusted glue).
-/
import TypedpyModel.Drive.Wire
import TypedpyModel.Sem.Errors
namespace Typedpy.Drive.Errors
open Lean (Json)
open Typedpy Typedpy.Wire Typedpy.Err

def ofText (t : Text) : String := String.ofList t

/-- `json.loads` + iteration as strings, through Lean's JSON parser -/
def loadsImpl (t : Text) : Loaded :=
  match Json.parse (ofText t) with
  | .error _ => .invalid
  | .ok (.arr xs) =>
    if xs.all (fun x => match x with | .str _ => true | _ => false) then
      .strs (xs.toList.map fun x => match x with | .str s => s.toList | _ => [])
    else .raises
  | .ok (.str s) => .strs (s.toList.map fun c => [c])
  | .ok (.obj kvs) => .strs (kvs.toList.map fun kv => kv.1.toList)
  | .ok _ => .raises

/-- the field group is fully modelled since /repo 18c6055 (`pyFieldWord`); `alnum` (the harness's
    `str.isalnum()` answers) is no longer consulted -/
def codec (_alnum : List Char) : Codec :=
  { dumps := fun ts => (Json.arr (ts.map fun t => Json.str (ofText t)).toArray).compress.toList
    loads := loadsImpl
    word := pyFieldWord }

def optText : Option Text → Json
  | none => .null
  | some t => .str (ofText t)

partial def infoToJson : Info → Json
  | .leaf f v p => Json.mkObj [("field", optText f), ("value", optText v), ("problem", .str (ofText p))]
  | .node f v subs => Json.mkObj [("field", optText f), ("value", optText v),
                                  ("subs", Json.arr (subs.map infoToJson).toArray)]

def readableToJson (alnum : List Char) (ff : Bool) (msg : String) : Json :=
  match readable ff (codec alnum) msg.toList with
  | .error e => Json.mkObj [("raises", .str e)]
  | .ok (.single i) => Json.mkObj [("single", infoToJson i)]
  | .ok (.many is) => Json.mkObj [("many", Json.arr (is.map infoToJson).toArray)]

def shapeName : Shape → String
  | .gotFirst => "gotFirst" | .gotLast => "gotLast" | .plain => "plain"

/-- the text a site's message must begin with (class prefix included) -/
def siteHead (cls : Text) (s : Site) : Text :=
  withClass (some cls) (s.path ++ (':' :: ' ' :: (if s.loc.shape == .gotFirst then sGot else [])))

def isPrefix (p t : Text) : Bool := (dropPre p t).isSome

/-- per (site, real message text): does the text begin with the head; does it have the shape -/
def siteVsText (cls : Text) (s : Site) (t : Text) : Json :=
  let full := withClass (some cls) (s.path ++ [':', ' '])
  let rest := match dropPre full t with | some r => r | none => []
  Json.mkObj [("headOk", .bool (isPrefix (siteHead cls s) t)),
              ("shapeOk", .bool (match s.loc.shape with
                | .gotFirst => true
                | .gotLast => (splitLast sSemiGot rest).isSome
                | .plain => true)),
              -- the hypothesis of the render → parse theorems (`goodTexts`) holds of the real text
              ("problemOk", .bool (bodyWellFormed s.loc.shape
                (match s.loc.shape with | .gotFirst => (dropPre sGot rest).getD [] | _ => rest))),
              -- (evidence only) the problem text is an instance of typedpy's templates
              ("templateOk", .bool (bodyHasTemplate s.loc.shape
                (match s.loc.shape with | .gotFirst => (dropPre sGot rest).getD [] | _ => rest)))]

def siteToJson (cls : Text) (s : Site) : Json :=
  Json.mkObj [("top", .str s.top), ("path", .str (ofText s.path)), ("shape", .str (shapeName s.loc.shape)),
              ("cls", .str (errName s.cls)),
              ("head", .str (ofText (siteHead cls s)))]

def p1KindName : P1Kind → String
  | .named => "named" | .inner => "inner" | .foreign => "foreign" | .nested => "nested"

/-- phase-one site vs the aligned real text (class prefix stripped when `pre` is given) -/
def p1SiteToJson (pre : Option Text) (s : P1Site) (t : Option Text) : Json :=
  let headOk := match s.head, t with
    | some h, some t => isPrefix (withClass pre h) t
    | _, _ => true
  Json.mkObj [("top", .str s.top), ("kind", .str (p1KindName s.kind)),
              ("head", match s.head with | some h => .str (ofText (withClass pre h)) | none => .null),
              ("cls", .str (errName s.cls)), ("headOk", .bool headOk)]

def scratchOfJson (j : Json) : Except String (List (String × List (Option String))) :=
  match optField j "scratch" with
  | none => pure []
  | some x => do
    (← x.getArr?).toList.mapM fun kv => do
      let p ← kv.getArr?
      let names ← (← p[1]!.getArr?).toList.mapM fun n =>
        match n with
        | .null => pure none
        | n => do pure (some (← n.getStr?))
      pure ((← p[0]!.getStr?), names)

def run (j : Json) : Except String Json := do
  let O ← oraclesOfJson j
  let decl ← declOfJson (← j.getObjVal? "cls")
  let kw ← kwOfJson (← j.getObjVal? "kw")
  let ff ← optBool j "ff" true
  let mode ← (← j.getObjVal? "mode").getStr?
  let msg ← optStr j "msg"
  let rawDoc ← match optField j "doc" with | none => pure [] | some x => kwOfJson x
  let mapper : List (String × String) ← match optField j "mapper" with
    | none => pure []
    | some x => (← x.getArr?).toList.mapM fun kv => do
      let p ← kv.getArr?
      pure ((← p[0]!.getStr?), (← p[1]!.getStr?))
  let alnum := ((← optStr j "alnum").getD "").toList
  let order ← strList j "order"
  let scratch ← scratchOfJson j
  let opts : DeserOpts := { keepUndefined := ← optBool j "keepUndefined" true,
                            ignoreInvalidAddl := ← optBool j "ignoreInvalidAddl" true }
  -- a class typedpy derived (Partial / AllFieldsRequired / Extend / Omit / Pick): its NAME is the model's
  let via ← optStr j "via"
  let viaName ← optStr j "viaName"
  let baseName := ((← optStr j "baseName").getD "").toList
  let derive : Option Derive := match via with
    | some "partial" => some .partialOf | some "allrequired" => some .allRequired
    | some "extend" => some .extend | some "omit" => some .omit | some "pick" => some .pick
    | _ => none
  -- the message heads carry the REAL class name; the model's name for a derived class is compared
  -- through the property-relevant abstraction only: is it in `[\w.]+` (a harmless renaming is no alarm)
  let modelName : Option Text := derive.map fun d => derivedName d (viaName.map (·.toList)) baseName
  match decl with
  | .struct c fields _ =>
    -- the document as handed to the real code (document keys), re-keyed through the mapper
    let doc := if mapper.isEmpty then rawDoc else docOfMapped mapper rawDoc fields
    let cls := c.name.toList
    let flat := fields.all fun nf => isFlatDecl nf.2
    -- the extended domain of the path model: collections at any depth over scalars / class references
    let pathOk := fields.all fun nf => isPathDecl nf.2
    -- deserialization of a class outside the flat domain: accept / reject, the deserialized
    -- constructor arguments and the invalid set come from `deser` (Sem/Deser.lean) at any depth
    let deep := mode == "deser" && !flat
    -- for the deserialization model: the class with every nested class's fields in DEFINITION order
    let fieldsDef ← match optField j "clsDef" with
      | none => pure fields
      | some x => do
        match (← declOfJson x) with
        | .struct _ fs _ => pure fs
        | _ => pure fields
    let declDef := fun (n : String) => (lookup n fieldsDef)
    -- top-level fields in signature order, each with its definition-order declaration
    let fieldsD := fields.map fun nf => (nf.1, (declDef nf.1).getD nf.2)
    let kw := if deep then deserArgs O opts c.ignoreNone doc fieldsD else kw
    let invalid := if deep then deserInvalid O opts c.ignoreNone doc fieldsD else invalidFields O c kw fields
    let ss := sites O c kw fields
    let bind := !bindOk c (fields.map (·.1)) kw
    let kind := if bind then "bind" else match ss with
      | [] => "nothing"
      | _ :: _ => if ff then "single" else "collected"
    -- the real message(s), aligned with the model's sites
    let texts : List Text := match msg with
      | none => []
      | some m => if ff then [m.toList] else match loadsImpl m.toList with
        | .strs xs => xs
        | _ => [m.toList]
    let expected := if ff then ss.take 1 else ss
    let cmp := (expected.zip texts).map fun st => siteVsText cls st.1 st.2
    -- phase-one sites of deserialization, in class-definition order, aligned with the real texts
    let defFields := order.filterMap fun n => (lookup n fields).map fun f => (n, f)
    let defFieldsD := (if order.isEmpty then fields.map (·.1) else order).filterMap fun n =>
      (lookup n fieldsD).map fun f => (n, f)
    let p1 := if deep then p1SitesD O opts c.ignoreNone scratch doc defFieldsD
              else p1Sites O scratch doc (if order.isEmpty then fields else defFields)
    let p1Expected := if ff then p1.take 1 else p1
    let p1Pre : Option Text := if ff then none else some cls
    let p1Json := (List.range p1Expected.length).map fun i =>
      match p1Expected[i]? with
      | some st => p1SiteToJson p1Pre st texts[i]?
      | none => Json.null
    let base := [("p1sites", Json.arr p1Json.toArray),
                 ("invalid", Json.arr (invalid.map Json.str).toArray),
                 ("flat", Json.bool flat),
                 ("clsName", Json.str c.name),
                 ("clsNameModel", match modelName with | some n => Json.str (ofText n) | none => Json.null),
                 ("clsNameWordReal", Json.bool (identOk (codec alnum).word c.name.toList)),
                 ("clsNameWordModel", match modelName with
                    | some n => Json.bool (identOk (codec alnum).word n) | none => Json.null),
                 ("path", Json.bool pathOk),
                 ("kind", Json.str kind),
                 ("sites", Json.arr (expected.map (siteToJson cls)).toArray),
                 ("nTexts", Json.num (Lean.JsonNumber.fromNat texts.length)),
                 ("cmp", Json.arr cmp.toArray),
                 ("mode", Json.str mode),
                 ("deep", Json.bool deep),
                 -- the two Lean models of phase one (flat `p1Rejects`, general `deser` of Sem/Deser.lean) agree
                 ("p1VsDeser", Json.bool (deep || mode != "deser" ||
                    phaseOneInvalid O doc fields ==
                      (fieldsD.filterMap fun nf => match lookup nf.1 doc with
                        | none => none
                        | some v => if v.isNone then none else
                          if isOk (deser O opts c.ignoreNone nf.2 v) then none else some nf.1))),
                 ("phase1", Json.arr ((if deep then (p1SitesD O opts c.ignoreNone scratch doc fieldsD).map (·.top)
                                       else phaseOneInvalid O doc fields).map Json.str).toArray),
                 ("deserCollected", Json.arr ((deserCollected O c doc kw fields).map Json.str).toArray)]
    let rd := match msg with
      | none => []
      | some m => [("readable", readableToJson alnum ff m)]
    pure (Json.mkObj (base ++ rd))
  | _ => throw "errors: cls is not a class declaration"

end Typedpy.Drive.Errors
