/-
  Drive/Shortcut.lean — driver suite `shortcut` (property C10): the eligibility verdict, the
  regular and the trusted deserialization of a document, trusted construction, fast
  serialization; plus the proved-region predicates and the names of the known defects.
-/
import TypedpyModel.Drive.Wire
import TypedpyModel.Sem.Trusted
import TypedpyModel.Sem.Fast
import TypedpyModel.Spec.TrustedSafe
import TypedpyModel.Spec.FastSafe
namespace Typedpy.Drive.Shortcut
open Lean (Json)
open Typedpy Typedpy.Wire

def mapperOfJson (j : Json) : Except String TMapper :=
  match j with
  | .str "none" => pure .none
  | .str "camel" => pure .camel
  | .str "lower" => pure .lower
  | .str "complex" => pure (.complex false)
  | .str "complex-list" => pure (.complex true)
  | .str s => throw s!"mapper {s}"
  | _ => do
    let r ← j.getObjVal? "rename"
    let d ← (← r.getArr?).toList.mapM fun kv => do
      let p ← kv.getArr?
      pure ((← p[0]!.getStr?), (← p[1]!.getStr?))
    pure (.rename d)

def optMapper (j : Json) (k : String) : Except String (Option TMapper) :=
  match optField j k with
  | none => pure none
  | some .null => pure none
  | some x => do pure (some (← mapperOfJson x))

/-- `mapperDecls`: per class the declared attributes; the model resolves the one the trusted path reads -/
def mapDeclsOfJson (x : Json) : Except String (List (String × MapperDecl)) := do
  (← x.getArr?).toList.mapM fun kv => do
    let p ← kv.getArr?
    let d := p[1]!
    pure ((← p[0]!.getStr?), { ser := ← optMapper d "ser", deser := ← optMapper d "deser",
                               baseSer := ← optMapper d "baseSer", baseDeser := ← optMapper d "baseDeser" })

def mapEnvOfJson (j : Json) : Except String (MapEnv × Bool) :=
  match optField j "mapperDecls", optField j "mappers" with
  | some x, _ => do
    let tbl ← mapDeclsOfJson x
    pure (mapEnvOf tbl, tbl.isEmpty)
  | none, none => pure (noMappers, true)
  | none, some x => do
    let tbl ← (← x.getArr?).toList.mapM fun kv => do
      let p ← kv.getArr?
      pure ((← p[0]!.getStr?), (← mapperOfJson p[1]!))
    pure (fun n => (lookup n tbl).getD .none, tbl.all fun p => p.2.isNone)

def chainedOfJson (j : Json) : Except String Bool :=
  match optField j "mapperDecls" with
  | none => pure false
  | some x => do pure ((← mapDeclsOfJson x).any fun p => p.2.chained)

def verdictStr : Verdict → String
  | .raises => "raises" | .no => "no" | .lvl .flat => "flat" | .lvl .nested => "nested"

def optsOfJson (j : Json) : Except String DeserOpts := do
  pure { keepUndefined := ← optBool j "keepUndefined" true,
         ignoreInvalidAddl := ← optBool j "ignoreInvalidAddl" true }

def strs (l : List String) : Json := Json.arr (l.map Json.str).toArray

def run (j : Json) : Except String Json := do
  let O ← oraclesOfJson j
  let cls ← declOfJson (← j.getObjVal? "cls")
  let (Mp, mapperFree) ← mapEnvOfJson j
  let opts ← match optField j "opts" with | none => pure {} | some x => optsOfJson x
  let mode ← (← j.getObjVal? "mode").getStr?
  let mut out : List (String × Json) := []
  if mode == "trusted" then
    let d ← valOfJson (← j.getObjVal? "doc")
    let v := verdictOf Mp cls
    out := out ++ [("verdict", .str (verdictStr v)), ("wf", .bool (wfDecl cls)),
                   ("tsafe", .bool (tsafeCls cls)), ("plain", .bool (plainDoc opts cls d)),
                   ("declDefects", strs (declDefects cls)),
                   ("docIssues", strs (if mapperFree then docIssues opts cls d
                                        else (docIssues opts cls (untrV Mp cls d) ++ docIssues opts cls d).eraseDups)),
                   ("cascade", .bool (cascades Mp [] cls)), ("eligible", .bool (eligible Mp cls)),
                   ("baseChain", .bool (← chainedOfJson j))]
    let tru := deserializeTrusted Mp O opts cls d
    out := out ++ [("trusted", resToJson tru)]
    if !mapperFree then
      -- the regular path with per-class simple mappers, as `deserializeMapped` describes it (Props/C10
      -- trusted_mapper_equiv_partial); `simpleMappers`: no class of the tree has an unsupported mapper
      let simple ← match optField j "mappers" with
        | some x => do
          let bs ← (← x.getArr?).toList.mapM fun kv => do
            let p ← kv.getArr?
            pure (!(← mapperOfJson p[1]!).isComplex)
          pure (bs.all id)
        | none => pure true
      let regM := deserializeMapped Mp O opts cls d
      out := out ++ [("simpleMappers", .bool simple), ("plainMapped", .bool (plainDoc opts cls (untrV Mp cls d))),
                     ("regularMapped", resToJson regM)]
      match regM, tru with
      | .ok x, .ok y => out := out ++ [("eqvMapped", .bool (eqv x y)),
                                       ("serSameMapped", .bool (match serialize O cls x, serialize O cls y with
                                          | .ok a, .ok b => PyVal.pyEq a b
                                          | .error _, .error _ => true
                                          | _, _ => false))]
      | _, _ => pure ()
    if mapperFree then
      let reg := deserialize O opts cls d
      out := out ++ [("regular", resToJson reg)]
      match reg with
      | .ok x => out := out ++ [("serX", resToJson (serialize O cls x))]
      | .error _ => pure ()
      match tru with
      | .ok y => out := out ++ [("serY", resToJson (serialize O cls y)), ("yWellFormed", .bool (wellFormed O cls y))]
      | .error _ => pure ()
      match reg, tru with
      | .ok x, .ok y => out := out ++ [("eqv", .bool (eqv x y))]
      | _, _ => pure ()
  else if mode == "construct" then
    let kw ← kwOfJson (← j.getObjVal? "kw")
    let x := construct O cls kw
    out := out ++ [("validated", resToJson x), ("trustedKw", resToJson (fromTrustedKw cls kw)),
                   ("trustedMap", resToJson (fromTrustedMap cls kw)),
                   ("stored", .bool (storedKw cls kw)), ("kwIssues", strs (kwIssues cls kw))]
    match x, fromTrustedKw cls kw with
    | .ok a, .ok b => out := out ++ [("eqvKw", .bool (eqv a b))]
    | _, _ => pure ()
    match x, fromTrustedMap cls kw with
    | .ok a, .ok b => out := out ++ [("eqvMap", .bool (eqv a b))]
    | _, _ => pure ()
  else if mode == "fast" then
    let x ← valOfJson (← j.getObjVal? "x")
    let sn ← optBool j "serializeNone" false
    let compact ← optBool j "compact" false
    let nonFast ← strList j "nonFast"
    let jsonEnums ← strList j "jsonEnums"    -- enum classes whose members are int / float / str instances
    let created := createOk Mp nonFast cls
    out := out ++ [("created", .bool created), ("fsafe", .bool (fsafeCls nonFast cls)),
                   ("fplain", .bool (fplainInst cls x)), ("fwf", .bool (fwf O cls x)),
                   ("fastDefects", strs (fastDefects Mp nonFast compact sn cls x))]
    let firstUse ← optBool j "firstUse" false   -- the instance is the FIRST one of a fresh class, built by a trusted path
    if created then
      out := out ++ [("fast", resToJson (if firstUse then fastSerializeFirst Mp nonFast jsonEnums false cls x
                                         else fastSerialize Mp nonFast jsonEnums sn compact cls x))]
    if mapperFree then
      out := out ++ [("regular", resToJson (serializeCompact O compact cls x))]
    else
      -- one simple, injective mapper per class (Props/C10 fast_mapper_full_equiv_partial): the regular document is
      -- then the mapper-free one with every class-level object's keys renamed by its class's own mapper
      let region := fmsafeD Mp cls
      out := out ++ [("fmapRegion", .bool region)]
      if region && !compact then
        out := out ++ [("regularMapped", resToJson (bindE (serialize O cls (canonV cls x)) fun j => .ok (relV Mp cls j)))]
  else if mode == "oracle" then
    pure ()       -- cases outside the model (Enum serialization_by_value): the harness runs the oracle only
  else throw s!"shortcut: unknown mode {mode}"
  pure (Json.mkObj out)

end Typedpy.Drive.Shortcut
