/-
  Drive/Mutate.lean — driver suite `mutate` (stub; to be implemented).
-/
import TypedpyModel.Drive.Wire
namespace Typedpy.Drive.Mutate
open Lean (Json)

def run (_j : Json) : Except String Json := .error "suite mutate not implemented"

end Typedpy.Drive.Mutate
