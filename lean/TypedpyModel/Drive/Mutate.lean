/-
  Drive/Mutate.lean — driver suite `mutate`: a start instance and a history of operations run
  through `Sem/Mutate.step` with the generated wrapper table; per step the outcome and the state;
  plus `wellFormed` evaluated on every state the real code was in.
-/
import TypedpyModel.Drive.Wire
import TypedpyModel.Sem.Mutate
import TypedpyModel.Spec.Conforms
import TypedpyModel.Generated.Wrappers
namespace Typedpy.Drive.Mutate
open Lean (Json)
open Typedpy Typedpy.Wire

def pairsOfJson (j : Json) : Except String (List (PyVal × PyVal)) := do
  match ← valOfJson j with
  | .dict kvs => pure kvs
  | .list xs => xs.mapM fun x => match x with
    | .tuple [a, b] | .list [a, b] => pure (a, b)
    | _ => throw "pairs: expected 2-sequences"
  | _ => throw "pairs: expected a dict or list of pairs"

def listOfJson (j : Json) : Except String (List PyVal) := do
  match ← valOfJson j with
  | .list xs | .tuple xs | .deque xs => pure xs
  | .set _ xs => pure xs
  | _ => throw "list argument expected"

def nopOfJson (name : String) (args : Array Json) : Except String NOp := do
  let v (i : Nat) : Except String PyVal := valOfJson args[i]!
  let int (i : Nat) : Except String Int := args[i]!.getInt?
  match name, args.size with
  | "__setitem__", 2 => pure (.setitem (← v 0) (← v 1))
  | "__delitem__", 1 => pure (.delitem (← v 0))
  | "append", 1 => pure (.append (← v 0))
  | "appendleft", 1 => pure (.appendleft (← v 0))
  | "extend", 1 => pure (.extend (← listOfJson args[0]!))
  | "extendleft", 1 => pure (.extendleft (← listOfJson args[0]!))
  | "insert", 2 => pure (.insert (← int 0) (← v 1))
  | "remove", 1 => pure (.remove (← v 0))
  | "pop", 0 => pure (.pop none none)
  | "pop", 1 => pure (.pop (some (← v 0)) none)
  | "pop", 2 => pure (.pop (some (← v 0)) (some (← v 1)))
  | "popleft", 0 => pure .popleft
  | "popitem", 0 => pure .popitem
  | "clear", 0 => pure .clear
  | "sort", 0 => pure .sort
  | "reverse", 0 => pure .reverse
  | "rotate", 1 => pure (.rotate (← int 0))
  | "__iadd__", 1 => pure (.iadd (← listOfJson args[0]!))
  | "__imul__", 1 => pure (.imul (← int 0))
  | "update", 1 => pure (.update (← pairsOfJson args[0]!))
  | "setdefault", 2 => pure (.setdefault (← v 0) (← v 1))
  | "__ior__", 1 => pure (.ior (← pairsOfJson args[0]!))
  | n, k => throw s!"mutator {n}/{k}"

def opOfJson (j : Json) : Except String Op := do
  let kind ← (← j.getObjVal? "op").getStr?
  let f ← (← j.getObjVal? "f").getStr?
  match kind with
  | "setattr" => pure (.setattr f (← valOfJson (← j.getObjVal? "v")))
  | "delitem" => pure (.delitem f)
  | "call" => do
    let args ← (← j.getObjVal? "args").getArr?
    pure (.call f (← nopOfJson (← (← j.getObjVal? "m").getStr?) args))
  | "callNested" => do
    let args ← (← j.getObjVal? "args").getArr?
    pure (.callNested f (← valOfJson (← j.getObjVal? "k")) (← nopOfJson (← (← j.getObjVal? "m").getStr?) args))
  | k => throw s!"op {k}"

def errName : MErr → String
  | .typeErr => "TypeError" | .valueErr => "ValueError" | .both => "InvalidStructureErr"
  | .indexErr => "IndexError" | .keyErr => "KeyError" | .other n => n

def outcomeJson : Outcome → Json
  | .ok => .str "ok"
  | .err e => .str (errName e)

def run (j : Json) : Except String Json := do
  let O ← oraclesOfJson j
  let cls ← declOfJson (← j.getObjVal? "cls")
  let kw ← kwOfJson (← j.getObjVal? "kw")
  let ops ← (← (← j.getObjVal? "ops").getArr?).toList.mapM opOfJson
  match cls with
  | .struct c fields _ =>
    let start := construct O cls kw
    let steps : List Json := match start with
      | .ok (.inst _ attrs) =>
        let rec go (s : Attrs) : List Op → List Json
          | [] => []
          | op :: rest =>
            let r := step Generated.wrappers O c fields s op
            Json.mkObj [("out", outcomeJson r.2), ("state", valToJson (.inst c.name r.1))] :: go r.1 rest
        go attrs ops
      | _ => []
    let implWf ← match optField j "implStates" with
      | none => pure []
      | some x => (← x.getArr?).toList.mapM fun st => do
        pure (Json.bool (wellFormed O cls (← valOfJson st)))
    pure (Json.mkObj [("start", resToJson start), ("steps", Json.arr steps.toArray),
                      ("implWf", Json.arr implWf.toArray)])
  | _ => throw "mutate: cls must be a struct"

end Typedpy.Drive.Mutate
