/-
  Drive/Mutate.lean — driver suite `mutate`: a start instance and a history of operations run
  through `Sem/Mutate.step` with the generated wrapper table; per step the outcome and the state;
  plus `wellFormed` evaluated on every state the real code was in.
-/
import TypedpyModel.Drive.Wire
import TypedpyModel.Sem.Mutate
import TypedpyModel.Spec.Conforms
import TypedpyModel.Generated.Wrappers
namespace Typedpy.Drive.Mutate
open Lean (Json)
open Typedpy Typedpy.Wire

def pairsOfJson (j : Json) : Except String (List (PyVal × PyVal)) := do
  match ← valOfJson j with
  | .dict kvs => pure kvs
  | .list xs => xs.mapM fun x => match x with
    | .tuple [a, b] | .list [a, b] => pure (a, b)
    | _ => throw "pairs: expected 2-sequences"
  | _ => throw "pairs: expected a dict or list of pairs"

def listOfJson (j : Json) : Except String (List PyVal) := do
  match ← valOfJson j with
  | .list xs | .tuple xs | .deque xs => pure xs
  | .set _ xs => pure xs
  | _ => throw "list argument expected"

def nopOfJson (name : String) (args : Array Json) : Except String NOp := do
  let v (i : Nat) : Except String PyVal := valOfJson args[i]!
  let int (i : Nat) : Except String Int := args[i]!.getInt?
  match name, args.size with
  | "__setitem__", 2 => pure (.setitem (← v 0) (← v 1))
  | "__delitem__", 1 => pure (.delitem (← v 0))
  | "append", 1 => pure (.append (← v 0))
  | "appendleft", 1 => pure (.appendleft (← v 0))
  | "extend", 1 => pure (.extend (← listOfJson args[0]!))
  | "extendleft", 1 => pure (.extendleft (← listOfJson args[0]!))
  | "insert", 2 => pure (.insert (← int 0) (← v 1))
  | "remove", 1 => pure (.remove (← v 0))
  | "pop", 0 => pure (.pop none none)
  | "pop", 1 => pure (.pop (some (← v 0)) none)
  | "pop", 2 => pure (.pop (some (← v 0)) (some (← v 1)))
  | "popleft", 0 => pure .popleft
  | "popitem", 0 => pure .popitem
  | "clear", 0 => pure .clear
  | "sort", 0 => pure .sort
  | "reverse", 0 => pure .reverse
  | "rotate", 1 => pure (.rotate (← int 0))
  | "__iadd__", 1 => pure (.iadd (← listOfJson args[0]!))
  | "__imul__", 1 => pure (.imul (← int 0))
  | "update", 1 => pure (.update (← pairsOfJson args[0]!))
  | "setdefault", 2 => pure (.setdefault (← v 0) (← v 1))
  | "__ior__", 1 => pure (.ior (← pairsOfJson args[0]!))
  | "sort", 2 => pure (.sortWith (← args[0]!.getStr?) (← args[1]!.getBool?))
  | n, k => throw s!"mutator {n}/{k}"

def optInt (j : Json) : Except String (Option Int) :=
  match j with
  | .null => pure none
  | x => do pure (some (← x.getInt?))

/-- a mutator call; `"slice": [lo, hi, step]` (null = left out) turns `__setitem__` / `__delitem__`
    into the slice forms -/
def callOfJson (j : Json) : Except String NOp := do
  let args ← (← j.getObjVal? "args").getArr?
  let m ← (← j.getObjVal? "m").getStr?
  match optField j "slice" with
  | some sl => do
    let b ← sl.getArr?
    let lo ← optInt b[0]!
    let hi ← optInt b[1]!
    let st ← optInt b[2]!
    match m with
    | "__setitem__" => pure (.setslice lo hi st (← listOfJson args[0]!))
    | "__delitem__" => pure (.delslice lo hi st)
    | n => throw s!"slice form of {n}"
  | none => nopOfJson m args

def opOfJson (j : Json) : Except String Op := do
  let kind ← (← j.getObjVal? "op").getStr?
  let f ← (← j.getObjVal? "f").getStr?
  match kind with
  | "setattr" => pure (.setattr f (← valOfJson (← j.getObjVal? "v")))
  | "delitem" => pure (.delitem f)
  | "call" => do pure (.call f (← callOfJson j))
  | "callNested" => do
    pure (.callNested f (← valOfJson (← j.getObjVal? "k")) (← callOfJson j))
  | k => throw s!"op {k}"

def ropOfJson (j : Json) : Except String ROp := do
  let kind ← (← j.getObjVal? "op").getStr?
  match kind with
  | "take" => pure (.take (← (← j.getObjVal? "f").getStr?))
  | "assignRef" => do pure (.assignRef (← (← j.getObjVal? "f").getStr?) (← (← j.getObjVal? "i").getNat?))
  | "callRef" => do pure (.callRef (← (← j.getObjVal? "i").getNat?) (← callOfJson j))
  | _ => do pure (.plain (← opOfJson j))

def errName : MErr → String
  | .typeErr => "TypeError" | .valueErr => "ValueError" | .both => "InvalidStructureErr"
  | .indexErr => "IndexError" | .keyErr => "KeyError" | .other n => n

def outcomeJson : Outcome → Json
  | .ok => .str "ok"
  | .err e => .str (errName e)

def run (j : Json) : Except String Json := do
  let O ← oraclesOfJson j
  let cls ← declOfJson (← j.getObjVal? "cls")
  let kw ← kwOfJson (← j.getObjVal? "kw")
  let ops ← (← (← j.getObjVal? "ops").getArr?).toList.mapM ropOfJson
  -- the binding of nested wrappers: probed from the working tree, or forced by the case (directed
  -- cases exercise the model of the proposed repair)
  let bound := match optField j "nestedBound" with
    | some (.bool b) => b
    | _ => Generated.nestedBound
  let dh := match optField j "delitemHook" with
    | some (.bool b) => b
    | _ => Generated.delitemHook
  match cls with
  | .struct c fields _ =>
    let start := construct O cls kw
    let steps : List Json := match start with
      | .ok (.inst _ attrs) =>
        let rec go (st : MState) : List ROp → List Json
          | [] => []
          | op :: rest =>
            let r := stepR bound dh Generated.wrappers O c fields st op
            Json.mkObj [("out", outcomeJson r.2), ("state", valToJson (.inst c.name r.1.attrs)),
                        ("refs", Json.arr (r.1.refs.map (fun w => valToJson w.payload)).toArray)] :: go r.1 rest
        go { attrs := attrs } ops
      | _ => []
    let implWf ← match optField j "implStates" with
      | none => pure []
      | some x => (← x.getArr?).toList.mapM fun st => do
        pure (Json.bool (wellFormed O cls (← valOfJson st)))
    pure (Json.mkObj [("start", resToJson start), ("steps", Json.arr steps.toArray),
                      ("implWf", Json.arr implWf.toArray)])
  | _ => throw "mutate: cls must be a struct"

end Typedpy.Drive.Mutate
