/-
  Drive/Mapper.lean — driver suite `mapper` (stub; to be implemented).
-/
import TypedpyModel.Drive.Wire
namespace Typedpy.Drive.Mapper
open Lean (Json)

def run (_j : Json) : Except String Json := .error "suite mapper not implemented"

end Typedpy.Drive.Mapper
