/-
  Drive/Mapper.lean — driver suite `mapper`: aggregation, serialization, the specification document,
  deserialization of the serialized document (and of an extra document), the round-trip hypotheses
  and the wrapper validation, all on the ASCII string functions.

  Wire: mapper = "lower" | "camel" | {"d": [[key, val], …]}, val = "str" | {"dns": true} | {"d": […]};
  class attr = null | mapper | {"list": [mapper…]};
  class = {"graph": [{"name", "bases": [name…], "ser": attr, "des": attr, "closed": bool}…] (definition order),
           "top": name, "fields": [fld…]};
  fld = {"n", "opt"} | {"n", "opt", "shape": "one"|"many", "cls": class};
  JSON tree = null | int | "str" | [tree…] | {"o": [[key, tree], …]}.
-/
import Lean.Data.Json
import TypedpyModel.Spec.Mappers
import TypedpyModel.Sem.MapperMro
namespace Typedpy.Drive.Mapper
open Lean (Json)
open Typedpy.Mappers

def mkeyOfString (s : String) : MKey :=
  let suf := "._mapper"
  if s.endsWith suf then .nest ((s.toList.take (s.length - suf.length)) |> String.ofList) else .fld s

partial def mdictOfJson (j : Json) : Except String MDict := do
  let arr ← j.getArr?
  arr.toList.mapM fun e => do
    let p ← e.getArr?
    if p.size != 2 then throw "mapper entry"
    let k ← p[0]!.getStr?
    let v ← match p[1]! with
      | .str s => pure (MV.key s)
      | x =>
        if let .ok _ := x.getObjVal? "dns" then pure MV.dns
        else if let .ok d := x.getObjVal? "d" then do pure (MV.sub (← mdictOfJson d))
        else throw s!"mapper value {x.compress}"
    pure (mkeyOfString k, v)

def mapperOfJson (j : Json) : Except String Mapper :=
  match j with
  | .str "lower" => pure .lower
  | .str "camel" => pure .camel
  | x => do
    let d ← x.getObjVal? "d"
    pure (.dict (← mdictOfJson d))

def attrOfJson (j : Json) : Except String (Option ClassAttr) :=
  match j with
  | .null => pure none
  | x =>
    if let .ok l := x.getObjVal? "list" then do
      let ms ← (← l.getArr?).toList.mapM mapperOfJson
      pure (some (.many ms))
    else do pure (some (.single (← mapperOfJson x)))

def nodeOfJson (j : Json) : Except String ClsNode := do
  let name ← (← j.getObjVal? "name").getStr?
  let bases ← (← (← j.getObjVal? "bases").getArr?).toList.mapM (·.getStr?)
  let ser ← attrOfJson (← j.getObjVal? "ser")
  let des ← attrOfJson ((j.getObjVal? "des").toOption.getD .null)
  let closed := match j.getObjVal? "closed" with | .ok (.bool b) => b | _ => false
  pure { name, bases, ser, des, closed }

mutual
partial def clsOfJson (j : Json) : Except String Cls := do
  let g ← (← (← j.getObjVal? "graph").getArr?).toList.mapM nodeOfJson
  let top ← (← j.getObjVal? "top").getStr?
  let fields ← (← (← j.getObjVal? "fields").getArr?).toList.mapM fldOfJson
  let ci := cinfoOf g top
  let cid := match j.getObjVal? "cid" with | .ok (.str n) => n | _ => ""
  pure { own := ci.ser, fields, des := ci.des, closedOwn := ci.closedOwn, closedAny := ci.closedAny, cid }
partial def fldOfJson (j : Json) : Except String Fld := do
  let n ← (← j.getObjVal? "n").getStr?
  let opt ← (← j.getObjVal? "opt").getBool?
  match j.getObjVal? "cls" with
  | .ok cj => do
    let c ← clsOfJson cj
    let sh ← (← j.getObjVal? "shape").getStr?
    let ci : CInfo := { ser := c.own, des := c.des, closedOwn := c.closedOwn, closedAny := c.closedAny, cid := c.cid }
    if sh == "map" then pure (.mapped n opt ci c.fields)
    else pure (.nested n opt (if sh == "one" then .one else .many) ci c.fields)
  | .error _ => pure (.scalar n opt)
end

partial def treeOfJson (j : Json) : Except String J :=
  match j with
  | .null => pure .null
  | .str s => pure (.str s)
  | .num _ => do pure (.int (← j.getInt?))
  | .arr xs => do pure (.arr (← xs.toList.mapM treeOfJson))
  | x => do
    let o ← x.getObjVal? "o"
    let kvs ← (← o.getArr?).toList.mapM fun e => do
      let p ← e.getArr?
      if p.size != 2 then throw "object entry"
      pure ((← p[0]!.getStr?), (← treeOfJson p[1]!))
    pure (.obj kvs)

partial def treeToJson : J → Json
  | .null => .null
  | .int i => Json.num (Lean.JsonNumber.fromInt i)
  | .str s => .str s
  | .arr xs => Json.arr (xs.map treeToJson).toArray
  | .obj kvs => Json.mkObj [("o", Json.arr (kvs.map fun (k, v) => Json.arr #[.str k, treeToJson v]).toArray)]

partial def mvToJson : MV → Json
  | .key s => .str s
  | .dns => Json.mkObj [("dns", .bool true)]
  | .sub d => Json.mkObj [("d", Json.arr (d.map fun (k, v) =>
      Json.arr #[.str (match k with | .fld n => n | .nest n => n ++ "._mapper"), mvToJson v]).toArray)]

def resToJson (r : DR J) : Json :=
  match r with
  | .ok x => Json.mkObj [("ok", treeToJson x)]
  | .error .typeErr => Json.mkObj [("err", .str "TypeError")]
  | .error .valueErr => Json.mkObj [("err", .str "ValueError")]

/-- evidence only: the first clause of `regionOK` that fails (empty when inside the region) -/
partial def regionWhyFs (S : StrFns) (camel : Bool) (L : List Mapper) (depth : Nat) : List Fld → String
  | [] => ""
  | .scalar _ _ :: fs => regionWhyFs S camel L depth fs
  | .mapped _ _ _ _ :: fs => regionWhyFs S camel L depth fs
  | .nested n _ _ ci fs' :: fs =>
    let L' := ci.ser ++ thru n L
    let here :=
      if !ci.des.isNone then "nested-deserialization-mapper"
      else if !trackOK S L n then "nested-entry-not-tracked"
      else if fs'.isEmpty then "nested-class-empty"
      else if !prefixOK S fs' [] L' then "nested-level-round-collides-or-steps-differently"
      else if !reaggOK S L' fs' then
        (if fs'.any (fun f => match f with | .nested _ _ _ c2 _ => !(c2.ser.isEmpty && c2.desL.isEmpty) | _ => false)
         then s!"reaggregation-off-the-handed-dict:own-mapper-at-depth>={depth + 2}-changed-from-above"
         else "reaggregation-off-the-handed-dict:other")
      else if !prefixOK S fs' L' (camelTail camel) then "camel-round-collision"
      else regionWhyFs S camel (L' ++ camelTail camel) (depth + 1) fs'
    if here != "" then here else regionWhyFs S camel L depth fs

def regionWhy (S : StrFns) (c : Cls) (ov : Option MDict) (camel : Bool) : String :=
  let L := effList c.own ov camel
  if !c.des.isNone then "deserialization-mapper"
  else if !wfFields c.fields then "duplicate-field-names"
  else if !prefixOK S c.fields [] L then "top-level-round-collides-or-steps-differently"
  else if !mkeysNodup (shapeFields S L c.fields) then "top-keys-collide"
  else regionWhyFs S camel L 0 c.fields

def optField (j : Json) (k : String) : Option Json :=
  match j.getObjVal? k with
  | .ok .null => none
  | .ok x => some x
  | .error _ => none

/-- one call, threading the model of the process-wide serialization-mapper cache -/
def runOne (cache : Cache) (j : Json) : Except String (List (String × Json) × Cache) := do
  let S := asciiFns
  let c ← clsOfJson (← j.getObjVal? "cls")
  let camel ← (← j.getObjVal? "camel").getBool?
  let strict ← (← j.getObjVal? "strict").getBool?
  -- `keep_undefined` as it reaches deserialize_structure_internal: absent = Deserializer's default
  -- (False for every class since /repo 005d815)
  let ku := match optField j "ku" with
    | some (.bool b) => b
    | _ => false
  let ov ← match optField j "explicit" with
    | none => pure none
    | some x => do pure (some (← mdictOfJson x))
  let ovKeys ← match optField j "explicit" with
    | none => pure []
    | some x => (← x.getArr?).toList.mapM fun e => do pure (← (← e.getArr?)[0]!.getStr?)
  let x ← treeOfJson (← j.getObjVal? "inst")
  let cid := match optField j "cid" with | some (.str n) => n | _ => ""
  let ovKey := match ov, optField j "explicit" with
    | some (_ :: _), some e => e.compress
    | _, _ => ""
  let wrapOk := wrapperOk S (c.fields.map Fld.name) ovKeys
  -- the serializer runs (and fills the cache) only if the wrapper was built
  let (ms, cache') := if wrapOk then cAggregate S cache cid ovKey c.own c.fields ov camel
    else (aggregate S true c.own c.fields ov camel, cache)
  let md := aggregate S false c.desL c.fields ov camel
  -- the class-directed serializer (= `ser` on instances without Map-valued fields: theorem serC_eq_ser)
  let doc := serC S camel ms c.fields x
  let spec := specSer S (effList c.own ov camel) c.fields x
  let xc ← treeOfJson (← j.getObjVal? "inst_canon")
  let des := deserK S camel ku c ov strict doc
  let kvs := match xc with | .obj kvs => kvs | _ => []
  let base := [
    ("ser", treeToJson doc),
    ("spec", treeToJson spec),
    ("keysLaw", Json.bool (keysLaw S camel ms x (ser S camel ms x))),
    ("serCisSer", Json.bool (!conf c.fields x || treeToJson doc == treeToJson (ser S camel ms x))),
    ("deser", resToJson des),
    ("aggS", mvToJson (.sub ms)),
    ("aggD", mvToJson (.sub md)),
    ("wrapper", Json.bool wrapOk),
    ("cacheHit", Json.bool (cache'.length == cache.length && wrapOk)),
    -- the entries this call filed in the process-wide cache (nested classes first)
    ("cacheNew", Json.arr ((cache'.drop cache.length).map fun (k, m) =>
      Json.arr #[.str k.1, .str (if k.2.1 == "" then "" else "ov"), .bool k.2.2, mvToJson (.sub m)]).toArray),
    ("hyp", Json.mkObj [
      ("rt", Json.bool (rtClsK S camel ku (levelOK S) c ms ov strict xc)),
      ("rtNoKu", Json.bool (rtCls S camel (levelOK S) c ms ov strict xc)),
      ("desNone", Json.bool c.des.isNone),
      ("dom", Json.bool (rtCls S camel (levelDom S) c ms ov strict xc)),
      ("domE", Json.bool (rtCls S camel (levelDomE S) c ms ov strict xc)),
      ("region", Json.bool (regionOK S c ov camel)),
      ("regionWhy", Json.str (regionWhy S c ov camel)),
      ("wf", Json.bool (wfFields c.fields)),
      ("conf", Json.bool (conf c.fields x)),
      ("sync", Json.bool (syncOK ms md kvs)),
      ("nodot", Json.bool (noDotOK S ms kvs)),
      ("inj", Json.bool (injOK ms kvs)),
      ("absent", Json.bool (absentKeyOK ms kvs)),
      ("level", Json.bool (levelOK S ms md strict kvs))])]
  let extra ← match optField j "doc2" with
    | none => pure []
    | some d => do
      let d2 ← treeOfJson d
      pure [("deser2", resToJson (deserK S camel ku c ov strict d2))]
  let implLaw ← match optField j "impl_doc" with
    | none => pure []
    | some d => do
      let d ← treeOfJson d
      pure [("implDeser", resToJson (deserK S camel ku c ov strict d))]
  pure (base ++ extra ++ implLaw, cache')

/-- the history (`pre`, in order) and then the main call, all on one cache -/
def run (j : Json) : Except String Json := do
  let pre ← match optField j "pre" with
    | none => pure []
    | some p => do pure (← p.getArr?).toList
  let mut cache : Cache := []
  let mut outs : List Json := []
  for pj in pre do
    let (o, c') ← runOne cache pj
    cache := c'
    outs := outs ++ [Json.mkObj o]
  let (o, _) ← runOne cache j
  pure (Json.mkObj (o ++ (if pre.isEmpty then [] else [("pre", Json.arr outs.toArray)])))

end Typedpy.Drive.Mapper
