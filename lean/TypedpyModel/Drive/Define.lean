/-
  Drive/Define.lean — driver suites `define` and `derive`: run a history of class-creating
  statements (class definitions, mixins, derivation operators, Field-class definitions) and
  instantiations through the model (Sem/Define.lean, Sem/Derive.lean) and print, per step, the
  resulting class (fields by name with declaration and default, `_required`, constants,
  signature, MRO, flags) or the exception class.  Also evaluates the documented field-set
  specification (Spec/FieldSet.lean) on what the real code produced.
-/
import TypedpyModel.Drive.Wire
import TypedpyModel.Sem.Derive
import TypedpyModel.Sem.DefineBridge
import TypedpyModel.Spec.FieldSet
namespace Typedpy.Drive.Define
open Lean (Json)
open Typedpy Typedpy.Wire

def optJ {α} (f : α → Json) : Option α → Json
  | none => .null
  | some x => f x

def natJ (n : Nat) : Json := Json.num (Lean.JsonNumber.fromNat n)
def strsJ (xs : List String) : Json := Json.arr (xs.map Json.str).toArray

def numOptsJ (kind : String) (o : NumOpts) : Json :=
  Json.mkObj ([("k", Json.str kind)]
    ++ (match o.mult with | some m => [("mult", Json.num (Lean.JsonNumber.fromInt m))] | none => [])
    ++ (match o.min with | some q => [("min", qToJson q)] | none => [])
    ++ (match o.max with | some q => [("max", qToJson q)] | none => [])
    ++ (if o.exclMax then [("excl", Json.bool true)] else [])
    ++ (match o.sign with
        | .any => [] | .pos => [("sign", .str "pos")] | .neg => [("sign", .str "neg")]
        | .nonpos => [("sign", .str "nonpos")] | .nonneg => [("sign", .str "nonneg")]))

def sizeJ (sz : SizeOpts) (withUniq : Bool := true) : List (String × Json) :=
  (match sz.min with | some n => [("minItems", natJ n)] | none => [])
  ++ (match sz.max with | some n => [("maxItems", natJ n)] | none => [])
  ++ (if withUniq && sz.uniq then [("uniq", Json.bool true)] else [])

def seqJ : SeqKind → List (String × Json)
  | .list => []
  | .deque => [("seq", .str "deque")]

partial def declToJson : FieldDecl → Json
  | .number o => numOptsJ "number" o
  | .integer o => numOptsJ "integer" o
  | .float o => numOptsJ "float" o
  | .string lo hi pat => Json.mkObj ([("k", Json.str "string")]
      ++ (match lo with | some n => [("minLength", natJ n)] | none => [])
      ++ (match hi with | some n => [("maxLength", natJ n)] | none => [])
      ++ (match pat with | some p => [("pattern", Json.str p)] | none => []))
  | .boolean => Json.mkObj [("k", .str "boolean")]
  | .enumLit vals => Json.mkObj [("k", .str "enumLit"), ("values", Json.arr (vals.map valToJson).toArray)]
  | .enumCls cls names => Json.mkObj [("k", .str "enumCls"), ("cls", .str cls), ("names", strsJ names)]
  | .seqAny k sz => Json.mkObj ([("k", Json.str "seqAny")] ++ seqJ k ++ sizeJ sz)
  | .seqOf k f sz => Json.mkObj ([("k", Json.str "seqOf"), ("item", declToJson f)] ++ seqJ k ++ sizeJ sz)
  | .seqPos k fs addl sz => Json.mkObj ([("k", Json.str "seqPos"),
      ("items", Json.arr (fs.map declToJson).toArray), ("addl", Json.bool addl)] ++ seqJ k ++ sizeJ sz)
  | .setAny imm sz => Json.mkObj ([("k", Json.str "setAny")] ++ (if imm then [("imm", Json.bool true)] else [])
      ++ sizeJ sz false)
  | .setOf imm f sz => Json.mkObj ([("k", Json.str "setOf"), ("item", declToJson f)]
      ++ (if imm then [("imm", Json.bool true)] else []) ++ sizeJ sz false)
  | .tupleOf f uniq => Json.mkObj ([("k", Json.str "tupleOf"), ("item", declToJson f)]
      ++ (if uniq then [("uniq", Json.bool true)] else []))
  | .tuplePos fs uniq => Json.mkObj ([("k", Json.str "tuplePos"), ("items", Json.arr (fs.map declToJson).toArray)]
      ++ (if uniq then [("uniq", Json.bool true)] else []))
  | .mapAny sz => Json.mkObj ([("k", Json.str "mapAny")] ++ sizeJ sz false)
  | .mapOf kf vf sz => Json.mkObj ([("k", Json.str "mapOf"), ("key", declToJson kf), ("val", declToJson vf)]
      ++ sizeJ sz false)
  | .struct c fields defaults => Json.mkObj ([("k", Json.str "struct"), ("name", Json.str c.name),
      ("required", strsJ c.required), ("addl", Json.bool c.addl),
      ("fields", Json.arr (fields.map fun (n, f) => Json.arr #[.str n, declToJson f]).toArray)]
      ++ (if c.ignoreNone then [("ignoreNone", Json.bool true)] else [])
      ++ (if c.immutable then [("immutable", Json.bool true)] else [])
      ++ (if c.inline then [("inline", Json.bool true)] else [])
      ++ (if defaults.isEmpty then [] else
            [("defaults", Json.arr (defaults.map fun (n, v) => Json.arr #[.str n, valToJson v]).toArray)]))
  | .anyOf fs => Json.mkObj [("k", .str "anyOf"), ("fields", Json.arr (fs.map declToJson).toArray)]
  | .oneOf fs => Json.mkObj [("k", .str "oneOf"), ("fields", Json.arr (fs.map declToJson).toArray)]
  | .allOf fs => Json.mkObj [("k", .str "allOf"), ("fields", Json.arr (fs.map declToJson).toArray)]
  | .notF fs => Json.mkObj [("k", .str "notF"), ("fields", Json.arr (fs.map declToJson).toArray)]
  | .noneF => Json.mkObj [("k", .str "noneF")]
  | .anything => Json.mkObj [("k", .str "anything")]

def dfltOfJson (j : Json) : Except String Dflt := do
  if let .ok x := j.getObjVal? "lit" then return .lit (← valOfJson x)
  if let .ok x := j.getObjVal? "gen" then return .gen (← valOfJson x)
  throw s!"default: {j.compress}"

def dfltToJson : Dflt → Json
  | .lit v => Json.mkObj [("lit", valToJson v)]
  | .gen v => Json.mkObj [("gen", valToJson v)]

def optDflt (j : Json) (k : String) : Except String (Option Dflt) :=
  match optField j k with
  | none => pure none
  | some x => do pure (some (← dfltOfJson x))

def attrOfStr : String → Except String AttrVal
  | "bool" => pure .bool | "list" => pure .list | "dict" => pure .dict
  | "bareType" => pure .bareType | "generic" => pure .generic | "other" => pure .other
  | "union" => pure .union
  | "mapper" => pure .dict
  | s => throw s!"attr kind {s}"

def entryOfJson (j : Json) : Except String SrcEntry := do
  match ← (← j.getObjVal? "e").getStr? with
  | "field" => pure (.field (← declOfJson (← j.getObjVal? "decl")) (← optDflt j "kw") (← optDflt j "eq"))
  | "const" => pure (.obj (.const (← valOfJson (← j.getObjVal? "v"))))
  | "attr" => pure (.attr (← attrOfStr (← (← j.getObjVal? "a").getStr?)))
  | s => throw s!"entry kind {s}"

def optBoolN (j : Json) (k : String) : Except String (Option Bool) :=
  match optField j k with
  | none => pure none
  | some x => do pure (some (← x.getBool?))

def srcOfJson (j : Json) : Except String ClassSrc := do
  let entries ← (← kvList j "entries").mapM fun (k, e) => do pure (k, ← entryOfJson e)
  let required ← match optField j "required" with
    | none => pure none
    | some x => do pure (some (← (← x.getArr?).toList.mapM (·.getStr?)))
  pure { name := ← (← j.getObjVal? "name").getStr?, bases := ← strList j "bases", entries, required,
         optional := ← strList j "optional", addl := ← optBoolN j "addl",
         ignoreNone := ← optBoolN j "ignoreNone", immutable := ← optBoolN j "immutable",
         keysOf := ← match optField j "keysOf" with
           | none => pure []
           | some x => do (← x.getArr?).toList.mapM fun e => do (← e.getArr?).toList.mapM (·.getStr?) }

def opOfJson (j : Json) : Except String DeriveOp := do
  match ← (← j.getObjVal? "kind").getStr? with
  | "partial" => pure .partialOf
  | "allRequired" => pure .allRequired
  | "extend" => pure .extend
  | "omit" => pure (.omit (← strList j "names"))
  | "pick" => pure (.pick (← strList j "names"))
  | s => throw s!"derive kind {s}"

def sortStr (xs : List String) : List String := (dedupStr xs).toArray.qsort (· < ·) |>.toList

def memberToJson : Member → Json
  | .field d dflt => Json.mkObj [("decl", declToJson d), ("dflt", optJ dfltToJson dflt)]
  | .const v => Json.mkObj [("const", valToJson v)]

def classToJson (c : ClassDef) : Json :=
  Json.mkObj [("name", .str c.name), ("mro", strsJ c.mro),
    ("fields", Json.arr (c.allFields.map fun (n, m) => Json.arr #[.str n, memberToJson m]).toArray),
    ("own", strsJ (c.own.map (·.1))),
    ("required", strsJ (sortStr c.required)),
    ("constants", Json.arr (c.constants.map fun (n, v) => Json.arr #[.str n, valToJson v]).toArray),
    ("sigReq", strsJ (sortStr c.sig.req)), ("sigOpt", strsJ c.sig.opt), ("kwargs", .bool c.sig.kwargs),
    ("ignoreNone", .bool c.ignoreNone), ("immutable", .bool c.immutable), ("addl", .bool c.addl),
    ("ownMappers", strsJ (sortStr c.ownMappers))]

/-- the bridge's `FieldDecl.struct` of a class (Sem/DefineBridge.lean), with the parts `declToJson`
    does not print: field order, `immFields`, `defOrder`, `accepts` -/
def structToJson (w : World) (c : ClassDef) (reqOrder : List String) : Json :=
  let accepts := w.subclassNames c.name
  match c.toStruct reqOrder accepts with
  | .struct o fields defaults =>
    Json.mkObj [("decl", declToJson (.struct o fields defaults)),
                ("order", strsJ (fields.map (·.1))), ("immFields", strsJ (sortStr o.immFields)),
                ("defOrder", strsJ o.defOrder), ("accepts", strsJ (sortStr o.accepts)),
                ("wf", Json.bool (Bridge.wf c))]
  | _ => .null

/-- exception classes of every failing step of `cls(**kw)` (collect-all view): which of several
    errors surfaces first depends on the order the real constructor works in -/
def ctorErrs (O : Oracles) (c : ClassDef) (kw : List (String × PyVal)) : List String :=
  (if c.isAbstract then ["TypeError"] else [])
  ++ (if !bindOk c.opts (Bridge.defOrder c) kw then ["TypeError"] else [])
  ++ (if !c.addl && undeclaredKw c kw then ["ValueError"] else [])
  ++ (if kw.any (fun a => (lookup a.1 c.constants).isSome) then ["ValueError"] else [])
  ++ (Bridge.fieldDecls c).filterMap fun (name, f) =>
      match argFor c.opts (Bridge.defaults c) kw name with
      | none => none
      | some v => match validate O f v with
        | .ok _ => none
        | .error e => some (errName e)

/-- optional `"ctor"`: keyword-argument lists to construct the freshly made class with; `"reqOrder"`:
    the order of the required parameters in the real signature (the set-order oracle) -/
def ctorPart (O : Oracles) (w : World) (j : Json) (r : R ClassDef) : Except String (List (String × Json)) := do
  match r with
  | .error _ => pure []
  | .ok c =>
    let w' := w.add c
    let ord ← match optField j "reqOrder" with
      | none => pure c.sig.req
      | some _ => strList j "reqOrder"
    let kws ← match optField j "ctor" with
      | none => pure []
      | some x => (← x.getArr?).toList.mapM kwOfJson
    let res := kws.map fun kw =>
      Json.mkObj [("res", resToJson (instantiateOrd O c ord kw)),
                  ("errs", strsJ (ctorErrs O c kw ++ ctorErrs O c (mappingArgs c kw))),
                  ("via", Json.mkObj (Entry.all.map fun e =>
                    (e.name, match instantiateVia O c ord e kw with
                      | .ok _ => Json.str "ok"
                      | .error err => Json.str (errName err))))]
    pure [("struct", structToJson w' c ord), ("ctor", Json.arr res.toArray)]

def rJson {α} (f : α → Json) : R α → Json
  | .ok x => Json.mkObj [("ok", f x)]
  | .error e => Json.mkObj [("err", .str (errName e))]

structure St where
  w : World
  fw : List FieldCls
  out : List Json

/-- what the real code reported for a step (only the parts the spec needs) -/
structure ImplCls where
  fields : List String
  required : List String

def implOfJson (j : Json) : Except String (Option ImplCls) :=
  match optField j "impl" with
  | none => pure none
  | some x => do pure (some { fields := ← strList x "fields", required := ← strList x "required" })

def step (O : Oracles) (s : St) (j : Json) : Except String St := do
  match ← (← j.getObjVal? "op").getStr? with
  | "define" =>
    let src ← srcOfJson (← j.getObjVal? "src")
    let r := defineClass O s.w src
    let extra ← ctorPart O s.w j r
    let base := match r with
      | .ok c => [("ok", classToJson c)]
      | .error e => [("err", Json.str (errName e))]
    pure { s with w := stepWorld O s.w (.define src), out := s.out ++ [Json.mkObj (base ++ extra)] }
  | "mixin" =>
    let n ← (← j.getObjVal? "name").getStr?
    pure { s with w := s.w.add (mixinDef n), out := s.out ++ [Json.mkObj [("ok", .null)]] }
  | "guards" =>
    -- `TypedPyDefaults.block_unknown_consts` / `Structure.set_block_non_typedpy_field_assignment`
    -- changed between two class statements
    let bc ← optBool j "consts" true
    let bn ← optBool j "nontypedpy" true
    pure { s with w := { s.w with blockConsts := bc, blockNonTypedpy := bn },
                  out := s.out ++ [Json.mkObj [("ok", .null)]] }
  | "derive" =>
    let op ← opOfJson j
    let source ← (← j.getObjVal? "source").getStr?
    let name ← (← j.getObjVal? "name").getStr?
    let st := Step.derive op source name
    let r := stepClass O s.w st
    -- the documented field-set specification, evaluated on what the real code produced
    let spec : List (String × Json) ← match ← implOfJson j, s.w.find source with
      | some im, some c =>
        pure [("specFields", Json.bool (fieldSetOk op c.fieldNames im.fields)),
              ("specRequired", Json.bool (requiredSetOk op c im.required))]
      | _, _ => pure []
    let base := match r with
      | .ok c => [("ok", classToJson c)]
      | .error e => [("err", Json.str (errName e))]
    let extra ← ctorPart O s.w j r
    pure { s with w := stepWorld O s.w st, out := s.out ++ [Json.mkObj (base ++ spec ++ extra)] }
  | "fieldclass" =>
    let n ← (← j.getObjVal? "name").getStr?
    let bases ← strList j "bases"
    match defineFieldClass s.fw n bases with
    | .ok c => pure { s with fw := s.fw ++ [c], out := s.out ++ [Json.mkObj [("ok", strsJ c.mro)]] }
    | .error e => pure { s with out := s.out ++ [Json.mkObj [("err", .str (errName e))]] }
  | "instantiate" =>
    let n ← (← j.getObjVal? "cls").getStr?
    let kw ← kwOfJson (← j.getObjVal? "kw")
    match s.w.find n with
    | some c =>
      let via := Json.mkObj (Entry.all.map fun e =>
        (e.name, match instantiateVia O c c.sig.req e kw with
          | .ok _ => Json.str "ok"
          | .error err => Json.str (errName err)))
      let base := match instantiate O c kw with
        | .ok v => [("ok", valToJson v)]
        | .error e => [("err", Json.str (errName e))]
      pure { s with out := s.out ++ [Json.mkObj (base ++ [("via", via)])] }
    | none => pure { s with out := s.out ++ [Json.mkObj [("err", .str "model-domain: unknown class")]] }
  | "assign" =>
    let n ← (← j.getObjVal? "cls").getStr?
    let f ← (← j.getObjVal? "field").getStr?
    let v ← valOfJson (← j.getObjVal? "v")
    match s.w.find n with
    | some c => pure { s with out := s.out ++ [rJson (optJ valToJson) (assignField O c f v)] }
    | none => pure { s with out := s.out ++ [Json.mkObj [("err", .str "model-domain: unknown class")]] }
  | op => throw s!"step op {op}"

def fieldWorldInit : List FieldCls :=
  [{ name := "Field", mro := ["Field"] }, { name := "ImmutableField", mro := ["ImmutableField", "Field"] },
   { name := "String", mro := ["String", "Field"] }, { name := "Integer", mro := ["Integer", "Field"] }]

def run (j : Json) : Except String Json := do
  let O ← oraclesOfJson j
  let guards := optField j "guards"
  let bc ← match guards with | some g => optBool g "consts" true | none => pure true
  let bn ← match guards with | some g => optBool g "nontypedpy" true | none => pure true
  let steps ← (← j.getObjVal? "steps").getArr?
  let init : St := { w := { World.init with blockConsts := bc, blockNonTypedpy := bn },
                     fw := fieldWorldInit, out := [] }
  let fin ← steps.toList.foldlM (step O) init
  -- `accepts` (the class and its subclasses) of every class, from the final world
  let acc := fin.w.classes.filter (fun c => c.isStruct) |>.map fun c =>
    Json.arr #[.str c.name, strsJ (sortStr (fin.w.subclassNames c.name))]
  pure (Json.mkObj [("steps", Json.arr fin.out.toArray), ("accepts", Json.arr acc.toArray)])

end Typedpy.Drive.Define
