/-
  Drive/Define.lean — driver suite `define` (stub; to be implemented).
-/
import TypedpyModel.Drive.Wire
namespace Typedpy.Drive.Define
open Lean (Json)

def run (_j : Json) : Except String Json := .error "suite define not implemented"

end Typedpy.Drive.Define
