/-
  Drive/Convert.lean — driver suite `convert` (stub; to be implemented).
-/
import TypedpyModel.Drive.Wire
namespace Typedpy.Drive.Convert
open Lean (Json)

def run (_j : Json) : Except String Json := .error "suite convert not implemented"

end Typedpy.Drive.Convert
