/-
  Drive/Convert.lean — driver suite `convert` (C17): runs the model of `convert_dict` on a case
  (document, history, split points), the `Versioned` glue, and evaluates the executable laws of
  Spec/ConvertSpec.lean on what the real code returned (`impl`).

  Wire format (trusted glue):
    JSON value : null | bool | int | string | [values…] | {"o": [[key, value], …]}   (objects keep their order)
    mapping    : [[key, entry], …] in `mapping.items()` order; entry =
                 {"const": value} | {"del": 1} | {"move": "a.b"} | {"fn": name, "args": [keys…]|null}
                 | {"sub": mapping}   (the key on the wire is "<field>._mapper"; the suffix is stripped here)
    result     : {"ok": value} | {"err": "TypeError" | "AttributeError"}
-/
import TypedpyModel.Drive.Wire
import TypedpyModel.Spec.ConvertSpec
import TypedpyModel.Sem.ConvertDeser
import TypedpyModel.Drive.ConvertHeap
namespace Typedpy.Drive.Convert
open Lean (Json)
open Typedpy.Convert hiding Json

abbrev J := Typedpy.Convert.Json
abbrev CR := Typedpy.Convert.R

partial def docOfJson (j : Json) : Except String J :=
  match j with
  | .null => pure .null
  | .bool b => pure (.bool b)
  | .num _ => do pure (.int (← j.getInt?))
  | .str s => pure (.str s)
  | .arr a => do pure (.list (← a.toList.mapM docOfJson))
  | .obj _ => do
    if let .ok f := j.getObjVal? "f" then
      let p ← f.getArr?
      if p.size != 2 then throw "float ratio"
      return .float (← p[0]!.getInt?) (← p[1]!.getNat?)
    let kvs ← (← (← j.getObjVal? "o").getArr?).toList.mapM fun kv => do
      let p ← kv.getArr?
      if p.size != 2 then throw "object entry"
      pure ((← p[0]!.getStr?), (← docOfJson p[1]!))
    pure (.obj kvs)

partial def docToJson : J → Json
  | .null => .null
  | .bool b => .bool b
  | .int i => Json.num (Lean.JsonNumber.fromInt i)
  | .str s => .str s
  | .float n d => Json.mkObj [("f", Json.arr #[Json.num (Lean.JsonNumber.fromInt n), Json.num (Lean.JsonNumber.fromNat d)])]
  | .list xs => Json.arr (xs.map docToJson).toArray
  | .obj kvs => Json.mkObj [("o", Json.arr (kvs.map fun (k, v) => Json.arr #[.str k, docToJson v]).toArray)]

def errOfName : String → Typedpy.Convert.Err
  | "TypeError" => .typeErr
  | "AttributeError" => .attrErr
  | s => .other s

/-- decode an outcome `{"ok": value} | {"err": class name}` (every exception class is representable) -/
def outcomeOfJson (j : Json) : Except String (CR J) := do
  if let .ok x := j.getObjVal? "ok" then return .ok (← docOfJson x)
  pure (.error (errOfName (← (← j.getObjVal? "err").getStr?)))

/-- a user function given by the table of calls observed on the real code (`rows` = (arguments, outcome));
    arguments are compared like Python `==` on JSON documents (key order ignored).  A call the table does not
    have answers `oracle-miss`, which the harness reports as a disagreement. -/
def tableFn (rows : List (List J × CR J)) : UserFn := fun args =>
  match rows.find? (fun r => r.1.length == args.length && (r.1.zip args).all fun p => pyEq p.1 p.2) with
  | some r => r.2
  | none => .error (.other "oracle-miss")

def fnTableOfJson (fns : Json) (id : String) : Except String UserFn := do
  let rows ← (← (← fns.getObjVal? id).getArr?).toList.mapM fun row => do
    let p ← row.getArr?
    if p.size != 2 then throw "fn table row"
    let args ← (← p[0]!.getArr?).toList.mapM docOfJson
    pure (args, (← outcomeOfJson p[1]!))
  pure (tableFn rows)

def mapperSuffix : String := "._mapper"

partial def mappingOfJson (fns : Json) (j : Json) : Except String Mapping := do
  (← j.getArr?).toList.mapM fun kv => do
    let p ← kv.getArr?
    if p.size != 2 then throw "mapping entry"
    let k ← p[0]!.getStr?
    let e := p[1]!
    if let .ok x := e.getObjVal? "const" then return (k, Entry.const (← docOfJson x))
    if let .ok _ := e.getObjVal? "del" then return (k, Entry.deleted)
    if let .ok x := e.getObjVal? "move" then return (k, Entry.move (splitPath (← x.getStr?)))
    if let .ok x := e.getObjVal? "fn" then
      let args ← match Typedpy.Wire.optField e "args" with
        | none => pure []
        | some a => (← a.getArr?).toList.mapM (·.getStr?)
      return (k, Entry.fn (← fnTableOfJson fns (← x.getStr?)) args)
    if let .ok x := e.getObjVal? "sub" then
      if !k.endsWith mapperSuffix then throw s!"sub entry key without ._mapper: {k}"
      return ((k.dropEnd mapperSuffix.length).toString, Entry.sub (← mappingOfJson fns x))
    throw s!"mapping entry {e.compress}"

def errName : Typedpy.Convert.Err → String
  | .typeErr => "TypeError"
  | .attrErr => "AttributeError"
  | .other n => n

def resToJson : CR J → Json
  | .ok v => Json.mkObj [("ok", docToJson v)]
  | .error e => Json.mkObj [("err", .str (errName e))]

/-- decode a result of the real code; `none` when it raised a class the model does not have -/
def resOfJson (j : Json) : Except String (Option (CR J)) := do
  if let .ok x := j.getObjVal? "ok" then return some (.ok (← docOfJson x))
  match (← j.getObjVal? "err").getStr? with
  | .ok "NotJson" => pure none
  | .ok n => pure (some (.error (errOfName n)))
  | _ => pure none

def optInt (o : Option Int) : Json :=
  match o with | none => .null | some i => Json.num (Lean.JsonNumber.fromInt i)

def optBool (o : Option Bool) : Json :=
  match o with | none => .null | some b => .bool b

def run (j : Json) : Except String Json := do
  let doc ← docOfJson (← j.getObjVal? "doc")
  let fns := match j.getObjVal? "fns" with | .ok x => x | _ => Json.mkObj []
  let ms ← (← (← j.getObjVal? "ms").getArr?).toList.mapM (mappingOfJson fns)
  let splits ← (← (← j.getObjVal? "splits").getArr?).toList.mapM (·.getNat?)
  let hasAttr := match j.getObjVal? "hasAttr" with | .ok (.bool b) => b | _ => true
  let full := convertDict doc ms
  let stages := splits.map fun k =>
    let s1 := convertDict doc (ms.take k)
    let s2 := match s1 with | .ok d1 => convertDict d1 ms | .error e => .error e
    Json.mkObj [("k", Json.num (Lean.JsonNumber.fromNat k)), ("s1", resToJson s1), ("s2", resToJson s2)]
  let again := match full with | .ok r => convertDict r ms | .error e => .error e
  let msOpt := if hasAttr then some ms else none
  let deserIn := deserVersioned id msOpt doc
  -- undeclared keys kept by the Versioned deserialization (Sem `deserExtras`)
  let fields : List String ← match Typedpy.Wire.optField j "fields" with
    | none => pure []
    | some a => (← a.getArr?).toList.mapM (·.getStr?)
  let keep : Option Bool := match j.getObjVal? "keep" with | .ok (.bool b) => some b | _ => none
  let addl : Bool := match j.getObjVal? "addl" with | .ok (.bool b) => b | _ => true
  let extras : CR J := match Typedpy.Convert.deserExtras fields keep addl msOpt doc with
    | .ok kvs => .ok (.obj kvs)
    | .error e => .error e
  -- the whole path of Deserializer(V).deserialize (Sem/ConvertDeser.lean), and the latest non-Versioned class on
  -- the converted document
  let whole ← match Typedpy.Wire.optField j "cls" with
    | none => pure []
    | some cj => do
      let O ← Typedpy.Wire.oraclesOfJson j
      let cls ← Typedpy.Wire.declOfJson cj
      let opts : Typedpy.DeserOpts := { keepUndefined := adjustedKeep keep addl, ignoreInvalidAddl := true }
      let trusted := match j.getObjVal? "trusted" with | .ok (.bool b) => b | _ => false
      let w := match (if trusted then Typedpy.ConvertDeser.deserializeVersionedTrusted O opts cls msOpt doc
                      else Typedpy.ConvertDeser.deserializeVersioned O opts cls msOpt doc) with
        | .error e => Json.mkObj [("err", .str (errName e)), ("stage", .str "prologue")]
        | .ok r => Typedpy.Wire.resToJson r
      let plain ← match Typedpy.Wire.optField j "plainCls", full with
        | some pj, .ok d' => do
          let pc ← Typedpy.Wire.declOfJson pj
          pure [("deserPlainModel", Typedpy.Wire.resToJson
            (if trusted then Typedpy.deserializeTrusted Typedpy.noMappers O opts pc (Typedpy.ConvertDeser.toPy d')
             else Typedpy.ConvertDeser.deserializePlain O opts pc d'))]
        | _, _ => pure []
      pure ([("deserWhole", w)] ++ plain)
  -- the heap-level model (Sem/AliasC17.lean) with the copy sites of the source under test, against the value-level model
  let fnScalars : List J ← match fns with
    | .obj kvs => kvs.toList.foldlM (fun (acc : List J) (p : String × Json) => do
        let rows ← p.2.getArr?
        let rs ← rows.toList.mapM fun row => do
          let q ← row.getArr?
          match (← outcomeOfJson q[1]!) with
          | .ok r => pure (Typedpy.Drive.ConvertHeap.scalarsOf r)
          | .error _ => pure []
        pure (acc ++ rs.flatten)) []
    | _ => pure []
  let heap : List (String × Json) := match Typedpy.Drive.ConvertHeap.run Typedpy.AliasC17.Gen.sites doc ms fnScalars with
    | none => []
    | some r =>
      let agrees := match full, r.result with
        | .ok d, some d' => pyEq d d'
        | .error _, none => true
        | _, _ => false
      [("heap", Json.mkObj [("raised", .bool r.raised), ("agrees", .bool agrees), ("inputIntact", .bool r.inputIntact),
          ("shared", Json.arr (r.shared.map fun path => Lean.Json.str (".".intercalate path)).toArray),
          ("result", match r.result with | some d => docToJson d | none => .null)])]
  let kw ← match Typedpy.Wire.optField j "kw" with
    | none => pure []
    | some x => do match (← docOfJson x) with | .obj kvs => pure kvs | _ => throw "kw"
  let initV := match get "version" (versionedInitKw msOpt kw) with
    | some (.int i) => some i | _ => none
  let upg := match effectiveVersion doc with
    | some v => if 1 ≤ v then some (sameResult (upgrade ms ms.length doc) full) else none
    | none => none
  -- single-step contract (Spec) on consecutive prefix states: state k -> state k+1 is one application of ms[k]
  let startV := effectiveVersion doc
  let stepCheck (state : Nat → Option J) : Json :=
    Json.arr ((List.range ms.length).map fun k =>
      match startV, ms[k]?, state k, state (k + 1) with
      | some v, some m, some b, some a =>
        if 1 ≤ v && v ≤ (k : Int) + 1 then Json.arr ((stepViolationsTop m b a).map Lean.Json.str).toArray else .null
      | _, _, _, _ => .null).toArray
  let modelState (k : Nat) : Option J := match convertDict doc (ms.take k) with | .ok d => some d | .error _ => none
  let base := [
    ("modelSteps", stepCheck modelState),
    ("full", resToJson full), ("stages", Json.arr stages.toArray), ("again", resToJson again),
    ("wf", .bool (wfHistory ms)), ("wfMappings", .bool (ms.all wfMapping)), ("inDomain", .bool (inDomain ms doc)),
    ("docVersion", optInt (docVersion doc)), ("effVersion", optInt (effectiveVersion doc)),
    ("hasVersionKey", .bool (hasVersionKey doc)),
    ("deserIn", resToJson deserIn), ("deserExtras", resToJson extras), ("initVersion", optInt initV), ("upgradeAgrees", optBool upg)] ++ whole ++ heap
  -- laws evaluated on what the real code returned (documents arrive with sorted keys)
  let laws ← match Typedpy.Wire.optField j "impl" with
    | none => pure []
    | some im => do
      let ifull ← resOfJson (← im.getObjVal? "full")
      let vlaw := match ifull with
        | some (.ok r) => some (versionLaw ms r)
        | _ => none
      let istages ← (← (← im.getObjVal? "stages").getArr?).toList.mapM fun st => do
        let s1 ← resOfJson (← st.getObjVal? "s1")
        let s2 ← resOfJson (← st.getObjVal? "s2")
        pure (match s1, s2, ifull with
          | some (.ok _), some r2, some rf => some (sameResult r2 rf)
          | some (.error e), _, some rf => some (sameResult (.error e) rf)
          | _, _, _ => none)
      let iagain ← resOfJson (← im.getObjVal? "again")
      let idem := match ifull, iagain with
        | some (.ok r), some ra => some (sameResult ra (.ok r))
        | _, _ => none
      let implStates ← (← (← im.getObjVal? "stages").getArr?).toList.mapM fun st => do
        match (← resOfJson (← st.getObjVal? "s1")) with
        | some (.ok d) => pure (some d)
        | _ => pure none
      let implState (k : Nat) : Option J := (implStates[k]?).join
      pure [("implSteps", stepCheck implState),
            ("implLaws", Json.mkObj [("version", optBool vlaw),
              ("compose", Json.arr (istages.map optBool).toArray), ("idempotent", optBool idem)])]
  pure (Json.mkObj (base ++ laws))

end Typedpy.Drive.Convert
