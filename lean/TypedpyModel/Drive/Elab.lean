/-
  Drive/Elab.lean — driver suite `elab` (stub; to be implemented).
-/
import TypedpyModel.Drive.Wire
namespace Typedpy.Drive.Elab
open Lean (Json)

def run (_j : Json) : Except String Json := .error "suite elab not implemented"

end Typedpy.Drive.Elab
