/-
  Drive/Elab.lean — driver suite `elab`: a class body given as a list of field spellings (C13).
  Runs the model (`Sem/Elaborate.elabClass` with the pinned type map) and the documented meaning
  (`Spec/Meaning`) and returns both, plus the annotation text length the model computed.
  Trusted glue: JSON decoding of spellings, JSON encoding of declarations.
-/
import TypedpyModel.Drive.Wire
import TypedpyModel.Sem.Elaborate
import TypedpyModel.Spec.Meaning
import TypedpyModel.Pinned.TypeMap
namespace Typedpy.Drive.Elab
open Lean (Json)
open Typedpy Typedpy.Wire Typedpy.Elab

def scalarOfStr : String → Except String Scalar
  | "int" => pure .int | "str" => pure .str | "float" => pure .float | "bool" => pure .bool
  | "any" => pure .any | s => throw s!"scalar {s}"

def collOfStr : String → Except String Coll
  | "list" => pure .list | "set" => pure .set | "frozenset" => pure .frozenset | "deque" => pure .deque
  | "tuple" => pure .tuple
  | s => throw s!"coll {s}"

partial def spOfJson (j : Json) : Except String Sp := do
  let tag ← (← j.getObjVal? "s").getStr?
  let sc : Except String Scalar := do scalarOfStr (← (← j.getObjVal? "k").getStr?)
  let co : Except String Coll := do collOfStr (← (← j.getObjVal? "c").getStr?)
  let sub (k : String) : Except String Sp := do spOfJson (← j.getObjVal? k)
  match tag with
  | "builtin" => pure (.builtin (← sc))
  | "fcls" => pure (.fcls (← sc))
  | "finst" => pure (.finst (← sc))
  | "lit" => pure (.lit (← declOfJson (← j.getObjVal? "d")) (← (← j.getObjVal? "len").getNat?))
  | "none" => pure .noneLit
  | "bareBuiltin" => pure (.bareBuiltin (← co))
  | "bareTyping" => pure (.bareTyping (← co))
  | "bareCls" => pure (.bareCls (← co))
  | "bareInst" => pure (.bareInst (← co))
  | "pep585" => pure (.pep585 (← co) (← sub "x"))
  | "typingG" => pure (.typingG (← co) (← sub "x"))
  | "sub" => pure (.sub (← co) (← sub "x"))
  | "call" => pure (.call (← co) (← sub "x"))
  | "dictBare" => pure .dictBare
  | "tDictBare" => pure .tDictBare
  | "mapBare" => pure .mapBare
  | "mapInst" => pure .mapInst
  | "dict585" => pure (.dict585 (← sub "x") (← sub "y"))
  | "dictTyping" => pure (.dictTyping (← sub "x") (← sub "y"))
  | "mapSub" => pure (.mapSub (← sub "x") (← sub "y"))
  | "mapCall" => pure (.mapCall (← sub "x") (← sub "y"))
  | "optional" => pure (.optional (← sub "x"))
  | "union" => pure (.union (← sub "x") (← sub "y"))
  | "anyOf" => pure (.anyOf (← sub "x") (← sub "y"))
  | "pipe" => pure (.pipe (← sub "x") (← sub "y"))
  | "scls" => pure (.scls (← declOfJson (← j.getObjVal? "d")) (← (← j.getObjVal? "len").getNat?))
  | "tup585" => pure (.tup585 (← sub "x") (← sub "y"))
  | "tupTyping" => pure (.tupTyping (← sub "x") (← sub "y"))
  | "tupSub" => pure (.tupSub (← sub "x") (← sub "y"))
  | "tupCall" => pure (.tupCall (← sub "x") (← sub "y"))
  | "pipeLit" => pure (.pipeLit (← sub "x") (← valOfJson (← j.getObjVal? "v")) (← (← j.getObjVal? "len").getNat?))
  | s => throw s!"spelling {s}"

def dfltOfJson (j : Json) : Except String DefaultSp := do
  match optField j "dflt" with
  | none => pure .none
  | some x => do
    let how ← (← x.getObjVal? "how").getStr?
    let v ← valOfJson (← x.getObjVal? "v")
    let n ← (← x.getObjVal? "len").getNat?
    match how with
    | "eq" => pure (.eq v n)
    | "kw" => pure (.kw v n)
    | "eqF" => pure (.eqF v n)
    | "kwF" => pure (.kwF v n)
    | s => throw s!"default {s}"

def fieldSpOfJson (j : Json) : Except String FieldSp := do
  let mode ← match ← (← j.getObjVal? "mode").getStr? with
    | "ann" => pure Mode.ann
    | "assign" => pure Mode.assign
    | s => throw s!"mode {s}"
  pure { name := ← (← j.getObjVal? "name").getStr?, mode, ty := ← spOfJson (← j.getObjVal? "ty"),
         dflt := ← dfltOfJson j, inOptional := ← optBool j "inOptional" false,
         quoted := ← optBool j "quoted" false, unresolved := ← optBool j "unresolved" false }

/-! encoding of declarations in the format of `harness/dump.dump_field` -/

def optNatJ (k : String) : Option Nat → List (String × Json)
  | none => []
  | some n => [(k, Json.num (Lean.JsonNumber.fromNat n))]

def signStr : Sign → String
  | .any => "any" | .pos => "pos" | .neg => "neg" | .nonpos => "nonpos" | .nonneg => "nonneg"

def numJ (kind : String) (o : NumOpts) : Json :=
  Json.mkObj ([("k", Json.str kind)]
    ++ (match o.mult with | none => [] | some m => [("mult", Json.num (Lean.JsonNumber.fromInt m))])
    ++ (match o.min with | none => [] | some q => [("min", qToJson q)])
    ++ (match o.max with | none => [] | some q => [("max", qToJson q)])
    ++ (if o.exclMax then [("excl", Json.bool true)] else [])
    ++ (if o.sign == .any then [] else [("sign", Json.str (signStr o.sign))]))

def sizeJ (sz : SizeOpts) : List (String × Json) :=
  optNatJ "minItems" sz.min ++ optNatJ "maxItems" sz.max ++ (if sz.uniq then [("uniq", Json.bool true)] else [])

def seqJ : SeqKind → List (String × Json)
  | .list => []
  | .deque => [("seq", Json.str "deque")]

partial def declToJson : FieldDecl → Json
  | .number o => numJ "number" o
  | .integer o => numJ "integer" o
  | .float o => numJ "float" o
  | .string lo hi pat => Json.mkObj ([("k", Json.str "string")] ++ optNatJ "minLength" lo ++ optNatJ "maxLength" hi
      ++ (match pat with | none => [] | some p => [("pattern", Json.str p)]))
  | .boolean => Json.mkObj [("k", "boolean")]
  | .enumLit vs => Json.mkObj [("k", "enumLit"), ("values", Json.arr (vs.map valToJson).toArray)]
  | .enumCls c ns => Json.mkObj [("k", "enumCls"), ("cls", Json.str c), ("names", Json.arr (ns.map Json.str).toArray)]
  | .seqAny k sz => Json.mkObj ([("k", Json.str "seqAny")] ++ seqJ k ++ sizeJ sz)
  | .seqOf k f sz => Json.mkObj ([("k", Json.str "seqOf"), ("item", declToJson f)] ++ seqJ k ++ sizeJ sz)
  | .seqPos k fs addl sz => Json.mkObj ([("k", Json.str "seqPos"), ("items", Json.arr (fs.map declToJson).toArray),
      ("addl", Json.bool addl)] ++ seqJ k ++ sizeJ sz)
  | .setAny imm sz => Json.mkObj ([("k", Json.str "setAny")] ++ (if imm then [("imm", Json.bool true)] else []) ++ sizeJ sz)
  | .setOf imm f sz => Json.mkObj ([("k", Json.str "setOf"), ("item", declToJson f)]
      ++ (if imm then [("imm", Json.bool true)] else []) ++ sizeJ sz)
  | .tupleOf f u => Json.mkObj ([("k", Json.str "tupleOf"), ("item", declToJson f)] ++ (if u then [("uniq", Json.bool true)] else []))
  | .tuplePos fs u => Json.mkObj ([("k", Json.str "tuplePos"), ("items", Json.arr (fs.map declToJson).toArray)]
      ++ (if u then [("uniq", Json.bool true)] else []))
  | .mapAny sz => Json.mkObj ([("k", Json.str "mapAny")] ++ sizeJ sz)
  | .mapOf k v sz => Json.mkObj ([("k", Json.str "mapOf"), ("key", declToJson k), ("val", declToJson v)] ++ sizeJ sz)
  | .struct c fields defaults => Json.mkObj [("k", "struct"), ("name", Json.str c.name),
      ("required", Json.arr (c.required.map Json.str).toArray), ("addl", Json.bool c.addl),
      ("fields", Json.arr (fields.map fun (n, f) => Json.arr #[Json.str n, declToJson f]).toArray),
      ("defaults", Json.arr (defaults.map fun (n, v) => Json.arr #[Json.str n, valToJson v]).toArray)]
  | .anyOf fs => Json.mkObj [("k", "anyOf"), ("fields", Json.arr (fs.map declToJson).toArray)]
  | .oneOf fs => Json.mkObj [("k", "oneOf"), ("fields", Json.arr (fs.map declToJson).toArray)]
  | .allOf fs => Json.mkObj [("k", "allOf"), ("fields", Json.arr (fs.map declToJson).toArray)]
  | .notF fs => Json.mkObj [("k", "notF"), ("fields", Json.arr (fs.map declToJson).toArray)]
  | .noneF => Json.mkObj [("k", "noneF")]
  | .anything => Json.mkObj [("k", "anything")]

def fieldResToJson (r : R FieldRes) : Json :=
  match r with
  | .error e => Json.mkObj [("err", Json.str (errName e))]
  | .ok .dropped => Json.mkObj [("dropped", Json.bool true)]
  | .ok (.field d req dflt) => Json.mkObj [("d", declToJson d), ("req", Json.bool req),
      ("dflt", match dflt with | none => Json.null | some v => valToJson v), ("hasDflt", Json.bool dflt.isSome)]

def classResToJson (r : R FieldDecl) : Json :=
  match r with
  | .error e => Json.mkObj [("err", Json.str (errName e))]
  | .ok d => Json.mkObj [("ok", declToJson d)]

def runVariant (O : Oracles) (j : Json) : Except String Json := do
  let future ← optBool j "future" false
  let fields ← (← (← j.getObjVal? "fields").getArr?).toList.mapM fieldSpOfJson
  let tm := Pinned.typeMap
  let scope ← match ← optStr j "scope" with
    | some "function" => pure Scope.function
    | some "nested" => pure Scope.nested
    | some "enclosing" => pure Scope.enclosing
    | _ => pure Scope.module
  let required ← match optField j "required" with
    | none => pure none
    | some r => do
      let xs ← (← r.getArr?).toList.mapM (fun x => x.getStr?)
      pure (some xs)
  let c : ClassSp := { future, fields, scope, required }
  let perField := fields.map fun fs =>
    Json.mkObj [("name", Json.str fs.name),
                ("res", fieldResToJson (elabFieldAt scope O tm future fs)),
                ("meaning", fieldResToJson (fieldMeaning O fs)),
                ("annLen", Json.num (Lean.JsonNumber.fromNat (annLenField fs))),
                ("supported", Json.bool (fieldSupportedAt O tm scope future fs)),
                ("flat", if flatRegion tm fs && stringOk scope future fs then fieldResToJson (flatMeaning O fs)
                         else Json.null)]
  pure (Json.mkObj [("cls", classResToJson (elabClass O tm c)),
                    ("fields", Json.arr perField.toArray),
                    ("supported", Json.bool (classSupported O tm c))])

/-- one case = several spellings (variants) of the same class body -/
def run (j : Json) : Except String Json := do
  let O ← oraclesOfJson j
  let vs ← (← (← j.getObjVal? "variants").getArr?).toList.mapM (runVariant O)
  pure (Json.mkObj [("variants", Json.arr vs.toArray)])

end Typedpy.Drive.Elab
