/-
  Drive/World.lean — driver suite `world` (C15): run a history of definitions and uses through the
  `World` model configured from the GENERATED registry table, report per-step observations (incl. the set of
  classes owning a generated serializer after every step, the shape of `x.serialize()` with nested documents,
  create_serializer success, instantiability), the final state of every class, and for every class whether its
  view after the history equals its view after the sub-history it depends on ("defined alone", `slice`).
  One harness operation is a group of model operations: the instances the executor builds for the arguments
  (`pre`), then the operation itself.  The optional "decl" block evaluates `constructVal` (Sem/WorldDecl.lean) on
  concrete probe arguments.
-/
import TypedpyModel.Drive.Wire
import TypedpyModel.Sem.World
import TypedpyModel.Sem.WorldDecl
import TypedpyModel.Generated.Registries
namespace Typedpy.Drive.World
open Lean (Json)
open Typedpy.Wire Typedpy.World

def cfg : Config := configOf Generated.registries

def boolField (j : Json) (k : String) : Bool :=
  match j.getObjVal? k with
  | .ok (.bool b) => b
  | _ => false

def kindOfJson (j : Json) : Except String FieldKind := do
  if let some x := optField j "prim" then return .prim (← x.getNat?)
  if let some x := optField j "wrap" then
    return .wrap (← (← j.getObjVal? "name").getStr?) (← x.getNat?)
  if let some x := optField j "ref" then return .ref (← x.getNat?)
  if let some x := optField j "refs" then return .refs (← (← x.getArr?).toList.mapM (·.getNat?))
  throw s!"field kind {j.compress}"

def fieldOfJson (j : Json) : Except String FieldSpec := do
  pure { name := (← (← j.getObjVal? "name").getStr?),
         kind := (← kindOfJson (← j.getObjVal? "kind")),
         hasDefault := boolField j "default",
         serKey := (← (← j.getObjVal? "key").getStr?),
         camelKey := (← (← j.getObjVal? "camelKey").getStr?),
         camelName := (← (← j.getObjVal? "camelName").getStr?),
         fastOk := boolField j "fastOk",
         trustedOk := boolField j "trustedOk",
         schemaOk := boolField j "schemaOk",
         inlines := (← (← j.getObjVal? "inlines").getNat?),
         arr := boolField j "arr",
         optional := boolField j "optional",
         subKeys := (match optField j "subKeys" with
           | some (.arr a) => a.toList.filterMap fun kv => match kv with
             | .arr #[.str k, .str v] => some (k, v)
             | _ => none
           | _ => []) }

def parentOfJson (j : Json) : Except String Parent := do
  let c ← (← j.getObjVal? "c").getNat?
  let names ← strList j "names"
  match (← (← j.getObjVal? "kind").getStr?) with
  | "inherit" => pure (.inherit c)
  | "omit" => pure (.omit c names)
  | "pick" => pure (.pick c names)
  | "partial" => pure (.partialOf c)
  | "allreq" => pure (.allRequired c)
  | "extend" => pure (.omit c [])      -- Extend[C] copies every field and the live `_required`, like C.omit()
  | s => throw s!"parent kind {s}"

def srcOfJson (j : Json) : Except String ClassSrc := do
  let parent ← match optField j "parent" with
    | none => pure none
    | some p => do pure (some (← parentOfJson p))
  let fields ← (← (← j.getObjVal? "fields").getArr?).toList.mapM fieldOfJson
  let addProps := match j.getObjVal? "addProps" with
    | .ok (.bool b) => some b
    | _ => none
  pure { name := (← (← j.getObjVal? "name").getStr?), parent := parent, fields := fields,
         fast := boolField j "fast", addProps := addProps }

def flagOfStr : String → Except String Flag
  | "addProps" => pure .addProps
  | "compact" => pure .compact
  | "failFast" => pure .failFast
  | s => throw s!"flag {s}"

def argOfJson (j : Json) : Except String Arg := do
  if let some x := optField j "prim" then return .prim (← x.getNat?) (boolField j "valid")
  if let some x := optField j "inst" then return .inst (← x.getNat?)
  if let some x := optField j "struct" then return .struct (← x.getNat?)
  if let some x := optField j "structs" then return .structs (← (← x.getArr?).toList.mapM (·.getNat?))
  if let some _ := optField j "noItems" then return .noItems
  throw s!"arg {j.compress}"

def kwList (x : Json) : Except String (List (String × Arg)) := do
  (← x.getArr?).toList.mapM fun kv => do
    let a ← kv.getArr?
    if a.size != 2 then throw "kw entry"
    pure ((← a[0]!.getStr?), (← argOfJson a[1]!))

def kwArgs (j : Json) : Except String (List (String × Arg)) :=
  match optField j "kw" with
  | none => pure []
  | some x => kwList x

/-- the instances the harness builds for the arguments of an operation, innermost first: `[[class, kw], …]` -/
def preOps (j : Json) : Except String (List WorldOp) :=
  match optField j "pre" with
  | none => pure []
  | some x => do
    (← x.getArr?).toList.mapM fun p => do
      let a ← p.getArr?
      if a.size != 2 then throw "pre entry"
      pure (.construct (← a[0]!.getNat?) (← kwList a[1]!))

def flagsOfJson (j : Json) : SerFlags :=
  match optField j "flags" with
  | some f => ⟨boolField f "serialize_none", boolField f "compact"⟩
  | none => .plain

/-- one harness operation = one or two model operations (the harness's `deserialize` builds an
    instance, serializes it and deserializes the document) -/
def opOfJson (j : Json) : Except String (List WorldOp) := do
  let op ← (← j.getObjVal? "op").getStr?
  match op with
  | "setDefault" =>
    pure [.setDefault (← flagOfStr (← (← j.getObjVal? "flag").getStr?)) (boolField j "value")]
  | _ =>
    let c ← (← j.getObjVal? "c").getNat?
    let kw ← kwArgs j
    let pre ← preOps j
    match op with
    | "define" => pure [.define c (← srcOfJson (← j.getObjVal? "src"))]
    | "construct" => pure (pre ++ [.construct c kw])
    | "serialize" => pure (pre ++ [.serialize c kw (boolField j "camel")])
    | "deserialize" => pure (pre ++ [.serialize c kw (boolField j "camel"), .deserialize c kw])
    | "toSchema" => pure [.toSchema c]
    | "schemaCode" => pure [.toSchema c]     -- structure_to_schema followed by schema_to_struct_code of the result
    | "createSerializer" => pure [.createSerializer c (flagsOfJson j)]
    | "trusted" => pure (pre ++ [.serialize c kw false, .trustedDeserialize c kw])
    | s => throw s!"op {s}"

def strs (xs : List String) : Json := Json.arr (xs.map Json.str).toArray

def wrapsJson (fs : List FieldSpec) : Json :=
  Json.mkObj (fs.filterMap fun f => match f.kind with
    | .wrap _ t => some (f.name, Json.num (Lean.JsonNumber.fromNat t))
    | _ => none)

/-- the classes that have their own generated serializer (`"serialize" in cls.__dict__`) -/
def sersJson (w : World) : Json :=
  let ids := (w.classes.map (·.1)).eraseDups
  Json.arr ((ids.filter fun c => match alookup c w.classes with
    | some e => e.serializer.isSome
    | none => false).map fun c => Json.num (Lean.JsonNumber.fromNat c)).toArray

/-- shape of the document `x.serialize()` returns for an instance of FastSerializable class `c` built from the
    fields `present` (nested instances are complete), computed from the VIEWS: the class's own serializer (keys,
    flags) and, per reference, the serializer its referenced class's instances are serialized with -/
def docJson (w : World) : Nat → ClassId → Option (List String) → Json
  | 0, _, _ => Json.str "?"
  | n + 1, c, present =>
    match view cfg w c with
    | none => Json.str "?"
    | some b =>
      match b.fastSer with
      | none => Json.str "slow"
      | some s =>
        if b.fields.length ≤ 1 then Json.str "?" else     -- a one-field class may serialize to the bare value
        let items := (b.fields.zip s.keys).filterMap fun (f, key) =>
          let here := match present with
            | none => true
            | some ps => ps.contains f.name || f.hasDefault
          let v : Json :=
            if !here then Json.null
            else match f.kind with
              | .ref r =>
                if f.arr then
                  (if present.isSome && !f.hasDefault && (match present with | some ps => ps.contains (f.name ++ "[]") | none => false)
                   then Json.arr #[] else Json.arr #[docJson w n r none])
                else docJson w n r none
              | _ => Json.str "v"
          if v.isNull && !s.flags.serNone then none else some (key, v)
        Json.mkObj items

/-- per-step observation; for `define` also the resolved implicit wrappers of the new class -/
def stepJson (w0 w' : World) (op : WorldOp) (o : Obs) : Json :=
  let base := [("done", Json.bool o.done), ("accepted", Json.bool o.accepted), ("keys", strs o.keys), ("wrote", Json.bool o.wrote),
               ("clash", Json.bool o.clash), ("sers", sersJson w')]
  match op with
  | .serialize c kw _ =>
    let present := (kw.map fun p => match p.2 with | .noItems => p.1 ++ "[]" | _ => p.1) ++ (kw.map (·.1))
    Json.mkObj (base ++ [("doc", docJson w' (w'.classes.length + 1) c (some present)),
                         ("instantiable", Json.bool ((view cfg w0 c).map (·.instantiable) |>.getD false))])
  | .construct c _ =>
    Json.mkObj (base ++ [("instantiable", Json.bool ((view cfg w0 c).map (·.instantiable) |>.getD false))])
  | .define c _ =>
    let wr := match alookup c w'.classes with
      | some e => wrapsJson e.core.fields
      | none => Json.mkObj []
    Json.mkObj (base ++ [("wraps", wr)])
  | .toSchema c =>
    let req := match alookup c w'.classes with
      | some e => strs e.required
      | none => Json.null
    Json.mkObj (base ++ [("requiredAfter", req)])
  | _ => Json.mkObj base

/-- run the model operations of one harness operation; report the last one's observation -/
def runGroup : World → List WorldOp → World × Option Json
  | w, [] => (w, none)
  | w, [op] => let r := stepW cfg w op; (r.1, some (stepJson w r.1 op r.2))
  | w, op :: rest => runGroup (stepW cfg w op).1 rest

def runSteps : World → List (List WorldOp) → World × List Json
  | w, [] => (w, [])
  | w, g :: h =>
    let r := runGroup w g
    let rest := runSteps r.1 h
    (rest.1, r.2.getD Json.null :: rest.2)

/-- which components of the behaviour differ (the registry each is blamed on) -/
def causes (a b : Option Behaviour) : List String :=
  match a, b with
  | some x, some y =>
    (if x.fields != y.fields then ["wrapper-clash"] else []) ++
    (if x.required != y.required || x.sigRequired != y.sigRequired then ["required-written"] else []) ++
    (if x.schemaRequired != y.schemaRequired then ["schema-required"] else []) ++
    (if x.serMapper != y.serMapper || x.serMapperCamel != y.serMapperCamel then ["mapper-cache"] else []) ++
    (if x.fastSer != y.fastSer || x.refSers != y.refSers then ["serializer-install"] else []) ++
    (if x.instantiable != y.instantiable then ["instantiable"] else []) ++
    (if x.trusted != y.trusted then ["simplicity-cache"] else []) ++
    (if x.kwargs != y.kwargs || x.extras != y.extras || x.compact != y.compact || x.failFast != y.failFast
     then ["flags"] else [])
  | none, none => []
  | _, _ => ["defined-on-one-side"]

def classJson (h : List WorldOp) (wEnd : World) (closures : Json) (c : ClassId) : Json :=
  match alookup c wEnd.classes with
  | none => Json.null
  | some e =>
    let T : List ClassId := match closures.getObjVal? (toString c) with
      | .ok (.arr a) => a.toList.filterMap fun x => x.getNat?.toOption
      | _ => [c]
    let Tf : ClassId → Bool := fun d => T.contains d
    let alone := runW cfg World.initial (slice Tf h)
    let va := view cfg wEnd c
    let vb := view cfg alone c
    Json.mkObj [
      ("required", strs e.required), ("sigRequired", strs e.core.sigRequired),
      ("kwargs", Json.bool e.core.kwargs), ("ownSerialize", Json.bool e.serializer.isSome),
      ("created", Json.bool e.createdFast),
      ("mapperCached", Json.bool ((alookup (mkey cfg c e false) wEnd.mapperCache).isSome
                                   || (alookup (mkey cfg c e true) wEnd.mapperCache).isSome)),
      ("fields", strs (fnames e.core.fields)),
      ("closed", Json.bool (closed Tf h)),
      ("interferes", Json.bool (va != vb)),
      ("causes", strs (causes va vb))]

/-- the "decl" block: interpret the field tags as the `FieldDecl`s the harness dumped from the real field objects and
    evaluate `constructVal` (Sem/WorldDecl.lean: the Sem/Validate constructor of the declaration assembled from
    the class's VIEW in the final world) on the concrete probe arguments -/
def declBlock (j : Json) (wEnd : World) : Except String Json := do
  match optField j "decl" with
  | none => pure Json.null
  | some d =>
    let prims ← (← kvList d "prims").mapM fun (k, x) => do pure (k, ← declOfJson x)
    let dflts ← (← kvList d "defaults").mapM fun (k, x) => do pure (k, ← valOfJson x)
    let env : DeclEnv := { prim := fun t => (prims.find? fun p => p.1 == toString t).map (·.2),
                           dflt := fun t => (dflts.find? fun p => p.1 == toString t).map (·.2) }
    let O ← oraclesOfJson d
    let probes ← match optField d "probes" with
      | some (.arr a) => pure a.toList
      | _ => pure []
    let res ← probes.mapM fun p => do
      let c ← (← p.getObjVal? "c").getNat?
      let kw ← kwOfJson (← p.getObjVal? "kw")
      let r : String := match view cfg wEnd c with
        | none => "undefined"
        | some b => match constructVal O env b kw with
          | none => "outside"
          | some (.ok _) => "ok"
          | some (.error e) => errName e
      pure (Json.mkObj [("c", Json.num (Lean.JsonNumber.fromNat c)), ("name", (p.getObjVal? "name").toOption.getD Json.null),
                        ("res", Json.str r)])
    pure (Json.arr res.toArray)

def run (j : Json) : Except String Json := do
  let groups ← (← (← j.getObjVal? "ops").getArr?).toList.mapM opOfJson
  let ops := groups.flatten
  let closures := (j.getObjVal? "closures").toOption.getD (Json.mkObj [])
  let r := runSteps World.initial groups
  let wEnd := r.1
  let ids := ops.filterMap fun op => match op with | .define c _ => some c | _ => none
  let declRes ← declBlock j wEnd
  pure (Json.mkObj [
    ("declResults", declRes),
    ("steps", Json.arr r.2.toArray),
    ("world", Json.mkObj [("counter", Json.num (Lean.JsonNumber.fromNat wEnd.srCounter)),
                          ("flags", Json.mkObj [("addProps", Json.bool wEnd.flags.addProps),
                                                ("compact", Json.bool wEnd.flags.compact),
                                                ("failFast", Json.bool wEnd.flags.failFast)])]),
    ("classes", Json.mkObj (ids.map fun c => (toString c, classJson ops wEnd closures c))),
    ("config", Json.mkObj [("wrapperByName", Json.bool cfg.wrapperByName),
                           ("schemaWritesRequired", Json.bool cfg.schemaWritesRequired),
                           ("mapperByName", Json.bool cfg.mapperByName),
                           ("mapperDropsCamel", Json.bool cfg.mapperDropsCamel),
                           ("simplicityByName", Json.bool cfg.simplicityByName),
                           ("serializerOnBase", Json.bool cfg.serializerOnBase)])])

end Typedpy.Drive.World
