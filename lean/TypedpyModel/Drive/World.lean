/-
  Drive/World.lean — driver suite `world` (stub; to be implemented).
-/
import TypedpyModel.Drive.Wire
namespace Typedpy.Drive.World
open Lean (Json)

def run (_j : Json) : Except String Json := .error "suite world not implemented"

end Typedpy.Drive.World
