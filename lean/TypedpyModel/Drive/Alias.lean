/-
  Drive/Alias.lean — driver suite `alias` (C19): runs the heap model of Sem/Alias.lean, under the table
  regenerated from /repo (`Generated.aliasing`), on the abstraction of the very object graph the real
  operation was given, and reports which source cells the result shares (prediction of the `is`-identity
  verdict), whether an argument cell changed, and whether the declaration is one the theorems cover.

  Wire format (trusted glue):
    shape : "any" | "untyped" | {"s": cat} | {"c": kind, "item": shape}
            | {"k": kind, "fields": [[name, shape], …]} | {"w": kind, "inner": shape}
            | {"wn": kind, "pick": "first" | n, "opts": [shape, …]} | {"o": shape}
    cells : [[tag, [[key, item], …]], …]   (address = position)
    item : n (atom; n = Python class of the scalar: 0 None, 1 bool, 2 int, 3 float, 4 str, 5 other) | {"r": address}
-/
import Lean.Data.Json
import TypedpyModel.Spec.AliasScope
import TypedpyModel.Generated.Aliasing
namespace Typedpy.Drive.Alias
open Lean (Json)
open Typedpy.Alias

def opOf : String → Except String OpK
  | "construct" => pure .construct | "setattr" => pure .setattr | "deserialize" => pure .deserialize
  | "serialize" => pure .serialize | "fieldSerialize" => pure .fieldSerialize
  | "fastSerialize" => pure .fastSerialize | "convert" => pure .convert | "derive" => pure .derive
  | "toSchema" => pure .toSchema | "schemaToCode" => pure .schemaToCode
  | s => throw s!"unknown op {s}"

def kindOf : String → Except String Kind
  | "root" => pure .root | "array" => pure .array | "deque" => pure .deque | "set" => pure .set | "immSet" => pure .immSet
  | "tuple" => pure .tuple | "map" => pure .map | "arrayPos" => pure .arrayPos | "dequePos" => pure .dequePos
  | "tuplePos" => pure .tuplePos | "struct" => pure .struct | "inline" => pure .inline
  | "anyOf" => pure .anyOf | "oneOf" => pure .oneOf | "allOf" => pure .allOf | "notF" => pure .notF
  | "any" => pure .any | "owner" => pure .owner | "misfit" => pure .misfit | "document" => pure .document | "mapping" => pure .mapping | "names" => pure .names
  | "required" => pure .required | "enumValues" => pure .enumValues | "default" => pure .default
  | "schema" => pure .schema | "fieldState" => pure .fieldState
  | s => throw s!"unknown kind {s}"

def catOf : String → Except String Cat
  | "none" => pure .none | "number" => pure .number | "string" => pure .string | "scalar" => pure .scalar
  | "any" => pure .any | "untyped" => pure .untyped | "coll" => pure .coll | "struct" => pure .struct
  | "inline" => pure .inline | "wrap" => pure .wrap | "enum" => pure .enum | "tupl" => pure .tupl
  | s => throw s!"unknown cat {s}"

partial def shapeOf (j : Json) : Except String Shape :=
  match j with
  | .str "any" => pure .any
  | .str "untyped" => pure .untyped
  | .obj _ => do
    if let .ok x := j.getObjVal? "s" then return .scalar (← catOf (← x.getStr?))
    if let .ok x := j.getObjVal? "c" then
      return .coll (← kindOf (← x.getStr?)) (← shapeOf (← j.getObjVal? "item"))
    if let .ok x := j.getObjVal? "w" then
      return .wrap (← kindOf (← x.getStr?)) (← shapeOf (← j.getObjVal? "inner"))
    if let .ok x := j.getObjVal? "o" then return .owned (← shapeOf x)
    if let .ok x := j.getObjVal? "wn" then
      let opts ← (← (← j.getObjVal? "opts").getArr?).toList.mapM shapeOf
      let pick ← match j.getObjVal? "pick" with
        | .ok (.str "first") => pure Pick.firstFit
        | .ok p => do pure (Pick.fixed (← p.getNat?))
        | .error _ => pure Pick.firstFit
      return .wrapN (← kindOf (← x.getStr?)) pick opts
    if let .ok x := j.getObjVal? "k" then
      let fs ← (← (← j.getObjVal? "fields").getArr?).toList.mapM fun f => do
        let p ← f.getArr?
        if p.size != 2 then throw "field entry"
        pure ((← p[0]!.getStr?), (← shapeOf p[1]!))
      return .keyed (← kindOf (← x.getStr?)) fs
    throw s!"shape: {j.compress}"
  | _ => throw s!"shape: {j.compress}"

def itemOf (j : Json) : Except String Item :=
  match j.getObjVal? "r" with
  | .ok a => do pure (.ref (← a.getNat?))
  | .error _ => match j.getNat? with
    | .ok n => pure (.atom n)
    | .error _ => pure (.atom 0)

def cellOf (j : Json) : Except String Cell := do
  let p ← j.getArr?
  if p.size != 2 then throw "cell"
  let items ← (← p[1]!.getArr?).toList.mapM fun kv => do
    let q ← kv.getArr?
    if q.size != 2 then throw "cell item"
    pure ((← q[0]!.getStr?), (← itemOf q[1]!))
  pure ⟨← p[0]!.getStr?, items⟩

def mutableTag (t : String) : Bool :=
  t == "list" || t == "dict" || t == "set" || t == "deque" || t == "inst" ||
  t == "wlist" || t == "wdict" || t == "wdeque" || t == "iinst"

def modeName : Mode → String
  | .rebuild => "rebuild" | .alias => "alias" | .shallow => "shallow" | .deep => "deep" | .error => "error"

def dedupSorted (xs : List Nat) : List Nat :=
  (xs.toArray.qsort (· < ·)).toList.eraseDups

def run (j : Json) : Except String Json := do
  if let .ok _ := j.getObjVal? "skip" then return Json.mkObj [("skip", .bool true)]
  let op ← opOf (← (← j.getObjVal? "op").getStr?)
  let shape ← shapeOf (← j.getObjVal? "shape")
  let cells ← (← (← j.getObjVal? "cells").getArr?).toList.mapM cellOf
  let src ← itemOf (← j.getObjVal? "src")
  let h0 := Heap.ofList cells
  let n0 := cells.length
  let tbl := Typedpy.Generated.aliasing
  let r := execOp tbl op .root 64 shape h0 src
  let argsSame := sameBelow n0 h0 r.1
  let safe := safeShape (modeOf tbl op) shape
  let admittedAll := (sitesOf shape).all (Typedpy.C19.admitted tbl op)
  let modes := Json.arr ((sitesOf shape).eraseDups.map fun kc =>
    Json.arr #[.str (toString (repr kc.1)), .str (toString (repr kc.2)), .str (modeName (modeOf tbl op kc.1 kc.2))]).toArray
  -- sites of the declaration the table has no row for (the model then assumes the unsafe `alias`: no prediction there)
  let unknown := Json.arr (((sitesOf shape).eraseDups.filter fun kc => (lookupRow tbl op kc.1 kc.2).isNone).map fun kc =>
    Json.arr #[.str (toString (repr kc.1)), .str (toString (repr kc.2))]).toArray
  match r.2 with
  | none => pure (Json.mkObj [("ok", .bool false), ("argsSame", .bool argsSame), ("safe", .bool safe),
                              ("admitted", .bool admittedAll), ("modes", modes), ("unknown", unknown)])
  | some res =>
    let reach := reachList 48 r.1 res
    let shared := dedupSorted (reach.filter fun a => a < n0 && mutableTag (h0.cells a).tag)
    pure (Json.mkObj [("ok", .bool true), ("argsSame", .bool argsSame), ("safe", .bool safe),
                      ("admitted", .bool admittedAll), ("modes", modes), ("unknown", unknown),
                      ("shared", Json.arr (shared.map fun a => Json.num (Lean.JsonNumber.fromNat a)).toArray)])

end Typedpy.Drive.Alias
