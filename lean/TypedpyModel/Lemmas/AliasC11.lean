/-
  Lemmas/AliasC11.lean — the copy walk of Sem/AliasC11.lean
  * never touches a pre-existing cell, whatever the table (`dcItem_frame`);
  * in strict mode returns only what it allocated, unconditionally (`dcItem_fresh`): the region
    allocated by the walk is closed under references and holds the result;
  * a successful strict walk is the real walk (`dcItem_strict_agree`).
-/
import TypedpyModel.Sem.AliasC11
import TypedpyModel.Lemmas.Alias
set_option linter.unusedVariables false
set_option linter.unusedSimpArgs false
namespace Typedpy.AliasC11
open Typedpy.Alias

/-! ## frame -/

theorem c11_frame_write {h0 h : Heap} (fr : Frame h0 h) {a : Nat} (ha : h0.next ≤ a) (c : Cell) :
    Frame h0 (h.write a c) := by
  refine ⟨fr.1, fun x hx => ?_⟩
  simp only [Heap.write]
  rw [if_neg (Nat.ne_of_lt (Nat.lt_of_lt_of_le hx ha))]
  exact fr.2 x hx

theorem dcWrapper_frame {rec : Heap → Item → R Item} (hr : FrameSpec rec) (strict : Bool) (B : BackRef)
    (memo : List (Nat × Nat)) (h : Heap) (w : Nat) (h' : Heap) (r : Option Item)
    (e : dcWrapper rec strict B memo h w = (h', r)) : Frame h h' := by
  unfold dcWrapper at e
  cases h1 : mapItems rec h (elemsOf (h.cells w).items) with
  | mk h1' o =>
    have f1 := mapItems_frame hr _ _ _ _ h1
    rw [h1] at e
    cases o with
    | none => simp only [Prod.mk.injEq] at e; rw [← e.1]; exact f1
    | some its =>
      simp only at e
      split at e
      · split at e
        · exact f1.trans (allocLike_frame _ _ _ _ _ e)
        · split at e
          · simp only [Prod.mk.injEq] at e; rw [← e.1]; exact f1
          · exact f1.trans (allocLike_frame _ _ _ _ _ e)
        · split at e
          · exact f1.trans (allocLike_frame _ _ _ _ _ e)
          · split at e
            · simp only [Prod.mk.injEq] at e; rw [← e.1]; exact f1
            · exact f1.trans (allocLike_frame _ _ _ _ _ e)
        · split at e
          · exact f1.trans (allocLike_frame _ _ _ _ _ e)
          · split at e
            · split at e
              · simp only [Prod.mk.injEq] at e; rw [← e.1]; exact f1
              · exact f1.trans (allocLike_frame _ _ _ _ _ e)
            · exact f1.trans (allocLike_frame _ _ _ _ _ e)
        · split at e
          · exact f1.trans (allocLike_frame _ _ _ _ _ e)
          · split at e
            · rename_i h2' heq
              simp only [Prod.mk.injEq] at e; rw [← e.1]; exact f1.trans (hr _ _ _ _ heq)
            · rename_i h2' io heq
              exact (f1.trans (hr _ _ _ _ heq)).trans (allocLike_frame _ _ _ _ _ e)
      · exact f1.trans (allocLike_frame _ _ _ _ _ e)
      · exact f1.trans (allocLike_frame _ _ _ _ _ e)

theorem dcAttr_frame {rec : Heap → Item → R Item} (hr : FrameSpec rec) (strict : Bool) (T : CKind → KindRow)
    (self new : Nat) : FrameSpec (dcAttr rec strict T self new) := by
  intro h i h' r e
  cases i with
  | atom v => simp only [dcAttr, Prod.mk.injEq] at e; rw [← e.1]; exact Frame.rfl' _
  | ref v =>
    simp only [dcAttr] at e
    split at e
    · exact dcWrapper_frame hr _ _ _ _ _ _ _ e
    · exact hr _ _ _ _ e

theorem dcNode_frame {rec recV : Heap → Item → R Item} (hr : FrameSpec rec) (hv : FrameSpec recV) (strict : Bool)
    (T : CKind → KindRow) (via : Bool)
    (h : Heap) (a : Nat) (h' : Heap) (r : Option Item) (e : dcNode rec recV strict T via h a = (h', r)) : Frame h h' := by
  unfold dcNode at e
  split at e
  · split at e
    · split at e <;> (simp only [Prod.mk.injEq] at e; rw [← e.1]; exact Frame.rfl' _)
    · split at e
      · simp only [Prod.mk.injEq] at e; rw [← e.1]; exact Frame.rfl' _
      · exact allocLike_frame _ _ _ _ _ e
    · have fa := frame_alloc h ⟨(h.cells a).tag, []⟩
      split at e
      · rename_i h2 heq
        have f2 := mapItems_frame (dcAttr_frame hv strict T a h.next) _ _ _ _ heq
        simp only [Prod.mk.injEq] at e; rw [← e.1]; exact fa.trans f2
      · rename_i h2 its heq
        have f2 := mapItems_frame (dcAttr_frame hv strict T a h.next) _ _ _ _ heq
        simp only [Prod.mk.injEq] at e; rw [← e.1]
        exact c11_frame_write (fa.trans f2) (Nat.le_refl _) _
  · split at e
    · split at e
      · exact dcWrapper_frame hv _ _ _ _ _ _ _ e
      · exact dcWrapper_frame hr _ _ _ _ _ _ _ e
    · split at e
      · rename_i h1 heq
        simp only [Prod.mk.injEq] at e; rw [← e.1]; exact mapItems_frame hr _ _ _ _ heq
      · rename_i h1 its heq
        exact (mapItems_frame hr _ _ _ _ heq).trans (allocLike_frame _ _ _ _ _ e)

/-- **the copy walk never touches a pre-existing cell** — any table, strict or not, any fuel,
    successful or not: `copy.deepcopy(x)` / a pickle round trip leave `x` and everything else alone -/
theorem dcItem_frame (strict : Bool) (T : CKind → KindRow) : ∀ n via, FrameSpec (dcItem strict T n via) := by
  intro n
  induction n with
  | zero =>
    intro via h i h' r e
    cases i <;> (simp only [dcItem, Prod.mk.injEq] at e; rw [← e.1]; exact Frame.rfl' _)
  | succ n ih =>
    intro via h i h' r e
    cases i with
    | atom v => simp only [dcItem, Prod.mk.injEq] at e; rw [← e.1]; exact Frame.rfl' _
    | ref a => simp only [dcItem] at e; exact dcNode_frame (ih via) (ih true) strict T via h a h' r e

/-! ## freshness of the strict walk -/

/-- `FreshSpec` under an invariant of the heap that every frame step keeps (here: the placeholder
    of the structure being copied has been allocated) -/
def FreshSpecI (I : Heap → Prop) (n0 : Nat) (f : Heap → Item → R Item) : Prop :=
  ∀ h i h' i', I h → n0 ≤ h.next → NewClosed n0 h → f h i = (h', some i') → NewClosed n0 h' ∧ ItemIn n0 h' i'

theorem mapItems_freshI {I : Heap → Prop} (hI : ∀ h h', Frame h h' → I h → I h') {n0 : Nat}
    {f : Heap → Item → R Item} (hf : FrameSpec f) (hs : FreshSpecI I n0 f) :
    ∀ its h h' r, I h → n0 ≤ h.next → NewClosed n0 h → mapItems f h its = (h', some r) →
      NewClosed n0 h' ∧ ItemsIn n0 h' r := by
  intro its
  induction its with
  | nil =>
    intro h h' r _ le nc e
    simp only [mapItems, Prod.mk.injEq, Option.some.injEq] at e
    rw [← e.1, ← e.2]; exact ⟨nc, fun p hp => nomatch hp⟩
  | cons p rest ih =>
    intro h h' r inv le nc e
    obtain ⟨k, i⟩ := p
    simp only [mapItems] at e
    cases h1 : f h i with
    | mk h1' o =>
      rw [h1] at e
      cases o with
      | none => simp at e
      | some i' =>
        simp only at e
        have fr1 := hf _ _ _ _ h1
        have s1 := hs _ _ _ _ inv le nc h1
        cases h2 : mapItems f h1' rest with
        | mk h2' o2 =>
          rw [h2] at e
          cases o2 with
          | none => simp at e
          | some r2 =>
            simp only [Prod.mk.injEq, Option.some.injEq] at e
            have fr2 := mapItems_frame hf _ _ _ _ h2
            have s2 := ih _ _ _ (hI _ _ fr1 inv) (Nat.le_trans le fr1.1) s1.1 h2
            rw [← e.1, ← e.2]
            refine ⟨s2.1, ?_⟩
            intro p hp
            cases hp with
            | head => exact s1.2.mono fr2.1
            | tail _ hp' => exact s2.2 p hp'

/-- every new object the memo names lies in the region -/
def MemoIn (n0 : Nat) (h : Heap) (memo : List (Nat × Nat)) : Prop :=
  ∀ p, p ∈ memo → n0 ≤ p.2 ∧ p.2 < h.next

theorem memoFind_mem {memo : List (Nat × Nat)} {o n : Nat} (e : memoFind memo o = some n) :
    ∃ p, p ∈ memo ∧ p.2 = n := by
  unfold memoFind at e
  split at e
  · rename_i p hp
    simp only [Option.some.injEq] at e
    exact ⟨p, List.mem_of_find?_eq_some hp, e⟩
  · cases e

theorem itemsIn_append {n0 : Nat} {h : Heap} {a b : List (String × Item)} (ha : ItemsIn n0 h a)
    (hb : ItemsIn n0 h b) : ItemsIn n0 h (a ++ b) := by
  intro p hp
  rcases List.mem_append.1 hp with h1 | h1
  · exact ha p h1
  · exact hb p h1

theorem itemsIn_mono {n0 : Nat} {h h' : Heap} {a : List (String × Item)} (ha : ItemsIn n0 h a)
    (le : h.next ≤ h'.next) : ItemsIn n0 h' a := fun p hp => (ha p hp).mono le

theorem itemsIn_single {n0 : Nat} {h : Heap} {k : String} {i : Item} (hi : ItemIn n0 h i) :
    ItemsIn n0 h [(k, i)] := by
  intro p hp
  simp only [List.mem_singleton] at hp
  subst hp
  exact hi

theorem dcWrapper_fresh {n0 : Nat} {rec : Heap → Item → R Item} (hr : FrameSpec rec) (hs : FreshSpec n0 rec)
    (B : BackRef) (memo : List (Nat × Nat)) (h : Heap) (w : Nat) (h' : Heap) (i' : Item)
    (hm : MemoIn n0 h memo) (le : n0 ≤ h.next) (nc : NewClosed n0 h)
    (e : dcWrapper rec true B memo h w = (h', some i')) : NewClosed n0 h' ∧ ItemIn n0 h' i' := by
  unfold dcWrapper at e
  cases h1 : mapItems rec h (elemsOf (h.cells w).items) with
  | mk h1' o =>
    have f1 := mapItems_frame hr _ _ _ _ h1
    rw [h1] at e
    cases o with
    | none => simp at e
    | some its =>
      have s1 := mapItems_fresh hr hs _ _ _ _ le nc h1
      have le1 : n0 ≤ h1'.next := Nat.le_trans le f1.1
      simp only at e
      split at e
      · split at e
        · exact allocLike_fresh le1 s1.1 _ s1.2 e
        · simp at e
        · split at e
          · rename_i n hn
            obtain ⟨p, hp, rfl⟩ := memoFind_mem hn
            have hin : ItemIn n0 h1' (.ref p.2) := by
              intro a ea
              simp only [Item.ref.injEq] at ea
              subst ea
              exact ⟨(hm p hp).1, Nat.lt_of_lt_of_le (hm p hp).2 f1.1⟩
            exact allocLike_fresh le1 s1.1 _ (itemsIn_append s1.2 (itemsIn_single hin)) e
          · simp at e
        · split at e
          · rename_i n hn
            obtain ⟨p, hp, rfl⟩ := memoFind_mem hn
            have hin : ItemIn n0 h1' (.ref p.2) := by
              intro a ea
              simp only [Item.ref.injEq] at ea
              subst ea
              exact ⟨(hm p hp).1, Nat.lt_of_lt_of_le (hm p hp).2 f1.1⟩
            exact allocLike_fresh le1 s1.1 _ (itemsIn_append s1.2 (itemsIn_single hin)) e
          · split at e
            · simp at e
            · exact allocLike_fresh le1 s1.1 _ s1.2 e
        · split at e
          · rename_i n hn
            obtain ⟨p, hp, rfl⟩ := memoFind_mem hn
            have hin : ItemIn n0 h1' (.ref p.2) := by
              intro a ea
              simp only [Item.ref.injEq] at ea
              subst ea
              exact ⟨(hm p hp).1, Nat.lt_of_lt_of_le (hm p hp).2 f1.1⟩
            exact allocLike_fresh le1 s1.1 _ (itemsIn_append s1.2 (itemsIn_single hin)) e
          · split at e
            · simp at e
            · rename_i h2' io heq
              have f2 := hr _ _ _ _ heq
              have s2 := hs _ _ _ _ le1 s1.1 heq
              exact allocLike_fresh (Nat.le_trans le1 f2.1) s2.1 _
                (itemsIn_append (itemsIn_mono s1.2 f2.1) (itemsIn_single s2.2)) e
      · exact allocLike_fresh le1 s1.1 _ (itemsIn_append s1.2 (itemsIn_single (itemIn_atom _ _ _))) e
      · exact allocLike_fresh le1 s1.1 _ s1.2 e

theorem dcAttr_fresh {n0 : Nat} {rec : Heap → Item → R Item} (hr : FrameSpec rec) (hs : FreshSpec n0 rec)
    (T : CKind → KindRow) (self new : Nat) (hn : n0 ≤ new) :
    FreshSpecI (fun h => new < h.next) n0 (dcAttr rec true T self new) := by
  intro h i h' i' inv le nc e
  cases i with
  | atom v =>
    simp only [dcAttr, Prod.mk.injEq, Option.some.injEq] at e
    rw [← e.1, ← e.2]; exact ⟨nc, itemIn_atom _ _ _⟩
  | ref v =>
    simp only [dcAttr] at e
    split at e
    · refine dcWrapper_fresh hr hs _ _ _ _ _ _ ?_ le nc e
      intro p hp
      simp only [List.mem_singleton] at hp
      subst hp
      exact ⟨hn, inv⟩
    · exact hs _ _ _ _ le nc e

theorem c11_write_fresh {n0 : Nat} {h : Heap} (nc : NewClosed n0 h) {a : Nat} (ha : n0 ≤ a ∧ a < h.next)
    (tag : String) {its : List (String × Item)} (hi : ItemsIn n0 h its) :
    NewClosed n0 (h.write a ⟨tag, its⟩) := by
  intro x hx hlt k hk
  simp only [Heap.write] at hlt hk ⊢
  by_cases e : x = a
  · rw [if_pos e] at hk
    obtain ⟨key, hm⟩ := mem_kids hk
    exact hi _ hm k rfl
  · rw [if_neg e] at hk
    exact nc x hx hlt k hk

theorem dcNode_fresh {n0 : Nat} {rec recV : Heap → Item → R Item} (hr : FrameSpec rec) (hs : FreshSpec n0 rec)
    (hrv : FrameSpec recV) (hsv : FreshSpec n0 recV) (via : Bool)
    (T : CKind → KindRow) (h : Heap) (a : Nat) (h' : Heap) (i' : Item) (le : n0 ≤ h.next) (nc : NewClosed n0 h)
    (e : dcNode rec recV true T via h a = (h', some i')) : NewClosed n0 h' ∧ ItemIn n0 h' i' := by
  unfold dcNode at e
  split at e
  · split at e
    · simp at e
    · simp at e
    · have fa := frame_alloc h ⟨(h.cells a).tag, []⟩
      have sa := alloc_fresh le nc (h.cells a).tag (its := []) (fun p hp => nomatch hp)
      split at e
      · simp at e
      · rename_i h2 its heq
        have f2 := mapItems_frame (dcAttr_frame hrv true T a h.next) _ _ _ _ heq
        have s2 := mapItems_freshI (I := fun hh => h.next < hh.next)
          (fun h1 h2 fr inv => Nat.lt_of_lt_of_le inv fr.1)
          (dcAttr_frame hrv true T a h.next) (dcAttr_fresh hrv hsv T a h.next le) _ _ _ _
          (by simp [Heap.alloc]) (Nat.le_trans le fa.1) sa.1 heq
        simp only [Prod.mk.injEq, Option.some.injEq] at e
        have hlt : h.next < h2.next := Nat.lt_of_lt_of_le (by simp [Heap.alloc]) f2.1
        rw [← e.1, ← e.2]
        refine ⟨c11_write_fresh s2.1 ⟨le, hlt⟩ _ s2.2, ?_⟩
        intro x ex
        simp only [Item.ref.injEq] at ex
        subst ex
        exact ⟨le, hlt⟩
  · split at e
    · split at e
      · exact dcWrapper_fresh hrv hsv _ _ _ _ _ _ (fun p hp => by cases hp) le nc e
      · exact dcWrapper_fresh hr hs _ _ _ _ _ _ (fun p hp => by cases hp) le nc e
    · split at e
      · simp at e
      · rename_i h1 its heq
        have f1 := mapItems_frame hr _ _ _ _ heq
        have s1 := mapItems_fresh hr hs _ _ _ _ le nc heq
        exact allocLike_fresh (Nat.le_trans le f1.1) s1.1 _ s1.2 e

/-- **the strict copy walk returns only what it allocated**, for ANY table: the region allocated
    since `n0` stays closed under references and holds the result -/
theorem dcItem_fresh (n0 : Nat) (T : CKind → KindRow) : ∀ n via, FreshSpec n0 (dcItem true T n via) := by
  intro n
  induction n with
  | zero =>
    intro via h i h' i' le nc e
    cases i with
    | atom v =>
      simp only [dcItem, Prod.mk.injEq, Option.some.injEq] at e
      rw [← e.1, ← e.2]; exact ⟨nc, itemIn_atom _ _ _⟩
    | ref a => simp [dcItem] at e
  | succ n ih =>
    intro via h i h' i' le nc e
    cases i with
    | atom v =>
      simp only [dcItem, Prod.mk.injEq, Option.some.injEq] at e
      rw [← e.1, ← e.2]; exact ⟨nc, itemIn_atom _ _ _⟩
    | ref a =>
      simp only [dcItem] at e
      exact dcNode_fresh (dcItem_frame true T n via) (ih via) (dcItem_frame true T n true) (ih true) via T h a h' i' le nc e

/-! ## a successful strict walk is the real walk -/

def AgreeSpec (f g : Heap → Item → R Item) : Prop :=
  ∀ h i h' i', f h i = (h', some i') → g h i = (h', some i')

theorem mapItems_agree {f g : Heap → Item → R Item} (hfg : AgreeSpec f g) :
    ∀ its h h' r, mapItems f h its = (h', some r) → mapItems g h its = (h', some r) := by
  intro its
  induction its with
  | nil => intro h h' r e; simpa [mapItems] using e
  | cons p rest ih =>
    intro h h' r e
    obtain ⟨k, i⟩ := p
    simp only [mapItems] at e ⊢
    cases h1 : f h i with
    | mk h1' o =>
      rw [h1] at e
      cases o with
      | none => simp at e
      | some i' =>
        simp only at e
        rw [hfg _ _ _ _ h1]
        simp only
        cases h2 : mapItems f h1' rest with
        | mk h2' o2 =>
          rw [h2] at e
          cases o2 with
          | none => simp at e
          | some r2 =>
            rw [ih _ _ _ h2]
            exact e

theorem dcWrapper_agree {f g : Heap → Item → R Item} (hfg : AgreeSpec f g) (B : BackRef)
    (memo : List (Nat × Nat)) (h : Heap) (w : Nat) (h' : Heap) (i' : Item)
    (e : dcWrapper f true B memo h w = (h', some i')) : dcWrapper g false B memo h w = (h', some i') := by
  unfold dcWrapper at e ⊢
  cases h1 : mapItems f h (elemsOf (h.cells w).items) with
  | mk h1' o =>
    rw [h1] at e
    cases o with
    | none => simp at e
    | some its =>
      rw [mapItems_agree hfg _ _ _ _ h1]
      simp only at e ⊢
      cases hb : backOf (h.cells w).items with
      | none => simp only [hb] at e ⊢; exact e
      | some it =>
        cases it with
        | atom v => simp only [hb] at e ⊢; exact e
        | ref o =>
          simp only [hb] at e ⊢
          cases B with
          | detach => exact e
          | owner => simp at e
          | memoOrOwner =>
            simp only at e ⊢
            cases hn : memoFind memo o with
            | some n => simp only [hn] at e ⊢; exact e
            | none => simp [hn] at e
          | memoOrDetach =>
            simp only at e ⊢
            cases hn : memoFind memo o with
            | some n => simp only [hn] at e ⊢; exact e
            | none =>
              simp only [hn] at e ⊢
              split at e
              · simp at e
              · rename_i hsc; simp only [hsc, if_false]; exact e
          | memoOrCopyOwner =>
            simp only at e ⊢
            cases hn : memoFind memo o with
            | some n => simp only [hn] at e ⊢; exact e
            | none =>
              simp only [hn] at e ⊢
              cases h2 : f h1' (.ref o) with
              | mk h2' oo =>
                rw [h2] at e
                cases oo with
                | none => simp at e
                | some io => rw [hfg _ _ _ _ h2]; exact e

theorem dcAttr_agree {f g : Heap → Item → R Item} (hfg : AgreeSpec f g) (T : CKind → KindRow) (self new : Nat) :
    AgreeSpec (dcAttr f true T self new) (dcAttr g false T self new) := by
  intro h i h' i' e
  cases i with
  | atom v => exact e
  | ref v =>
    simp only [dcAttr] at e ⊢
    split at e
    · rename_i hw; simp only [hw, if_true]; exact dcWrapper_agree hfg _ _ _ _ _ _ e
    · rename_i hw; simp only [hw, if_false]; exact hfg _ _ _ _ e

theorem dcNode_agree {f g fV gV : Heap → Item → R Item} (hfg : AgreeSpec f g) (hv : AgreeSpec fV gV)
    (T : CKind → KindRow) (via : Bool)
    (h : Heap) (a : Nat) (h' : Heap) (i' : Item) (e : dcNode f fV true T via h a = (h', some i')) :
    dcNode g gV false T via h a = (h', some i') := by
  unfold dcNode at e ⊢
  cases hs : (kindOfTag (h.cells a).tag).isStruct with
  | true =>
    simp only [hs, if_true] at e ⊢
    cases hm : (T (kindOfTag (h.cells a).tag)).mode with
    | self_ => simp [hm] at e
    | shallow => simp [hm] at e
    | deep =>
      simp only [hm] at e ⊢
      cases h2 : mapItems (dcAttr fV true T a h.next) (h.alloc ⟨(h.cells a).tag, []⟩).1 (h.cells a).items with
      | mk h2' o =>
        rw [h2] at e
        cases o with
        | none => simp at e
        | some its =>
          rw [mapItems_agree (dcAttr_agree hv T a h.next) _ _ _ _ h2]
          exact e
  | false =>
    simp only [hs, Bool.false_eq_true, if_false] at e ⊢
    cases hw : (kindOfTag (h.cells a).tag).isWrapper with
    | true =>
      simp only [hw, if_true] at e ⊢
      cases via with
      | true => simp only [if_true] at e ⊢; exact dcWrapper_agree hv _ _ _ _ _ _ e
      | false => simp only [Bool.false_eq_true, if_false] at e ⊢; exact dcWrapper_agree hfg _ _ _ _ _ _ e
    | false =>
      simp only [hw, Bool.false_eq_true, if_false] at e ⊢
      cases h1 : mapItems f h (h.cells a).items with
      | mk h1' o =>
        rw [h1] at e
        cases o with
        | none => simp at e
        | some its => rw [mapItems_agree hfg _ _ _ _ h1]; exact e

/-- what the strict walk returns is exactly what the real walk returns -/
theorem dcItem_strict_agree (T : CKind → KindRow) :
    ∀ n via, AgreeSpec (dcItem true T n via) (dcItem false T n via) := by
  intro n
  induction n with
  | zero =>
    intro via h i h' i' e
    cases i with
    | atom v => exact e
    | ref a => simp [dcItem] at e
  | succ n ih =>
    intro via h i h' i' e
    cases i with
    | atom v => exact e
    | ref a => simp only [dcItem] at e ⊢; exact dcNode_agree (ih via) (ih true) T via h a h' i' e

end Typedpy.AliasC11
