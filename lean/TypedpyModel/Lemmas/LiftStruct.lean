import TypedpyModel.Lemmas.LiftOpt
namespace Typedpy
open PyVal (pyEq pyMem pyNodup)

theorem lookup_isNone_names {α β} (r : String) : ∀ (kw : List (String × α)) (kw' : List (String × β)),
    kw.map (·.1) = kw'.map (·.1) → (lookup r kw).isNone = (lookup r kw').isNone
  | [], [], _ => rfl
  | [], _ :: _, h => by simp at h
  | _ :: _, [], h => by simp at h
  | (k, v) :: rest, (k', v') :: rest', h => by
    simp only [List.map_cons, List.cons.injEq] at h
    obtain ⟨hk, hr⟩ := h
    subst hk
    simp only [lookup]
    by_cases hrk : (r == k) = true
    · simp [hrk]
    · simp only [hrk, Bool.false_eq_true, if_false]
      exact lookup_isNone_names r rest rest' hr

theorem any_names {α} (P : String → Bool) (kw : List (String × α)) :
    kw.any (fun a => P a.1) = (kw.map (·.1)).any P := by
  induction kw with
  | nil => rfl
  | cons a rest ih => simp [ih]

theorem bindOk_names (c : ClassOpts) (names : List String) (kw kw' : List (String × PyVal))
    (h : kw.map (·.1) = kw'.map (·.1)) : bindOk c names kw = bindOk c names kw' := by
  unfold bindOk
  have h1 : c.required.any (fun r => (lookup r kw).isNone) = c.required.any (fun r => (lookup r kw').isNone) := by
    congr 1; funext r; exact lookup_isNone_names r kw kw' h
  have h2 : kw.any (fun a => !names.contains a.1) = kw'.any (fun a => !names.contains a.1) := by
    rw [any_names (fun n => !names.contains n) kw, any_names (fun n => !names.contains n) kw', h]
  rw [h1, h2]

theorem extrasOf_append_fields (c : ClassOpts) (names : List String) (E args : List (String × PyVal))
    (h : ∀ a ∈ args, a.1 ∈ names) : extrasOf c names (E ++ args) = extrasOf c names E := by
  unfold extrasOf
  rw [List.filter_append]
  have := rt_filter_names_nil (fun a => !(a.2.isNone && c.ignoreNone)) names args h
  rw [this]; simp

/-- class level: from the field-list equivalence to "constructor after deserialization =
    constructor after lifting" -/
theorem struct_core (O : Oracles) (opts : DeserOpts) (c : ClassOpts) (fields : List (String × FieldDecl))
    (defaults doc : List (String × PyVal))
    (H : ∀ attrs,
      (∃ args, deserFields O opts c doc fields false = .ok args
          ∧ validateFields O c defaults (deserExtras opts c (fields.map (·.1)) doc ++ args) fields = .ok attrs)
      ↔ (∃ args', liftFields O opts c doc fields = some args'
          ∧ validateFields O c defaults (deserExtras opts c (fields.map (·.1)) doc ++ args') fields = .ok attrs)) :
    OkEq
      (bindE (bindE (deserFields O opts c doc fields false)
          (fun args => .ok (deserExtras opts c (fields.map (·.1)) doc ++ args))) fun args =>
        vConstruct c (fields.map (·.1)) args (validateFields O c defaults args fields))
      (match liftFields O opts c doc fields with
        | none => .error .valueErr
        | some args =>
          vConstruct c (fields.map (·.1)) (deserExtras opts c (fields.map (·.1)) doc ++ args)
            (validateFields O c defaults (deserExtras opts c (fields.map (·.1)) doc ++ args) fields)) := by
  intro r
  have hsub : ∀ (args : List (String × PyVal)), args.map (·.1) = presentNames doc fields →
      ∀ a ∈ args, a.1 ∈ fields.map (·.1) := by
    intro args hn a ha
    apply presentNames_subset doc fields
    rw [← hn]; exact List.mem_map_of_mem ha
  constructor
  · intro h
    rcases bindE_eq_ok h with ⟨kw, h1, h2⟩
    rcases bindE_eq_ok h1 with ⟨args, ha, h3⟩
    cases h3
    have hna := deserFields_names O opts c doc fields false args ha
    unfold vConstruct at h2
    split at h2
    · cases h2
    · rename_i hb
      rcases bindE_eq_ok h2 with ⟨attrs, hv, h4⟩
      cases h4
      rcases (H attrs).mp ⟨args, ha, hv⟩ with ⟨args', hl, hv'⟩
      have hnl := liftFields_names O opts c doc fields args' hl
      have hnames : (deserExtras opts c (fields.map (·.1)) doc ++ args').map (·.1)
          = (deserExtras opts c (fields.map (·.1)) doc ++ args).map (·.1) := by
        simp [hna, hnl]
      simp only [hl]
      unfold vConstruct
      rw [bindOk_names c _ _ _ hnames]
      simp only [hb, hv', bindE]
      rw [extrasOf_append_fields c _ _ args (hsub args hna), extrasOf_append_fields c _ _ args' (hsub args' hnl)]
      simp
  · intro h
    cases hl : liftFields O opts c doc fields with
    | none => simp [hl] at h
    | some args' =>
      simp only [hl] at h
      have hnl := liftFields_names O opts c doc fields args' hl
      unfold vConstruct at h
      split at h
      · cases h
      · rename_i hb
        rcases bindE_eq_ok h with ⟨attrs, hv, h4⟩
        cases h4
        rcases (H attrs).mpr ⟨args', hl, hv⟩ with ⟨args, ha, hv'⟩
        have hna := deserFields_names O opts c doc fields false args ha
        have hnames : (deserExtras opts c (fields.map (·.1)) doc ++ args).map (·.1)
            = (deserExtras opts c (fields.map (·.1)) doc ++ args').map (·.1) := by
          simp [hna, hnl]
        simp only [ha, bindE]
        unfold vConstruct
        rw [bindOk_names c _ _ _ hnames]
        simp only [hb, hv', bindE]
        rw [extrasOf_append_fields c _ _ args (hsub args hna), extrasOf_append_fields c _ _ args' (hsub args' hnl)]
        simp

/-! ### StructureReference (inline class) -/

theorem c06_kwOfDict_pairs : ∀ (args : List (String × PyVal)),
    kwOfDict (args.map fun a => (PyVal.str a.1, a.2)) = some args
  | [] => rfl
  | (k, v) :: rest => by
    have := c06_kwOfDict_pairs rest
    simp only [List.map_cons, kwOfDict, this, Option.map_some]

theorem c06_inline_validate (O : Oracles) (c : ClassOpts) (fields : List (String × FieldDecl))
    (defaults : List (String × PyVal)) (hinl : c.inline = true) (args : List (String × PyVal)) :
    validate O (.struct c fields defaults) (.dict (args.map fun a => (PyVal.str a.1, a.2)))
      = vConstruct c (fields.map (·.1)) args (validateFields O c defaults args fields) := by
  simp [validate, hinl, vInline, c06_kwOfDict_pairs]

theorem c06_inline_lift_iff (O : Oracles) (opts : DeserOpts) (c : ClassOpts) (fields : List (String × FieldDecl))
    (defaults : List (String × PyVal)) (kvs : List (PyVal × PyVal)) (doc : List (String × PyVal))
    (hdoc : kwOfDict kvs = some doc) (hinl : c.inline = true) (r : PyVal) :
    liftThen O opts (.struct c fields defaults) (.dict kvs) = .ok r
      ↔ (match liftFields O opts c doc fields with
          | none => (.error .valueErr : R PyVal)
          | some args =>
            vConstruct c (fields.map (fun (a : String × FieldDecl) => a.1)) (deserExtras opts c (fields.map (fun (a : String × FieldDecl) => a.1)) doc ++ args)
              (validateFields O c defaults (deserExtras opts c (fields.map (fun (a : String × FieldDecl) => a.1)) doc ++ args) fields)) = .ok r := by
  unfold liftThen
  simp only [lift, hdoc, Option.bind_some]
  cases hl : liftFields O opts c doc fields with
  | none => simp
  | some args =>
    simp only [Option.bind_some]
    cases hc : vConstruct c (fields.map (fun (a : String × FieldDecl) => a.1)) (deserExtras opts c (fields.map (fun (a : String × FieldDecl) => a.1)) doc ++ args)
        (validateFields O c defaults (deserExtras opts c (fields.map (fun (a : String × FieldDecl) => a.1)) doc ++ args) fields) with
    | error e => simp
    | ok y => simp only [hinl, if_true, c06_inline_validate O c fields defaults hinl, hc]

theorem c06_inline_deser_iff (O : Oracles) (opts : DeserOpts) (c : ClassOpts) (fields : List (String × FieldDecl))
    (defaults : List (String × PyVal)) (kvs : List (PyVal × PyVal)) (doc : List (String × PyVal))
    (hdoc : kwOfDict kvs = some doc) (hinl : c.inline = true) (r : PyVal) :
    deserThen O opts (.struct c fields defaults) (.dict kvs) = .ok r
      ↔ (bindE (bindE (deserFields O opts c doc fields false)
          (fun args => .ok (deserExtras opts c (fields.map (·.1)) doc ++ args))) fun args =>
        vConstruct c (fields.map (·.1)) args (validateFields O c defaults args fields)) = .ok r := by
  unfold deserThen
  simp only [deser, PyVal.isNone, Bool.false_and, Bool.false_eq_true, if_false, hinl, if_true, dInline, hdoc]
  cases hT : bindE (deserFields O opts c doc fields false)
      (fun args => (.ok (deserExtras opts c (fields.map (·.1)) doc ++ args) : R _)) with
  | error e => simp
  | ok args =>
    simp only [bindE_ok]
    cases hc : vConstruct c (fields.map (·.1)) args (validateFields O c defaults args fields) with
    | error e => simp
    | ok y => simp only [bindE_ok, c06_inline_validate O c fields defaults hinl, hc]

/-- StructureReference: `deserialize_structure_reference` validates the keyword arguments it built and hands
    them on as a dict, which the field's `__set__` validates once more; the documented lifting is the dict of
    lifted arguments (when the inline class accepts them).  Both sides therefore succeed exactly when the
    inline class's constructor does, with what it builds -/
theorem inline_okEq (O : Oracles) (opts : DeserOpts) (c : ClassOpts) (fields : List (String × FieldDecl))
    (defaults : List (String × PyVal)) (kvs : List (PyVal × PyVal)) (doc : List (String × PyVal))
    (hdoc : kwOfDict kvs = some doc) (hinl : c.inline = true)
    (core : OkEq
      (bindE (bindE (deserFields O opts c doc fields false)
          (fun args => .ok (deserExtras opts c (fields.map (·.1)) doc ++ args))) fun args =>
        vConstruct c (fields.map (·.1)) args (validateFields O c defaults args fields))
      (match liftFields O opts c doc fields with
        | none => .error .valueErr
        | some args =>
          vConstruct c (fields.map (·.1)) (deserExtras opts c (fields.map (·.1)) doc ++ args)
            (validateFields O c defaults (deserExtras opts c (fields.map (·.1)) doc ++ args) fields))) :
    OkEq (deserThen O opts (.struct c fields defaults) (.dict kvs))
      (liftThen O opts (.struct c fields defaults) (.dict kvs)) := fun r =>
  (c06_inline_deser_iff O opts c fields defaults kvs doc hdoc hinl r).trans
    ((core r).trans (c06_inline_lift_iff O opts c fields defaults kvs doc hdoc hinl r).symm)

end Typedpy
