/-
  Lemmas/PyLex.lean — the literal producers are faithful with respect to the lexer model:
  the docstring template with `_docstring_text` escaping lexes back to the description for every
  description without NUL; `repr(str)` lexes back to the string for every string.
-/
import TypedpyModel.Sem.PyLex
namespace Typedpy.PyLex

theorem nnl_id (cs : List Char) (h : ∀ c ∈ cs, c ≠ cCR) : nnl false cs = cs := by
  induction cs with
  | nil => rfl
  | cons c r ih =>
    have hc : c ≠ cCR := h c (by simp)
    have hr : ∀ d ∈ r, d ≠ cCR := fun d hd => h d (by simp [hd])
    simp [nnl, hc, ih hr]

theorem emit_some (c : Char) (w : List Char) : emit c (some w) = some (c :: w) := rfl

/-! ### docstrings: `"""\n    ` ++ `_docstring_text d` ++ `\n    """` -/

theorem docTail_lex :
    lexS true cDQ .norm ([cLF] ++ indent4 ++ [cDQ, cDQ, cDQ]) = some ([cLF] ++ indent4) := by
  decide

theorem lexS_esc_char (long : Bool) (q c d : Char) (rest : List Char) (h : escKind c = .char d) :
    lexS long q .esc (c :: rest) = emit d (lexS long q .norm rest) := by
  simp [lexS, escCase, h]

theorem lexS_norm_raw (long : Bool) (q c : Char) (rest : List Char)
    (h1 : isClose long q c rest = false) (h2 : c ≠ cBS) (h3 : ¬ (c = cLF ∧ long = false)) :
    lexS long q .norm (c :: rest) = emit c (lexS long q .norm rest) := by
  simp [lexS, normCase, h1, h2, h3]

theorem lexS_norm_bs (long : Bool) (q : Char) (hq : q ≠ cBS) (rest : List Char) :
    lexS long q .norm (cBS :: rest) = lexS long q .esc rest := by
  have : ¬ (cBS = q) := fun h => hq h.symm
  cases rest <;> simp [lexS, normCase, isClose, this]

/-- `\x00` denotes NUL -/
theorem lexS_esc_x00 (long : Bool) (q : Char) (rest : List Char) :
    lexS long q .esc ('x' :: '0' :: '0' :: rest) = emit cNUL (lexS long q .norm rest) := by
  simp [lexS, escCase, escKind, cLF, cBS, cSQ, cDQ, hexCase, hexVal, ofCode, cNUL]

/-- first character of the escaped text followed by `t` -/
theorem docEsc_head (r t : List Char) (ht : ∀ c r', t = c :: r' → c ≠ cDQ) (y : Char)
    (ys : List Char) (h : docEsc 0 r ++ t = y :: ys) (hy : y = cDQ) :
    ∃ r', r = cDQ :: r' ∧ (r'.take 2 == [cDQ, cDQ]) = false ∧ ys = docEsc 0 r' ++ t := by
  have hbs : cBS ≠ cDQ := by decide
  subst hy
  match r with
  | [] =>
    simp only [docEsc, List.nil_append] at h
    exact absurd rfl (ht _ _ h)
  | x :: r' =>
    by_cases hx : x = cDQ
    · subst hx
      cases h3 : (r'.take 2 == [cDQ, cDQ]) with
      | true =>
        simp only [docEsc, if_true, Nat.lt_irrefl, if_false, h3, List.cons_append] at h
        exact absurd (List.cons.inj h).1 hbs
      | false =>
        simp only [docEsc, if_true, Nat.lt_irrefl, if_false, h3, Bool.false_eq_true,
          List.cons_append] at h
        exact ⟨r', rfl, h3, (List.cons.inj h).2.symm⟩
    · exfalso
      by_cases hxb : x = cBS
      · subst hxb
        simp only [docEsc, hx, if_false, if_true, List.cons_append] at h
        exact hbs (List.cons.inj h).1
      · by_cases hxc : x = cCR
        · subst hxc
          simp only [docEsc, hx, hxb, if_false, if_true, List.cons_append] at h
          exact hbs (List.cons.inj h).1
        · by_cases hxn : x = cNUL
          · subst hxn
            simp only [docEsc, hx, hxb, hxc, if_false, if_true, List.cons_append] at h
            exact hbs (List.cons.inj h).1
          · simp only [docEsc, hx, hxb, hxc, hxn, if_false, List.cons_append] at h
            exact hx (List.cons.inj h).1

/-- the escaped text followed by `t` begins with two raw quotes only if the description begins
    with two quotes -/
theorem docEsc_take2 (r t : List Char) (ht : ∀ c r', t = c :: r' → c ≠ cDQ)
    (h : (docEsc 0 r ++ t).take 2 = [cDQ, cDQ]) : r.take 2 = [cDQ, cDQ] := by
  match hL : docEsc 0 r ++ t, h with
  | y :: z :: zs, h =>
    simp only [List.take_succ_cons, List.take_zero, List.cons.injEq, and_true] at h
    obtain ⟨r1, hr1, _, hys⟩ := docEsc_head r t ht y (z :: zs) hL h.1
    obtain ⟨r2, hr2, _, _⟩ := docEsc_head r1 t ht z zs hys.symm h.2
    subst hr1; subst hr2
    simp
  | [y], h => simp at h
  | [], h => simp at h

/-- the escaped description followed by a tail that does not start with a quote lexes to the
    description followed by whatever the tail lexes to — every description, in every state -/
theorem lexS_docEsc (t v : List Char) (ht : ∀ c r, t = c :: r → c ≠ cDQ)
    (hv : lexS true cDQ .norm t = some v) :
    ∀ (d : List Char) (k : Nat), lexS true cDQ .norm (docEsc k d ++ t) = some (d ++ v) := by
  have hqb : cDQ ≠ cBS := by decide
  have eDQ : escKind cDQ = .char cDQ := by decide
  have eBS : escKind cBS = .char cBS := by decide
  have eR : escKind 'r' = .char cCR := by decide
  intro d
  induction d with
  | nil => intro k; simpa [docEsc] using hv
  | cons c r ih =>
    intro k
    by_cases hc : c = cDQ
    · subst hc
      by_cases hk : 0 < k
      · simp only [docEsc, if_true, hk, List.cons_append]
        rw [lexS_norm_bs _ _ hqb, lexS_esc_char _ _ _ _ _ eDQ, ih, emit_some]
      · cases h3 : (r.take 2 == [cDQ, cDQ]) with
        | true =>
          simp only [docEsc, if_true, hk, if_false, h3, List.cons_append]
          rw [lexS_norm_bs _ _ hqb, lexS_esc_char _ _ _ _ _ eDQ, ih, emit_some]
        | false =>
          simp only [docEsc, if_true, hk, if_false, h3, Bool.false_eq_true, List.cons_append]
          have hclose : isClose true cDQ cDQ (docEsc 0 r ++ t) = false := by
            simp only [isClose, beq_self_eq_true, Bool.true_and, Bool.not_true, Bool.false_or]
            apply Bool.eq_false_iff.2
            intro hcon
            have := docEsc_take2 r t ht (by simpa using hcon)
            simp [this] at h3
          rw [lexS_norm_raw _ _ _ _ hclose hqb (by simp), ih, emit_some]
    · have hclose : ∀ rest, isClose true cDQ c rest = false := by
        intro rest; simp [isClose, hc]
      by_cases hb : c = cBS
      · subst hb
        simp only [docEsc, hc, if_false, if_true, List.cons_append]
        rw [lexS_norm_bs _ _ hqb, lexS_esc_char _ _ _ _ _ eBS, ih, emit_some]
      · by_cases hr : c = cCR
        · subst hr
          simp only [docEsc, hc, hb, if_false, if_true, List.cons_append]
          rw [lexS_norm_bs _ _ hqb, lexS_esc_char _ _ _ _ _ eR, ih, emit_some]
        · by_cases hn : c = cNUL
          · subst hn
            simp only [docEsc, hc, hb, hr, if_false, if_true, List.cons_append]
            rw [lexS_norm_bs _ _ hqb, lexS_esc_x00, ih, emit_some]
          · simp only [docEsc, hc, hb, hr, hn, if_false, List.cons_append]
            rw [lexS_norm_raw _ _ _ _ (hclose _) hb (by simp), ih, emit_some]

/-- the escaped text contains no carriage return and no NUL -/
theorem docEsc_clean : ∀ (d : List Char) (k : Nat) (x : Char), x ∈ docEsc k d → x ≠ cCR ∧ x ≠ cNUL
  | [], k, x, hx => by simp [docEsc] at hx
  | c :: r, k, x, hx => by
    have ih := docEsc_clean r
    have lit : ∀ y : Char, (y = cBS ∨ y = cDQ ∨ y = 'r' ∨ y = 'x' ∨ y = '0') → y ≠ cCR ∧ y ≠ cNUL := by
      rintro y (rfl | rfl | rfl | rfl | rfl) <;> decide
    by_cases hc : c = cDQ
    · subst hc
      by_cases hk : 0 < k
      · simp only [docEsc, if_true, hk, List.mem_cons] at hx
        rcases hx with rfl | rfl | h
        · exact lit _ (Or.inl rfl)
        · exact lit _ (Or.inr (Or.inl rfl))
        · exact ih _ x h
      · cases h3 : (r.take 2 == [cDQ, cDQ]) with
        | true =>
          simp only [docEsc, if_true, hk, if_false, h3, List.mem_cons] at hx
          rcases hx with rfl | rfl | h
          · exact lit _ (Or.inl rfl)
          · exact lit _ (Or.inr (Or.inl rfl))
          · exact ih _ x h
        | false =>
          simp only [docEsc, if_true, hk, if_false, h3, Bool.false_eq_true, List.mem_cons] at hx
          rcases hx with rfl | h
          · exact lit _ (Or.inr (Or.inl rfl))
          · exact ih _ x h
    · by_cases hb : c = cBS
      · subst hb
        simp only [docEsc, hc, if_false, if_true, List.mem_cons] at hx
        rcases hx with rfl | rfl | h
        · exact lit _ (Or.inl rfl)
        · exact lit _ (Or.inl rfl)
        · exact ih _ x h
      · by_cases hr : c = cCR
        · subst hr
          simp only [docEsc, hc, hb, if_false, if_true, List.mem_cons] at hx
          rcases hx with rfl | rfl | h
          · exact lit _ (Or.inl rfl)
          · exact lit _ (Or.inr (Or.inr (Or.inl rfl)))
          · exact ih _ x h
        · by_cases hn : c = cNUL
          · subst hn
            simp only [docEsc, hc, hb, hr, if_false, if_true, List.mem_cons] at hx
            rcases hx with rfl | rfl | rfl | rfl | h
            · exact lit _ (Or.inl rfl)
            · exact lit _ (Or.inr (Or.inr (Or.inr (Or.inl rfl))))
            · exact lit _ (Or.inr (Or.inr (Or.inr (Or.inr rfl))))
            · exact lit _ (Or.inr (Or.inr (Or.inr (Or.inr rfl))))
            · exact ih _ x h
          · simp only [docEsc, hc, hb, hr, hn, if_false, List.mem_cons] at hx
            rcases hx with rfl | h
            · exact ⟨hr, hn⟩
            · exact ih _ x h

/-- the docstring literal denotes the intended `__doc__` for EVERY description (since the repair of
    `unescaped:description-nul`: NUL is written `\x00`) -/
theorem lexSrc_docWrapL (d : List Char) :
    lexSrc (docWrapL d) = some (docValueL d) := by
  have hA : ∀ c ∈ [cDQ, cDQ, cDQ, cLF] ++ indent4, c ≠ cCR ∧ c ≠ cNUL := by decide
  have hB : ∀ c ∈ [cLF] ++ indent4 ++ [cDQ, cDQ, cDQ], c ≠ cCR ∧ c ≠ cNUL := by decide
  have hshape : docWrapL d = ([cDQ, cDQ, cDQ, cLF] ++ indent4)
      ++ (docEsc 0 d ++ ([cLF] ++ indent4 ++ [cDQ, cDQ, cDQ])) := by
    simp [docWrapL, List.append_assoc]
  have hmem : ∀ c ∈ docWrapL d, c ≠ cCR ∧ c ≠ cNUL := by
    intro c hc
    rw [hshape] at hc
    rcases List.mem_append.1 hc with h | h
    · exact hA c h
    · rcases List.mem_append.1 h with h | h
      · exact docEsc_clean d 0 c h
      · exact hB c h
  have hCR : ∀ c ∈ docWrapL d, c ≠ cCR := fun c hc => (hmem c hc).1
  have hNUL : (docWrapL d).contains cNUL = false := by
    apply Bool.eq_false_iff.2
    intro hcon
    exact (hmem cNUL (List.contains_iff_mem.1 hcon)).2 rfl
  have h2 := lexS_docEsc ([cLF] ++ indent4 ++ [cDQ, cDQ, cDQ]) ([cLF] ++ indent4)
    (by intro c r h; simp at h; rw [← h.1]; decide) docTail_lex d 0
  have hbody : lexS true cDQ .norm ([cLF] ++ indent4 ++ (docEsc 0 d ++ ([cLF] ++ indent4 ++ [cDQ, cDQ, cDQ])))
      = some ([cLF] ++ indent4 ++ (d ++ ([cLF] ++ indent4))) := by
    simp [lexS, normCase, isClose, indent4, cLF, cDQ, cBS] at h2 ⊢
    rw [h2]; rfl
  unfold lexSrc
  rw [hNUL, normNewlines, nnl_id _ hCR]
  simp only [docWrapL, docValueL] at hbody ⊢
  simpa [cDQ, cSQ, List.append_assoc] using hbody

/-! ### `repr(str)` always lexes back to the string -/


theorem hexVal_hexDigit (k : Nat) (h : k < 16) : hexVal (hexDigit k) = some k := by
  have : ∀ k : Fin 16, hexVal (hexDigit k.val) = some k.val := by decide
  exact this ⟨k, h⟩

theorem hexDigit_ge (k : Nat) (h : k < 16) : 48 ≤ (hexDigit k).toNat := by
  have : ∀ k : Fin 16, 48 ≤ (hexDigit k.val).toNat := by decide
  exact this ⟨k, h⟩

theorem ofCode_toNat (c : Char) : ofCode c.toNat = some c := by
  have hv := c.valid
  have : c.toNat < 0xd800 ∨ (0xdfff < c.toNat ∧ c.toNat < 0x110000) := hv
  simp [ofCode, this, Char.ofNat_toNat]


theorem q_ne_bs {q : Char} (hq : q = cSQ ∨ q = cDQ) : q ≠ cBS := by
  rcases hq with rfl | rfl <;> decide

/-- `\xHH` -/
theorem lexS_hex2 (q : Char) (c : Char) (hn : c.toNat < 256) (rest : List Char) :
    lexS false q .esc ('x' :: (hex2 c.toNat ++ rest)) = emit c (lexS false q .norm rest) := by
  have h1 := hexVal_hexDigit (c.toNat / 16 % 16) (Nat.mod_lt _ (by decide))
  have h2 := hexVal_hexDigit (c.toNat % 16) (Nat.mod_lt _ (by decide))
  have hsum : c.toNat / 16 % 16 * 16 + c.toNat % 16 = c.toNat := by omega
  simp [hex2, lexS, escCase, escKind, cLF, cBS, cSQ, cDQ, hexCase, h1, h2, hsum, ofCode_toNat]

/-- `\uHHHH` -/
theorem lexS_hex4 (q : Char) (c : Char) (hn : c.toNat < 65536) (rest : List Char) :
    lexS false q .esc ('u' :: (hex4 c.toNat ++ rest)) = emit c (lexS false q .norm rest) := by
  have h1 := hexVal_hexDigit (c.toNat / 256 / 16 % 16) (Nat.mod_lt _ (by decide))
  have h2 := hexVal_hexDigit (c.toNat / 256 % 16) (Nat.mod_lt _ (by decide))
  have h3 := hexVal_hexDigit (c.toNat / 16 % 16) (Nat.mod_lt _ (by decide))
  have h4 := hexVal_hexDigit (c.toNat % 16) (Nat.mod_lt _ (by decide))
  have hsum : ((c.toNat / 256 / 16 % 16 * 16 + c.toNat / 256 % 16) * 16 + c.toNat / 16 % 16) * 16
      + c.toNat % 16 = c.toNat := by omega
  simp [hex4, hex2, lexS, escCase, escKind, cLF, cBS, cSQ, cDQ, hexCase, h1, h2, h3, h4, hsum,
    ofCode_toNat]

/-- `\UHHHHHHHH` -/
theorem lexS_hex8 (q : Char) (c : Char) (rest : List Char) :
    lexS false q .esc ('U' :: (hex8 c.toNat ++ rest)) = emit c (lexS false q .norm rest) := by
  have hn : c.toNat < 0x110000 := by
    have hv : c.toNat < 0xd800 ∨ (0xdfff < c.toNat ∧ c.toNat < 0x110000) := c.valid
    omega
  have h1 := hexVal_hexDigit (c.toNat / 65536 / 256 / 16 % 16) (Nat.mod_lt _ (by decide))
  have h2 := hexVal_hexDigit (c.toNat / 65536 / 256 % 16) (Nat.mod_lt _ (by decide))
  have h3 := hexVal_hexDigit (c.toNat / 65536 / 16 % 16) (Nat.mod_lt _ (by decide))
  have h4 := hexVal_hexDigit (c.toNat / 65536 % 16) (Nat.mod_lt _ (by decide))
  have h5 := hexVal_hexDigit (c.toNat / 256 / 16 % 16) (Nat.mod_lt _ (by decide))
  have h6 := hexVal_hexDigit (c.toNat / 256 % 16) (Nat.mod_lt _ (by decide))
  have h7 := hexVal_hexDigit (c.toNat / 16 % 16) (Nat.mod_lt _ (by decide))
  have h8 := hexVal_hexDigit (c.toNat % 16) (Nat.mod_lt _ (by decide))
  have hsum : ((((((c.toNat / 65536 / 256 / 16 % 16 * 16 + c.toNat / 65536 / 256 % 16) * 16
      + c.toNat / 65536 / 16 % 16) * 16 + c.toNat / 65536 % 16) * 16 + c.toNat / 256 / 16 % 16) * 16
      + c.toNat / 256 % 16) * 16 + c.toNat / 16 % 16) * 16 + c.toNat % 16 = c.toNat := by omega
  simp [hex8, hex4, hex2, lexS, escCase, escKind, cLF, cBS, cSQ, cDQ, hexCase, h1, h2, h3, h4, h5,
    h6, h7, h8, hsum, ofCode_toNat]

theorem char_of_toNat {c : Char} {n : Nat} (h : c.toNat = n) : c = Char.ofNat n := by
  rw [← h, Char.ofNat_toNat]

/-- one character of `repr` lexes back to itself -/
theorem lexS_reprChar (pr : Char → Bool) (q : Char) (hq : q = cSQ ∨ q = cDQ) (c : Char)
    (rest : List Char) :
    lexS false q .norm (reprChar pr q c ++ rest) = emit c (lexS false q .norm rest) := by
  have hqb := q_ne_bs hq
  have hbq : ¬ (cBS = q) := fun h => hqb h.symm
  have raw : c ≠ q → c ≠ cBS → c ≠ cLF →
      lexS false q .norm (c :: rest) = emit c (lexS false q .norm rest) := by
    intro h1 h2 h3
    simp [lexS, normCase, isClose, h1, h2, h3]
  have esc : ∀ r, lexS false q .norm (cBS :: r) = lexS false q .esc r := by
    intro r
    cases r <;> simp [lexS, normCase, isClose, hbq]
  unfold reprChar
  simp only []
  split
  · -- the quote or a backslash
    rename_i h
    rw [List.cons_append, esc]
    rcases h with h | h
    · subst h
      rcases hq with rfl | rfl <;> simp [lexS, escCase, escKind, cLF, cBS, cSQ, cDQ]
    · subst h
      simp [lexS, escCase, escKind, cLF, cBS]
  · rename_i hnq
    have hcq : c ≠ q := fun h => hnq (Or.inl h)
    have hcb : c ≠ cBS := fun h => hnq (Or.inr h)
    split
    · rename_i h; rw [char_of_toNat h, List.cons_append, esc]
      simp [lexS, escCase, escKind, cLF, cBS, cSQ, cDQ]
    · split
      · rename_i h; rw [char_of_toNat h, List.cons_append, esc]
        simp [lexS, escCase, escKind, cLF, cBS, cSQ, cDQ]
      · split
        · rename_i h; rw [char_of_toNat h, List.cons_append, esc]
          simp [lexS, escCase, escKind, cLF, cBS, cSQ, cDQ, cCR]
        · rename_i h9 h10 h13
          have hlf : c ≠ cLF := fun h => h10 (by rw [h]; rfl)
          split
          · rename_i h
            rw [List.cons_append, esc, List.cons_append]
            exact lexS_hex2 q c (by omega) rest
          · split
            · exact raw hcq hcb hlf
            · split
              · exact raw hcq hcb hlf
              · split
                · rename_i h
                  rw [List.cons_append, esc, List.cons_append]
                  exact lexS_hex2 q c h rest
                · split
                  · rename_i h
                    rw [List.cons_append, esc, List.cons_append]
                    exact lexS_hex4 q c h rest
                  · rw [List.cons_append, esc, List.cons_append]
                    exact lexS_hex8 q c rest

theorem lexS_reprBody (pr : Char → Bool) (q : Char) (hq : q = cSQ ∨ q = cDQ) (cs : List Char) :
    lexS false q .norm (reprBody pr q cs ++ [q]) = some cs := by
  induction cs with
  | nil => simp [reprBody, lexS, normCase, isClose, atEnd]
  | cons c r ih =>
    simp only [reprBody, List.append_assoc]
    rw [lexS_reprChar pr q hq c, ih]
    rfl

theorem reprChar_ge (pr : Char → Bool) (q : Char) (hq : q = cSQ ∨ q = cDQ) (c : Char) :
    ∀ d ∈ reprChar pr q c, 32 ≤ d.toNat := by
  have hqge : 32 ≤ q.toNat := by rcases hq with rfl | rfl <;> decide
  have hd1 := hexDigit_ge (c.toNat / 16 % 16) (Nat.mod_lt _ (by decide))
  have hd2 := hexDigit_ge (c.toNat % 16) (Nat.mod_lt _ (by decide))
  have hd3 := hexDigit_ge (c.toNat / 256 / 16 % 16) (Nat.mod_lt _ (by decide))
  have hd4 := hexDigit_ge (c.toNat / 256 % 16) (Nat.mod_lt _ (by decide))
  have hd5 := hexDigit_ge (c.toNat / 65536 / 256 / 16 % 16) (Nat.mod_lt _ (by decide))
  have hd6 := hexDigit_ge (c.toNat / 65536 / 256 % 16) (Nat.mod_lt _ (by decide))
  have hd7 := hexDigit_ge (c.toNat / 65536 / 16 % 16) (Nat.mod_lt _ (by decide))
  have hd8 := hexDigit_ge (c.toNat / 65536 % 16) (Nat.mod_lt _ (by decide))
  have hbs : 32 ≤ cBS.toNat := by decide
  have hx : 32 ≤ 'x'.toNat := by decide
  have hu : 32 ≤ 'u'.toNat := by decide
  have hU : 32 ≤ 'U'.toNat := by decide
  have ht : 32 ≤ 't'.toNat := by decide
  have hn : 32 ≤ 'n'.toNat := by decide
  have hr : 32 ≤ 'r'.toNat := by decide
  intro d hd
  unfold reprChar at hd
  simp only [] at hd
  split at hd
  · rename_i h
    simp only [List.mem_cons, List.not_mem_nil, or_false] at hd
    rcases hd with rfl | rfl
    · exact hbs
    · rcases h with rfl | rfl
      · exact hqge
      · exact hbs
  · split at hd
    · simp only [List.mem_cons, List.not_mem_nil, or_false] at hd
      rcases hd with rfl | rfl <;> assumption
    · split at hd
      · simp only [List.mem_cons, List.not_mem_nil, or_false] at hd
        rcases hd with rfl | rfl <;> assumption
      · split at hd
        · simp only [List.mem_cons, List.not_mem_nil, or_false] at hd
          rcases hd with rfl | rfl <;> assumption
        · split at hd
          · simp only [hex2, List.mem_cons, List.not_mem_nil, or_false] at hd
            rcases hd with rfl | rfl | rfl | rfl <;> omega
          · split at hd
            · simp only [List.mem_cons, List.not_mem_nil, or_false] at hd
              subst hd; omega
            · split at hd
              · simp only [List.mem_cons, List.not_mem_nil, or_false] at hd
                subst hd; omega
              · split at hd
                · simp only [hex2, List.mem_cons, List.not_mem_nil, or_false] at hd
                  rcases hd with rfl | rfl | rfl | rfl <;> omega
                · split at hd
                  · simp only [hex4, hex2, List.mem_cons, List.mem_append, List.not_mem_nil, or_false] at hd
                    rcases hd with rfl | rfl | (rfl | rfl) | rfl | rfl <;> omega
                  · simp only [hex8, hex4, hex2, List.mem_cons, List.mem_append, List.not_mem_nil, or_false] at hd
                    rcases hd with rfl | rfl | ((rfl | rfl) | rfl | rfl) | (rfl | rfl) | rfl | rfl <;> omega

theorem reprBody_ge (pr : Char → Bool) (q : Char) (hq : q = cSQ ∨ q = cDQ) (cs : List Char) :
    ∀ d ∈ reprBody pr q cs, 32 ≤ d.toNat := by
  induction cs with
  | nil => intro d hd; simp [reprBody] at hd
  | cons c r ih =>
    intro d hd
    simp only [reprBody, List.mem_append] at hd
    rcases hd with hd | hd
    · exact reprChar_ge pr q hq c d hd
    · exact ih d hd

/-- the first character of an escaped character is a backslash or the (non-quote) character -/
theorem reprChar_head (pr : Char → Bool) (q c : Char) :
    ∃ h t, reprChar pr q c = h :: t ∧ (h = cBS ∨ (h = c ∧ c ≠ q)) := by
  unfold reprChar
  simp only []
  split
  · exact ⟨_, _, rfl, Or.inl rfl⟩
  · rename_i hnq
    have hcq : c ≠ q := fun h => hnq (Or.inl h)
    repeat' split
    all_goals first
      | exact ⟨_, _, rfl, Or.inl rfl⟩
      | exact ⟨_, _, rfl, Or.inr ⟨rfl, hcq⟩⟩

/-- `repr(s)` always lexes back to `s` -/
theorem lexSrc_pyReprL (pr : Char → Bool) (cs : List Char) : lexSrc (pyReprL pr cs) = some cs := by
  have hq : reprQuote cs = cSQ ∨ reprQuote cs = cDQ := by
    unfold reprQuote; split <;> simp
  have hge : ∀ d ∈ pyReprL pr cs, 32 ≤ d.toNat := by
    intro d hd
    simp only [pyReprL, List.mem_cons, List.mem_append, List.not_mem_nil, or_false] at hd
    have hqge : 32 ≤ (reprQuote cs).toNat := by rcases hq with h | h <;> rw [h] <;> decide
    rcases hd with rfl | hd | rfl
    · exact hqge
    · exact reprBody_ge pr _ hq cs d hd
    · exact hqge
  have hCR : ∀ d ∈ pyReprL pr cs, d ≠ cCR := by
    intro d hd h
    have := hge d hd
    rw [h] at this
    exact absurd this (by decide)
  have hNUL : (pyReprL pr cs).contains cNUL = false := by
    apply Bool.eq_false_iff.2
    intro hcon
    have := hge cNUL (List.contains_iff_mem.1 hcon)
    exact absurd this (by decide)
  have hbody := lexS_reprBody pr (reprQuote cs) hq cs
  unfold lexSrc
  rw [hNUL, normNewlines, nnl_id _ hCR]
  simp only [pyReprL, Bool.false_eq_true, if_false]
  rcases hq with h | h
  · rw [h] at hbody ⊢
    simp [hbody]
  · rw [h] at hbody ⊢
    have hne : ¬ (cDQ = cSQ) := by decide
    simp only [hne, if_false, if_true]
    have htake : ((reprBody pr cDQ cs ++ [cDQ]).take 2 == [cDQ, cDQ]) = false := by
      cases cs with
      | nil => simp [reprBody]
      | cons c r =>
        obtain ⟨hd, tl, he, hh⟩ := reprChar_head pr cDQ c
        simp only [reprBody, he, List.cons_append, List.append_assoc]
        have hdq : hd ≠ cDQ := by
          rcases hh with rfl | ⟨rfl, hc⟩
          · decide
          · exact hc
        cases htl : (tl ++ (reprBody pr cDQ r ++ [cDQ])) with
        | nil => simp
        | cons y ys => simp [hdq]
    rw [htake]
    simpa using hbody


end Typedpy.PyLex
