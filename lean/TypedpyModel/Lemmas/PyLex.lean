/-
  Lemmas/PyLex.lean — safety of the literal producers with respect to the lexer model:
  plain quoting (`wrap_val`) is faithful exactly on strings without quote / backslash / newline,
  the docstring template is faithful on descriptions without backslash / `"""` / carriage return.
-/
import TypedpyModel.Sem.PyLex
namespace Typedpy.PyLex

/-- characters that plain single-quoting leaves intact -/
def plainChar (c : Char) : Bool :=
  c != cSQ && c != cBS && c != cLF && c != cCR && c != cNUL

/-- characters that the docstring template leaves intact (a `"` is fine unless three in a row) -/
def docChar (c : Char) : Bool := c != cBS && c != cCR && c != cNUL

/-- no `"""` starts anywhere in the list -/
def noTriple : List Char → Bool
  | [] => true
  | c :: r => !(c == cDQ && r.take 2 == [cDQ, cDQ]) && noTriple r

theorem plainChar_iff (c : Char) :
    plainChar c = true ↔ c ≠ cSQ ∧ c ≠ cBS ∧ c ≠ cLF ∧ c ≠ cCR ∧ c ≠ cNUL := by
  simp [plainChar, and_assoc]

theorem docChar_iff (c : Char) : docChar c = true ↔ c ≠ cBS ∧ c ≠ cCR ∧ c ≠ cNUL := by
  simp [docChar, and_assoc]

theorem nnl_id (cs : List Char) (h : ∀ c ∈ cs, c ≠ cCR) : nnl false cs = cs := by
  induction cs with
  | nil => rfl
  | cons c r ih =>
    have hc : c ≠ cCR := h c (by simp)
    have hr : ∀ d ∈ r, d ≠ cCR := fun d hd => h d (by simp [hd])
    simp [nnl, hc, ih hr]

theorem emit_some (c : Char) (w : List Char) : emit c (some w) = some (c :: w) := rfl

/-- the body of a short `'`-literal made of plain characters lexes to itself -/
theorem lexS_plain (cs : List Char) (h : ∀ c ∈ cs, plainChar c = true) :
    lexS false cSQ .norm (cs ++ [cSQ]) = some cs := by
  induction cs with
  | nil => simp [lexS, normCase, isClose, atEnd]
  | cons c r ih =>
    have hc := (plainChar_iff c).1 (h c (by simp))
    have hr : ∀ d ∈ r, plainChar d = true := fun d hd => h d (by simp [hd])
    obtain ⟨h1, h2, h3, _, _⟩ := hc
    simp [lexS, normCase, isClose, h1, h2, h3, ih hr, emit_some]

theorem lexSrc_wrapL (cs : List Char) (h : ∀ c ∈ cs, plainChar c = true) :
    lexSrc (wrapL cs) = some cs := by
  have hCR : ∀ c ∈ wrapL cs, c ≠ cCR := by
    intro c hc
    simp [wrapL] at hc
    rcases hc with rfl | hc | rfl
    · decide
    · exact ((plainChar_iff c).1 (h c hc)).2.2.2.1
    · decide
  have hNUL : (wrapL cs).contains cNUL = false := by
    apply Bool.eq_false_iff.2
    intro hcon
    have hm := List.contains_iff_mem.1 hcon
    simp [wrapL] at hm
    rcases hm with hm | hm | hm
    · exact absurd hm (by decide)
    · exact ((plainChar_iff cNUL).1 (h cNUL hm)).2.2.2.2 rfl
    · exact absurd hm (by decide)
  unfold lexSrc
  rw [hNUL, normNewlines, nnl_id _ hCR]
  simp [wrapL, lexS_plain cs h]

/-! ### docstrings -/

theorem docTail_lex :
    lexS true cDQ .norm ([cLF] ++ indent4 ++ [cDQ, cDQ, cDQ]) = some ([cLF] ++ indent4) := by
  decide

/-- a description without backslash / CR / NUL and without `"""`, followed by a tail that does not
    start with a quote, lexes to itself followed by whatever the tail lexes to -/
theorem lexS_doc (d t v : List Char) (hd : ∀ c ∈ d, docChar c = true) (hn : noTriple d = true)
    (ht : ∀ c r, t = c :: r → c ≠ cDQ) (hv : lexS true cDQ .norm t = some v) :
    lexS true cDQ .norm (d ++ t) = some (d ++ v) := by
  induction d with
  | nil => simpa using hv
  | cons c r ih =>
    have hc := (docChar_iff c).1 (hd c (by simp))
    have hr : ∀ x ∈ r, docChar x = true := fun x hx => hd x (by simp [hx])
    simp only [noTriple, Bool.and_eq_true, Bool.not_eq_true'] at hn
    have ih' := ih hr hn.2
    have hclose : isClose true cDQ c (r ++ t) = false := by
      cases hq : (c == cDQ) with
      | false => simp [isClose, hq]
      | true =>
        have h1 := hn.1
        simp only [hq, Bool.true_and] at h1
        simp only [isClose, hq, Bool.true_and, Bool.not_true, Bool.false_or]
        match r, h1 with
        | [], _ =>
          match t, ht with
          | [], _ => simp
          | x :: t', ht =>
            have := ht x t' rfl
            cases t' <;> simp [this]
        | [x], h1 =>
          match t, ht with
          | [], _ => simp
          | y :: t', ht =>
            have := ht y t' rfl
            simp [this]
        | x :: y :: r', h1 => simpa using h1
    simp [lexS, normCase, hclose, hc.1, ih', emit_some]

theorem lexSrc_docWrapL (d : List Char) (hd : ∀ c ∈ d, docChar c = true)
    (hn : noTriple d = true) : lexSrc (docWrapL d) = some (docValueL d) := by
  have hmem : ∀ c ∈ docWrapL d, c = cDQ ∨ c = cLF ∨ c = ' ' ∨ c ∈ d := by
    intro c hc
    simp [docWrapL, indent4] at hc
    rcases hc with h | h | h | h | h | h | h
    · exact Or.inl h
    · exact Or.inr (Or.inl h)
    · exact Or.inr (Or.inr (Or.inl h))
    · exact Or.inr (Or.inr (Or.inr h))
    · exact Or.inr (Or.inl h)
    · exact Or.inr (Or.inr (Or.inl h))
    · exact Or.inl h
  have hCR : ∀ c ∈ docWrapL d, c ≠ cCR := by
    intro c hc
    rcases hmem c hc with rfl | rfl | rfl | h
    · decide
    · decide
    · decide
    · exact ((docChar_iff c).1 (hd c h)).2.1
  have hNUL : (docWrapL d).contains cNUL = false := by
    apply Bool.eq_false_iff.2
    intro hcon
    rcases hmem cNUL (List.contains_iff_mem.1 hcon) with h | h | h | h
    · exact absurd h (by decide)
    · exact absurd h (by decide)
    · exact absurd h (by decide)
    · exact ((docChar_iff cNUL).1 (hd cNUL h)).2.2 rfl
  have hbody : lexS true cDQ .norm ([cLF] ++ indent4 ++ (d ++ ([cLF] ++ indent4 ++ [cDQ, cDQ, cDQ])))
      = some ([cLF] ++ indent4 ++ (d ++ ([cLF] ++ indent4))) := by
    have h2 := lexS_doc d ([cLF] ++ indent4 ++ [cDQ, cDQ, cDQ]) ([cLF] ++ indent4) hd hn
      (by intro c r h; simp at h; rw [← h.1]; decide) docTail_lex
    simp [lexS, normCase, isClose, indent4, cLF, cDQ, cBS] at h2 ⊢
    rw [h2]; rfl
  unfold lexSrc
  rw [hNUL, normNewlines, nnl_id _ hCR]
  simp only [docWrapL, docValueL] at hbody ⊢
  simpa [cDQ, cSQ, List.append_assoc] using hbody


/-! ### `repr(str)` always lexes back to the string -/


theorem hexVal_hexDigit (k : Nat) (h : k < 16) : hexVal (hexDigit k) = some k := by
  have : ∀ k : Fin 16, hexVal (hexDigit k.val) = some k.val := by decide
  exact this ⟨k, h⟩

theorem hexDigit_ge (k : Nat) (h : k < 16) : 48 ≤ (hexDigit k).toNat := by
  have : ∀ k : Fin 16, 48 ≤ (hexDigit k.val).toNat := by decide
  exact this ⟨k, h⟩

theorem ofCode_toNat (c : Char) : ofCode c.toNat = some c := by
  have hv := c.valid
  have : c.toNat < 0xd800 ∨ (0xdfff < c.toNat ∧ c.toNat < 0x110000) := hv
  simp [ofCode, this, Char.ofNat_toNat]


theorem q_ne_bs {q : Char} (hq : q = cSQ ∨ q = cDQ) : q ≠ cBS := by
  rcases hq with rfl | rfl <;> decide

/-- `\xHH` -/
theorem lexS_hex2 (q : Char) (c : Char) (hn : c.toNat < 256) (rest : List Char) :
    lexS false q .esc ('x' :: (hex2 c.toNat ++ rest)) = emit c (lexS false q .norm rest) := by
  have h1 := hexVal_hexDigit (c.toNat / 16 % 16) (Nat.mod_lt _ (by decide))
  have h2 := hexVal_hexDigit (c.toNat % 16) (Nat.mod_lt _ (by decide))
  have hsum : c.toNat / 16 % 16 * 16 + c.toNat % 16 = c.toNat := by omega
  simp [hex2, lexS, escCase, escKind, cLF, cBS, cSQ, cDQ, hexCase, h1, h2, hsum, ofCode_toNat]

/-- `\uHHHH` -/
theorem lexS_hex4 (q : Char) (c : Char) (hn : c.toNat < 65536) (rest : List Char) :
    lexS false q .esc ('u' :: (hex4 c.toNat ++ rest)) = emit c (lexS false q .norm rest) := by
  have h1 := hexVal_hexDigit (c.toNat / 256 / 16 % 16) (Nat.mod_lt _ (by decide))
  have h2 := hexVal_hexDigit (c.toNat / 256 % 16) (Nat.mod_lt _ (by decide))
  have h3 := hexVal_hexDigit (c.toNat / 16 % 16) (Nat.mod_lt _ (by decide))
  have h4 := hexVal_hexDigit (c.toNat % 16) (Nat.mod_lt _ (by decide))
  have hsum : ((c.toNat / 256 / 16 % 16 * 16 + c.toNat / 256 % 16) * 16 + c.toNat / 16 % 16) * 16
      + c.toNat % 16 = c.toNat := by omega
  simp [hex4, hex2, lexS, escCase, escKind, cLF, cBS, cSQ, cDQ, hexCase, h1, h2, h3, h4, hsum,
    ofCode_toNat]

/-- `\UHHHHHHHH` -/
theorem lexS_hex8 (q : Char) (c : Char) (rest : List Char) :
    lexS false q .esc ('U' :: (hex8 c.toNat ++ rest)) = emit c (lexS false q .norm rest) := by
  have hn : c.toNat < 0x110000 := by
    have hv : c.toNat < 0xd800 ∨ (0xdfff < c.toNat ∧ c.toNat < 0x110000) := c.valid
    omega
  have h1 := hexVal_hexDigit (c.toNat / 65536 / 256 / 16 % 16) (Nat.mod_lt _ (by decide))
  have h2 := hexVal_hexDigit (c.toNat / 65536 / 256 % 16) (Nat.mod_lt _ (by decide))
  have h3 := hexVal_hexDigit (c.toNat / 65536 / 16 % 16) (Nat.mod_lt _ (by decide))
  have h4 := hexVal_hexDigit (c.toNat / 65536 % 16) (Nat.mod_lt _ (by decide))
  have h5 := hexVal_hexDigit (c.toNat / 256 / 16 % 16) (Nat.mod_lt _ (by decide))
  have h6 := hexVal_hexDigit (c.toNat / 256 % 16) (Nat.mod_lt _ (by decide))
  have h7 := hexVal_hexDigit (c.toNat / 16 % 16) (Nat.mod_lt _ (by decide))
  have h8 := hexVal_hexDigit (c.toNat % 16) (Nat.mod_lt _ (by decide))
  have hsum : ((((((c.toNat / 65536 / 256 / 16 % 16 * 16 + c.toNat / 65536 / 256 % 16) * 16
      + c.toNat / 65536 / 16 % 16) * 16 + c.toNat / 65536 % 16) * 16 + c.toNat / 256 / 16 % 16) * 16
      + c.toNat / 256 % 16) * 16 + c.toNat / 16 % 16) * 16 + c.toNat % 16 = c.toNat := by omega
  simp [hex8, hex4, hex2, lexS, escCase, escKind, cLF, cBS, cSQ, cDQ, hexCase, h1, h2, h3, h4, h5,
    h6, h7, h8, hsum, ofCode_toNat]

theorem char_of_toNat {c : Char} {n : Nat} (h : c.toNat = n) : c = Char.ofNat n := by
  rw [← h, Char.ofNat_toNat]

/-- one character of `repr` lexes back to itself -/
theorem lexS_reprChar (pr : Char → Bool) (q : Char) (hq : q = cSQ ∨ q = cDQ) (c : Char)
    (rest : List Char) :
    lexS false q .norm (reprChar pr q c ++ rest) = emit c (lexS false q .norm rest) := by
  have hqb := q_ne_bs hq
  have hbq : ¬ (cBS = q) := fun h => hqb h.symm
  have raw : c ≠ q → c ≠ cBS → c ≠ cLF →
      lexS false q .norm (c :: rest) = emit c (lexS false q .norm rest) := by
    intro h1 h2 h3
    simp [lexS, normCase, isClose, h1, h2, h3]
  have esc : ∀ r, lexS false q .norm (cBS :: r) = lexS false q .esc r := by
    intro r
    cases r <;> simp [lexS, normCase, isClose, hbq]
  unfold reprChar
  simp only []
  split
  · -- the quote or a backslash
    rename_i h
    rw [List.cons_append, esc]
    rcases h with h | h
    · subst h
      rcases hq with rfl | rfl <;> simp [lexS, escCase, escKind, cLF, cBS, cSQ, cDQ]
    · subst h
      simp [lexS, escCase, escKind, cLF, cBS]
  · rename_i hnq
    have hcq : c ≠ q := fun h => hnq (Or.inl h)
    have hcb : c ≠ cBS := fun h => hnq (Or.inr h)
    split
    · rename_i h; rw [char_of_toNat h, List.cons_append, esc]
      simp [lexS, escCase, escKind, cLF, cBS, cSQ, cDQ]
    · split
      · rename_i h; rw [char_of_toNat h, List.cons_append, esc]
        simp [lexS, escCase, escKind, cLF, cBS, cSQ, cDQ]
      · split
        · rename_i h; rw [char_of_toNat h, List.cons_append, esc]
          simp [lexS, escCase, escKind, cLF, cBS, cSQ, cDQ, cCR]
        · rename_i h9 h10 h13
          have hlf : c ≠ cLF := fun h => h10 (by rw [h]; rfl)
          split
          · rename_i h
            rw [List.cons_append, esc, List.cons_append]
            exact lexS_hex2 q c (by omega) rest
          · split
            · exact raw hcq hcb hlf
            · split
              · exact raw hcq hcb hlf
              · split
                · rename_i h
                  rw [List.cons_append, esc, List.cons_append]
                  exact lexS_hex2 q c h rest
                · split
                  · rename_i h
                    rw [List.cons_append, esc, List.cons_append]
                    exact lexS_hex4 q c h rest
                  · rw [List.cons_append, esc, List.cons_append]
                    exact lexS_hex8 q c rest

theorem lexS_reprBody (pr : Char → Bool) (q : Char) (hq : q = cSQ ∨ q = cDQ) (cs : List Char) :
    lexS false q .norm (reprBody pr q cs ++ [q]) = some cs := by
  induction cs with
  | nil => simp [reprBody, lexS, normCase, isClose, atEnd]
  | cons c r ih =>
    simp only [reprBody, List.append_assoc]
    rw [lexS_reprChar pr q hq c, ih]
    rfl

theorem reprChar_ge (pr : Char → Bool) (q : Char) (hq : q = cSQ ∨ q = cDQ) (c : Char) :
    ∀ d ∈ reprChar pr q c, 32 ≤ d.toNat := by
  have hqge : 32 ≤ q.toNat := by rcases hq with rfl | rfl <;> decide
  have hd1 := hexDigit_ge (c.toNat / 16 % 16) (Nat.mod_lt _ (by decide))
  have hd2 := hexDigit_ge (c.toNat % 16) (Nat.mod_lt _ (by decide))
  have hd3 := hexDigit_ge (c.toNat / 256 / 16 % 16) (Nat.mod_lt _ (by decide))
  have hd4 := hexDigit_ge (c.toNat / 256 % 16) (Nat.mod_lt _ (by decide))
  have hd5 := hexDigit_ge (c.toNat / 65536 / 256 / 16 % 16) (Nat.mod_lt _ (by decide))
  have hd6 := hexDigit_ge (c.toNat / 65536 / 256 % 16) (Nat.mod_lt _ (by decide))
  have hd7 := hexDigit_ge (c.toNat / 65536 / 16 % 16) (Nat.mod_lt _ (by decide))
  have hd8 := hexDigit_ge (c.toNat / 65536 % 16) (Nat.mod_lt _ (by decide))
  have hbs : 32 ≤ cBS.toNat := by decide
  have hx : 32 ≤ 'x'.toNat := by decide
  have hu : 32 ≤ 'u'.toNat := by decide
  have hU : 32 ≤ 'U'.toNat := by decide
  have ht : 32 ≤ 't'.toNat := by decide
  have hn : 32 ≤ 'n'.toNat := by decide
  have hr : 32 ≤ 'r'.toNat := by decide
  intro d hd
  unfold reprChar at hd
  simp only [] at hd
  split at hd
  · rename_i h
    simp only [List.mem_cons, List.not_mem_nil, or_false] at hd
    rcases hd with rfl | rfl
    · exact hbs
    · rcases h with rfl | rfl
      · exact hqge
      · exact hbs
  · split at hd
    · simp only [List.mem_cons, List.not_mem_nil, or_false] at hd
      rcases hd with rfl | rfl <;> assumption
    · split at hd
      · simp only [List.mem_cons, List.not_mem_nil, or_false] at hd
        rcases hd with rfl | rfl <;> assumption
      · split at hd
        · simp only [List.mem_cons, List.not_mem_nil, or_false] at hd
          rcases hd with rfl | rfl <;> assumption
        · split at hd
          · simp only [hex2, List.mem_cons, List.not_mem_nil, or_false] at hd
            rcases hd with rfl | rfl | rfl | rfl <;> omega
          · split at hd
            · simp only [List.mem_cons, List.not_mem_nil, or_false] at hd
              subst hd; omega
            · split at hd
              · simp only [List.mem_cons, List.not_mem_nil, or_false] at hd
                subst hd; omega
              · split at hd
                · simp only [hex2, List.mem_cons, List.not_mem_nil, or_false] at hd
                  rcases hd with rfl | rfl | rfl | rfl <;> omega
                · split at hd
                  · simp only [hex4, hex2, List.mem_cons, List.mem_append, List.not_mem_nil, or_false] at hd
                    rcases hd with rfl | rfl | (rfl | rfl) | rfl | rfl <;> omega
                  · simp only [hex8, hex4, hex2, List.mem_cons, List.mem_append, List.not_mem_nil, or_false] at hd
                    rcases hd with rfl | rfl | ((rfl | rfl) | rfl | rfl) | (rfl | rfl) | rfl | rfl <;> omega

theorem reprBody_ge (pr : Char → Bool) (q : Char) (hq : q = cSQ ∨ q = cDQ) (cs : List Char) :
    ∀ d ∈ reprBody pr q cs, 32 ≤ d.toNat := by
  induction cs with
  | nil => intro d hd; simp [reprBody] at hd
  | cons c r ih =>
    intro d hd
    simp only [reprBody, List.mem_append] at hd
    rcases hd with hd | hd
    · exact reprChar_ge pr q hq c d hd
    · exact ih d hd

/-- the first character of an escaped character is a backslash or the (non-quote) character -/
theorem reprChar_head (pr : Char → Bool) (q c : Char) :
    ∃ h t, reprChar pr q c = h :: t ∧ (h = cBS ∨ (h = c ∧ c ≠ q)) := by
  unfold reprChar
  simp only []
  split
  · exact ⟨_, _, rfl, Or.inl rfl⟩
  · rename_i hnq
    have hcq : c ≠ q := fun h => hnq (Or.inl h)
    repeat' split
    all_goals first
      | exact ⟨_, _, rfl, Or.inl rfl⟩
      | exact ⟨_, _, rfl, Or.inr ⟨rfl, hcq⟩⟩

/-- `repr(s)` always lexes back to `s` -/
theorem lexSrc_pyReprL (pr : Char → Bool) (cs : List Char) : lexSrc (pyReprL pr cs) = some cs := by
  have hq : reprQuote cs = cSQ ∨ reprQuote cs = cDQ := by
    unfold reprQuote; split <;> simp
  have hge : ∀ d ∈ pyReprL pr cs, 32 ≤ d.toNat := by
    intro d hd
    simp only [pyReprL, List.mem_cons, List.mem_append, List.not_mem_nil, or_false] at hd
    have hqge : 32 ≤ (reprQuote cs).toNat := by rcases hq with h | h <;> rw [h] <;> decide
    rcases hd with rfl | hd | rfl
    · exact hqge
    · exact reprBody_ge pr _ hq cs d hd
    · exact hqge
  have hCR : ∀ d ∈ pyReprL pr cs, d ≠ cCR := by
    intro d hd h
    have := hge d hd
    rw [h] at this
    exact absurd this (by decide)
  have hNUL : (pyReprL pr cs).contains cNUL = false := by
    apply Bool.eq_false_iff.2
    intro hcon
    have := hge cNUL (List.contains_iff_mem.1 hcon)
    exact absurd this (by decide)
  have hbody := lexS_reprBody pr (reprQuote cs) hq cs
  unfold lexSrc
  rw [hNUL, normNewlines, nnl_id _ hCR]
  simp only [pyReprL, Bool.false_eq_true, if_false]
  rcases hq with h | h
  · rw [h] at hbody ⊢
    simp [hbody]
  · rw [h] at hbody ⊢
    have hne : ¬ (cDQ = cSQ) := by decide
    simp only [hne, if_false, if_true]
    have htake : ((reprBody pr cDQ cs ++ [cDQ]).take 2 == [cDQ, cDQ]) = false := by
      cases cs with
      | nil => simp [reprBody]
      | cons c r =>
        obtain ⟨hd, tl, he, hh⟩ := reprChar_head pr cDQ c
        simp only [reprBody, he, List.cons_append, List.append_assoc]
        have hdq : hd ≠ cDQ := by
          rcases hh with rfl | ⟨rfl, hc⟩
          · decide
          · exact hc
        cases htl : (tl ++ (reprBody pr cDQ r ++ [cDQ])) with
        | nil => simp
        | cons y ys => simp [hdq]
    rw [htake]
    simpa using hbody


end Typedpy.PyLex
