/-
  Lemmas/PyLex.lean — safety of the literal producers with respect to the lexer model:
  plain quoting (`wrap_val`) is faithful exactly on strings without quote / backslash / newline,
  the docstring template is faithful on descriptions without backslash / `"""` / carriage return.
-/
import TypedpyModel.Sem.PyLex
namespace Typedpy.PyLex

/-- characters that plain single-quoting leaves intact -/
def plainChar (c : Char) : Bool :=
  c != cSQ && c != cBS && c != cLF && c != cCR && c != cNUL

/-- characters that the docstring template leaves intact (a `"` is fine unless three in a row) -/
def docChar (c : Char) : Bool := c != cBS && c != cCR && c != cNUL

/-- no `"""` starts anywhere in the list -/
def noTriple : List Char → Bool
  | [] => true
  | c :: r => !(c == cDQ && r.take 2 == [cDQ, cDQ]) && noTriple r

theorem plainChar_iff (c : Char) :
    plainChar c = true ↔ c ≠ cSQ ∧ c ≠ cBS ∧ c ≠ cLF ∧ c ≠ cCR ∧ c ≠ cNUL := by
  simp [plainChar, and_assoc]

theorem docChar_iff (c : Char) : docChar c = true ↔ c ≠ cBS ∧ c ≠ cCR ∧ c ≠ cNUL := by
  simp [docChar, and_assoc]

theorem nnl_id (cs : List Char) (h : ∀ c ∈ cs, c ≠ cCR) : nnl false cs = cs := by
  induction cs with
  | nil => rfl
  | cons c r ih =>
    have hc : c ≠ cCR := h c (by simp)
    have hr : ∀ d ∈ r, d ≠ cCR := fun d hd => h d (by simp [hd])
    simp [nnl, hc, ih hr]

theorem emit_some (c : Char) (w : List Char) : emit c (some w) = some (c :: w) := rfl

/-- the body of a short `'`-literal made of plain characters lexes to itself -/
theorem lexS_plain (cs : List Char) (h : ∀ c ∈ cs, plainChar c = true) :
    lexS false cSQ .norm (cs ++ [cSQ]) = some cs := by
  induction cs with
  | nil => simp [lexS, normCase, isClose, atEnd]
  | cons c r ih =>
    have hc := (plainChar_iff c).1 (h c (by simp))
    have hr : ∀ d ∈ r, plainChar d = true := fun d hd => h d (by simp [hd])
    obtain ⟨h1, h2, h3, _, _⟩ := hc
    simp [lexS, normCase, isClose, h1, h2, h3, ih hr, emit_some]

theorem lexSrc_wrapL (cs : List Char) (h : ∀ c ∈ cs, plainChar c = true) :
    lexSrc (wrapL cs) = some cs := by
  have hCR : ∀ c ∈ wrapL cs, c ≠ cCR := by
    intro c hc
    simp [wrapL] at hc
    rcases hc with rfl | hc | rfl
    · decide
    · exact ((plainChar_iff c).1 (h c hc)).2.2.2.1
    · decide
  have hNUL : (wrapL cs).contains cNUL = false := by
    apply Bool.eq_false_iff.2
    intro hcon
    have hm := List.contains_iff_mem.1 hcon
    simp [wrapL] at hm
    rcases hm with hm | hm | hm
    · exact absurd hm (by decide)
    · exact ((plainChar_iff cNUL).1 (h cNUL hm)).2.2.2.2 rfl
    · exact absurd hm (by decide)
  unfold lexSrc
  rw [hNUL, normNewlines, nnl_id _ hCR]
  simp [wrapL, lexS_plain cs h]

/-! ### docstrings -/

theorem docTail_lex :
    lexS true cDQ .norm ([cLF] ++ indent4 ++ [cDQ, cDQ, cDQ]) = some ([cLF] ++ indent4) := by
  decide

/-- a description without backslash / CR / NUL and without `"""`, followed by a tail that does not
    start with a quote, lexes to itself followed by whatever the tail lexes to -/
theorem lexS_doc (d t v : List Char) (hd : ∀ c ∈ d, docChar c = true) (hn : noTriple d = true)
    (ht : ∀ c r, t = c :: r → c ≠ cDQ) (hv : lexS true cDQ .norm t = some v) :
    lexS true cDQ .norm (d ++ t) = some (d ++ v) := by
  induction d with
  | nil => simpa using hv
  | cons c r ih =>
    have hc := (docChar_iff c).1 (hd c (by simp))
    have hr : ∀ x ∈ r, docChar x = true := fun x hx => hd x (by simp [hx])
    simp only [noTriple, Bool.and_eq_true, Bool.not_eq_true'] at hn
    have ih' := ih hr hn.2
    have hclose : isClose true cDQ c (r ++ t) = false := by
      cases hq : (c == cDQ) with
      | false => simp [isClose, hq]
      | true =>
        have h1 := hn.1
        simp only [hq, Bool.true_and] at h1
        simp only [isClose, hq, Bool.true_and, Bool.not_true, Bool.false_or]
        match r, h1 with
        | [], _ =>
          match t, ht with
          | [], _ => simp
          | x :: t', ht =>
            have := ht x t' rfl
            cases t' <;> simp [this]
        | [x], h1 =>
          match t, ht with
          | [], _ => simp
          | y :: t', ht =>
            have := ht y t' rfl
            simp [this]
        | x :: y :: r', h1 => simpa using h1
    simp [lexS, normCase, hclose, hc.1, ih', emit_some]

theorem lexSrc_docWrapL (d : List Char) (hd : ∀ c ∈ d, docChar c = true)
    (hn : noTriple d = true) : lexSrc (docWrapL d) = some (docValueL d) := by
  have hmem : ∀ c ∈ docWrapL d, c = cDQ ∨ c = cLF ∨ c = ' ' ∨ c ∈ d := by
    intro c hc
    simp [docWrapL, indent4] at hc
    rcases hc with h | h | h | h | h | h | h
    · exact Or.inl h
    · exact Or.inr (Or.inl h)
    · exact Or.inr (Or.inr (Or.inl h))
    · exact Or.inr (Or.inr (Or.inr h))
    · exact Or.inr (Or.inl h)
    · exact Or.inr (Or.inr (Or.inl h))
    · exact Or.inl h
  have hCR : ∀ c ∈ docWrapL d, c ≠ cCR := by
    intro c hc
    rcases hmem c hc with rfl | rfl | rfl | h
    · decide
    · decide
    · decide
    · exact ((docChar_iff c).1 (hd c h)).2.1
  have hNUL : (docWrapL d).contains cNUL = false := by
    apply Bool.eq_false_iff.2
    intro hcon
    rcases hmem cNUL (List.contains_iff_mem.1 hcon) with h | h | h | h
    · exact absurd h (by decide)
    · exact absurd h (by decide)
    · exact absurd h (by decide)
    · exact ((docChar_iff cNUL).1 (hd cNUL h)).2.2 rfl
  have hbody : lexS true cDQ .norm ([cLF] ++ indent4 ++ (d ++ ([cLF] ++ indent4 ++ [cDQ, cDQ, cDQ])))
      = some ([cLF] ++ indent4 ++ (d ++ ([cLF] ++ indent4))) := by
    have h2 := lexS_doc d ([cLF] ++ indent4 ++ [cDQ, cDQ, cDQ]) ([cLF] ++ indent4) hd hn
      (by intro c r h; simp at h; rw [← h.1]; decide) docTail_lex
    simp [lexS, normCase, isClose, indent4, cLF, cDQ, cBS] at h2 ⊢
    rw [h2]; rfl
  unfold lexSrc
  rw [hNUL, normNewlines, nnl_id _ hCR]
  simp only [docWrapL, docValueL] at hbody ⊢
  simpa [cDQ, cSQ, List.append_assoc] using hbody

end Typedpy.PyLex
