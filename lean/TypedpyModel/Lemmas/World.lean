/-
  Lemmas/World.lean — invariants of the `World` model and the simulation between a history and the
  sub-history a set of classes depends on (C15).

  `Good`     : every cache entry equals the function it memoises for the class that reads it, every
               implicit-wrapper registry entry was put there for the class it checks, every installed
               serializer is the one a fresh `create_serializer` would build  ("CacheCoherent").
  `Sim`      : the full run and the sliced run agree on the stable part (what `StructMeta.__new__`
               fixed, and `_required`) of every class in `T`, on the flags, and are both `Good`.
-/
import TypedpyModel.Sem.World
set_option linter.unusedSimpArgs false
namespace Typedpy.World

/-! ### association lists -/

theorem alookup_cons_eq {κ ν : Type} [DecidableEq κ] (k : κ) (v : ν) (m : List (κ × ν)) :
    alookup k ((k, v) :: m) = some v := by simp [alookup]

theorem alookup_cons_ne {κ ν : Type} [DecidableEq κ] {k k' : κ} (v : ν) (m : List (κ × ν)) (h : k' ≠ k) :
    alookup k ((k', v) :: m) = alookup k m := by simp [alookup, h]

theorem alookup_mem {κ ν : Type} [DecidableEq κ] {k : κ} {v : ν} :
    ∀ {m : List (κ × ν)}, alookup k m = some v → (k, v) ∈ m
  | [], h => by simp [alookup] at h
  | (k', v') :: m, h => by
    by_cases hk : k' = k
    · subst hk
      simp [alookup] at h
      subst h
      simp
    · rw [alookup_cons_ne _ _ hk] at h
      exact List.mem_cons_of_mem _ (alookup_mem h)

/-! ### the stable part of a class entry -/

/-- the flags instances of the class are serialized with: those of the installed serializer, else the
    default ones (what the first instance generates) -/
def Entry.effFlags (e : Entry) : SerFlags := (e.serializer.map (·.flags)).getD .plain

/-- what of a class entry the behaviour of classes depends on (under coherence): the definition-time core,
    `_required`, and the CONFIGURATION of its serializer -/
def Entry.stable (e : Entry) : Core × List String × SerFlags := (e.core, e.required, e.effFlags)

/-- stable part of class `d` in world `w` -/
def lookS (w : World) (d : ClassId) : Option (Core × List String × SerFlags) := (alookup d w.classes).map Entry.stable

/-- keys the serializer of a class emits when built from the class's own mapper -/
def canonKeys (e : Entry) : List String := (fnames e.core.fields).map (mappedKey (mapperOf e false))

structure Good (cfg : Config) (W : List (String × TypeId)) (w : World) : Prop where
  reg : ∀ p ∈ w.wrappers, ∃ n, p.1 = wkey cfg n p.2 ∧ (n, p.2) ∈ W
  mapper : ∀ p ∈ w.mapperCache, ∃ c e b, alookup c w.classes = some e ∧ p.1 = CKey.id c b ∧ p.2 = mapperOf e b
  simpl : ∀ p ∈ w.simplicityCache, ∃ c e, alookup c w.classes = some e ∧ p.1 = CKey.id c false ∧ p.2 = e.core.simple
  ser : ∀ c e, alookup c w.classes = some e → ∀ s, e.serializer = some s →
    s.keys = canonKeys e ∧ (refsCreatable cfg e = true → fastAble e = true)

theorem good_initial (cfg : Config) (W : List (String × TypeId)) : Good cfg W World.initial :=
  ⟨by simp [World.initial], by simp [World.initial], by simp [World.initial],
   by intro c e h; simp [World.initial, alookup] at h⟩

theorem cachesById_iff (cfg : Config) :
    cfg.cachesById = true ↔ cfg.mapperByName = false ∧ cfg.simplicityByName = false ∧ cfg.serializerOnBase = false
      ∧ cfg.mapperDropsCamel = false := by
  cases cfg with
  | mk a b b2 c d e => cases b <;> cases b2 <;> cases c <;> cases e <;> simp [Config.cachesById]

/-! ### a coherent cache is invisible -/

theorem mkey_id {cfg : Config} (hc : cfg.cachesById = true) (c : ClassId) (e : Entry) (b : Bool) :
    mkey cfg c e b = CKey.id c b := by
  simp [mkey, ((cachesById_iff cfg).1 hc).1, ((cachesById_iff cfg).1 hc).2.2.2]

theorem skey_id {cfg : Config} (hc : cfg.cachesById = true) (c : ClassId) (e : Entry) :
    skey cfg c e = CKey.id c false := by
  simp [skey, ((cachesById_iff cfg).1 hc).2.1]

theorem installTarget_self {cfg : Config} (hc : cfg.cachesById = true) (c : ClassId) (e : Entry) :
    installTarget cfg c e = c := by
  simp [installTarget, ((cachesById_iff cfg).1 hc).2.2.1]

/-- class `c` is defined in `w` with the same definition-time core as `e` -/
def Has (w : World) (c : ClassId) (e : Entry) : Prop := ∃ e0, alookup c w.classes = some e0 ∧ e0.core = e.core

theorem has_self {w : World} {c : ClassId} {e : Entry} (hl : alookup c w.classes = some e) : Has w c e :=
  ⟨e, hl, rfl⟩

theorem mapperOf_core {e e' : Entry} (h : e'.core = e.core) (b : Bool) : mapperOf e' b = mapperOf e b := by
  unfold mapperOf; rw [h]

theorem serMapper_eq' {cfg : Config} {W} {w : World} (hc : cfg.cachesById = true) (g : Good cfg W w)
    {c : ClassId} {e : Entry} (hh : Has w c e) (b : Bool) : serMapper cfg w c e b = mapperOf e b := by
  obtain ⟨e0, hl, hcore⟩ := hh
  unfold serMapper
  rw [mkey_id hc]
  cases hk : alookup (CKey.id c b) w.mapperCache with
  | none => rfl
  | some m =>
    obtain ⟨c', e', b', hl', hkey, hval⟩ := g.mapper _ (alookup_mem hk)
    simp only at hkey hval
    cases hkey
    rw [hl] at hl'
    cases hl'
    simp [hval, mapperOf_core hcore]

theorem serMapper_eq {cfg : Config} {W} {w : World} (hc : cfg.cachesById = true) (g : Good cfg W w)
    {c : ClassId} {e : Entry} (hl : alookup c w.classes = some e) (b : Bool) :
    serMapper cfg w c e b = mapperOf e b :=
  serMapper_eq' hc g (has_self hl) b

theorem trustedOf_eq {cfg : Config} {W} {w : World} (hc : cfg.cachesById = true) (g : Good cfg W w)
    {c : ClassId} {e : Entry} (hl : alookup c w.classes = some e) : trustedOf cfg w c e = e.core.simple := by
  unfold trustedOf
  rw [skey_id hc]
  cases hk : alookup (CKey.id c false) w.simplicityCache with
  | none => rfl
  | some m =>
    obtain ⟨c', e', hl', hkey, hval⟩ := g.simpl _ (alookup_mem hk)
    simp only at hkey hval
    cases hkey
    rw [hl] at hl'
    cases hl'
    simp [hval]

/-! ### inside the region of the known finding `create_serializer` succeeds iff the class is statically fast-able -/

theorem verify_snd (cfg : Config) (rec : World → ClassId → World) :
    ∀ (fs : List FieldSpec) (w : World),
      (cfg.serializerViaMro = false ∨ (fs.all fun f => match f.kind with | .ref _ => f.fastOk | _ => true) = true) →
      (verifyFields cfg rec w fs).2 = fs.all (·.fastOk)
  | [], _, _ => rfl
  | f :: fs, w, h => by
    have h' : cfg.serializerViaMro = false ∨ (fs.all fun f => match f.kind with | .ref _ => f.fastOk | _ => true) = true := by
      rcases h with h | h
      · exact Or.inl h
      · simp only [List.all_cons, Bool.and_eq_true] at h; exact Or.inr h.2
    unfold verifyFields
    cases hk : f.kind with
    | ref b =>
      simp only [List.all_cons]
      cases hf : f.fastOk with
      | true =>
        simp only [Bool.true_or, if_true, Bool.true_and]
        exact verify_snd cfg rec fs _ h'
      | false =>
        rcases h with h | h
        · simp [h]
        · simp only [List.all_cons, Bool.and_eq_true] at h
          have := h.1
          simp [hk, hf] at this
    | prim t =>
      simp only [List.all_cons]
      cases hf : f.fastOk with
      | true => simp only [if_true, Bool.true_and]; exact verify_snd cfg rec fs _ h'
      | false => simp
    | wrap n t =>
      simp only [List.all_cons]
      cases hf : f.fastOk with
      | true => simp only [if_true, Bool.true_and]; exact verify_snd cfg rec fs _ h'
      | false => simp
    | refs cs =>
      simp only [List.all_cons]
      cases hf : f.fastOk with
      | true => simp only [if_true, Bool.true_and]; exact verify_snd cfg rec fs _ h'
      | false => simp

theorem refsCreatable_or {cfg : Config} {e : Entry} (hr : refsCreatable cfg e = true) :
    cfg.serializerViaMro = false ∨
      (e.core.fields.all fun f => match f.kind with | .ref _ => f.fastOk | _ => true) = true := by
  unfold refsCreatable at hr
  cases hm : cfg.serializerViaMro with
  | false => exact Or.inl rfl
  | true => simp only [hm, Bool.not_true, Bool.false_or] at hr; exact Or.inr hr

theorem createW_snd {cfg : Config} (n : Nat) {w : World} {c : ClassId} {e : Entry} (fl : SerFlags)
    (hl : alookup c w.classes = some e) (hr : refsCreatable cfg e = true) :
    (createW cfg (n + 1) w c fl).2 = fastAble e := by
  unfold createW
  simp only [hl]
  have := verify_snd cfg (fun w b => (createW cfg n w b .plain).1) e.core.fields (fillMapper cfg w c e)
    (refsCreatable_or hr)
  split
  · rename_i h; rw [this] at h; exact h.symm
  · rename_i h; rw [this] at h; simpa [fastAble] using h

theorem creatableNow_eq {cfg : Config} {w : World} {c : ClassId} {e : Entry}
    (hl : alookup c w.classes = some e) (hr : refsCreatable cfg e = true) :
    creatableNow cfg w c = fastAble e := createW_snd _ .plain hl hr

/-! ### what a class does, as a function of stable parts and the current flags alone -/

def canonKeysC (core : Core) : List String :=
  (fnames core.fields).map (mappedKey (core.fields.map fun f => (f.name, f.serKey)))

/-- the serializer instances of a class with stable part `s` are serialized with -/
def idealFastSer (s : Option (Core × List String × SerFlags)) : Option Ser :=
  s.bind fun x => if x.1.src.fast then some ⟨canonKeysC x.1, x.2.2⟩ else none

def idealBehaviour (flags : Flags) (core : Core) (required : List String) (eff : SerFlags)
    (look : ClassId → Option (Core × List String × SerFlags)) : Behaviour where
  fields := core.fields
  sigRequired := core.sigRequired
  required := required
  kwargs := core.kwargs
  extras := core.addPropsAttr.getD flags.addProps
  compact := flags.compact
  failFast := flags.failFast
  serMapper := core.fields.map fun f => (f.name, f.serKey)
  serMapperCamel := core.fields.map fun f => (f.name, f.camelKey)
  instantiable := !core.src.fast || core.fields.all (·.fastOk)
  fastSer := if core.src.fast then some ⟨canonKeysC core, eff⟩ else none
  refSers := (refFields core.fields).map fun p => (p.1, idealFastSer (look p.2))
  trusted := core.simple
  schemaRequired := schemaRequiredOf (core.fields.map fun f => (f.name, f.serKey))
    (core.addPropsAttr.getD flags.addProps) core.fields required

theorem fastSerOf_eq {cfg : Config} {W} {w : World} (hc : cfg.cachesById = true) (g : Good cfg W w)
    {c : ClassId} {e : Entry} (hl : alookup c w.classes = some e) :
    fastSerOf cfg w c e = if e.core.src.fast then some ⟨canonKeysC e.core, e.effFlags⟩ else none := by
  unfold fastSerOf
  cases hf : e.core.src.fast with
  | false => simp
  | true =>
    simp only [if_true, Option.some.injEq]
    cases hs : e.serializer with
    | none =>
      simp [Entry.effFlags, hs, fastKeysNow, serMapper_eq hc g hl false, canonKeysC, mapperOf]
    | some s =>
      have := (g.ser c e hl s hs).1
      cases s with
      | mk k f =>
        simp only at this
        simp [Entry.effFlags, hs, this, canonKeys, canonKeysC, mapperOf]

theorem fastSerAt_eq {cfg : Config} {W} {w : World} (hc : cfg.cachesById = true) (g : Good cfg W w)
    (b : ClassId) : fastSerAt cfg w b = idealFastSer (lookS w b) := by
  unfold fastSerAt lookS idealFastSer
  cases hl : alookup b w.classes with
  | none => rfl
  | some eb =>
    simp only [Option.map_some, Option.bind_some, Entry.stable]
    exact fastSerOf_eq hc g hl

theorem behaviourOf_eq_ideal {cfg : Config} {W} {w : World} (hc : cfg.cachesById = true) (g : Good cfg W w)
    {c : ClassId} {e : Entry} (hl : alookup c w.classes = some e)
    (hwf : e.core.src.fast = true → refsCreatable cfg e = true) :
    behaviourOf cfg w c e = idealBehaviour w.flags e.core e.required e.effFlags (lookS w) := by
  have h1 := serMapper_eq hc g hl false
  have h1c := serMapper_eq hc g hl true
  have h2 := trustedOf_eq hc g hl
  have h3 := fastSerOf_eq hc g hl
  have h4 : (!e.core.src.fast || e.serializer.isSome || creatableNow cfg w c)
      = (!e.core.src.fast || e.core.fields.all (·.fastOk)) := by
    cases hf : e.core.src.fast with
    | false => simp
    | true =>
      have hr := hwf hf
      rw [creatableNow_eq hl hr]
      cases hs : e.serializer with
      | none => simp [fastAble]
      | some s =>
        have := (g.ser c e hl s hs).2 hr
        unfold fastAble at this
        rw [this]
        simp
  unfold behaviourOf idealBehaviour
  simp only [h1, h1c, h2, h3, h4, extrasOf, mapperOf, fastSerAt_eq hc g, Bool.false_eq_true, if_false, if_true]

/-- the classes a class's behaviour reads besides itself: the ones its fields refer to -/
def refsOf (core : Core) : List ClassId := (refFields core.fields).map (·.2)

theorem refSers_congr {look look' : ClassId → Option (Core × List String × SerFlags)} :
    ∀ (l : List (String × ClassId)), (∀ p ∈ l, look p.2 = look' p.2) →
      l.map (fun p => (p.1, idealFastSer (look p.2))) = l.map (fun p => (p.1, idealFastSer (look' p.2)))
  | [], _ => rfl
  | p :: l, h => by
    simp only [List.map_cons]
    rw [h p (by simp), refSers_congr l (fun q hq => h q (by simp [hq]))]

theorem view_eq_of_lookS {cfg : Config} {W} {w w' : World} (hc : cfg.cachesById = true)
    (g : Good cfg W w) (g' : Good cfg W w') (hf : w.flags = w'.flags) {c : ClassId}
    (hs : lookS w c = lookS w' c)
    (hwf : ∀ e, alookup c w.classes = some e → e.core.src.fast = true → refsCreatable cfg e = true)
    (hrefs : ∀ e, alookup c w.classes = some e → ∀ p ∈ refFields e.core.fields, lookS w p.2 = lookS w' p.2) :
    view cfg w c = view cfg w' c := by
  unfold view
  unfold lookS at hs
  cases hl : alookup c w.classes with
  | none =>
    rw [hl] at hs
    cases hl' : alookup c w'.classes with
    | none => rfl
    | some e' => rw [hl'] at hs; simp at hs
  | some e =>
    rw [hl] at hs
    cases hl' : alookup c w'.classes with
    | none => rw [hl'] at hs; simp at hs
    | some e' =>
      rw [hl'] at hs
      simp only [Option.map_some, Option.some.injEq, Entry.stable, Prod.mk.injEq] at hs
      have hwf' : e'.core.src.fast = true → refsCreatable cfg e' = true := by
        intro h
        have := hwf e hl (by rw [hs.1]; exact h)
        simpa [refsCreatable, hs.1] using this
      simp only [Option.map_some, behaviourOf_eq_ideal hc g hl (hwf e hl), behaviourOf_eq_ideal hc g' hl' hwf',
        hf, hs.1, hs.2.1, hs.2.2]
      have hr : (refFields e'.core.fields).map (fun p => (p.1, idealFastSer (lookS w p.2)))
          = (refFields e'.core.fields).map (fun p => (p.1, idealFastSer (lookS w' p.2))) :=
        refSers_congr _ (by rw [← hs.1]; exact hrefs e hl)
      unfold idealBehaviour
      rw [hr]

/-! ### operations other than `define` and `create_serializer` preserve `Good`, every stable part and the flags -/

/-- `w2` is a coherent world with the same stable parts and flags as `w` -/
def Pres (cfg : Config) (W : List (String × TypeId)) (w w2 : World) : Prop :=
  Good cfg W w2 ∧ (∀ d, lookS w2 d = lookS w d) ∧ w2.flags = w.flags

theorem pres_refl {cfg W} {w : World} (g : Good cfg W w) : Pres cfg W w w := ⟨g, fun _ => rfl, rfl⟩

theorem pres_trans {cfg W} {w w2 w3 : World} (h1 : Pres cfg W w w2) (h2 : Pres cfg W w2 w3) : Pres cfg W w w3 :=
  ⟨h2.1, fun d => (h2.2.1 d).trans (h1.2.1 d), h2.2.2.trans h1.2.2⟩

theorem has_of_pres {cfg W} {w w2 : World} {c : ClassId} {e : Entry} (h : Pres cfg W w w2) (hh : Has w c e) :
    Has w2 c e := by
  obtain ⟨e0, hl, hcore⟩ := hh
  have := h.2.1 c
  unfold lookS at this
  rw [hl] at this
  cases hl2 : alookup c w2.classes with
  | none => rw [hl2] at this; simp at this
  | some e2 =>
    rw [hl2] at this
    simp only [Option.map_some, Option.some.injEq, Entry.stable, Prod.mk.injEq] at this
    exact ⟨e2, hl2, this.1.trans hcore⟩

/-- an entry of `w2` has the stable part of the entry of `w` -/
theorem entry_of_pres {cfg W} {w w2 : World} {c : ClassId} {e : Entry} (h : Pres cfg W w w2)
    (hl : alookup c w.classes = some e) : ∃ e2, alookup c w2.classes = some e2 ∧ e2.stable = e.stable := by
  have := h.2.1 c
  unfold lookS at this
  rw [hl] at this
  cases hl2 : alookup c w2.classes with
  | none => rw [hl2] at this; simp at this
  | some e2 =>
    rw [hl2] at this
    simp only [Option.map_some, Option.some.injEq] at this
    exact ⟨e2, rfl, this⟩

theorem eachClass_pres {cfg W} (rec : World → ClassId → World)
    (hrec : ∀ w b, Good cfg W w → Pres cfg W w (rec w b)) :
    ∀ (bs : List ClassId) (w : World), Good cfg W w → Pres cfg W w (eachClass rec w bs)
  | [], _, g => pres_refl g
  | b :: bs, w, g => by
    simp only [eachClass]
    exact pres_trans (hrec w b g) (eachClass_pres rec hrec bs _ (hrec w b g).1)

theorem eachClass_classes (rec : World → ClassId → World) (hrec : ∀ w b, (rec w b).classes = w.classes) :
    ∀ (bs : List ClassId) (w : World), (eachClass rec w bs).classes = w.classes
  | [], _ => rfl
  | b :: bs, w => by
    simp only [eachClass]
    rw [eachClass_classes rec hrec bs, hrec]

theorem pres_mapperInsert {cfg W} {w : World} (hc : cfg.cachesById = true) (g : Good cfg W w)
    {c : ClassId} {e : Entry} (hh : Has w c e) (b : Bool) :
    Pres cfg W w { w with mapperCache := (mkey cfg c e b, mapperOf e b) :: w.mapperCache } := by
  refine ⟨⟨g.reg, ?_, g.simpl, g.ser⟩, fun _ => rfl, rfl⟩
  intro p hp
  simp only [List.mem_cons] at hp
  rcases hp with rfl | hp
  · obtain ⟨e0, hl, hcore⟩ := hh
    exact ⟨c, e0, b, hl, mkey_id hc c e b, (mapperOf_core hcore b).symm⟩
  · exact g.mapper p hp

theorem pres_fillMapperDeep {cfg W} (hc : cfg.cachesById = true) :
    ∀ (n : Nat) (w : World) (c : ClassId) (b : Bool), Good cfg W w → Pres cfg W w (fillMapperDeep cfg n w c b)
  | 0, _, _, _, g => pres_refl g
  | n + 1, w, c, b, g => by
    unfold fillMapperDeep
    cases hl : alookup c w.classes with
    | none => exact pres_refl g
    | some e =>
      simp only
      cases hk : alookup (mkey cfg c e b) w.mapperCache with
      | some _ => exact pres_refl g
      | none =>
        simp only
        have p1 := eachClass_pres (cfg := cfg) (W := W) (fun w b => fillMapperDeep cfg n w b false)
          (fun w b g => pres_fillMapperDeep hc n w b false g) (fieldRefs e.core.fields) w g
        exact pres_trans p1 (pres_mapperInsert hc p1.1 (has_of_pres p1 (has_self hl)) b)

theorem pres_fillMapper {cfg W} {w : World} (hc : cfg.cachesById = true) (g : Good cfg W w)
    {c : ClassId} {e : Entry} (hh : Has w c e) (b : Bool := false) : Pres cfg W w (fillMapper cfg w c e b) := by
  unfold fillMapper
  cases hk : alookup (mkey cfg c e b) w.mapperCache with
  | some _ => exact pres_refl g
  | none =>
    simp only
    have p1 := eachClass_pres (cfg := cfg) (W := W) (fun w' b => fillMapperDeep cfg w'.classes.length w' b false)
      (fun w' b g => pres_fillMapperDeep hc _ w' b false g) (fieldRefs e.core.fields) w g
    exact pres_trans p1 (pres_mapperInsert hc p1.1 (has_of_pres p1 hh) b)

theorem fillSimplicityDeep_classes (cfg : Config) :
    ∀ (n : Nat) (w : World) (c : ClassId), (fillSimplicityDeep cfg n w c).classes = w.classes
  | 0, _, _ => rfl
  | n + 1, w, c => by
    unfold fillSimplicityDeep
    cases alookup c w.classes with
    | none => rfl
    | some e =>
      simp only
      cases alookup (skey cfg c e) w.simplicityCache with
      | some _ => rfl
      | none =>
        simp only
        exact eachClass_classes _ (fun w b => fillSimplicityDeep_classes cfg n w b) _ w

theorem pres_fillSimplicityDeep {cfg W} (hc : cfg.cachesById = true) :
    ∀ (n : Nat) (w : World) (c : ClassId), Good cfg W w → Pres cfg W w (fillSimplicityDeep cfg n w c)
  | 0, _, _, g => pres_refl g
  | n + 1, w, c, g => by
    unfold fillSimplicityDeep
    cases hl : alookup c w.classes with
    | none => exact pres_refl g
    | some e =>
      simp only
      cases hk : alookup (skey cfg c e) w.simplicityCache with
      | some _ => exact pres_refl g
      | none =>
        simp only
        have p1 := eachClass_pres (cfg := cfg) (W := W) (fun w b => fillSimplicityDeep cfg n w b)
          (fun w b g => pres_fillSimplicityDeep hc n w b g) ((refFields (simplePrefix e.core.fields)).map (·.2)) w g
        refine pres_trans p1 ⟨⟨p1.1.reg, p1.1.mapper, ?_, p1.1.ser⟩, fun _ => rfl, rfl⟩
        intro p hp
        simp only [List.mem_cons] at hp
        rcases hp with rfl | hp
        · obtain ⟨e0, hl0, hcore⟩ := has_of_pres p1 (has_self hl)
          exact ⟨c, e0, hl0, skey_id hc c e, by rw [hcore]⟩
        · exact p1.1.simpl p hp

theorem pres_fillSimplicity {cfg W} {w : World} (hc : cfg.cachesById = true) (g : Good cfg W w)
    (c : ClassId) (e : Entry) : Pres cfg W w (fillSimplicity cfg w c e) :=
  pres_fillSimplicityDeep hc _ w c g

theorem canonKeys_core {e e' : Entry} (h : e'.core = e.core) : canonKeys e' = canonKeys e := by
  unfold canonKeys mapperOf; rw [h]

/-- overwriting the entry of `c` by one with the same core and a coherent serializer: coherence is kept and
    every OTHER class keeps its stable part -/
theorem good_setEntry {cfg W} {w : World} (g : Good cfg W w) {c : ClassId} {e e' : Entry}
    (hl : alookup c w.classes = some e) (hcore : e'.core = e.core)
    (hser : ∀ s, e'.serializer = some s → s.keys = canonKeys e' ∧ (refsCreatable cfg e' = true → fastAble e' = true)) :
    Good cfg W (setEntry w c e') ∧ (∀ d, c ≠ d → lookS (setEntry w c e') d = lookS w d)
      ∧ lookS (setEntry w c e') c = some e'.stable := by
  refine ⟨⟨g.reg, ?_, ?_, ?_⟩, ?_, ?_⟩
  · intro p hp
    obtain ⟨c0, e0, b0, hl0, hk, hv⟩ := g.mapper p hp
    by_cases h : c = c0
    · subst h
      rw [hl] at hl0; cases hl0
      exact ⟨c, e', b0, alookup_cons_eq _ _ _, hk, hv.trans (mapperOf_core hcore b0).symm⟩
    · exact ⟨c0, e0, b0, (alookup_cons_ne _ _ h).trans hl0, hk, hv⟩
  · intro p hp
    obtain ⟨c0, e0, hl0, hk, hv⟩ := g.simpl p hp
    by_cases h : c = c0
    · subst h
      rw [hl] at hl0; cases hl0
      exact ⟨c, e', alookup_cons_eq _ _ _, hk, by rw [hv, hcore]⟩
    · exact ⟨c0, e0, (alookup_cons_ne _ _ h).trans hl0, hk, hv⟩
  · intro c0 e0 hl0 s hs
    by_cases h : c = c0
    · subst h
      have : alookup c (setEntry w c e').classes = some e' := alookup_cons_eq _ _ _
      rw [this] at hl0; cases hl0
      exact hser s hs
    · have : alookup c0 (setEntry w c e').classes = alookup c0 w.classes := alookup_cons_ne _ _ h
      rw [this] at hl0
      exact g.ser c0 e0 hl0 s hs
  · intro d h
    unfold lookS
    have : alookup d (setEntry w c e').classes = alookup d w.classes := alookup_cons_ne _ _ h
    rw [this]
  · unfold lookS
    have : alookup c (setEntry w c e').classes = some e' := alookup_cons_eq _ _ _
    rw [this]; rfl

theorem resolveSer_none_own {w : World} {e : Entry} (h : (resolveSer w e).isNone = true) : e.serializer = none := by
  unfold resolveSer at h
  cases hs : e.serializer with
  | none => rfl
  | some s => simp [hs] at h

theorem needsSer_own {cfg : Config} {w : World} {b : ClassId} (h : needsSer cfg w b = true) :
    ∀ e, alookup b w.classes = some e → e.serializer = none := by
  intro e hl
  unfold needsSer at h
  simp only [hl, Bool.and_eq_true] at h
  cases hm : cfg.serializerViaMro with
  | true => rw [hm] at h; exact resolveSer_none_own h.2
  | false =>
    rw [hm] at h
    simpa using h.2

theorem verify_pres {cfg W} (rec : World → ClassId → World)
    (hrec : ∀ w b, Good cfg W w → needsSer cfg w b = true → Pres cfg W w (rec w b)) :
    ∀ (fs : List FieldSpec) (w : World), Good cfg W w → Pres cfg W w (verifyFields cfg rec w fs).1
  | [], _, g => pres_refl g
  | f :: fs, w, g => by
    unfold verifyFields
    cases hk : f.kind with
    | ref b =>
      simp only
      split
      · cases hn : needsSer cfg w b with
        | true =>
          simp only [if_true]
          exact pres_trans (hrec w b g hn) (verify_pres rec hrec fs _ (hrec w b g hn).1)
        | false =>
          simp only [Bool.false_eq_true, if_false]
          exact verify_pres rec hrec fs w g
      · exact pres_refl g
    | prim t =>
      simp only
      split
      · exact verify_pres rec hrec fs w g
      · exact pres_refl g
    | wrap n t =>
      simp only
      split
      · exact verify_pres rec hrec fs w g
      · exact pres_refl g
    | refs cs =>
      simp only
      split
      · exact verify_pres rec hrec fs w g
      · exact pres_refl g

/-- what `create_serializer(c, fl)` leaves: a coherent world with the same flags, every OTHER class's stable
    part untouched, and `c` with the same core and `_required` and — when it got through — the flags `fl` -/
structure Created (cfg : Config) (W : List (String × TypeId)) (w w2 : World) (c : ClassId) (fl : SerFlags)
    (ok : Bool) : Prop where
  good : Good cfg W w2
  flags : w2.flags = w.flags
  other : ∀ d, c ≠ d → lookS w2 d = lookS w d
  self : lookS w2 c = (lookS w c).map fun s => (s.1, s.2.1, if ok then fl else s.2.2)

theorem created_pres {cfg W} {w w2 : World} {c : ClassId} {fl : SerFlags} {ok : Bool}
    (h : Created cfg W w w2 c fl ok) (hfl : ∀ e, alookup c w.classes = some e → e.effFlags = fl) :
    Pres cfg W w w2 := by
  refine ⟨h.good, ?_, h.flags⟩
  intro d
  by_cases hd : c = d
  · subst hd
    rw [h.self]
    unfold lookS
    cases hl : alookup c w.classes with
    | none => rfl
    | some e =>
      simp only [Option.map_some, Entry.stable, Option.some.injEq, Prod.mk.injEq, true_and]
      split
      · exact (hfl e hl).symm
      · rfl
  · exact h.other d hd

theorem created_noop {cfg W} {w : World} (g : Good cfg W w) (c : ClassId) (fl : SerFlags) :
    Created cfg W w w c fl false := by
  refine ⟨g, rfl, fun _ _ => rfl, ?_⟩
  cases h : lookS w c <;> simp

theorem createW_spec {cfg W} (hc : cfg.cachesById = true) :
    ∀ (n : Nat) (w : World) (c : ClassId) (fl : SerFlags), Good cfg W w →
      Created cfg W w (createW cfg n w c fl).1 c fl (createW cfg n w c fl).2
  | 0, w, c, fl, g => by
    unfold createW
    exact created_noop g c fl
  | n + 1, w, c, fl, g => by
    unfold createW
    cases hl : alookup c w.classes with
    | none => exact created_noop g c fl
    | some e =>
      simp only
      have p1 := pres_fillMapper hc g (has_self hl) false
      have hrec : ∀ w b, Good cfg W w → needsSer cfg w b = true → Pres cfg W w (createW cfg n w b .plain).1 := by
        intro w b g hn
        exact created_pres (createW_spec hc n w b .plain g)
          (fun e hl => by simp [Entry.effFlags, needsSer_own hn e hl])
      have p2 := pres_trans p1 (verify_pres (fun w b => (createW cfg n w b .plain).1) hrec e.core.fields _ p1.1)
      generalize hv : verifyFields cfg (fun w b => (createW cfg n w b .plain).1) (fillMapper cfg w c e) e.core.fields = v at p2
      cases hok : v.2 with
      | false =>
        simp only [Bool.false_eq_true, if_false]
        refine ⟨p2.1, p2.2.2, fun d _ => p2.2.1 d, ?_⟩
        rw [p2.2.1 c]
        cases h : lookS w c <;> simp
      | true =>
        simp only [if_true, installTarget_self hc]
        obtain ⟨e1, hl1, hst1⟩ := entry_of_pres p2 hl
        have hcore1 : e1.core = e.core := by
          have := congrArg Prod.fst hst1
          simpa [Entry.stable] using this
        have hreq : e1.required = e.required := by
          have := congrArg (fun x => x.2.1) hst1
          simpa [Entry.stable] using this
        unfold setSer
        simp only [hl1]
        have hm := serMapper_eq' hc p2.1 (⟨e1, hl1, hcore1⟩ : Has v.1 c e) false
        obtain ⟨g2, ho, hs⟩ := good_setEntry
          (e' := { e1 with serializer := some ⟨fastKeysNow cfg v.1 c e, fl⟩, createdFast := true })
          p2.1 hl1 rfl (by
            intro s hs
            simp only [Option.some.injEq] at hs
            subst hs
            refine ⟨?_, ?_⟩
            · simp only [fastKeysNow, hm, canonKeys]
              have : mapperOf { e1 with serializer := some ⟨(fnames e.core.fields).map (mappedKey (mapperOf e false)), fl⟩, createdFast := true } false
                  = mapperOf e false := mapperOf_core hcore1 false
              rw [this]
              simp [hcore1]
            · intro hr
              have hr' : refsCreatable cfg e = true := by simpa [refsCreatable, hcore1] using hr
              have h1 := verify_snd cfg (fun w b => (createW cfg n w b .plain).1) e.core.fields (fillMapper cfg w c e)
                (refsCreatable_or hr')
              rw [hv, hok] at h1
              simpa [fastAble, hcore1] using h1.symm)
        refine ⟨g2, p2.2.2, fun d hd => (ho d hd).trans (p2.2.1 d), ?_⟩
        rw [hs]
        unfold lookS
        rw [hl]
        simp [Entry.stable, Entry.effFlags, hcore1, hreq]

theorem pres_installW_plain {cfg W} {w : World} (hc : cfg.cachesById = true) (g : Good cfg W w)
    {c : ClassId} (hown : ∀ e, alookup c w.classes = some e → e.serializer = none) :
    Pres cfg W w (installW cfg w c .plain) :=
  created_pres (createW_spec hc _ w c .plain g) (fun e hl => by simp [Entry.effFlags, hown e hl])

theorem pres_autoInstallW {cfg W} {w : World} (hc : cfg.cachesById = true) (g : Good cfg W w)
    {c : ClassId} {e : Entry} (hl : alookup c w.classes = some e) : Pres cfg W w (autoInstallW cfg w c e) := by
  unfold autoInstallW
  split
  · rename_i h
    simp only [Bool.and_eq_true, Option.isNone_iff_eq_none] at h
    exact pres_installW_plain hc g (fun e' hl' => by rw [hl] at hl'; cases hl'; exact h.2)
  · exact pres_refl g

theorem pres_constructW {cfg W} {w : World} (hc : cfg.cachesById = true) (g : Good cfg W w)
    {c : ClassId} {e : Entry} (hl : alookup c w.classes = some e) (kw : List (String × Arg)) :
    Pres cfg W w (constructW cfg w c e kw) := by
  unfold constructW
  split
  · exact pres_autoInstallW hc g hl
  · exact pres_refl g

theorem pres_schemaW {cfg W} {w : World} (hc : cfg.cachesById = true) (g : Good cfg W w)
    {c : ClassId} {e : Entry} (hl : alookup c w.classes = some e)
    (hq : cfg.schemaWritesRequired = false ∨
      schemaRequiredOf (serMapper cfg (fillMapper cfg w c e) c e false) (extrasOf w e) e.core.fields e.required = e.required) :
    Pres cfg W w (schemaW cfg w c e).1 := by
  have p1 := pres_fillMapper hc g (has_self hl)
  unfold schemaW
  rcases hq with hq | hq
  · simp only [hq, Bool.false_and, Bool.false_eq_true, if_false]
    exact p1
  · simp only [hq, bne_self_eq_false, Bool.and_false, Bool.false_eq_true, if_false]
    exact p1

theorem quiet_toSchema {cfg : Config} {w : World} {c : ClassId} {e : Entry}
    (hl : alookup c w.classes = some e) (hq : quietStep cfg w (.toSchema c) = true) :
    cfg.schemaWritesRequired = false ∨
      schemaRequiredOf (serMapper cfg (fillMapper cfg w c e) c e false) (extrasOf w e) e.core.fields e.required = e.required := by
  unfold quietStep at hq
  simp only [hl, Bool.or_eq_true, Bool.not_eq_true', Bool.and_eq_true, beq_iff_eq] at hq
  rcases hq with hq | hq
  · exact Or.inl hq
  · exact Or.inr hq.1

theorem withClass_fst {P : World → Prop} {w : World} {c : ClassId} {k : Entry → World × Obs}
    (h0 : P w) (h1 : ∀ e, alookup c w.classes = some e → P (k e).1) : P (withClass w c k).1 := by
  unfold withClass
  cases hl : alookup c w.classes with
  | none => exact h0
  | some e => exact h1 e hl

/-- an operation that neither defines a class nor toggles a global default nor configures a serializer -/
def plainUse : WorldOp → Bool
  | .define _ _ => false
  | .setDefault _ _ => false
  | .createSerializer _ _ => false
  | _ => true

/-- every operation other than a definition, a toggle of a global default or an explicit `create_serializer`,
    when quiet, leaves every class's stable part, the flags and coherence as they were -/
theorem pres_step_use {cfg W} {w : World} (hc : cfg.cachesById = true) (g : Good cfg W w) (op : WorldOp)
    (hk : plainUse op = true) (hq : quietStep cfg w op = true) :
    Pres cfg W w (stepW cfg w op).1 := by
  cases op with
  | define c src => simp [plainUse] at hk
  | setDefault f b => simp [plainUse] at hk
  | createSerializer c fl => simp [plainUse] at hk
  | construct c kw =>
    simp only [stepW]
    exact withClass_fst (pres_refl g) fun e hl => pres_constructW hc g hl kw
  | deserialize c kw =>
    simp only [stepW]
    exact withClass_fst (pres_refl g) fun e hl => pres_constructW hc g hl kw
  | trustedDeserialize c kw =>
    simp only [stepW]
    refine withClass_fst (pres_refl g) fun e hl => ?_
    have p1 := pres_fillSimplicity hc g c e
    have hl1 : alookup c (fillSimplicity cfg w c e).classes = some e := by
      unfold fillSimplicity
      rw [fillSimplicityDeep_classes]; exact hl
    exact pres_trans p1 (pres_constructW hc p1.1 hl1 kw)
  | serialize c kw camel =>
    simp only [stepW]
    refine withClass_fst (pres_refl g) fun e hl => ?_
    have p1 := pres_constructW hc g hl kw
    simp only
    split
    · exact pres_trans p1 (pres_fillMapper hc p1.1 (has_of_pres p1 (has_self hl)) camel)
    · exact p1
  | toSchema c =>
    simp only [stepW]
    exact withClass_fst (pres_refl g) fun e hl => pres_schemaW hc g hl (quiet_toSchema hl hq)

/-- an explicit `create_serializer(c, fl)` step -/
theorem created_step {cfg W} {w : World} (hc : cfg.cachesById = true) (g : Good cfg W w) (c : ClassId)
    (fl : SerFlags) :
    Created cfg W w (stepW cfg w (.createSerializer c fl)).1 c fl
      ((alookup c w.classes).isSome && (createW cfg (w.classes.length + 1) w c fl).2) := by
  simp only [stepW, withClass]
  cases hl : alookup c w.classes with
  | none => exact created_noop g c fl
  | some e =>
    simp only [Option.isSome_some, Bool.true_and]
    exact createW_spec hc _ w c fl g

/-! ### implicit wrappers resolve to the declared class (identity keys, or no name clash) -/

def RegInv (cfg : Config) (W : List (String × TypeId)) (reg : List (WKey × TypeId)) : Prop :=
  ∀ p ∈ reg, ∃ n, p.1 = wkey cfg n p.2 ∧ (n, p.2) ∈ W

theorem wkey_inj {cfg : Config} {W} (hW : cfg.wrapperByName = true → NoClashW W) {n n' : String} {t t' : TypeId}
    (hk : wkey cfg n t = wkey cfg n' t') (h1 : (n, t) ∈ W) (h2 : (n', t') ∈ W) : t' = t := by
  unfold wkey at hk
  cases hb : cfg.wrapperByName with
  | true =>
    simp only [hb, if_true, WKey.name.injEq] at hk
    subst hk
    exact (hW hb (n, t) h1 (n, t') h2 rfl).symm
  | false =>
    simp only [hb, Bool.false_eq_true, if_false, WKey.ty.injEq] at hk
    exact hk.2.symm

theorem resolveField_own {cfg : Config} {W} (hW : cfg.wrapperByName = true → NoClashW W)
    {reg : List (WKey × TypeId)} (hr : RegInv cfg W reg) (f : FieldSpec)
    (hf : ∀ n t, f.kind = .wrap n t → (n, t) ∈ W) :
    (resolveField cfg reg f).2 = f ∧ RegInv cfg W (resolveField cfg reg f).1 := by
  unfold resolveField
  cases hk : f.kind with
  | prim tag => exact ⟨rfl, hr⟩
  | ref c => exact ⟨rfl, hr⟩
  | refs cs => exact ⟨rfl, hr⟩
  | wrap n t =>
    have hin := hf n t hk
    cases hl : alookup (wkey cfg n t) reg with
    | none =>
      simp only [hl]
      refine ⟨trivial, ?_⟩
      intro p hp
      simp only [List.mem_cons] at hp
      rcases hp with rfl | hp
      · exact ⟨n, rfl, hin⟩
      · exact hr p hp
    | some t' =>
      obtain ⟨n', hkey, hin'⟩ := hr _ (alookup_mem hl)
      have ht : t' = t := wkey_inj hW hkey hin hin'
      subst ht
      simp only [hl]
      refine ⟨?_, hr⟩
      cases f
      simp only at hk
      subst hk
      rfl

theorem wrapsOfFields_cons_mem {f : FieldSpec} {fs : List FieldSpec} {n : String} {t : TypeId}
    (h : f.kind = .wrap n t) : (n, t) ∈ wrapsOfFields (f :: fs) := by
  simp [wrapsOfFields, h]

theorem wrapsOfFields_cons_sub {f : FieldSpec} {fs : List FieldSpec} {q : String × TypeId}
    (h : q ∈ wrapsOfFields fs) : q ∈ wrapsOfFields (f :: fs) := by
  unfold wrapsOfFields at *
  rw [List.filterMap_cons]
  split
  · exact h
  · exact List.mem_cons_of_mem _ h

theorem resolveFields_own {cfg : Config} {W} (hW : cfg.wrapperByName = true → NoClashW W) :
    ∀ (fs : List FieldSpec) (reg : List (WKey × TypeId)), RegInv cfg W reg →
      (∀ q ∈ wrapsOfFields fs, q ∈ W) →
      (resolveFields cfg reg fs).2 = fs ∧ RegInv cfg W (resolveFields cfg reg fs).1
  | [], reg, hr, _ => ⟨rfl, hr⟩
  | f :: fs, reg, hr, hsub => by
    have h1 := resolveField_own hW hr f (fun n t hk => hsub _ (wrapsOfFields_cons_mem hk))
    have h2 := resolveFields_own hW fs (resolveField cfg reg f).1 h1.2
      (fun q hq => hsub q (wrapsOfFields_cons_sub hq))
    simp only [resolveFields]
    exact ⟨by rw [h1.1, h2.1], h2.2⟩

/-! ### the definition step -/

/-- the entry a class statement creates, if it creates one -/
def defEntry (cfg : Config) (w : World) (c : ClassId) (src : ClassSrc) : Option Entry :=
  match alookup c w.classes with
  | some _ => none
  | none =>
    if !refsDefined w.classes src.fields then none else
    match lookupParent w.classes src.parent with
    | none => none
    | some pe => if baseSigClash w.flags src pe then none else some (elabClass cfg w src pe)

/-- the world a class statement leaves when it does not create a class -/
def failWorld (cfg : Config) (w : World) (c : ClassId) (src : ClassSrc) : World :=
  match alookup c w.classes with
  | some _ => w
  | none =>
    if !refsDefined w.classes src.fields then w else
    match lookupParent w.classes src.parent with
    | none => w
    | some _ => bodyW cfg w src

def defWorld (cfg : Config) (w : World) (c : ClassId) (src : ClassSrc) (e : Entry) : World :=
  { bodyW cfg w src with classes := (c, e) :: w.classes }

theorem defineW_eq (cfg : Config) (w : World) (c : ClassId) (src : ClassSrc) :
    (defineW cfg w c src).1 = match defEntry cfg w c src with
      | none => failWorld cfg w c src
      | some e => defWorld cfg w c src e := by
  unfold defineW defEntry failWorld
  cases alookup c w.classes with
  | some _ => rfl
  | none =>
    simp only
    by_cases hr : refsDefined w.classes src.fields = true
    · simp only [hr, Bool.not_true, Bool.false_eq_true, if_false]
      cases lookupParent w.classes src.parent with
      | none => rfl
      | some pe =>
        simp only
        by_cases hb : baseSigClash w.flags src pe = true
        · simp [hb]
        · simp [hb, defWorld]
    · simp [hr]

theorem failWorld_classes (cfg : Config) (w : World) (c : ClassId) (src : ClassSrc) :
    (failWorld cfg w c src).classes = w.classes := by
  unfold failWorld
  cases alookup c w.classes with
  | some _ => rfl
  | none =>
    simp only
    split
    · rfl
    · cases lookupParent w.classes src.parent <;> rfl

theorem failWorld_flags (cfg : Config) (w : World) (c : ClassId) (src : ClassSrc) :
    (failWorld cfg w c src).flags = w.flags := by
  unfold failWorld
  cases alookup c w.classes with
  | some _ => rfl
  | none =>
    simp only
    split
    · rfl
    · cases lookupParent w.classes src.parent <;> rfl

theorem good_bodyW {cfg : Config} {W} (hW : cfg.wrapperByName = true → NoClashW W) {w : World}
    (g : Good cfg W w) (src : ClassSrc) (hsub : ∀ q ∈ wrapsOfFields src.fields, q ∈ W) :
    Good cfg W (bodyW cfg w src) :=
  ⟨(resolveFields_own hW src.fields w.wrappers g.reg hsub).2, g.mapper, g.simpl, g.ser⟩

theorem good_failWorld {cfg : Config} {W} (hW : cfg.wrapperByName = true → NoClashW W) {w : World}
    (g : Good cfg W w) (c : ClassId) (src : ClassSrc) (hsub : ∀ q ∈ wrapsOfFields src.fields, q ∈ W) :
    Good cfg W (failWorld cfg w c src) := by
  unfold failWorld
  cases alookup c w.classes with
  | some _ => exact g
  | none =>
    simp only
    split
    · exact g
    · cases lookupParent w.classes src.parent with
      | none => exact g
      | some _ => exact good_bodyW hW g src hsub

theorem defEntry_fresh {cfg : Config} {w : World} {c : ClassId} {src : ClassSrc} {e : Entry}
    (h : defEntry cfg w c src = some e) : alookup c w.classes = none ∧ e.serializer = none := by
  unfold defEntry at h
  cases hl : alookup c w.classes with
  | some _ => simp [hl] at h
  | none =>
    simp only [hl] at h
    by_cases hr : refsDefined w.classes src.fields = true
    · simp only [hr, Bool.not_true, Bool.false_eq_true, if_false] at h
      cases hp : lookupParent w.classes src.parent with
      | none => simp [hp] at h
      | some pe =>
        simp only [hp] at h
        by_cases hb : baseSigClash w.flags src pe = true
        · simp [hb] at h
        · simp only [hb, Bool.false_eq_true, if_false, Option.some.injEq] at h
          subst h
          exact ⟨rfl, rfl⟩
    · simp [hr] at h

theorem defineW_flags (cfg : Config) (w : World) (c : ClassId) (src : ClassSrc) :
    (defineW cfg w c src).1.flags = w.flags := by
  rw [defineW_eq]
  cases defEntry cfg w c src with
  | none => exact failWorld_flags cfg w c src
  | some e => rfl

theorem lookS_define_other (cfg : Config) (w : World) (c : ClassId) (src : ClassSrc) {d : ClassId}
    (h : c ≠ d) : lookS (defineW cfg w c src).1 d = lookS w d := by
  rw [defineW_eq]
  cases defEntry cfg w c src with
  | none => simp only [lookS, failWorld_classes]
  | some e =>
    unfold lookS defWorld bodyW
    simp only
    rw [alookup_cons_ne _ _ h]

theorem lookS_define_self (cfg : Config) (w : World) (c : ClassId) (src : ClassSrc) :
    lookS (defineW cfg w c src).1 c = match defEntry cfg w c src with
      | none => lookS w c
      | some e => some e.stable := by
  rw [defineW_eq]
  cases defEntry cfg w c src with
  | none => simp only [lookS, failWorld_classes]
  | some e =>
    unfold lookS defWorld bodyW
    simp only
    rw [alookup_cons_eq]
    rfl

theorem good_define {cfg : Config} {W} (hW : cfg.wrapperByName = true → NoClashW W) {w : World}
    (g : Good cfg W w) (c : ClassId) (src : ClassSrc) (hsub : ∀ q ∈ wrapsOfFields src.fields, q ∈ W) :
    Good cfg W (defineW cfg w c src).1 := by
  rw [defineW_eq]
  cases hd : defEntry cfg w c src with
  | none => exact good_failWorld hW g c src hsub
  | some e =>
    obtain ⟨hfresh, hser⟩ := defEntry_fresh hd
    have hne : ∀ c0 e0, alookup c0 w.classes = some e0 → c ≠ c0 := by
      intro c0 e0 h0 hc0
      subst hc0
      rw [hfresh] at h0
      cases h0
    refine ⟨?_, ?_, ?_, ?_⟩
    · exact (resolveFields_own hW src.fields w.wrappers g.reg hsub).2
    · intro p hp
      obtain ⟨c0, e0, b0, hl0, hk, hv⟩ := g.mapper p hp
      exact ⟨c0, e0, b0, (alookup_cons_ne _ _ (hne c0 e0 hl0)).trans hl0, hk, hv⟩
    · intro p hp
      obtain ⟨c0, e0, hl0, hk, hv⟩ := g.simpl p hp
      exact ⟨c0, e0, (alookup_cons_ne _ _ (hne c0 e0 hl0)).trans hl0, hk, hv⟩
    · intro c0 e0 hl0 s hs
      by_cases h : c = c0
      · subst h
        have : alookup c (defWorld cfg w c src e).classes = some e := alookup_cons_eq _ _ _
        rw [this] at hl0
        cases hl0
        rw [hser] at hs
        cases hs
      · have : alookup c0 (defWorld cfg w c src e).classes = alookup c0 w.classes := alookup_cons_ne _ _ h
        rw [this] at hl0
        exact g.ser c0 e0 hl0 s hs

/-! ### two coherent worlds that agree on the classes a definition reads elaborate it identically -/

theorem stable_eq {e e' : Entry} (h : e.stable = e'.stable) : e.core = e'.core ∧ e.required = e'.required := by
  unfold Entry.stable at h
  exact ⟨congrArg Prod.fst h, congrArg (fun x => x.2.1) h⟩

theorem elab_stable_congr {cfg : Config} {w w' : World} {src : ClassSrc} {pe : Option PInfo}
    (hown : ((resolveFields cfg w.wrappers src.fields).2).map (resolveSimple w.classes)
          = ((resolveFields cfg w'.wrappers src.fields).2).map (resolveSimple w'.classes))
    (hf : w.flags = w'.flags) :
    (elabClass cfg w src pe).stable = (elabClass cfg w' src pe).stable := by
  simp only [elabClass, Entry.stable, Entry.effFlags, hown, hf]

theorem lookS_cases {w w' : World} {d : ClassId} (h : lookS w d = lookS w' d) :
    (alookup d w.classes = none ∧ alookup d w'.classes = none) ∨
    (∃ e e', alookup d w.classes = some e ∧ alookup d w'.classes = some e' ∧ e.stable = e'.stable) := by
  unfold lookS at h
  cases hl : alookup d w.classes with
  | none =>
    cases hl' : alookup d w'.classes with
    | none => exact Or.inl ⟨rfl, rfl⟩
    | some e' => rw [hl, hl'] at h; simp at h
  | some e =>
    cases hl' : alookup d w'.classes with
    | none => rw [hl, hl'] at h; simp at h
    | some e' =>
      rw [hl, hl'] at h
      simp only [Option.map_some, Option.some.injEq] at h
      exact Or.inr ⟨e, e', rfl, rfl, h⟩

theorem fieldSimple_congr {w w' : World} {T : ClassId → Bool} (hst : ∀ d, T d = true → lookS w d = lookS w' d)
    (f : FieldSpec) (hf : ∀ r ∈ kindRefs f.kind, T r = true) :
    fieldSimple w.classes f = fieldSimple w'.classes f := by
  unfold fieldSimple
  cases hk : f.kind with
  | prim _ => rfl
  | wrap _ _ => rfl
  | refs _ => rfl
  | ref r =>
    simp only
    rcases lookS_cases (hst r (hf r (by simp [hk, kindRefs]))) with ⟨h1, h2⟩ | ⟨e, e', h1, h2, h3⟩
    · rw [h1, h2]
    · rw [h1, h2]
      simp only [(stable_eq h3).1]

theorem fieldFast_congr {w w' : World} {T : ClassId → Bool} (hst : ∀ d, T d = true → lookS w d = lookS w' d)
    (f : FieldSpec) (hf : ∀ r ∈ kindRefs f.kind, T r = true) :
    fieldFast w.classes f = fieldFast w'.classes f := by
  unfold fieldFast
  cases hk : f.kind with
  | prim _ => rfl
  | wrap _ _ => rfl
  | refs _ => rfl
  | ref r =>
    simp only
    rcases lookS_cases (hst r (hf r (by simp [hk, kindRefs]))) with ⟨h1, h2⟩ | ⟨e, e', h1, h2, h3⟩
    · rw [h1, h2]
    · rw [h1, h2]
      simp only [(stable_eq h3).1]

theorem all_congr_mem {α : Type} (p q : α → Bool) : ∀ (l : List α), (∀ x ∈ l, p x = q x) → l.all p = l.all q
  | [], _ => rfl
  | x :: l, h => by
    simp only [List.all_cons]
    rw [h x (by simp), all_congr_mem p q l (fun y hy => h y (by simp [hy]))]

theorem refsDefined_congr {w w' : World} {T : ClassId → Bool}
    (hst : ∀ d, T d = true → lookS w d = lookS w' d) (fs : List FieldSpec)
    (hrefs : ∀ f ∈ fs, ∀ r ∈ kindRefs f.kind, T r = true) :
    refsDefined w.classes fs = refsDefined w'.classes fs := by
  unfold refsDefined
  apply all_congr_mem
  intro f hf
  apply all_congr_mem
  intro r hr
  rcases lookS_cases (hst r (hrefs f hf r hr)) with ⟨h1, h2⟩ | ⟨e, e', h1, h2, _⟩
  · rw [h1, h2]
  · rw [h1, h2]; rfl

theorem lookupParent_congr {w w' : World} {T : ClassId → Bool}
    (hst : ∀ d, T d = true → lookS w d = lookS w' d) (parent : Option Parent)
    (hp : ∀ p, parent = some p → T p.cid = true) :
    lookupParent w.classes parent = lookupParent w'.classes parent := by
  cases parent with
  | none => rfl
  | some p =>
    rcases lookS_cases (hst p.cid (hp p rfl)) with ⟨h1, h2⟩ | ⟨e, e', h1, h2, h3⟩
    · simp only [lookupParent, h1, h2]
    · simp only [lookupParent, h1, h2, (stable_eq h3).1, (stable_eq h3).2]

theorem deps_parent {src : ClassSrc} {T : ClassId → Bool} (h : src.deps.all T = true) :
    ∀ p, src.parent = some p → T p.cid = true := by
  intro p hp
  apply List.all_eq_true.mp h
  simp [ClassSrc.deps, hp]

theorem deps_refs {src : ClassSrc} {T : ClassId → Bool} (h : src.deps.all T = true) :
    ∀ f ∈ src.fields, ∀ r ∈ kindRefs f.kind, T r = true := by
  intro f hf r hr
  apply List.all_eq_true.mp h
  unfold ClassSrc.deps
  apply List.mem_append_right
  exact List.mem_flatMap.mpr ⟨f, hf, hr⟩

theorem own_congr {cfg : Config} {W} (hW : cfg.wrapperByName = true → NoClashW W) {w w' : World}
    (g : Good cfg W w) (g' : Good cfg W w') {T : ClassId → Bool}
    (hst : ∀ d, T d = true → lookS w d = lookS w' d) (src : ClassSrc)
    (hsub : ∀ q ∈ wrapsOfFields src.fields, q ∈ W)
    (hrefs : ∀ f ∈ src.fields, ∀ r ∈ kindRefs f.kind, T r = true) :
    ((resolveFields cfg w.wrappers src.fields).2).map (resolveSimple w.classes)
      = ((resolveFields cfg w'.wrappers src.fields).2).map (resolveSimple w'.classes) := by
  rw [(resolveFields_own hW src.fields w.wrappers g.reg hsub).1,
      (resolveFields_own hW src.fields w'.wrappers g'.reg hsub).1]
  apply List.map_congr_left
  intro f hf
  unfold resolveSimple
  rw [fieldSimple_congr hst f (hrefs f hf), fieldFast_congr hst f (hrefs f hf)]

/-! ### the classes a class's fields refer to are among the classes its definition reads -/

/-- every class the fields of `e` refer to is in `T` -/
def RefsIn (T : ClassId → Bool) (fs : List FieldSpec) : Prop := ∀ f ∈ fs, ∀ r ∈ kindRefs f.kind, T r = true

theorem refsIn_append {T : ClassId → Bool} {a b : List FieldSpec} (ha : RefsIn T a) (hb : RefsIn T b) :
    RefsIn T (a ++ b) := by
  intro f hf
  rcases List.mem_append.mp hf with h | h
  · exact ha f h
  · exact hb f h

theorem refsIn_filter {T : ClassId → Bool} {a : List FieldSpec} (p : FieldSpec → Bool) (ha : RefsIn T a) :
    RefsIn T (a.filter p) := fun f hf => ha f (List.mem_filter.mp hf).1

theorem refsIn_unmapped {T : ClassId → Bool} {a : List FieldSpec} (ha : RefsIn T a) : RefsIn T (unmapped a) := by
  intro f hf
  unfold unmapped at hf
  obtain ⟨g, hg, rfl⟩ := List.mem_map.mp hf
  exact ha g hg

theorem refsIn_deopt {T : ClassId → Bool} {a : List FieldSpec} (ha : RefsIn T a) : RefsIn T (deopt a) := by
  intro f hf
  unfold deopt at hf
  obtain ⟨g, hg, rfl⟩ := List.mem_map.mp hf
  exact ha g hg

theorem resolveField_kindRefs (cfg : Config) (reg : List (WKey × TypeId)) (f : FieldSpec) :
    kindRefs (resolveField cfg reg f).2.kind = kindRefs f.kind := by
  unfold resolveField
  cases hk : f.kind with
  | prim t => simp [hk]
  | ref c => simp [hk]
  | refs cs => simp [hk]
  | wrap n t =>
    simp only
    cases alookup (wkey cfg n t) reg with
    | none => simp [hk]
    | some t' => simp [kindRefs]

theorem refsIn_resolveFields {T : ClassId → Bool} (cfg : Config) :
    ∀ (fs : List FieldSpec) (reg : List (WKey × TypeId)), RefsIn T fs → RefsIn T (resolveFields cfg reg fs).2
  | [], _, _ => by intro f hf; simp [resolveFields] at hf
  | f :: fs, reg, h => by
    intro g hg
    simp only [resolveFields, List.mem_cons] at hg
    rcases hg with rfl | hg
    · rw [resolveField_kindRefs]
      exact h f (by simp)
    · exact refsIn_resolveFields cfg fs _ (fun x hx => h x (by simp [hx])) g hg

theorem refsIn_own {T : ClassId → Bool} (cfg : Config) (w : World) (src : ClassSrc) (h : RefsIn T src.fields) :
    RefsIn T (((resolveFields cfg w.wrappers src.fields).2).map (resolveSimple w.classes)) := by
  intro f hf
  obtain ⟨g, hg, rfl⟩ := List.mem_map.mp hf
  exact refsIn_resolveFields cfg src.fields _ h g hg

theorem refsIn_inheritInfo {T : ClassId → Bool} (pe : Option PInfo) (own : List FieldSpec) (ho : RefsIn T own)
    (hp : ∀ p pc pr, pe = some (p, pc, pr) → RefsIn T pc.fields) : RefsIn T (inheritInfo pe own).1 := by
  unfold inheritInfo
  cases pe with
  | none => exact ho
  | some x =>
    obtain ⟨p, pc, pr⟩ := x
    have hpc := hp p pc pr rfl
    match p with
    | .inherit c => exact refsIn_append (refsIn_filter _ hpc) ho
    | .omit c ns => exact refsIn_append (refsIn_unmapped (refsIn_filter _ hpc)) ho
    | .pick c ns => exact refsIn_append (refsIn_unmapped (refsIn_filter _ hpc)) ho
    | .partialOf c => exact refsIn_append (refsIn_unmapped hpc) ho
    | .allRequired c => exact refsIn_append (refsIn_deopt (refsIn_unmapped hpc)) ho

theorem lookupParent_some {classes : List (ClassId × Entry)} {parent : Option Parent} {p : Parent} {pc : Core}
    {pr : List String} (h : lookupParent classes parent = some (some (p, pc, pr))) :
    ∃ e, alookup p.cid classes = some e ∧ e.core = pc ∧ parent = some p := by
  cases parent with
  | none => simp [lookupParent] at h
  | some q =>
    simp only [lookupParent] at h
    cases hl : alookup q.cid classes with
    | none => simp [hl] at h
    | some e =>
      simp only [hl, Option.some.injEq, Prod.mk.injEq] at h
      obtain ⟨rfl, rfl, _⟩ := h
      exact ⟨e, hl, rfl, rfl⟩

/-! ### the simulation -/

structure Sim (cfg : Config) (T : ClassId → Bool) (W : List (String × TypeId)) (w w' : World) : Prop where
  flags : w.flags = w'.flags
  stab : ∀ d, T d = true → lookS w d = lookS w' d
  good : Good cfg W w
  good' : Good cfg W w'
  /-- inside the region of the known finding: a FastSerializable class of `T` refers only to classes whose
      serializer can be generated -/
  wf : ∀ d e, T d = true → alookup d w.classes = some e → e.core.src.fast = true → refsCreatable cfg e = true
  /-- the classes the fields of a class of `T` refer to are in `T` -/
  tcl : ∀ d e, T d = true → alookup d w.classes = some e → RefsIn T e.core.fields

theorem sim_initial (cfg : Config) (T : ClassId → Bool) (W : List (String × TypeId)) :
    Sim cfg T W World.initial World.initial :=
  ⟨rfl, fun _ _ => rfl, good_initial cfg W, good_initial cfg W,
   by intro d e _ h; simp [World.initial, alookup] at h, by intro d e _ h; simp [World.initial, alookup] at h⟩

theorem defEntry_congr {cfg : Config} {W} (hW : cfg.wrapperByName = true → NoClashW W) {T : ClassId → Bool}
    {w w' : World} (s : Sim cfg T W w w') (c : ClassId) (src : ClassSrc) (hT : T c = true)
    (hd : src.deps.all T = true) (hsub : ∀ q ∈ wrapsOfFields src.fields, q ∈ W) :
    (defEntry cfg w c src).map Entry.stable = (defEntry cfg w' c src).map Entry.stable := by
  unfold defEntry
  rcases lookS_cases (s.stab c hT) with ⟨h1, h2⟩ | ⟨e, e', h1, h2, _⟩
  · simp only [h1, h2]
    rw [lookupParent_congr s.stab src.parent (deps_parent hd), s.flags,
        refsDefined_congr s.stab src.fields (deps_refs hd)]
    by_cases hr : refsDefined w'.classes src.fields = true
    · simp only [hr, Bool.not_true, Bool.false_eq_true, if_false]
      cases lookupParent w'.classes src.parent with
      | none => rfl
      | some pe =>
        simp only
        by_cases hb : baseSigClash w'.flags src pe = true
        · simp [hb]
        · simp only [hb, Bool.false_eq_true, if_false, Option.map_some]
          exact congrArg some (elab_stable_congr (own_congr hW s.good s.good' s.stab src hsub (deps_refs hd)) s.flags)
    · simp [hr]
  · simp only [h1, h2, Option.map_none]

theorem alookup_define_other (cfg : Config) (w : World) (c : ClassId) (src : ClassSrc) {d : ClassId}
    (h : c ≠ d) : alookup d (defineW cfg w c src).1.classes = alookup d w.classes := by
  rw [defineW_eq]
  cases defEntry cfg w c src with
  | none => simp only [failWorld_classes]
  | some e =>
    unfold defWorld bodyW
    simp only
    rw [alookup_cons_ne _ _ h]

theorem alookup_define_self (cfg : Config) (w : World) (c : ClassId) (src : ClassSrc) :
    alookup c (defineW cfg w c src).1.classes = match defEntry cfg w c src with
      | none => alookup c w.classes
      | some e => some e := by
  rw [defineW_eq]
  cases defEntry cfg w c src with
  | none => simp only [failWorld_classes]
  | some e =>
    unfold defWorld bodyW
    simp only
    rw [alookup_cons_eq]

/-- the fields of a freshly defined class of `T` refer only to classes of `T` -/
theorem defEntry_refsIn {cfg : Config} {T : ClassId → Bool} {w : World} {c : ClassId} {src : ClassSrc} {e : Entry}
    (h : defEntry cfg w c src = some e) (hd : src.deps.all T = true)
    (htcl : ∀ d e, T d = true → alookup d w.classes = some e → RefsIn T e.core.fields) :
    RefsIn T e.core.fields := by
  unfold defEntry at h
  cases hl : alookup c w.classes with
  | some _ => simp [hl] at h
  | none =>
    simp only [hl] at h
    by_cases hr : refsDefined w.classes src.fields = true
    · simp only [hr, Bool.not_true, Bool.false_eq_true, if_false] at h
      cases hp : lookupParent w.classes src.parent with
      | none => simp [hp] at h
      | some pe =>
        simp only [hp] at h
        by_cases hb : baseSigClash w.flags src pe = true
        · simp [hb] at h
        · simp only [hb, Bool.false_eq_true, if_false, Option.some.injEq] at h
          subst h
          simp only [elabClass]
          apply refsIn_inheritInfo
          · exact refsIn_own cfg w src (deps_refs hd)
          · intro p pc pr hpe
            subst hpe
            obtain ⟨ep, hlp, hcore, hpar⟩ := lookupParent_some hp
            rw [← hcore]
            exact htcl p.cid ep (deps_parent hd p hpar) hlp
    · simp [hr] at h

theorem sim_define_both {cfg : Config} {W} (hW : cfg.wrapperByName = true → NoClashW W) {T : ClassId → Bool}
    {w w' : World} (s : Sim cfg T W w w') (c : ClassId) (src : ClassSrc) (hT : T c = true)
    (hd : src.deps.all T = true) (hsub : ∀ q ∈ wrapsOfFields src.fields, q ∈ W)
    (hq : quietStep cfg w (.define c src) = true) :
    Sim cfg T W (defineW cfg w c src).1 (defineW cfg w' c src).1 := by
  refine ⟨?_, ?_, good_define hW s.good c src hsub, good_define hW s.good' c src hsub, ?_, ?_⟩
  · rw [defineW_flags, defineW_flags]; exact s.flags
  · intro d hTd
    by_cases h : c = d
    · subst h
      rw [lookS_define_self, lookS_define_self]
      have := defEntry_congr hW s c src hT hd hsub
      cases h1 : defEntry cfg w c src with
      | none =>
        cases h2 : defEntry cfg w' c src with
        | none => exact s.stab c hT
        | some e' => rw [h1, h2] at this; simp at this
      | some e =>
        cases h2 : defEntry cfg w' c src with
        | none => rw [h1, h2] at this; simp at this
        | some e' =>
          rw [h1, h2] at this
          simpa using this
    · rw [lookS_define_other _ _ _ _ h, lookS_define_other _ _ _ _ h]
      exact s.stab d hTd
  · intro d e hTd hl hf
    by_cases h : c = d
    · subst h
      unfold quietStep at hq
      simp only [hl, hf, Bool.not_true, Bool.false_or] at hq
      exact hq
    · rw [alookup_define_other _ _ _ _ h] at hl
      exact s.wf d e hTd hl hf
  · intro d e hTd hl
    by_cases h : c = d
    · subst h
      rw [alookup_define_self] at hl
      cases h1 : defEntry cfg w c src with
      | none => rw [h1] at hl; exact s.tcl c e hT hl
      | some e1 =>
        rw [h1] at hl
        simp only [Option.some.injEq] at hl
        subst hl
        exact defEntry_refsIn h1 hd s.tcl
    · rw [alookup_define_other _ _ _ _ h] at hl
      exact s.tcl d e hTd hl

theorem sim_define_left {cfg : Config} {W} (hW : cfg.wrapperByName = true → NoClashW W) {T : ClassId → Bool}
    {w w' : World} (s : Sim cfg T W w w') (c : ClassId) (src : ClassSrc) (hT : T c = false)
    (hsub : ∀ q ∈ wrapsOfFields src.fields, q ∈ W) :
    Sim cfg T W (defineW cfg w c src).1 w' := by
  have hne : ∀ d, T d = true → c ≠ d := by
    intro d hTd hcd; subst hcd; rw [hT] at hTd; cases hTd
  refine ⟨?_, ?_, good_define hW s.good c src hsub, s.good', ?_, ?_⟩
  · rw [defineW_flags]; exact s.flags
  · intro d hTd
    rw [lookS_define_other _ _ _ _ (hne d hTd)]
    exact s.stab d hTd
  · intro d e hTd hl
    rw [alookup_define_other _ _ _ _ (hne d hTd)] at hl
    exact s.wf d e hTd hl
  · intro d e hTd hl
    rw [alookup_define_other _ _ _ _ (hne d hTd)] at hl
    exact s.tcl d e hTd hl

/-- an entry of a world with the same stable part has the same core -/
theorem core_of_lookS {w w2 : World} {d : ClassId} {e2 : Entry} (h : lookS w2 d = lookS w d)
    (hl : alookup d w2.classes = some e2) : ∃ e, alookup d w.classes = some e ∧ e2.core = e.core := by
  unfold lookS at h
  rw [hl] at h
  cases hl0 : alookup d w.classes with
  | none => rw [hl0] at h; simp at h
  | some e =>
    rw [hl0] at h
    simp only [Option.map_some, Option.some.injEq, Entry.stable, Prod.mk.injEq] at h
    exact ⟨e, rfl, h.1⟩

/-- replace the left world by one in which every class of `T` has the same stable part -/
theorem sim_left {cfg : Config} {W} {T : ClassId → Bool} {w w2 w' : World} (s : Sim cfg T W w w')
    (g2 : Good cfg W w2) (hfl : w2.flags = w.flags)
    (hcore : ∀ d e2, T d = true → alookup d w2.classes = some e2 → ∃ e, alookup d w.classes = some e ∧ e2.core = e.core)
    (hst : ∀ d, T d = true → lookS w2 d = lookS w' d) : Sim cfg T W w2 w' := by
  refine ⟨hfl.trans s.flags, hst, g2, s.good', ?_, ?_⟩
  · intro d e2 hTd hl hf
    obtain ⟨e, hl0, hc⟩ := hcore d e2 hTd hl
    have := s.wf d e hTd hl0 (by rw [← hc]; exact hf)
    simpa [refsCreatable, hc] using this
  · intro d e2 hTd hl
    obtain ⟨e, hl0, hc⟩ := hcore d e2 hTd hl
    rw [hc]
    exact s.tcl d e hTd hl0

theorem sim_pres_left {cfg : Config} {W} {T : ClassId → Bool} {w w2 w' : World} (s : Sim cfg T W w w')
    (p : Pres cfg W w w2) : Sim cfg T W w2 w' :=
  sim_left s p.1 p.2.2 (fun d _ _ hl => core_of_lookS (p.2.1 d) hl) (fun d hd => (p.2.1 d).trans (s.stab d hd))

theorem good_setFlags {cfg : Config} {W} {w : World} (g : Good cfg W w) (fl : Flags) :
    Good cfg W { w with flags := fl } := ⟨g.reg, g.mapper, g.simpl, g.ser⟩

theorem wrapsOf_define_sub {c : ClassId} {src : ClassSrc} {h : List WorldOp} {W : List (String × TypeId)}
    (hs : ∀ q ∈ wrapsOf (.define c src :: h), q ∈ W) :
    (∀ q ∈ wrapsOfFields src.fields, q ∈ W) ∧ (∀ q ∈ wrapsOf h, q ∈ W) := by
  simp only [wrapsOf, List.mem_append] at hs
  exact ⟨fun q hq => hs q (Or.inl hq), fun q hq => hs q (Or.inr hq)⟩

/-- the stable part after an explicit `create_serializer(c, fl)` that got through iff `ok` -/
theorem created_core {cfg W} {w w2 : World} {c : ClassId} {fl : SerFlags} {ok : Bool}
    (h : Created cfg W w w2 c fl ok) (d : ClassId) (e2 : Entry) (hl : alookup d w2.classes = some e2) :
    ∃ e, alookup d w.classes = some e ∧ e2.core = e.core := by
  by_cases hd : c = d
  · subst hd
    have hs := h.self
    unfold lookS at hs
    rw [hl] at hs
    cases hl0 : alookup c w.classes with
    | none => rw [hl0] at hs; simp at hs
    | some e =>
      rw [hl0] at hs
      simp only [Option.map_some, Option.some.injEq, Entry.stable, Prod.mk.injEq] at hs
      exact ⟨e, rfl, hs.1⟩
  · exact core_of_lookS (h.other d hd) hl

/-- the configuration invariant: a class of `T` that is not in `K` serializes with the default flags -/
def Unconfigured (T : ClassId → Bool) (K : List ClassId) (w : World) : Prop :=
  ∀ d e, T d = true → K.contains d = false → alookup d w.classes = some e → e.effFlags = SerFlags.plain

theorem unconfigured_of_lookS {T : ClassId → Bool} {K : List ClassId} {w w2 : World}
    (h : Unconfigured T K w) (hst : ∀ d, T d = true → K.contains d = false → lookS w2 d = lookS w d) :
    Unconfigured T K w2 := by
  intro d e2 hTd hK hl
  have := hst d hTd hK
  unfold lookS at this
  rw [hl] at this
  cases hl0 : alookup d w.classes with
  | none => rw [hl0] at this; simp at this
  | some e =>
    rw [hl0] at this
    simp only [Option.map_some, Option.some.injEq, Entry.stable, Prod.mk.injEq] at this
    rw [this.2.2]
    exact h d e hTd hK hl0

/-- main simulation: running a quiet history and running the definitions of a dependency-closed set of
    classes (plus the toggles of global defaults and the serializer configurations of these classes) agree on
    every class of the set -/
theorem sim_run {cfg : Config} (hc : cfg.cachesById = true) {W : List (String × TypeId)}
    (hW : cfg.wrapperByName = true → NoClashW W) (T : ClassId → Bool) :
    ∀ (h : List WorldOp) (K : List ClassId) (w w' : World), (∀ q ∈ wrapsOf h, q ∈ W) → closed T h = true →
      quietRun cfg w h = true → Sim cfg T W w w' → Unconfigured T K w →
      Sim cfg T W (runW cfg w h) (runW cfg w' (sliceK T K h))
  | [], _, _, _, _, _, _, s, _ => s
  | op :: h, K, w, w', hsub, hcl, hq, s, hK => by
    simp only [closed, List.all_cons, Bool.and_eq_true] at hcl
    simp only [quietRun, Bool.and_eq_true] at hq
    have hcl' : closed T h = true := hcl.2
    have use_case : ∀ (op : WorldOp), plainUse op = true → quietStep cfg w op = true →
        quietRun cfg (stepW cfg w op).1 h = true → (∀ q ∈ wrapsOf h, q ∈ W) →
        Sim cfg T W (runW cfg (stepW cfg w op).1 h) (runW cfg w' (sliceK T K h)) := by
      intro op hu hq1 hq2 hs2
      have p := pres_step_use hc s.good op hu hq1
      exact sim_run hc hW T h K _ _ hs2 hcl' hq2 (sim_pres_left s p)
        (unconfigured_of_lookS hK (fun d _ _ => p.2.1 d))
    cases op with
    | define c src =>
      obtain ⟨hs1, hs2⟩ := wrapsOf_define_sub hsub
      cases hT : T c with
      | true =>
        have hd : src.deps.all T = true := by
          have := hcl.1
          simp only [closedOp, hT, Bool.not_true, Bool.false_or] at this
          exact this
        have hsl : sliceK T K (.define c src :: h) = .define c src :: sliceK T K h := by
          simp [sliceK, keepOp, hT]
        rw [hsl]
        simp only [runW, stepW]
        refine sim_run hc hW T h K _ _ hs2 hcl' hq.2 (sim_define_both hW s c src hT hd hs1 hq.1) ?_
        intro d e hTd hKd hl
        by_cases hcd : c = d
        · subst hcd
          rw [alookup_define_self] at hl
          cases h1 : defEntry cfg w c src with
          | none => rw [h1] at hl; exact hK c e hTd hKd hl
          | some e1 =>
            rw [h1] at hl
            simp only [Option.some.injEq] at hl
            subst hl
            simp [Entry.effFlags, (defEntry_fresh h1).2]
        · rw [alookup_define_other _ _ _ _ hcd] at hl
          exact hK d e hTd hKd hl
      | false =>
        have hsl : sliceK T K (.define c src :: h) = sliceK T K h := by
          simp [sliceK, keepOp, hT]
        rw [hsl]
        simp only [runW, stepW]
        refine sim_run hc hW T h K _ _ hs2 hcl' hq.2 (sim_define_left hW s c src hT hs1) ?_
        intro d e hTd hKd hl
        have hcd : c ≠ d := by intro hcd; subst hcd; rw [hT] at hTd; cases hTd
        rw [alookup_define_other _ _ _ _ hcd] at hl
        exact hK d e hTd hKd hl
    | setDefault f b =>
      have hsl : sliceK T K (.setDefault f b :: h) = .setDefault f b :: sliceK T K h := by
        simp [sliceK, keepOp]
      rw [hsl]
      simp only [runW, stepW]
      refine sim_run hc hW T h K _ _ (by simpa [wrapsOf] using hsub) hcl' hq.2 ?_ ?_
      · exact ⟨by simp [s.flags], s.stab, good_setFlags s.good _, good_setFlags s.good' _, s.wf, s.tcl⟩
      · exact hK
    | construct c kw =>
      have hsl : sliceK T K (.construct c kw :: h) = sliceK T K h := by simp [sliceK, keepOp]
      rw [hsl]
      simp only [runW]
      exact use_case _ rfl hq.1 hq.2 (by simpa [wrapsOf] using hsub)
    | deserialize c kw =>
      have hsl : sliceK T K (.deserialize c kw :: h) = sliceK T K h := by simp [sliceK, keepOp]
      rw [hsl]
      simp only [runW]
      exact use_case _ rfl hq.1 hq.2 (by simpa [wrapsOf] using hsub)
    | trustedDeserialize c kw =>
      have hsl : sliceK T K (.trustedDeserialize c kw :: h) = sliceK T K h := by simp [sliceK, keepOp]
      rw [hsl]
      simp only [runW]
      exact use_case _ rfl hq.1 hq.2 (by simpa [wrapsOf] using hsub)
    | serialize c kw camel =>
      have hsl : sliceK T K (.serialize c kw camel :: h) = sliceK T K h := by simp [sliceK, keepOp]
      rw [hsl]
      simp only [runW]
      exact use_case _ rfl hq.1 hq.2 (by simpa [wrapsOf] using hsub)
    | toSchema c =>
      have hsl : sliceK T K (.toSchema c :: h) = sliceK T K h := by simp [sliceK, keepOp]
      rw [hsl]
      simp only [runW]
      exact use_case _ rfl hq.1 hq.2 (by simpa [wrapsOf] using hsub)
    | createSerializer c fl =>
      have hs2 : ∀ q ∈ wrapsOf h, q ∈ W := by simpa [wrapsOf] using hsub
      have cl := created_step hc s.good c fl
      by_cases hkeep : (T c && (fl != SerFlags.plain || K.contains c)) = true
      · -- kept: both sides configure `c`
        have hsl : sliceK T K (.createSerializer c fl :: h) = .createSerializer c fl :: sliceK T (c :: K) h := by
          simp only [sliceK, hkeep, if_true]
        rw [hsl]
        simp only [runW]
        have hTc : T c = true := by
          simp only [Bool.and_eq_true] at hkeep; exact hkeep.1
        have cr := created_step hc s.good' c fl
        -- both sides get through or not together
        have hok : ((alookup c w.classes).isSome && (createW cfg (w.classes.length + 1) w c fl).2)
            = ((alookup c w'.classes).isSome && (createW cfg (w'.classes.length + 1) w' c fl).2) := by
          rcases lookS_cases (s.stab c hTc) with ⟨h1, h2⟩ | ⟨e, e', h1, h2, h3⟩
          · simp [h1, h2]
          · have hq1 := hq.1
            unfold quietStep at hq1
            simp only [h1] at hq1
            have hcore := (stable_eq h3).1
            have hq1' : refsCreatable cfg e' = true := by simpa [refsCreatable, hcore] using hq1
            rw [h1, h2, createW_snd _ fl h1 hq1, createW_snd _ fl h2 hq1']
            simp [fastAble, hcore]
        refine sim_run hc hW T h (c :: K) _ _ hs2 hcl' hq.2 ?_ ?_
        · refine ⟨cl.flags.trans (s.flags.trans cr.flags.symm), ?_, cl.good, cr.good, ?_, ?_⟩
          · intro d hTd
            by_cases hcd : c = d
            · subst hcd
              rw [cl.self, cr.self, s.stab c hTd, hok]
            · rw [cl.other d hcd, cr.other d hcd]
              exact s.stab d hTd
          · intro d e2 hTd hl hf
            obtain ⟨e, hl0, hcr⟩ := created_core cl d e2 hl
            have := s.wf d e hTd hl0 (by rw [← hcr]; exact hf)
            simpa [refsCreatable, hcr] using this
          · intro d e2 hTd hl
            obtain ⟨e, hl0, hcr⟩ := created_core cl d e2 hl
            rw [hcr]
            exact s.tcl d e hTd hl0
        · refine unconfigured_of_lookS (K := c :: K) (w := w) ?_ ?_
          · intro d e hTd hKd hl
            have : K.contains d = false := by
              simp only [List.contains_cons, Bool.or_eq_false_iff] at hKd
              exact hKd.2
            exact hK d e hTd this hl
          · intro d hTd hKd
            have hcd : c ≠ d := by
              intro hcd
              subst hcd
              simp [List.contains_cons] at hKd
            exact cl.other d hcd
      · -- dropped: only the full history runs it
        have hsl : sliceK T K (.createSerializer c fl :: h) = sliceK T K h := by
          simp only [sliceK, hkeep, Bool.false_eq_true, if_false]
        rw [hsl]
        simp only [runW]
        have hsame : ∀ d, T d = true → lookS (stepW cfg w (.createSerializer c fl)).1 d = lookS w d := by
          intro d hTd
          by_cases hcd : c = d
          · subst hcd
            rw [cl.self]
            simp only [hTd, Bool.true_and, Bool.or_eq_true, bne_iff_ne, ne_eq, not_or, Decidable.not_not,
              Bool.not_eq_true] at hkeep
            unfold lookS
            cases hl : alookup c w.classes with
            | none => rfl
            | some e =>
              have := hK c e hTd hkeep.2 hl
              simp only [Option.map_some, Entry.stable, Option.some.injEq, Prod.mk.injEq, true_and]
              split
              · rw [this, hkeep.1]
              · rfl
          · exact cl.other d hcd
        refine sim_run hc hW T h K _ _ hs2 hcl' hq.2 ?_ ?_
        · exact sim_left s cl.good cl.flags (fun d e2 _ hl => created_core cl d e2 hl)
            (fun d hTd => (hsame d hTd).trans (s.stab d hTd))
        · exact unconfigured_of_lookS hK (fun d hTd _ => hsame d hTd)

end Typedpy.World
